(* Frozen networks (C18).  freeze() replaces a list of methods of the instance by a function that
   always raises XGIError; every other method keeps its body, in which calls to self.<m> reach
   the replaced methods.  `fstep L` is the step function of Model/Hypergraph.v with that dispatch
   made explicit: L is the list of replaced method names (regenerated from the freeze() body into
   Gen/FreezeLists.v on every run).  With L = [] it is the ordinary step function. *)
From Coq Require Import String ZArith List Bool Lia.
From XV Require Import Base.Label Base.LSet Base.ODict Base.Attr Base.Outcome Model.Hypergraph
  Model.DiHypergraph Model.SimplicialComplex.
Import ListNotations.
Open Scope Z_scope.

Definition inL (L : list string) (m : string) : bool := existsb (String.eqb m) L.

(* call self.<m>(...) *)
Definition guard (L : list string) (m : string) (s : hg) (body : res) : res :=
  if inL L m then raise s XGIError else body.

(* merge_duplicate_edges: the renaming loop reads the tables (and may draw ids), then
   self.remove_edges_from(dups) and self.add_edges_from(new_edges) are called unconditionally *)
Definition fmerge (L : list string) (rn : rename_scheme) (mr : merge_rule) (mult : option string) (s : hg) : res :=
  match merge_collect rn mr mult (groups s) s [] [] with
  | inr (s', e) => raise s' e
  | inl (s1, dups, new_edges) =>
      bind (guard L "remove_edges_from" s1 (remove_edges_from dups s1))
           (fun s2 => bind (guard L "add_edges_from" s2
                                  (match new_edges with [] => ok s2 | _ => add_edges_from (EB4 new_edges) [] s2 end))
                           (fun s3 => match mr with MrUnion => warn1 s3 | _ => ok s3 end))
  end.

(* largest_connected_hypergraph(H, in_place=True): max(...) then H.remove_nodes_from(...) *)
Definition flcc (L : list string) (s : hg) : res :=
  match first_longest (components s) with
  | None => raise s ValueError
  | Some c => guard L "remove_nodes_from" s (remove_nodes_from (sdiff (keys (h_node s)) c) false true s)
  end.

Definition fstep (L : list string) (s : hg) (o : op) : res :=
  match o with
  | OAddNode n a => guard L "add_node" s (add_node n a s)
  | OAddNodesFrom items a => guard L "add_nodes_from" s (add_nodes_from items a s)
  | ORemoveNode n st re => guard L "remove_node" s (remove_node n st re s)
  | ORemoveNodesFrom ns st re => guard L "remove_nodes_from" s (remove_nodes_from ns st re s)
  | OSetNodeAttrsNamed vals name => set_node_attrs_named vals name s
  | OSetNodeAttrsScalar v name => set_node_attrs_scalar v name s
  | OSetNodeAttrsDict vals => set_node_attrs_dict vals s
  | OAddEdge ms idx a => guard L "add_edge" s (add_edge ms idx a s)
  | OAddEdgesFrom eb a => guard L "add_edges_from" s (add_edges_from eb a s)
  | OAddWeightedEdgesFrom l w a => guard L "add_weighted_edges_from" s (add_weighted_edges_from l w a s)
  | OSetEdgeAttrsNamed vals name => set_edge_attrs_named vals name s
  | OSetEdgeAttrsScalar v name => set_edge_attrs_scalar v name s
  | OSetEdgeAttrsDict vals => set_edge_attrs_dict vals s
  | ODoubleEdgeSwap n1 n2 e1 e2 => guard L "double_edge_swap" s (double_edge_swap n1 n2 e1 e2 s)
  | ORandomEdgeShuffle e1 e2 sample => guard L "random_edge_shuffle" s (random_edge_shuffle e1 e2 sample s)
  | OAddNodeToEdge e n => guard L "add_node_to_edge" s (add_node_to_edge e n s)
  | ORemoveEdge e => guard L "remove_edge" s (remove_edge1 e s)
  | ORemoveEdgesFrom es => guard L "remove_edges_from" s (remove_edges_from es s)
  | ORemoveNodeFromEdge e n re => guard L "remove_node_from_edge" s (remove_node_from_edge e n re s)
  | OUpdate edges nodes =>
      (* if nodes: self.add_nodes_from(nodes);  if edges: self.add_edges_from(edges) *)
      bind (match nodes with [] => ok s | _ => guard L "add_nodes_from" s (add_nodes_from nodes [] s) end)
           (fun s => match edges with
                     | None => ok s
                     | Some eb =>
                         if (match eb with EB1 [] | EB2 [] | EB3 [] | EB4 [] | EB5 [] => true | _ => false end)
                         then add_edges_from eb [] s          (* an empty bunch is falsy: no call *)
                         else guard L "add_edges_from" s (add_edges_from eb [] s)
                     end)
  | OClear rn => guard L "clear" s (clear rn s)
  | OClearEdges => guard L "clear_edges" s (clear_edges s)
  | OMergeDuplicateEdges rn mr mult => fmerge L rn mr mult s
  | OCleanup iso sing multi conn relabel =>
      bind (if multi then ok s else fmerge L RnFirst MrFirst None s)
      (fun s1 => bind (if sing then ok s1 else guard L "remove_edges_from" s1 (remove_edges_from (singletons s1) s1))
      (fun s2 => bind (if iso then ok s2 else guard L "remove_nodes_from" s2 (remove_nodes_from (isolates s2) false true s2))
      (fun s3 => bind (if conn && negb (match h_node s3 with [] => true | _ => false end) then flcc L s3 else ok s3)
      (fun s4 => if relabel then guard L "clear" s4 (relabel_inplace "label" s4) else ok s4))))
  | ORelabel la => guard L "clear" s (relabel_inplace la s)
  | OLargestCC => flcc L s
  | OSetNetAttr k v => ok (with_net s (aset k v (h_net s)))
  end.

(* the methods whose bodies write the node / edge tables directly *)
Definition required_hg : list string :=
  ["add_node"; "add_nodes_from"; "remove_node"; "remove_nodes_from"; "add_edge"; "add_edges_from";
   "add_weighted_edges_from"; "remove_edge"; "remove_edges_from"; "add_node_to_edge";
   "remove_node_from_edge"; "clear"; "clear_edges"; "double_edge_swap"; "random_edge_shuffle"]%string.

Definition protects (required L : list string) : bool := forallb (inL L) required.

(* ---------- DiHypergraph ---------- *)

Definition dguard (L : list string) (m : string) (d : dhg) (body : dres) : dres :=
  if inL L m then draise d XGIError else body.

Definition dfstep (L : list string) (d : dhg) (o : dop) : dres :=
  match o with
  | DAddNode n a => dguard L "add_node" d (d_add_node n a d)
  | DAddNodesFrom items a => dguard L "add_nodes_from" d (d_add_nodes_from items a d)
  | DRemoveNode n st re => dguard L "remove_node" d (d_remove_node n st re d)
  | DRemoveNodesFrom ns st re => dguard L "remove_nodes_from" d (d_remove_nodes_from ns st re d)
  | DAddEdge tl hd idx a => dguard L "add_edge" d (d_add_edge tl hd idx a d)
  | DAddEdgesFrom eb a => dguard L "add_edges_from" d (d_add_edges_from eb a d)
  | DAddNodeToEdge e n dir => dguard L "add_node_to_edge" d (d_add_node_to_edge e n dir d)
  | DRemoveEdge e => dguard L "remove_edge" d (d_remove_edge e d)
  | DRemoveEdgesFrom es => dguard L "remove_edges_from" d (d_remove_edges_from es d)
  | DRemoveNodeFromEdge e n dir re => dguard L "remove_node_from_edge" d (d_remove_node_from_edge e n dir re d)
  | DClear rn => dguard L "clear" d (d_clear rn d)
  | DCleanup iso rl =>
      dbind (if iso then dok d else dguard L "remove_nodes_from" d (d_remove_nodes_from (d_isolates d) false true d))
            (fun d1 => if rl then dguard L "clear" d1 (d_relabel "label" d1) else dok d1)
  | DRelabel la => dguard L "clear" d (d_relabel la d)
  | _ => dstep d o
  end.

Definition required_di : list string :=
  ["add_node"; "add_nodes_from"; "remove_node"; "remove_nodes_from"; "add_edge"; "add_edges_from";
   "remove_edge"; "remove_edges_from"; "add_node_to_edge"; "remove_node_from_edge"; "clear"]%string.

(* ---------- SimplicialComplex (its own mutators; clear_edges and random_edge_shuffle are
   inherited from Hypergraph and write the tables, so they must be replaced too) ---------- *)

Definition sfstep (L : list string) (s : hg) (o : sop) : res :=
  match o with
  | SAddSimplex ms idx a hint => guard L "add_simplex" s (add_simplex ms idx a hint s)
  | SAddSimplicesFrom eb mo a hint => guard L "add_simplices_from" s (add_simplices_from eb mo a hint s)
  | SAddWeightedSimplicesFrom l mo w a hint =>
      guard L "add_weighted_simplices_from" s (add_weighted_simplices_from l mo w a hint s)
  | SRemoveSimplexId idx => guard L "remove_simplex_id" s (remove_simplex_id idx s)
  | SRemoveSimplexIdsFrom ids => guard L "remove_simplex_ids_from" s (remove_simplex_ids_from ids s)
  | SRemoveNode n => guard L "remove_node" s (sc_remove_node n s)
  | SRemoveNodesFrom ns => guard L "remove_nodes_from" s (sc_remove_nodes_from ns s)
  | SClose hint =>
      (* close() calls self.add_simplices_from(new_faces) for every (non-empty) simplex *)
      match h_edge s with
      | [] => close hint s
      | _ => guard L "add_simplices_from" s (close hint s)
      end
  | SCleanup iso conn rl =>
      bind (if iso then ok s else guard L "remove_nodes_from" s (sc_remove_nodes_from (isolates s) s))
      (fun s1 => bind (if conn && negb (match h_node s1 with [] => true | _ => false end) then
                         match first_longest (components s1) with
                         | None => raise s1 ValueError
                         | Some c => guard L "remove_nodes_from" s1 (sc_remove_nodes_from (sdiff (keys (h_node s1)) c) s1)
                         end
                       else ok s1)
      (fun s2 => if rl then guard L "clear" s2 (sc_relabel_inplace "label" s2) else ok s2))
  | SRelabel la => guard L "clear" s (sc_relabel_inplace la s)
  | SAddEdge ms a hint => warn_more (guard L "add_simplex" s (add_simplex ms None a hint s))
  | SAddEdgesFrom eb a hint => warn_more (guard L "add_simplices_from" s (add_simplices_from eb None a hint s))
  | SAddWeightedEdgesFrom l mo w a hint =>
      warn_more (guard L "add_weighted_simplices_from" s (add_weighted_simplices_from l mo w a hint s))
  | SRemoveEdge idx => warn_more (guard L "remove_simplex_id" s (remove_simplex_id idx s))
  | SRemoveEdgesFrom ids => warn_more (guard L "remove_simplex_ids_from" s (remove_simplex_ids_from ids s))
  | SAddNode n a => guard L "add_node" s (add_node n a s)
  | SAddNodesFrom items a => guard L "add_nodes_from" s (add_nodes_from items a s)
  | SSetNodeAttrsDict vals => set_node_attrs_dict vals s
  | SSetEdgeAttrsDict vals => set_edge_attrs_dict vals s
  | SClear rn => guard L "clear" s (clear rn s)
  end.

Definition required_sc : list string :=
  ["add_node"; "add_nodes_from"; "remove_node"; "remove_nodes_from"; "add_simplex"; "add_simplices_from";
   "add_weighted_simplices_from"; "remove_simplex_id"; "remove_simplex_ids_from"; "clear";
   "clear_edges"; "random_edge_shuffle"]%string.
