(* C06: definitions, handshake identity, exactness of the filters and set-theoretic queries. *)
From Coq Require Import String ZArith List Bool Lia.
From XV Require Import Base.Label Base.LSet Base.ODict Base.Attr Base.Outcome Model.Hypergraph Model.Stats
  Proofs.HgViews Proofs.HgInv Proofs.HgInvOps.
Import ListNotations.
Open Scope Z_scope.

(* ---------- degree = number of memberships, size = number of members ---------- *)
Lemma degree_is_memberships s n : degree None None s n = Z.of_nat (length (mships s n)).
Proof. reflexivity. Qed.
Lemma size_is_members s e : edge_size None s e = Z.of_nat (length (mems s e)).
Proof. reflexivity. Qed.
Lemma order_is_size_minus_one d s e : edge_order d s e = edge_size d s e - 1.
Proof. reflexivity. Qed.

(* ---------- handshake: the degrees sum to the sizes ---------- *)
Definition count {A} (p : A -> bool) (l : list A) : nat := length (filter p l).

Lemma list_sum_add {A} (f g : A -> nat) l :
  list_sum (map (fun x => (f x + g x)%nat) l) = (list_sum (map f l) + list_sum (map g l))%nat.
Proof. induction l as [|x l IH]; simpl; [reflexivity|]. rewrite IH. lia. Qed.

Lemma count_as_sum {A} (p : A -> bool) l : count p l = list_sum (map (fun x => if p x then 1%nat else 0%nat) l).
Proof. unfold count. induction l as [|x l IH]; simpl; [reflexivity|]. destruct (p x); simpl; rewrite IH; reflexivity. Qed.

Lemma swap_counts {A B} (b : A -> B -> bool) (ns : list A) (es : list B) :
  list_sum (map (fun n => count (b n) es) ns) = list_sum (map (fun e => count (fun n => b n e) ns) es).
Proof.
  induction ns as [|n ns IH]; simpl.
  - induction es as [|e es IHe]; simpl; [reflexivity|]. rewrite <- IHe. reflexivity.
  - rewrite IH. rewrite count_as_sum. rewrite <- list_sum_add. f_equal. apply map_ext. intro e.
    unfold count. simpl. destruct (b n e); simpl; lia.
Qed.

Lemma NoDup_same_length (l1 l2 : list lbl) : NoDup l1 -> NoDup l2 -> (forall x, In x l1 <-> In x l2) -> length l1 = length l2.
Proof.
  intros N1 N2 H. apply Nat.le_antisymm; apply NoDup_incl_length; try assumption; intros x Hx; apply H; exact Hx.
Qed.

Lemma mships_count s n : Inv s -> length (mships s n) = count (fun e => mem n (mems s e)) (ekeys s).
Proof.
  intros I. destruct (Inv_reports_core s I) as (W & M & S & _ & _ & _ & D2 & _).
  destruct I as (_ & _ & (V1 & _) & _).
  unfold count. apply NoDup_same_length; [apply V1|apply NoDup_filter; exact D2|].
  intro e. rewrite filter_In, mem_In. split.
  - intro H. split; [apply (S n e H)|apply W; exact H].
  - intros [_ H]. apply W. exact H.
Qed.

Lemma mems_count s e : Inv s -> length (mems s e) = count (fun n => mem n (mems s e)) (nkeys s).
Proof.
  intros I. destruct (Inv_reports_core s I) as (W & M & S & _ & _ & D1 & _).
  destruct I as (_ & _ & (_ & V2) & _).
  unfold count. apply NoDup_same_length; [apply V2|apply NoDup_filter; exact D1|].
  intro n. rewrite filter_In, mem_In. split.
  - intro H. split; [apply (M e n H)|exact H].
  - intros [_ H]. exact H.
Qed.

Theorem handshake s : Inv s ->
  list_sum (map (fun n => length (mships s n)) (nkeys s)) = list_sum (map (fun e => length (mems s e)) (ekeys s)).
Proof.
  intro I.
  rewrite (map_ext (fun n => length (mships s n)) (fun n => count (fun e => mem n (mems s e)) (ekeys s)))
    by (intro n; apply mships_count; exact I).
  rewrite (map_ext (fun e => length (mems s e)) (fun e => count (fun n => mem n (mems s e)) (nkeys s)))
    by (intro e; apply mems_count; exact I).
  apply (swap_counts (fun n e => mem n (mems s e)) (nkeys s) (ekeys s)).
Qed.

(* the same per order: degrees restricted to edges of size d+1 sum to (d+1) times their number *)
Theorem handshake_order s d : Inv s ->
  list_sum (map (fun n => count (fun e => mem n (mems s e) && Nat.eqb (length (mems s e)) d) (ekeys s)) (nkeys s)) =
  list_sum (map (fun e => if Nat.eqb (length (mems s e)) d then length (mems s e) else 0%nat) (ekeys s)).
Proof.
  intro I. rewrite (swap_counts (fun n e => mem n (mems s e) && Nat.eqb (length (mems s e)) d) (nkeys s) (ekeys s)).
  apply f_equal. apply map_ext. intro e. destruct (Nat.eqb (length (mems s e)) d) eqn:E.
  - rewrite (mems_count s e I). unfold count. f_equal. apply filter_ext. intro n. rewrite andb_true_r. reflexivity.
  - unfold count. induction (nkeys s) as [|n l IH]; simpl; [reflexivity|]. rewrite andb_false_r. exact IH.
Qed.

(* ---------- filterby returns exactly the ids satisfying the comparison, in view order ---------- *)
Theorem filterby_exact view stat m v x :
  In x (filterby view stat m v) <-> In x view /\ fcmp m (stat x) v = true.
Proof. unfold filterby. apply filter_In. Qed.

Theorem filterby_order view stat m v : exists keep, filterby view stat m v = filter keep view.
Proof. exists (fun i => fcmp m (stat i) v). reflexivity. Qed.

Theorem fcmp_meaning m x v :
  fcmp m x v = true <->
  match m with
  | FEq => x = v | FNeq => x <> v | FLt => x < v | FGt => x > v | FLeq => x <= v | FGeq => x >= v
  | FBetween hi => v <= x <= hi
  end.
Proof. destruct m; simpl; try rewrite andb_true_iff; lia. Qed.

(* ---------- isolates / singletons / empty ---------- *)
Theorem isolates_spec s n : In n (isolates false s) <-> In n (nkeys s) /\ mships s n = [].
Proof.
  unfold isolates. rewrite filter_In. unfold is_nil, mships. split; intros [A B]; (split; [exact A|]).
  - destruct (getl n (h_node s)); [reflexivity|discriminate].
  - rewrite B. reflexivity.
Qed.
Theorem singletons_spec s e : In e (singletons s) <-> In e (ekeys s) /\ length (mems s e) = 1%nat.
Proof. unfold singletons. rewrite filterby_exact. simpl. unfold edge_size, zlen, mems. rewrite Z.eqb_eq. split; intros [A B]; (split; [exact A|lia]). Qed.
Theorem empty_spec s e : In e (empty_edges s) <-> In e (ekeys s) /\ mems s e = [].
Proof.
  unfold empty_edges. rewrite filterby_exact. simpl. unfold edge_size, zlen, mems. rewrite Z.eqb_eq. split; intros [A B]; (split; [exact A|]).
  - destruct (getl e (h_edge s)); [reflexivity|simpl in B; lia].
  - rewrite B. reflexivity.
Qed.

(* ---------- neighbors(n) for s = 1: the nodes sharing an edge with n ---------- *)
Lemma fold_sunion_In (f : lbl -> list lbl) l : forall acc x,
  In x (fold_left (fun acc n => sunion acc (f n)) l acc) <-> In x acc \/ exists n, In n l /\ In x (f n).
Proof.
  induction l as [|a l IH]; intros acc x; simpl.
  - split; [auto|intros [H|(n & [] & _)]; exact H].
  - rewrite IH, In_sunion. split.
    + intros [[H|H]|(n & Hn & Hx)]; [left; exact H|right; exists a; auto|right; exists n; auto].
    + intros [H|(n & [->|Hn] & Hx)]; [left; left; exact H|left; right; exact Hx|right; exists n; auto].
Qed.

Theorem node_neighbors_spec s n x :
  In x (Stats.neighbors SNode 1 s n) <-> x <> n /\ exists e, In e (mships s n) /\ In x (mems s e).
Proof.
  unfold Stats.neighbors. simpl. rewrite In_sremove, fold_sunion_In. simpl. unfold mships, mems. split.
  - intros [N [[]|H]]. split; [exact N|exact H].
  - intros [N H]. split; [exact N|right; exact H].
Qed.

(* ---------- lookup ---------- *)
Theorem lookup_spec s sought e : NoDup (keys (h_edge s)) ->
  (In e (lookup SEdge sought s) <-> exists m, get e (h_edge s) = Some m /\ seteq m sought /\ length m = length (mkset sought)).
Proof.
  intro ND. unfold lookup. simpl. rewrite in_map_iff. split.
  - intros ([e' m] & <- & H). apply filter_In in H. destruct H as [Hi Hb]. simpl in *.
    apply andb_true_iff in Hb. destruct Hb as [B1 B2]. exists m. split; [apply In_get; assumption|].
    split; [apply seteqb_spec; exact B1|apply Nat.eqb_eq; exact B2].
  - intros (m & G & S & L). exists (e, m). split; [reflexivity|]. apply filter_In. split; [apply get_In; exact G|]. simpl.
    apply andb_true_iff. split; [apply seteqb_spec; exact S|apply Nat.eqb_eq; exact L].
Qed.

(* ---------- maximal ---------- *)
Lemma fold_sinter_In (g : lbl -> list lbl) ms : forall acc f,
  In f (fold_left (fun acc n => sinter acc (g n)) ms acc) <-> In f acc /\ forall n, In n ms -> In f (g n).
Proof.
  induction ms as [|a ms IH]; intros acc f; simpl.
  - split; [intro H; split; [exact H|intros n []]|intros [H _]; exact H].
  - rewrite IH, In_sinter. split.
    + intros [[A B] C]. split; [exact A|]. intros n [->|Hn]; [exact B|apply C; exact Hn].
    + intros [A B]. split; [split; [exact A|apply B; left; reflexivity]|]. intros n Hn. apply B. right; exact Hn.
Qed.

(* the intersection of the memberships of the members of an edge = the edges that contain it *)
Lemma inter_memberships_spec s ms f : Inv s ->
  (In f (inter_memberships s ms) <-> In f (ekeys s) /\ forall n, In n ms -> In n (mems s f)).
Proof.
  intros (W & _). unfold inter_memberships. rewrite fold_sinter_In. unfold ekeys.
  split; intros [A B]; (split; [exact A|]); intros n Hn; specialize (B n Hn).
  - apply W. exact B.
  - apply W in B. exact B.
Qed.

Definition Contains (s : hg) (e f : lbl) : Prop := forall n, In n (mems s e) -> In n (mems s f).
Definition SameMembers (s : hg) (e f : lbl) : Prop := forall n, In n (mems s e) <-> In n (mems s f).

Lemma seteq_len_same s e f : Inv s -> seteq (mems s f) (mems s e) -> length (mems s f) = length (mems s e).
Proof.
  intros (_ & _ & (_ & V2) & _) H. apply NoDup_same_length; [apply V2|apply V2|exact H].
Qed.

(* maximal(): an edge is listed iff every edge containing it has exactly the same members,
   i.e. iff no edge is a strict superset of it (multi-edges of a maximal edge are all listed) *)
Theorem maximal_spec s e : Inv s ->
  (In e (maximal false s) <-> In e (ekeys s) /\ forall f, In f (ekeys s) -> Contains s e f -> SameMembers s e f).
Proof.
  intro I. pose proof I as (_ & (_ & _ & _ & K4) & _).
  unfold maximal. rewrite filter_In. fold (ekeys s). fold (mems s e).
  set (i := inter_memberships s (mems s e)).
  set (d := map fst (filter (fun kv => seteqb (snd kv) (mems s e) && Nat.eqb (length (snd kv)) (length (mems s e))) (h_edge s))).
  assert (Hd : forall f, In f d <-> In f (ekeys s) /\ seteq (mems s f) (mems s e)).
  { intro f. unfold d. rewrite in_map_iff. split.
    - intros ([f' m] & <- & H). apply filter_In in H. destruct H as [Hi Hb]. simpl in *.
      apply andb_true_iff in Hb. destruct Hb as [B1 _]. apply seteqb_spec in B1.
      assert (G : get f' (h_edge s) = Some m) by (apply In_get; assumption).
      split; [eapply get_Some_In; exact G|]. unfold mems, getl. rewrite G. exact B1.
    - intros [Hk Hs]. unfold ekeys in Hk. apply has_In in Hk. unfold has in Hk.
      destruct (get f (h_edge s)) as [m|] eqn:G; [|discriminate].
      exists (f, m). split; [reflexivity|]. apply filter_In. split; [apply get_In; exact G|]. simpl.
      assert (Em : mems s f = m) by (unfold mems, getl; rewrite G; reflexivity).
      apply andb_true_iff. split; [apply seteqb_spec; rewrite <- Em; exact Hs|].
      apply Nat.eqb_eq. rewrite <- Em. apply seteq_len_same; assumption. }
  assert (Hi : forall f, In f i <-> In f (ekeys s) /\ Contains s e f).
  { intro f. unfold i. apply inter_memberships_spec. exact I. }
  split.
  - intros [He Hb]. split; [exact He|]. apply andb_true_iff in Hb. destruct Hb as [B1 _]. apply seteqb_spec in B1.
    intros f Hf Hc. assert (Hfd : In f d) by (apply B1; apply Hi; split; assumption).
    apply Hd in Hfd. destruct Hfd as [_ Hs]. intro n. symmetry. apply Hs.
  - intros [He Hmax]. split; [exact He|].
    assert (Hseq : seteq i d).
    { intro f. rewrite Hi, Hd. split.
      - intros [Hf Hc]. split; [exact Hf|]. intro n. symmetry. apply (Hmax f Hf Hc).
      - intros [Hf Hs]. split; [exact Hf|]. intros n Hn. apply Hs. exact Hn. }
    apply andb_true_iff. split; [apply seteqb_spec; exact Hseq|].
    apply Nat.eqb_eq. apply NoDup_same_length; [| |exact Hseq].
    + unfold i, inter_memberships.
      assert (F : forall ms acc, NoDup acc -> NoDup (fold_left (fun acc n => sinter acc (getl n (h_node s))) ms acc)).
      { induction ms as [|a ms IH]; intros acc Hacc; simpl; [exact Hacc|]. apply IH. unfold sinter. apply NoDup_filter. exact Hacc. }
      apply F. exact K4.
    + unfold d. assert (F : forall (l : odict (list lbl)) p, NoDup (keys l) -> NoDup (map fst (filter p l))).
      { induction l as [|[k v] l IH]; intros p Hnd; simpl; [constructor|]. inversion Hnd as [|? ? Hni Hnd']; subst.
        destruct (p (k, v)); simpl; [constructor; [|apply IH; exact Hnd']|apply IH; exact Hnd'].
        intro Hin. apply Hni. apply in_map_iff in Hin. destruct Hin as ([k' v'] & <- & Hf). apply filter_In in Hf.
        simpl. change (In (fst (k', v')) (map fst l)). apply in_map. tauto. }
      apply F. exact K4.
Qed.
