"""Serialise Python values as Gallina terms of the model's types (Base/Label.v, Base/Attr.v)."""

class Unsupported(Exception):
    pass

def gstr(s):
    if not isinstance(s, str) or any(ord(c) < 32 or ord(c) > 126 for c in s):
        raise Unsupported(f"string {s!r}")
    return '"' + s.replace('"', '""') + '"%string'

def gZ(z):
    z = int(z)
    return f"({z})%Z" if z < 0 else f"{z}%Z"

def gnat(n):
    return f"{int(n)}%nat"

def gbool(b):
    return "true" if b else "false"

def glist(items):
    return "[" + "; ".join(items) + "]"

def gopt(x, f):
    return "None" if x is None else f"(Some {f(x)})"

def gpair(*xs):
    return "(" + ", ".join(xs) + ")"

def lbl(x):
    if x is None:
        return "LNone"
    if isinstance(x, bool):
        raise Unsupported("bool label")
    if isinstance(x, int):
        return f"(LInt {gZ(x)})"
    if isinstance(x, str):
        return f"(LStr {gstr(x)})"
    if isinstance(x, tuple):
        return f"(LTup {glist([lbl(y) for y in x])})"
    try:
        import numpy as np
        if isinstance(x, np.integer):
            return f"(LInt {gZ(int(x))})"
    except ImportError:
        pass
    raise Unsupported(f"label {x!r} of type {type(x).__name__}")

def lbls(xs):
    return glist([lbl(x) for x in xs])

def lblset(xs):
    """a Python set of labels: order is irrelevant on the Coq side, sort for reproducible files"""
    return glist(sorted(lbl(x) for x in xs))

def aval(v):
    if v is None:
        return "ANone"
    if isinstance(v, bool):
        return f"(ABool {gbool(v)})"
    if isinstance(v, int):
        return f"(AInt {gZ(v)})"
    if isinstance(v, str):
        return f"(AStr {gstr(v)})"
    if isinstance(v, list):
        return f"(AList {glist([aval(x) for x in v])})"
    if isinstance(v, tuple):
        return f"(ATup {glist([aval(x) for x in v])})"
    if isinstance(v, (set, frozenset)):
        return f"(ASet {glist(sorted(aval(x) for x in v))})"
    if isinstance(v, dict):
        return f"(ADict {attrs(v)})"
    try:
        import numpy as np
        if isinstance(v, np.integer):
            return f"(AInt {gZ(int(v))})"
    except ImportError:
        pass
    raise Unsupported(f"attribute value {v!r} of type {type(v).__name__}")

def attrs(d):
    return glist([gpair(gstr(k), aval(v)) for k, v in d.items()])

OUTCOMES = ["XGIError", "IDNotFound", "TypeError", "ValueError", "KeyError", "IndexError", "AttributeError"]

def outcome(exc_name):
    if exc_name is None:
        return "Ok"
    return f"(Raised {exc_name if exc_name in OUTCOMES else 'OtherError'})"

def classify_exception(e):
    from xgi.exception import XGIError, IDNotFound
    if isinstance(e, IDNotFound):
        return "IDNotFound"
    if isinstance(e, XGIError):
        return "XGIError"
    for cls, name in ((TypeError, "TypeError"), (ValueError, "ValueError"), (KeyError, "KeyError"),
                      (IndexError, "IndexError"), (AttributeError, "AttributeError")):
        if isinstance(e, cls):
            return name
    return "OtherError:" + type(e).__name__
