"""Histories of mutating calls on xgi.DiHypergraph (generation, execution, observation, Gallina)."""
import copy, random, warnings
from . import gallina as G
from . import common as C
from .hgsim import rattr, ATTR_KEYS, ATTR_VALS, dedup_named, peek_uid
from . import hgsim as _H

ITER_OK = True     # member collections may be presented as tuples / one-shot iterators (common.members)
INTLIKE_OK = True  # explicit integer ids may be presented as numpy integers / whole floats (hgsim.PRESENT)
STYLES = ["int", "int", "str", "mixed"]


def make_pool(rng, style):
    if style == "int":
        return list(range(0, 6)), [0, 1, 2, 3, 5, 8, -1]
    if style == "str":
        return ["a", "b", "c", "d", "e"], ["e0", "e1", "x", "y"]
    return [1, 2, 3, "a", "b"], [0, 2, "e", "f", 7]


def rdi(rng, nodes, malformed):
    t = [rng.choice(nodes) for _ in range(rng.randint(0, 3))]
    h = [rng.choice(nodes) for _ in range(rng.randint(0, 2))]
    if malformed and rng.random() < 0.3:
        (t if rng.random() < 0.5 else h).append(None)
    return t, h


def gen_op(rng, H, nodes, eids, malformed):
    cur_nodes = list(H.nodes)
    cur_edges = list(H.edges)
    def some_node(p_missing=0.15):
        if cur_nodes and rng.random() > p_missing:
            return rng.choice(cur_nodes)
        return rng.choice(nodes + ([None] if malformed else []))
    def some_edge(p_missing=0.15):
        if cur_edges and rng.random() > p_missing:
            return rng.choice(cur_edges)
        return rng.choice(eids + [99])
    kinds = [(10, "add_edge"), (9, "add_edges_from"), (3, "add_node"), (3, "add_nodes_from"),
             (6, "remove_node"), (4, "remove_nodes_from"), (4, "remove_edge"), (3, "remove_edges_from"),
             (5, "add_node_to_edge"), (5, "remove_node_from_edge"), (2, "set_node_attrs"),
             (2, "set_edge_attrs"), (1, "clear"), (2, "cleanup"), (1, "relabel"), (1, "set_net")]
    x = rng.random() * sum(w for w, _ in kinds)
    for w, kind in kinds:
        x -= w
        if x <= 0:
            break
    if len(cur_edges) < 3 and rng.random() < 0.5:
        kind = rng.choice(["add_edge", "add_edges_from"])
    if kind == "add_edge":
        t, h = rdi(rng, nodes, malformed)
        idx = None
        if rng.random() < 0.45:
            idx = some_edge(0.7)
        return ("add_edge", t, h, idx, rattr(rng))
    if kind == "add_edges_from":
        fmt = rng.choice([1, 1, 2, 3, 4, 5])
        items = []
        for i in range(rng.randint(0, 3)):
            t, h = rdi(rng, nodes, malformed and rng.random() < 0.5)
            eid = some_edge(0.8)
            if i == 0 and isinstance(eid, (tuple, str)) and fmt in (2,):
                # a str second element selects format 2 correctly; tuples are the documented trap
                pass
            if fmt == 1:
                items.append((t, h))
            elif fmt == 2:
                items.append((t, h, eid))
            elif fmt == 3:
                items.append((t, h, rattr(rng, 0.8)))
            elif fmt == 4:
                items.append((t, h, eid, rattr(rng, 0.8)))
            else:
                items.append((eid, (t, h)))
        if fmt == 5:
            d = {}
            for k, v in items:
                d[k] = v
            items = list(d.items())
        return ("add_edges_from", fmt, items, rattr(rng, 0.3))
    if kind == "add_node":
        return ("add_node", some_node(0.7), rattr(rng))
    if kind == "add_nodes_from":
        items = []
        for _ in range(rng.randint(0, 3)):
            n = some_node(0.7)
            items.append((n, rattr(rng, 0.9)) if rng.random() < 0.4 else (n, None))
        return ("add_nodes_from", items, rattr(rng, 0.3))
    if kind == "remove_node":
        return ("remove_node", some_node(), rng.random() < 0.5, rng.random() < 0.7)
    if kind == "remove_nodes_from":
        return ("remove_nodes_from", [some_node(0.3) for _ in range(rng.randint(0, 3))],
                rng.random() < 0.5, rng.random() < 0.7)
    if kind == "remove_edge":
        return ("remove_edge", some_edge())
    if kind == "remove_edges_from":
        return ("remove_edges_from", [some_edge(0.1) for _ in range(rng.randint(0, 3))])
    if kind == "add_node_to_edge":
        return ("add_node_to_edge", some_edge(0.3), some_node(0.4),
                rng.choice(["in", "out", "in", "out"] + (["sideways"] if malformed else [])))
    if kind == "remove_node_from_edge":
        e = some_edge(); n = some_node(); direction = rng.choice(["in", "out"])
        if e in H.edges and rng.random() < 0.8:
            t, h = H.edges.dimembers(e)
            side = list(t) if direction == "in" else list(h)
            if side:
                n = rng.choice(side)
        if malformed and rng.random() < 0.1:
            direction = "sideways"
        return ("remove_node_from_edge", e, n, direction, rng.random() < 0.6)
    if kind == "set_node_attrs":
        shape = rng.choice(["named", "scalar", "dict"]); name = rng.choice(ATTR_KEYS)
        if shape == "named":
            return ("set_node_attrs_named", [(some_node(0.3), rng.choice(ATTR_VALS)) for _ in range(rng.randint(0, 3))], name)
        if shape == "scalar":
            return ("set_node_attrs_scalar", rng.choice([1, "red", 3]), name)
        return ("set_node_attrs_dict", [(some_node(0.3), rattr(rng, 1.0)) for _ in range(rng.randint(0, 3))])
    if kind == "set_edge_attrs":
        shape = rng.choice(["named", "scalar", "dict"]); name = rng.choice(ATTR_KEYS)
        if shape == "named":
            return ("set_edge_attrs_named", [(some_edge(0.3), rng.choice(ATTR_VALS)) for _ in range(rng.randint(0, 3))], name)
        if shape == "scalar":
            return ("set_edge_attrs_scalar", rng.choice([1, "red", 3]), name)
        return ("set_edge_attrs_dict", [(some_edge(0.3), rattr(rng, 1.0)) for _ in range(rng.randint(0, 3))])
    if kind == "clear":
        return ("clear", rng.random() < 0.5)
    if kind == "cleanup":
        return ("cleanup", rng.random() < 0.5, rng.random() < 0.5)
    if kind == "relabel":
        return ("relabel", rng.choice(["label", "old"]))
    if kind == "set_net":
        return ("set_net", rng.choice(["name", "k"]), rng.choice([1, "x", None]))
    raise AssertionError(kind)


def bunch_arg(fmt, items):
    if fmt == 1:
        return [(C.members(t), C.members(h)) for t, h in items]
    if fmt == 2:
        return [((C.members(t), C.members(h)), _H._pres(i)) for t, h, i in items]
    if fmt == 3:
        return [((C.members(t), C.members(h)), dict(a)) for t, h, a in items]
    if fmt == 4:
        return [((C.members(t), C.members(h)), _H._pres(i), dict(a)) for t, h, i, a in items]
    return {_H._pres(i): (C.members(t), C.members(h)) for i, (t, h) in items}


def apply_op(H, op):
    import xgi
    name = op[0]
    exc = None
    with warnings.catch_warnings(record=True) as wl:
        warnings.simplefilter("always")
        try:
            if name == "add_edge":
                _, t, h, idx, a = op
                if idx is None:
                    H.add_edge((C.members(t), C.members(h)), **a)
                else:
                    H.add_edge((C.members(t), C.members(h)), idx=_H._pres(idx), **a)
            elif name == "add_edges_from":
                H.add_edges_from(bunch_arg(op[1], op[2]), **op[3])
            elif name == "add_node":
                H.add_node(op[1], **op[2])
            elif name == "add_nodes_from":
                H.add_nodes_from([n if d is None else (n, dict(d)) for n, d in op[1]], **op[2])
            elif name == "remove_node":
                H.remove_node(op[1], strong=op[2], remove_empty=op[3])
            elif name == "remove_nodes_from":
                H.remove_nodes_from(list(op[1]), strong=op[2], remove_empty=op[3])
            elif name == "remove_edge":
                H.remove_edge(op[1])
            elif name == "remove_edges_from":
                H.remove_edges_from(list(op[1]))
            elif name == "add_node_to_edge":
                H.add_node_to_edge(op[1], op[2], op[3])
            elif name == "remove_node_from_edge":
                H.remove_node_from_edge(op[1], op[2], op[3], remove_empty=op[4])
            elif name == "set_node_attrs_named":
                H.set_node_attributes(dict(op[1]), name=op[2])
            elif name == "set_node_attrs_scalar":
                H.set_node_attributes(op[1], name=op[2])
            elif name == "set_node_attrs_dict":
                H.set_node_attributes({k: dict(v) for k, v in op[1]})
            elif name == "set_edge_attrs_named":
                H.set_edge_attributes(dict(op[1]), name=op[2])
            elif name == "set_edge_attrs_scalar":
                H.set_edge_attributes(op[1], name=op[2])
            elif name == "set_edge_attrs_dict":
                H.set_edge_attributes({k: dict(v) for k, v in op[1]})
            elif name == "clear":
                H.clear(remove_net_attr=op[1])
            elif name == "cleanup":
                H.cleanup(isolates=op[1], relabel=op[2], in_place=True)
            elif name == "relabel":
                xgi.convert_labels_to_integers(H, label_attribute=op[1], in_place=True)
            elif name == "set_net":
                H._net_attr[op[1]] = op[2]
            else:
                raise AssertionError(name)
        except Exception as e:  # noqa: BLE001
            exc = G.classify_exception(e)
    nwarn = sum(1 for w in wl if not issubclass(w.category, DeprecationWarning))
    return None, exc, nwarn


def gdir(s):
    return {"in": "DirIn", "out": "DirOut"}.get(s, "DirInvalid")


def op_to_gallina(op, extra):
    name = op[0]
    oattr = lambda d: G.gopt(d, G.attrs)
    def bunch(fmt, items):
        if fmt == 1:
            return "(DB1 " + G.glist([G.gpair(G.lbls(t), G.lbls(h)) for t, h in items]) + ")"
        if fmt == 2:
            return "(DB2 " + G.glist([G.gpair(G.lbls(t), G.lbls(h), G.lbl(i)) for t, h, i in items]) + ")"
        if fmt == 3:
            return "(DB3 " + G.glist([G.gpair(G.lbls(t), G.lbls(h), G.attrs(a)) for t, h, a in items]) + ")"
        if fmt == 4:
            return "(DB4 " + G.glist([G.gpair(G.lbls(t), G.lbls(h), G.lbl(i), G.attrs(a)) for t, h, i, a in items]) + ")"
        return "(DB5 " + G.glist([G.gpair(G.lbl(i), G.gpair(G.lbls(t), G.lbls(h))) for i, (t, h) in items]) + ")"
    if name == "add_edge":
        return f"DAddEdge {G.lbls(op[1])} {G.lbls(op[2])} {G.gopt(op[3], G.lbl)} {G.attrs(op[4])}"
    if name == "add_edges_from":
        return f"DAddEdgesFrom {bunch(op[1], op[2])} {G.attrs(op[3])}"
    if name == "add_node":
        return f"DAddNode {G.lbl(op[1])} {G.attrs(op[2])}"
    if name == "add_nodes_from":
        return f"DAddNodesFrom {G.glist([G.gpair(G.lbl(n), oattr(d)) for n, d in op[1]])} {G.attrs(op[2])}"
    if name == "remove_node":
        return f"DRemoveNode {G.lbl(op[1])} {G.gbool(op[2])} {G.gbool(op[3])}"
    if name == "remove_nodes_from":
        return f"DRemoveNodesFrom {G.lbls(op[1])} {G.gbool(op[2])} {G.gbool(op[3])}"
    if name == "remove_edge":
        return f"DRemoveEdge {G.lbl(op[1])}"
    if name == "remove_edges_from":
        return f"DRemoveEdgesFrom {G.lbls(op[1])}"
    if name == "add_node_to_edge":
        return f"DAddNodeToEdge {G.lbl(op[1])} {G.lbl(op[2])} {gdir(op[3])}"
    if name == "remove_node_from_edge":
        return f"DRemoveNodeFromEdge {G.lbl(op[1])} {G.lbl(op[2])} {gdir(op[3])} {G.gbool(op[4])}"
    if name in ("set_node_attrs_named", "set_edge_attrs_named"):
        c = "DSetNodeAttrsNamed" if name.startswith("set_node") else "DSetEdgeAttrsNamed"
        return f"{c} {G.glist([G.gpair(G.lbl(k), G.aval(v)) for k, v in dedup_named(op[1])])} {G.gstr(op[2])}"
    if name in ("set_node_attrs_scalar", "set_edge_attrs_scalar"):
        c = "DSetNodeAttrsScalar" if name.startswith("set_node") else "DSetEdgeAttrsScalar"
        return f"{c} {G.aval(op[1])} {G.gstr(op[2])}"
    if name in ("set_node_attrs_dict", "set_edge_attrs_dict"):
        c = "DSetNodeAttrsDict" if name.startswith("set_node") else "DSetEdgeAttrsDict"
        return f"{c} {G.glist([G.gpair(G.lbl(k), G.attrs(v)) for k, v in dedup_named(op[1])])}"
    if name == "clear":
        return f"DClear {G.gbool(op[1])}"
    if name == "cleanup":
        return f"DCleanup {G.gbool(op[1])} {G.gbool(op[2])}"
    if name == "relabel":
        return f"DRelabel {G.gstr(op[1])}"
    if name == "set_net":
        return f"DSetNetAttr {G.gstr(op[1])} {G.aval(op[2])}"
    raise AssertionError(name)


def observe(H):
    from xgi.exception import IDNotFound
    ob = {"broken": None}
    try:
        nodes = list(H.nodes)
        dm = H.nodes.dimemberships()
        ob["nodes"] = [(n, (_H._norm(set(dm[n][0])), _H._norm(set(dm[n][1])))) for n in nodes]   # (in, out)
        na = []
        for n in nodes:
            try:
                na.append(_H._norm(dict(H.nodes[n])))
            except IDNotFound:
                na.append(None)
        ob["nattr"] = na
        edges = list(H.edges)
        mem = H.edges.dimembers(dtype=dict)
        ob["edges"] = [(_H._norm(e), (set(mem[e][0]), set(mem[e][1]))) for e in edges]  # (tail, head)
        ea = []
        for e in edges:
            try:
                ea.append(_H._norm(dict(H.edges[e])))
            except IDNotFound:
                ea.append(None)
        ob["eattr"] = ea
        ob["net"] = _H._norm(dict(H._net_attr))
        ob["uid"] = peek_uid(H)
    except Exception as e:  # noqa: BLE001
        ob["broken"] = f"{type(e).__name__}: {e}"
    return ob


def obs_to_gallina(ob, exc, nwarn):
    oattr = lambda d: G.gopt(d, G.attrs)
    pr = lambda ab: G.gpair(G.lblset(ab[0]), G.lblset(ab[1]))
    return ("(mkDObs " +
            G.glist([G.gpair(G.lbl(n), pr(ab)) for n, ab in ob["nodes"]]) + " " +
            G.glist([oattr(a) for a in ob["nattr"]]) + " " +
            G.glist([G.gpair(G.lbl(e), pr(ab)) for e, ab in ob["edges"]]) + " " +
            G.glist([oattr(a) for a in ob["eattr"]]) + " " +
            G.attrs(ob["net"]) + " " + G.gZ(ob["uid"]) + " " + G.outcome(exc) + " " + G.gnat(nwarn) + ")")


def run_history(ops_or_gen, length=None, rng=None, style=None, malformed=False, freeze_at=None):
    import xgi
    H = xgi.DiHypergraph()
    if ops_or_gen is None:
        nodes, eids = make_pool(rng, style)
    rec = {"ops": [], "extras": [], "obs": [], "excs": [], "warns": [], "unsupported": None}
    n = length if ops_or_gen is None else len(ops_or_gen)
    for i in range(n):
        if freeze_at is not None and i == freeze_at:
            H.freeze()
        op = _H._norm(gen_op(rng, H, nodes, eids, malformed)) if ops_or_gen is None else ops_or_gen[i]
        extra, exc, nwarn = apply_op(H, op)
        ob = observe(H)
        rec["ops"].append(op); rec["extras"].append(extra); rec["obs"].append(ob)
        rec["excs"].append(exc); rec["warns"].append(nwarn)
        if ob["broken"]:
            break
    rec["net"] = H
    return rec


def history_to_gallina(rec):
    items = []
    try:
        for op, extra, ob, exc, nwarn in zip(rec["ops"], rec["extras"], rec["obs"], rec["excs"], rec["warns"]):
            if ob["broken"]:
                return None
            items.append(G.gpair(op_to_gallina(op, extra), obs_to_gallina(ob, exc, nwarn)))
    except G.Unsupported as e:
        rec["unsupported"] = str(e)
        return None
    return G.glist(items)


def corrupt(rec):
    ob = rec["obs"][-1]
    ob["uid"] += 1
    ob["nodes"] = ob["nodes"] + [("canary", (set(), set()))]
    ob["nattr"] = ob["nattr"] + [{}]
    return rec
