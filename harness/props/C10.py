"""C10 - conversions between representations preserve the incidence relation."""
import itertools, os, random, warnings
from .. import common as C, histcheck as HC, gallina as G, hgsim, disim, scsim
from . import base

PROP = "C10"
IMPORTS = ("Base.Label Base.Attr Base.Outcome Model.Hypergraph Model.HgCheck Model.DiHypergraph Model.Hodge "
           "Model.Matrix Model.Graph Model.Convert")


def snap(H):
    import xgi
    kind = type(H).__name__
    if isinstance(H, xgi.DiHypergraph):
        edges = {e: (frozenset(H.edges.tail(e)), frozenset(H.edges.head(e))) for e in H.edges}
    else:
        edges = {e: frozenset(H.edges.members(e)) for e in H.edges}
    return dict(kind=kind, nodes=set(H.nodes), nattr={n: dict(H.nodes[n]) for n in H.nodes}, edges=edges,
                eattr={e: dict(H.edges[e]) for e in H.edges}, net=dict(H._net_attr))


def incid(H):
    import xgi
    if isinstance(H, xgi.DiHypergraph):
        return ({(n, e, "in") for e in H.edges for n in H.edges.tail(e)} |
                {(n, e, "out") for e in H.edges for n in H.edges.head(e)})
    return {(n, e) for e in H.edges for n in H.edges.members(e)}


def closure(sets):
    out = set()
    for m in sets:
        m = sorted(m, key=repr)
        if m:
            out.add(frozenset(m))
        for k in range(2, len(m) + 1):     # 0-simplices are the nodes
            for c in itertools.combinations(m, k):
                out.add(frozenset(c))
    return out


def ambiguous_first(l):
    first = list(l[0]) if l else []
    return bool(first) and isinstance(first[0], (str, tuple)) and not all(isinstance(x, str) for x in first)


def oracle(H, rng):
    """round trips through every representation, on the implementation"""
    import networkx as nx, xgi
    s = snap(H); kind = s["kind"]
    di = kind == "DiHypergraph"; sc = kind == "SimplicialComplex"
    if not di:
        l = xgi.to_hyperedge_list(H)
        if [frozenset(m) for m in l] != [s["edges"][e] for e in H.edges]:
            return "to_hyperedge_list does not list the member sets in edge order"
        if not sc:
            if not ambiguous_first(l):    # documented ambiguity of the bunch formats
                try:
                    H2 = xgi.from_hyperedge_list(l)
                except Exception as e:  # noqa: BLE001
                    return f"from_hyperedge_list(to_hyperedge_list(H)) raised {type(e).__name__}: {e}"
                if [frozenset(H2.edges.members(e)) for e in H2.edges] != [frozenset(m) for m in l]:
                    return "hyperedge list round trip changes the member sets or their order"
        elif not ambiguous_first(l):      # the same documented ambiguity (simplicial histories now carry mixed labels too)
            try:
                H2 = xgi.from_hyperedge_list(l, create_using=xgi.SimplicialComplex)
            except Exception as e:  # noqa: BLE001
                return f"from_hyperedge_list(to_hyperedge_list(S)) raised {type(e).__name__}: {e}"
            if {frozenset(H2.edges.members(e)) for e in H2.edges} != set(s["edges"].values()):
                return "hyperedge list round trip of a simplicial complex changes the simplices"
        d = xgi.to_hyperedge_dict(H)
        H2 = xgi.from_simplex_dict(d) if sc else xgi.from_hyperedge_dict(d)
        if {e: frozenset(H2.edges.members(e)) for e in H2.edges} != s["edges"]:
            return "hyperedge dict round trip changes members or edge labels"
    bl = xgi.to_bipartite_edgelist(H)
    if set(bl) != incid(H) or len(bl) != len(incid(H)):
        return "to_bipartite_edgelist is not the incidence relation"
    if bl:
        H2 = xgi.from_bipartite_edgelist(bl)
        if incid(H2) != incid(H):
            return "bipartite edge list round trip changes the incidences"
        if isinstance(H2, xgi.DiHypergraph) != di:
            return "bipartite edge list round trip changes the class"
    if not di:
        for sparse in (True, False):
            I, rd, cd = xgi.to_incidence_matrix(H, sparse=sparse, index=True)
            if I.shape != (0, 0):
                H2 = xgi.from_incidence_matrix(I, nodelabels=[rd[i] for i in range(len(rd))],
                                               edgelabels=[cd[j] for j in range(len(cd))])
                if incid(H2) != incid(H):
                    return "labelled incidence matrix round trip changes the incidences"
                H2 = xgi.from_incidence_matrix(I)
                if {(rd[n], cd[e]) for n, e in incid(H2)} != incid(H):
                    return "incidence matrix round trip changes the incidences"
                H3 = xgi.to_hypergraph(I)
                if H3 is None or incid(H3) != incid(H2):
                    return "to_hypergraph(incidence matrix) differs from from_incidence_matrix"
    G_, nd, ed = xgi.to_bipartite_graph(H, index=True)
    H2 = xgi.from_bipartite_graph(G_)
    if isinstance(H2, xgi.DiHypergraph) != di:
        return "bipartite graph round trip changes the class"
    back = lambda t: (nd[t[0]], ed[t[1]]) + tuple(t[2:])
    if {back(t) for t in incid(H2)} != incid(H):
        return "bipartite graph round trip changes the incidences"
    if {nd[n] for n in H2.nodes} != s["nodes"]:
        return "bipartite graph round trip changes the node set"
    for _ in range(3):
        G2 = nx.DiGraph() if di else nx.Graph()
        vs = list(G_.nodes(data=True)); rng.shuffle(vs)
        G2.add_nodes_from(vs)
        es = list(G_.edges); rng.shuffle(es)
        for u, v in es:
            if not di and rng.random() < 0.5:
                u, v = v, u
            G2.add_edge(u, v)
        H3 = xgi.from_bipartite_graph(G2)
        if incid(H3) != incid(H2) or set(H3.nodes) != set(H2.nodes) or set(H3.edges) != set(H2.edges):
            return "from_bipartite_graph depends on the order in which the vertices / links of the graph were inserted"
    if not di:
        df = xgi.to_bipartite_pandas_dataframe(H)
        if len(df):
            H2 = xgi.from_bipartite_pandas_dataframe(df, create_using=xgi.SimplicialComplex if sc else None)
            if not sc and incid(H2) != incid(H):
                return "dataframe round trip changes the incidences"
            if sc and {frozenset(H2.edges.members(e)) for e in H2.edges} != set(s["edges"].values()):
                return "dataframe round trip of a simplicial complex changes the simplices"
    if kind == "Hypergraph":
        for typ in (int, str):
            if all(type(n) is typ for n in H.nodes) and all(type(e) is typ for e in H.edges):
                d = xgi.to_hypergraph_dict(H)
                H2 = xgi.from_hypergraph_dict(d, nodetype=None if typ is str else int, edgetype=None if typ is str else int)
                s2 = snap(H2)
                if s2 != s:
                    return "standard dict round trip changes " + ", ".join(k for k in s if s[k] != s2[k])
    d = xgi.to_hif_dict(H)
    H2 = xgi.from_hif_dict(d)
    s2 = snap(H2)
    if s2 != s:
        return f"HIF dict round trip of a {kind} changes " + ", ".join(k for k in s if s[k] != s2[k])
    for target in (xgi.Hypergraph, xgi.SimplicialComplex, xgi.DiHypergraph):
        if target is xgi.DiHypergraph and not di:
            continue
        if di and target is xgi.SimplicialComplex:
            continue
        nm = f"{target.__name__}({kind})"
        try:
            T = target(H)
        except Exception as e:  # noqa: BLE001
            return f"{nm} raised {type(e).__name__}: {e}"
        t = snap(T)
        if t["nodes"] != s["nodes"]:
            return nm + " changes the node set"
        if t["nattr"] != s["nattr"]:
            return nm + " changes node attributes"
        if t["net"] != s["net"]:
            return nm + " changes network attributes"
        src = {e: (m[0] | m[1] if di else m) for e, m in s["edges"].items()}
        if target is xgi.SimplicialComplex:
            if set(t["edges"].values()) != closure(src.values()):
                return nm + " is not the downward closure of the source edges"
            for e in src:
                if e in t["edges"] and t["edges"][e] == src[e] and t["eattr"][e] != s["eattr"][e]:
                    return nm + " changes edge attributes"
        elif target is xgi.DiHypergraph:
            if t["edges"] != s["edges"] or t["eattr"] != s["eattr"]:
                return nm + " changes edges"
        else:
            if t["edges"] != src:
                return nm + " changes member sets"
            if t["eattr"] != s["eattr"]:
                return nm + " changes edge attributes"
    return None


# ------------------------------------------------------------------------------------------------
def observe_result(f):
    """run a from_* call; observation of the result (an empty hypergraph when it raised)"""
    import xgi
    exc = None
    with warnings.catch_warnings(record=True) as w:
        warnings.simplefilter("always")
        try:
            H2 = f()
        except Exception as e:  # noqa: BLE001
            exc = G.classify_exception(e)
            H2 = xgi.Hypergraph()
    return hgsim.obs_to_gallina(hgsim.observe(H2), exc, len(w))


def gpairs(l):
    return G.glist([G.gpair(G.lbl(a), G.lbl(b)) for a, b in l])


def ghif(d):
    nodes = G.glist([G.gpair(G.lbl(r["node"]), G.attrs(r.get("attrs", {}))) for r in d.get("nodes", [])])
    edges = G.glist([G.gpair(G.lbl(r["edge"]), G.attrs(r.get("attrs", {}))) for r in d.get("edges", [])])
    inc = gpairs([(r["node"], r["edge"]) for r in d["incidences"]])
    return f"(mkHif {G.attrs(d['metadata'])} {nodes} {edges} {inc})"


def cases_for(H, rng):
    import xgi
    cs = []
    l = xgi.to_hyperedge_list(H)
    ll = [list(m) for m in l]
    cs.append(f"(CTo ToList (RpList {G.glist([G.lbls(m) for m in ll])}))")
    if not ambiguous_first(ll):
        cs.append(f"(CFrom (FromList {G.glist([G.lbls(m) for m in ll])}) {observe_result(lambda: xgi.from_hyperedge_list(ll))})")
    d = xgi.to_hyperedge_dict(H)
    dd = {e: list(m) for e, m in d.items()}
    gd = G.glist([G.gpair(G.lbl(e), G.lbls(m)) for e, m in dd.items()])
    cs.append(f"(CTo ToDict (RpDict {gd}))")
    cs.append(f"(CFrom (FromDict {gd}) {observe_result(lambda: xgi.from_hyperedge_dict(dd))})")
    bl = xgi.to_bipartite_edgelist(H)
    cs.append(f"(CTo ToBip (RpPairs {gpairs(bl)}))")
    cs.append(f"(CFrom (FromBip {gpairs(bl)}) {observe_result(lambda: xgi.from_bipartite_edgelist(bl))})")
    df = xgi.to_bipartite_pandas_dataframe(H)
    rows = [tuple(r) for r in df.itertuples(index=False)]
    cs.append(f"(CTo ToFrame (RpPairs {gpairs(rows)}))")
    cs.append(f"(CFrom (FromFrame {gpairs(rows)}) {observe_result(lambda: xgi.from_bipartite_pandas_dataframe(df))})")
    from .C12 import gmat
    sparse = rng.random() < 0.5
    I, rd, cd = xgi.to_incidence_matrix(H, sparse=sparse, index=True)
    nl = [rd[i] for i in range(len(rd))]; el = [cd[j] for j in range(len(cd))]
    gm = gmat(I) if I.shape != (0, 0) else "[]"
    cs.append(f"(CTo ToMatrix (RpMatrix {gm} {G.lbls(list(H.nodes))} {G.lbls(list(H.edges))}))")
    if I.shape != (0, 0):
        if list(H.nodes) != nl or list(H.edges) != el:
            raise AssertionError("incidence index maps")
        cs.append(f"(CFrom (FromMatrix {gm} (Some ({G.lbls(nl)}, {G.lbls(el)}))) "
                  f"{observe_result(lambda: xgi.from_incidence_matrix(I, nodelabels=nl, edgelabels=el))})")
        cs.append(f"(CFrom (FromMatrix {gm} None) {observe_result(lambda: xgi.from_incidence_matrix(I))})")
    BG = xgi.to_bipartite_graph(H)
    n = H.num_nodes
    links = [(min(a, b), max(a, b)) for a, b in BG.edges]
    glinks = G.glist([G.gpair(G.gnat(a), G.gnat(b)) for a, b in links])
    cs.append(f"(CFrom (FromBipGraph {G.gnat(n)} {glinks}) {observe_result(lambda: xgi.from_bipartite_graph(BG))})")
    hd = xgi.to_hif_dict(H)
    cs.append(f"(CTo ToHif (RpHif {ghif(hd)}))")
    cs.append(f"(CFrom (FromHif {ghif(hd)}) {observe_result(lambda: xgi.from_hif_dict(hd))})")
    return cs


def float_twin(H):
    """the same hypergraph with every integer edge id handed over as the equal float"""
    import xgi
    T = xgi.Hypergraph()
    T.add_nodes_from((n, dict(H.nodes[n])) for n in H.nodes)
    T.add_edges_from((list(H.edges.members(e)), float(e) if type(e) is int else e, dict(H.edges[e])) for e in H.edges)
    T._net_attr.update(H._net_attr)
    return T


def run(v):
    import xgi
    proof = base.proof_stage(v, PROP)
    thorough = C.tier() == "thorough"
    rng = random.Random(C.seed() * 151 + 10)
    n = 900 if thorough else 110
    failures, reports, errors, terms = [], [], [], []
    ncases = 0
    all_recs = []
    kinds = {}
    for sim, name in ((hgsim, "Hypergraph"), (disim, "DiHypergraph"), (scsim, "SimplicialComplex")):
        recs = HC.gen_histories(sim, n, 9, C.seed() + 100 + len(name), malformed_share=0.0)
        kinds[name] = len(recs)
        for r in recs:
            H = r["net"]
            if r["obs"] and r["obs"][-1].get("broken"):
                continue
            all_recs.append(r)
            try:
                with warnings.catch_warnings():
                    warnings.simplefilter("ignore")
                    d = oracle(H, rng)
            except Exception as e:  # noqa: BLE001
                d = f"oracle raised {type(e).__name__}: {e}"
            if d:
                failures.append((f"{PROP}:{d[:70]}", {"what": d, "class": name, "history": HC.jsonable(r["ops"])}))
                continue
            try:
                if sim is hgsim:
                    with warnings.catch_warnings():
                        warnings.simplefilter("ignore")
                        cs = cases_for(H, rng)
                    opsg = G.glist([hgsim.op_to_gallina(op, ex) for op, ex in zip(r["ops"], r["extras"])])
                    terms.append((len(all_recs) - 1, G.gpair(opsg, G.glist(cs))))
                    ncases += len(cs)
                elif sim is disim:
                    dops = G.glist([disim.op_to_gallina(op, ex) for op, ex in zip(r["ops"], r["extras"])])
                    ob = observe_result(lambda: xgi.Hypergraph(H))
                    terms.append((len(all_recs) - 1, G.gpair("[]", G.glist([f"(CClassDi {dops} {ob})"]))))
                    ncases += 1
            except G.Unsupported:
                pass
    # source hypergraphs whose explicit integer edge ids arrived as numpy integers / whole floats (what pandas or a cast on
    # reading produces): as dict keys they are the same ids, and every conversion must treat them so
    hgsim.PRESENT = random.Random(C.seed() * 31 + 10)
    try:
        recs_f = HC.gen_histories(hgsim, max(40, n // 3), 9, C.seed() + 177, malformed_share=0.0)
    finally:
        hgsim.PRESENT = None
    kinds["Hypergraph with integer ids presented as numpy integers / whole floats"] = len(recs_f)
    twins = [dict(r, net=float_twin(r["net"]), twin=True) for r in all_recs[:max(40, n // 3)] if isinstance(r["net"], xgi.Hypergraph)
             and r["net"].num_edges]
    for r in recs_f + twins:
        if r["obs"] and r["obs"][-1].get("broken"):
            continue
        try:
            with warnings.catch_warnings():
                warnings.simplefilter("ignore")
                d = oracle(r["net"], rng)
        except Exception as e:  # noqa: BLE001
            d = f"oracle raised {type(e).__name__}: {e}"
        if d:
            failures.append((f"{PROP}:intlike:{d[:70]}", {"what": d + " (explicit integer ids presented as numpy integers / whole floats)",
                                                          "class": "Hypergraph", "history": HC.jsonable(r["ops"]), "presentation": "float-twin" if r.get("twin") else "intlike"}))
    cdir = C.cases_dir(PROP)
    files = {}
    for k in range(0, len(terms), 40):
        chunk = terms[k:k + 40]
        path = os.path.join(cdir, f"cases_{PROP}_{k // 40}.v")
        with open(path, "w") as f:
            f.write("From Coq Require Import String ZArith List Bool.\nFrom XV Require Import " + IMPORTS +
                    ".\nImport ListNotations.\nOpen Scope Z_scope.\nDefinition cases : list (list op * list ccase) := [\n" + ";\n".join(t for _, t in chunk) +
                    "\n].\nEval vm_compute in (convert_bad cases).\n")
        files[path] = [i for i, _ in chunk]
    res = C.run_coq_files(files.keys())
    for path, idxs in files.items():
        rc, out = res[path]
        pairs = C.parse_pairs(out) if rc == 0 else None
        if pairs is None:
            errors.append({"file": os.path.basename(path), "rc": rc, "output": out[-1500:]})
            continue
        for ci, qi in pairs[:4]:
            reports.append({"correspondence": "Model.Convert.convert_bad", "case_index": qi,
                            "history": HC.jsonable(all_recs[idxs[ci]]["ops"])})
    C.clean_cases(cdir)
    st = HC.stats(all_recs)
    v.coverage.update({
        "evaluations": ncases,
        "distinct_nontrivial": st.pop("distinct_nontrivial"),
        "rule": "networks of the three classes built by generated histories (isolated nodes, empty edges, multi-edges, "
                "explicit ids, attributes); oracle: round trips through hyperedge list / dict, bipartite edge list, "
                "(labelled) incidence matrix sparse and dense, bipartite graph under reshuffled vertex/link insertion "
                "orders, dataframe, standard dict (homogeneous labels), HIF dict, and class-to-class constructions; "
                "correspondence (Hypergraph): every to_* output and the network built by every from_* call compared with "
                "the model, and Hypergraph(DiHypergraph); non-trivial = history changes the tables",
        "samples": [HC.jsonable(all_recs[0]["ops"][:3])] if all_recs else [],
        "oracle_evaluations": len(all_recs),
        "per_class": kinds,
        "exhaustive": False,
        **st,
    })
    base.conclude(v, proof, reports, failures, errors)


def replay(payload):
    d = payload.get("detail", payload)
    ops = HC.unjson(d["history"])
    sim = {"Hypergraph": hgsim, "DiHypergraph": disim, "SimplicialComplex": scsim}[d.get("class", "Hypergraph")]
    pres = d.get("presentation")
    if pres == "intlike":
        for k in range(12):
            hgsim.PRESENT = random.Random(k)
            try:
                r = sim.run_history(ops)
            finally:
                hgsim.PRESENT = None
            dsc = oracle(r["net"], random.Random(0))
            if dsc:
                break
    else:
        r = sim.run_history(ops)
        dsc = oracle(float_twin(r["net"]) if pres == "float-twin" else r["net"], random.Random(0))
    print("oracle:", dsc or "holds", f"({pres})" if pres else "")
    return 1 if dsc else 0
