"""C01 - undirected incidence integrity under every edit history."""
import os, random
from .. import common as C, histcheck as HC, hgsim
from . import base

PROP = "C01"
COQ_IMPORT = "Base.Label Base.Attr Base.Outcome Model.Hypergraph Model.HgCheck"
PROJ = "(mkProj false false false false)"


def oracle(ob):
    """The clauses of C01 evaluated on what the implementation reports; returns a description or None."""
    if ob.get("broken"):
        return "observation failed: " + ob["broken"]
    nodes = dict(ob["nodes"]); edges = dict(ob["edges"])
    for n, es in ob["nodes"]:
        for e in es:
            if e not in edges:
                return f"node {n!r} lists membership {e!r} which is not an edge"
            if n not in edges[e]:
                return f"node {n!r} lists membership {e!r} but is not a member of it"
    for e, ms in ob["edges"]:
        for n in ms:
            if n not in nodes:
                return f"edge {e!r} has member {n!r} which is not a node"
            if e not in nodes[n]:
                return f"edge {e!r} has member {n!r} whose memberships do not list it"
    for (n, _), a in zip(ob["nodes"], ob["nattr"]):
        if a is None:
            return f"node {n!r} has no attribute record"
    for (e, _), a in zip(ob["edges"], ob["eattr"]):
        if a is None:
            return f"edge {e!r} has no attribute record"
    if len(set(map(repr, nodes))) != len(ob["nodes"]) or len(set(map(repr, edges))) != len(ob["edges"]):
        return "an id is listed twice"
    return None


def oracle_history(rec):
    for i, ob in enumerate(rec["obs"]):
        d = oracle(ob)
        if d:
            return i, d
    return None


def params():
    if C.tier() == "thorough":
        return dict(n_cases=12000, max_len=40)
    return dict(n_cases=1500, max_len=22)


def run(v, sim=hgsim, prop=PROP, coq_import=COQ_IMPORT, proj=PROJ, oracle_history=oracle_history,
        klass="Hypergraph"):
    proof = base.proof_stage(v, prop)
    p = params()
    recs = HC.gen_histories(sim, p["n_cases"], p["max_len"], C.seed(), corpus=HC.load_corpus(prop),
                            iter_share=0.2 if getattr(sim, "ITER_OK", False) else 0.0)
    # oracle on every observed state
    failures = []
    for r in recs:
        f = oracle_history(r)
        if f:
            i, d = f
            ops = r["ops"][:i + 1]
            sig = f"{klass}.{ops[-1][0]}: {d.split(' ')[0]} {d.split(' ')[-4:]}"
            failures.append((f"{prop}:{klass}.{ops[-1][0]}:{r['excs'][i] or 'returns'}",
                             {"what": d, "history": HC.jsonable(ops), "step": i, "iter_salt": r.get("iter_salt"),
                              "replay_cmd": f"./check {prop} --replay <this file>"}))
    mism, errors = HC.eval_histories(prop, sim, recs, coq_import, proj)
    reports = []
    # the same alphabet with the explicit integer edge ids handed over as numpy integers / whole floats: as dict keys they are the
    # ints the model's LInt stands for (equal, equal hash), so model and oracle must see the very same histories
    recs_p = []
    if getattr(sim, "INTLIKE_OK", False):
        hgsim.PRESENT = random.Random(C.seed() * 31 + 5)
        try:
            recs_p = HC.gen_histories(sim, max(120, p["n_cases"] // 6), p["max_len"], C.seed() + 11)
            mism_p, errors_p = HC.eval_histories(prop, sim, recs_p, coq_import, proj)
        finally:
            hgsim.PRESENT = None
        errors += errors_p
        for r in recs_p:
            f = oracle_history(r)
            if f:
                i, d = f
                failures.append((f"{prop}:{klass}.{r['ops'][i][0]}:intlike:{r['excs'][i] or 'returns'}",
                                 {"what": d + " (explicit integer ids presented as numpy integers / whole floats)",
                                  "history": HC.jsonable(r["ops"][:i + 1]), "step": i, "presentation": "intlike"}))
        for ci, si in mism_p[:3]:
            reports.append({"correspondence": f"{coq_import}.mismatches {proj} (explicit integer ids presented as numpy integers / whole floats)",
                            "history": HC.jsonable(recs_p[ci]["ops"][:si + 1]), "step": si, "presentation": "intlike",
                            "implementation_last": HC.jsonable(recs_p[ci]["obs"][min(si, len(recs_p[ci]["obs"]) - 1)])})
    for ci, si in mism[:3]:
        ops = recs[ci]["ops"][:si + 1]
        salt = recs[ci].get("iter_salt")
        with C.presenting(salt):
            small = HC.shrink(prop, sim, ops, coq_import, proj)
            r, mtrace = HC.model_trace(prop, sim, small, coq_import)
        f = oracle_history(r)
        if f:
            i, d = f
            failures.append((f"{prop}:{klass}.{small[i][0]}:{r['excs'][i] or 'returns'}",
                             {"what": d, "history": HC.jsonable(small[:i + 1]), "step": i, "iter_salt": salt}))
        reports.append({"correspondence": f"{coq_import}.mismatches {proj}", "history": HC.jsonable(small), "iter_salt": salt,
                        "implementation_observations": HC.jsonable([dict(o, nodes=o.get("nodes"), edges=o.get("edges")) for o in r["obs"]]),
                        "implementation_outcomes": r["excs"], "model_trace": mtrace})
    for ci, si in mism[3:]:
        reports.append({"correspondence": f"{coq_import}.mismatches {proj}", "case": ci, "step": si,
                        "history": HC.jsonable(recs[ci]["ops"][:si + 1])})
    st = HC.stats(recs)
    v.coverage.update({
        "evaluations": len(recs),
        "distinct_nontrivial": st.pop("distinct_nontrivial"),
        "rule": "seeded random edit histories over the whole mutator alphabet (label styles int/str/mixed/tuple, "
                "~15% malformed stream with None members, missing and duplicate ids); non-trivial = the history "
                "changes the node/edge tables at least once; distinct = by op list hash",
        "samples": [HC.jsonable(r["ops"][:6]) for r in recs[:3]],
        "oracle_evaluations": sum(len(r["obs"]) for r in recs),
        "histories_with_members_presented_as_tuples_or_one_shot_iterators": sum(1 for r in recs if r.get("iter_salt")),
        "histories_with_integer_ids_presented_as_numpy_integers_or_whole_floats": len(recs_p),
        "exhaustive": False,
        **st,
    })
    base.conclude(v, proof, reports, failures, errors)


def replay(payload):
    return HC.replay_history(PROP, hgsim, payload, COQ_IMPORT, PROJ, oracle_history)
