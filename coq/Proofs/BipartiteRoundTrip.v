(* C10: from_bipartite_graph(to_bipartite_graph(H)): node i of H becomes node i, edge j becomes
   edge n + j, with exactly the incidences of H. *)
From Coq Require Import String ZArith List Bool Lia.
From XV Require Import Base.Label Base.LSet Base.ODict Base.Attr Base.Outcome Model.Hypergraph Model.HgCheck
     Model.Hodge Model.Matrix Model.Stats Model.Graph Model.Copy Model.DiHypergraph Model.Convert
     Proofs.HgViews Proofs.HgInv Proofs.HgInvOps Proofs.HgStep Proofs.HgKeys Proofs.HgErrors
     Proofs.DerivedProofs Proofs.ConvertProofs Proofs.DualProofs Proofs.IncidenceRoundTrip.
Import ListNotations.

Lemma index_of_spec x : forall l a, In x l -> (a <= Graph.index_of x l a < a + length l)%nat /\ nth (Graph.index_of x l a - a) l LNone = x.
Proof.
  induction l as [|y l IH]; intros a H; [destruct H|]. cbn [Graph.index_of length].
  destruct (lbl_eqb_spec x y) as [->|N].
  - split; [lia|]. rewrite Nat.sub_diag. reflexivity.
  - destruct H as [H|H]; [congruence|]. destruct (IH (S a) H) as [B E]. split; [lia|].
    replace (Graph.index_of x l (S a) - a)%nat with (S (Graph.index_of x l (S a) - S a)) by lia. exact E.
Qed.

Lemma nth_inj_nodup (l : list lbl) i j : NoDup l -> (i < length l)%nat -> (j < length l)%nat -> nth i l LNone = nth j l LNone -> i = j.
Proof. intros ND Hi Hj E. apply (proj1 (NoDup_nth l LNone) ND i j Hi Hj E). Qed.

(* the links of the bipartite graph *)
Lemma In_bipartite_links s i k : Inv s ->
  (In (i, k) (bipartite_links s) <->
   exists j, (j < length (h_edge s))%nat /\ k = (length (keys (h_node s)) + j)%nat /\ (i < length (keys (h_node s)))%nat /\
             In (nth i (keys (h_node s)) LNone) (snd (nth j (h_edge s) (LNone, [])))).
Proof.
  intro I. pose proof I as (_ & (_ & _ & Kn & Ke) & _).
  unfold bipartite_links. rewrite in_flat_map. split.
  - intros ([j kv] & Hjkv & H). apply (In_indexed (h_edge s) (LNone, []) kv j 0%nat) in Hjkv. destruct Hjkv as [Hj Ekv].
    rewrite Nat.sub_0_r in Ekv. cbn [fst snd] in H. apply in_map_iff in H. destruct H as (v & E & Hv). inversion E; subst.
    assert (Hvn : In v (keys (h_node s))).
    { assert (Hkv : In (nth j (h_edge s) (LNone, [])) (h_edge s)) by (apply nth_In; lia).
      destruct (nth j (h_edge s) (LNone, [])) as [e ms] eqn:En. cbn [snd] in Hv.
      apply (members_are_nodes s e v I). unfold mems, getl. rewrite (In_get _ _ _ Ke Hkv). exact Hv. }
    destruct (index_of_spec v (keys (h_node s)) 0%nat Hvn) as [B E2]. rewrite Nat.sub_0_r in E2.
    exists j. split; [lia|]. split; [reflexivity|]. split; [lia|]. rewrite E2. exact Hv.
  - intros (j & Hj & -> & Hi & Hin). exists (j, nth j (h_edge s) (LNone, [])). split.
    + apply (In_indexed (h_edge s) (LNone, []) _ j 0%nat). split; [lia|]. rewrite Nat.sub_0_r. reflexivity.
    + cbn [fst snd]. apply in_map_iff. exists (nth i (keys (h_node s)) LNone). split; [|exact Hin].
      f_equal. assert (Hvn : In (nth i (keys (h_node s)) LNone) (keys (h_node s))) by (apply nth_In; exact Hi).
      destruct (index_of_spec _ (keys (h_node s)) 0%nat Hvn) as [B E2]. rewrite Nat.sub_0_r in E2.
      apply (nth_inj_nodup (keys (h_node s))); [exact Kn|lia|exact Hi|exact E2].
Qed.

Lemma int_labels_no_none n : forall x, In x (int_labels n) -> x <> LNone.
Proof. intros x H. unfold int_labels in H. apply in_map_iff in H. destruct H as (i & <- & _). discriminate. Qed.

Theorem bipartite_graph_roundtrip s : Inv s ->
  let n := length (keys (h_node s)) in
  let r := from_bipartite_graph n (bipartite_links s) in
  let t := st_of r in
  out_of r = Ok /\
  (forall i j, (i < n)%nat -> (j < length (h_edge s))%nat ->
     (In (LInt (Z.of_nat i)) (mems t (LInt (Z.of_nat (n + j)))) <->
      In (nth i (keys (h_node s)) LNone) (snd (nth j (h_edge s) (LNone, []))))).
Proof.
  intros I. cbv zeta. unfold from_bipartite_graph.
  set (n := length (keys (h_node s))).
  destruct (add_nodes_from_struct (map (fun x => (x, None)) (int_labels n)) [] hg_empty Inv_empty) as (O1 & I1 & E1 & _ & K1 & _).
  { intros it Hit. apply in_map_iff in Hit. destruct Hit as (x & <- & Hx). cbn [fst]. apply (int_labels_no_none n x Hx). }
  set (r1 := add_nodes_from (map (fun x => (x, None)) (int_labels n)) [] hg_empty) in *. set (s1 := st_of r1) in *.
  match goal with |- context [bind r1 ?k] => destruct (bind_ok_st r1 k O1) as [Est Eout] end. rewrite Est, Eout. clear Est Eout. fold s1.
  set (P := map (fun ij : nat * nat => (LInt (Z.of_nat (fst ij)), LInt (Z.of_nat (snd ij)))) (bipartite_links s)).
  assert (HP : forall p, In p P -> fst p <> LNone /\ snd p <> LNone).
  { intros p Hp. unfold P in Hp. apply in_map_iff in Hp. destruct Hp as (ij & <- & _). cbn [fst snd]. split; discriminate. }
  destruct (add_pairs_effect P s1 HP) as [O2 M2].
  split; [exact O2|].
  intros i j Hi Hj. rewrite M2.
  assert (Em : mems s1 (LInt (Z.of_nat (n + j))) = []).
  { unfold mems. rewrite E1. reflexivity. }
  rewrite Em. unfold P. rewrite in_map_iff. split.
  - intros [((i' & k') & E & Hl)|[]]. cbn [fst snd] in E. inversion E as [[Ei Ek]].
    apply Nat2Z.inj in Ei. apply Nat2Z.inj in Ek. subst i' k'.
    apply (In_bipartite_links s i (n + j) I) in Hl. destruct Hl as (j' & _ & Ej & _ & Hin).
    fold n in Ej. assert (j' = j) by lia. subst j'. exact Hin.
  - intro Hin. left. exists (i, (n + j)%nat). split; [reflexivity|].
    apply (In_bipartite_links s i (n + j) I). exists j. split; [exact Hj|]. split; [reflexivity|]. split; [exact Hi|exact Hin].
Qed.
