(* C16: the combination decoder enumerates the m-subsets of range(n) in lexicographic order;
   the product and partition decoders are the base-n / mixed-radix digit expansions. *)
From Coq Require Import List Arith Lia Sorted.
From XV Require Import Base.Label Base.LSet Model.Decoders Proofs.Combs.
Import ListNotations.

Lemma binom_0_r n : binom n 0 = 1. Proof. destruct n; reflexivity. Qed.
Lemma binom_0_l k : binom 0 (S k) = 0. Proof. reflexivity. Qed.
Lemma binom_S n k : binom (S n) (S k) = binom n k + binom n (S k). Proof. reflexivity. Qed.

Lemma combs_length {A} (l : list A) : forall k, length (combs l k) = binom (length l) k.
Proof.
  induction l as [|a l IH]; intro k; destruct k as [|k]; simpl; try reflexivity.
  rewrite app_length, map_length, !IH. reflexivity.
Qed.

Lemma nth_map_cons {A} (x : A) (l : list (list A)) i : i < length l -> nth i (map (cons x) l) [] = x :: nth i l [].
Proof.
  intro H. rewrite (nth_indep (map (cons x) l) [] (x :: [])) by (rewrite map_length; exact H).
  apply (map_nth (cons x) l [] i).
Qed.

(* combinations of {a, ..., n-1} *)
Definition L (n a k : nat) : list (list nat) := combs (seq a (n - a)) k.

Lemma L_step n a k : a < n ->
  L n a (S k) = map (cons a) (L n (a + 1) k) ++ L n (a + 1) (S k).
Proof.
  intro H. unfold L. replace (n - a) with (S (n - (a + 1))) by lia. simpl.
  replace (S a) with (a + 1) by lia. reflexivity.
Qed.

Lemma L_length n a k : length (L n a k) = binom (n - a) k.
Proof. unfold L. rewrite combs_length, seq_length. reflexivity. Qed.

(* skipping the candidate cs subtracts the size of the block of combinations that start with it *)
Lemma inner_spec k1 n : forall fuel cs r,
  n - cs <= fuel -> 1 <= r -> r <= binom (n - cs) (S k1) ->
  let '(r', cs') := inner fuel n k1 r cs in
  cs <= cs' /\ cs' < n /\ 1 <= r' /\ r' <= binom (n - 1 - cs') k1 /\
  nth (r - 1) (L n cs (S k1)) [] = cs' :: nth (r' - 1) (L n (cs' + 1) k1) [].
Proof.
  induction fuel as [|f IH]; intros cs r Hf H1 H2.
  - assert (n - cs = 0) by lia. rewrite H in H2. simpl in H2. lia.
  - simpl. destruct (Nat.ltb_spec (binom (n - 1 - cs) k1) r) as [Hlt|Hge].
    + (* skip cs *)
      assert (Hcs : cs < n).
      { destruct (Nat.lt_ge_cases cs n) as [Hc|Hc]; [exact Hc|].
        replace (n - cs) with 0 in H2 by lia. simpl in H2. lia. }
      assert (Hb : binom (n - cs) (S k1) = binom (n - 1 - cs) k1 + binom (n - 1 - cs) (S k1)).
      { replace (n - cs) with (S (n - 1 - cs)) by lia. apply binom_S. }
      specialize (IH (cs + 1) (r - binom (n - 1 - cs) k1)).
      replace (n - (cs + 1)) with (n - 1 - cs) in IH by lia.
      assert (A1 : n - 1 - cs <= f) by lia.
      assert (A2 : 1 <= r - binom (n - 1 - cs) k1) by lia.
      assert (A3 : r - binom (n - 1 - cs) k1 <= binom (n - 1 - cs) (S k1)) by lia.
      specialize (IH A1 A2 A3).
      destruct (inner f n k1 (r - binom (n - 1 - cs) k1) (cs + 1)) as [r' cs'].
      destruct IH as (B1 & B2 & B3 & B4 & B5).
      split; [lia|]. split; [exact B2|]. split; [exact B3|]. split; [exact B4|].
      rewrite (L_step n cs k1 Hcs). rewrite app_nth2.
      * rewrite map_length, L_length. replace (n - (cs + 1)) with (n - 1 - cs) by lia.
        replace (r - 1 - binom (n - 1 - cs) k1) with (r - binom (n - 1 - cs) k1 - 1) by lia. exact B5.
      * rewrite map_length, L_length. replace (n - (cs + 1)) with (n - 1 - cs) by lia. lia.
    + (* take cs *)
      assert (Hcs : cs < n).
      { destruct (Nat.lt_ge_cases cs n) as [Hc|Hc]; [exact Hc|].
        replace (n - cs) with 0 in H2 by lia. simpl in H2. lia. }
      split; [lia|]. split; [exact Hcs|]. split; [exact H1|]. split; [exact Hge|].
      rewrite (L_step n cs k1 Hcs). rewrite app_nth1.
      * apply nth_map_cons. rewrite L_length. replace (n - (cs + 1)) with (n - 1 - cs) by lia. lia.
      * rewrite map_length, L_length. replace (n - (cs + 1)) with (n - 1 - cs) by lia. lia.
Qed.

Lemma outer_spec n : forall k start r,
  1 <= r -> r <= binom (n - start) k -> outer k n r start = nth (r - 1) (L n start k) [].
Proof.
  induction k as [|k IH]; intros start r H1 H2.
  - simpl. unfold L. rewrite combs_0. rewrite binom_0_r in H2. replace (r - 1) with 0 by lia. reflexivity.
  - simpl. pose proof (inner_spec k n n start r) as S.
    assert (A : n - start <= n) by lia. specialize (S A H1 H2).
    destruct (inner n n k r start) as [r' cs']. destruct S as (B1 & B2 & B3 & B4 & B5).
    rewrite B5. f_equal. apply IH; [exact B3|]. replace (n - (cs' + 1)) with (n - 1 - cs') by lia. exact B4.
Qed.

(* _index_to_edge_comb(index, n, m) is the index-th m-combination of range(n) in lexicographic
   (itertools.combinations) order, for every n, m and every index < C(n, m) *)
Theorem unrank_comb_spec index n m :
  index < binom n m -> unrank_comb index n m = nth index (combs (seq 0 n) m) [].
Proof.
  intro H. unfold unrank_comb. rewrite (outer_spec n m 0 (index + 1)); [|lia|rewrite Nat.sub_0_r; lia].
  unfold L. rewrite Nat.sub_0_r. replace (index + 1 - 1) with index by lia. reflexivity.
Qed.

(* hence: a bijection from [0, C(n,m)) onto the m-subsets of range(n) *)
Lemma nth_In_combs index n m : index < binom n m -> In (unrank_comb index n m) (combs (seq 0 n) m).
Proof.
  intro H. rewrite unrank_comb_spec by exact H. apply nth_In. rewrite combs_length, seq_length. exact H.
Qed.

Lemma NoDup_app_intro {A} (a b : list A) :
  NoDup a -> NoDup b -> (forall x, In x a -> In x b -> False) -> NoDup (a ++ b).
Proof.
  induction 1 as [|x a Hx Ha IH]; intros Hb Hd; simpl; [exact Hb|].
  constructor.
  - rewrite in_app_iff. intros [H|H]; [contradiction|]. apply (Hd x); [left; reflexivity|exact H].
  - apply IH; [exact Hb|]. intros y Hy. apply Hd. right; exact Hy.
Qed.

Lemma NoDup_map_cons {A} (x : A) (l : list (list A)) : NoDup l -> NoDup (map (cons x) l).
Proof.
  induction 1 as [|c l Hc Hl IH]; simpl; constructor; [|exact IH].
  intro H. apply in_map_iff in H. destruct H as (c' & E & Hc'). inversion E; subst. contradiction.
Qed.

Lemma combs_NoDup_lists (l : list nat) : NoDup l -> forall k, NoDup (combs l k).
Proof.
  induction 1 as [|a l Ha Hl IH]; intro k; destruct k as [|k]; simpl.
  - constructor; [intros []|constructor].
  - constructor.
  - constructor; [intros []|constructor].
  - apply NoDup_app_intro.
    + apply NoDup_map_cons. apply IH.
    + apply IH.
    + intros c H1 H2. apply in_map_iff in H1. destruct H1 as (c' & <- & _).
      apply (combs_sound l (S k)) in H2. destruct H2 as [_ S]. apply Ha. apply S. left; reflexivity.
Qed.

Theorem unrank_comb_injective n m i j :
  i < binom n m -> j < binom n m -> unrank_comb i n m = unrank_comb j n m -> i = j.
Proof.
  intros Hi Hj E. rewrite !unrank_comb_spec in E by assumption.
  assert (ND : NoDup (combs (seq 0 n) m)) by (apply combs_NoDup_lists; apply seq_NoDup).
  apply (proj1 (NoDup_nth (combs (seq 0 n) m) []) ND); try (rewrite combs_length, seq_length; assumption). exact E.
Qed.

Theorem unrank_comb_surjective n m c :
  In c (combs (seq 0 n) m) -> exists i, i < binom n m /\ unrank_comb i n m = c.
Proof.
  intro H. destruct (In_nth _ _ [] H) as (i & Hi & E). rewrite combs_length, seq_length in Hi.
  exists i. split; [exact Hi|]. rewrite unrank_comb_spec by exact Hi. exact E.
Qed.

(* every decoded edge is a strictly increasing list of m nodes of range(n) *)
Theorem unrank_comb_valid n m i : i < binom n m ->
  length (unrank_comb i n m) = m /\ NoDup (unrank_comb i n m) /\ forall x, In x (unrank_comb i n m) -> x < n.
Proof.
  intro H. pose proof (nth_In_combs i n m H) as Hin.
  destruct (combs_sound (seq 0 n) m _ Hin) as [L S]. split; [exact L|]. split.
  - apply (combs_NoDup (seq 0 n) (seq_NoDup n 0) m). exact Hin.
  - intros x Hx. apply S in Hx. apply in_seq in Hx. lia.
Qed.

(* ---------- base-n digits ---------- *)
Definition rank_digits (n : nat) (ds : list nat) : nat := fold_left (fun acc d => acc * n + d) ds 0.

Lemma horner_acc n ds : forall acc, fold_left (fun acc d => acc * n + d) ds acc = acc * n ^ length ds + rank_digits n ds.
Proof.
  unfold rank_digits. induction ds as [|d ds IH]; intro acc; cbn [fold_left length Nat.pow]; [lia|].
  rewrite (IH (acc * n + d)), (IH (0 * n + d)). nia.
Qed.

Lemma unrank_prod_S i n m : unrank_prod i n (S m) = ((i / n ^ m) mod n) :: unrank_prod i n m.
Proof.
  unfold unrank_prod. rewrite seq_S, rev_app_distr. simpl. reflexivity.
Qed.

Lemma unrank_prod_length i n m : length (unrank_prod i n m) = m.
Proof. unfold unrank_prod. rewrite map_length, rev_length, seq_length. reflexivity. Qed.

Theorem rank_unrank_prod n m : n <> 0 -> forall i, rank_digits n (unrank_prod i n m) = i mod n ^ m.
Proof.
  intro Hn. induction m as [|m IH]; intro i.
  - cbn [Nat.pow]. rewrite Nat.mod_1_r. reflexivity.
  - rewrite unrank_prod_S. unfold rank_digits. simpl fold_left. rewrite horner_acc, unrank_prod_length.
    fold (rank_digits n (unrank_prod i n m)). rewrite IH.
    assert (Hp : n ^ m <> 0) by (apply Nat.pow_nonzero; exact Hn).
    replace (n ^ S m) with (n ^ m * n) by (simpl; lia).
    rewrite (Nat.mod_mul_r i (n ^ m) n Hp Hn). lia.
Qed.

(* _index_to_edge_prod is a bijection from [0, n^m) onto [0, n)^m *)
Theorem unrank_prod_bijection n m : n <> 0 ->
  (forall i, i < n ^ m -> rank_digits n (unrank_prod i n m) = i) /\
  (forall i, length (unrank_prod i n m) = m /\ Forall (fun d => d < n) (unrank_prod i n m)) /\
  (forall i j, i < n ^ m -> j < n ^ m -> unrank_prod i n m = unrank_prod j n m -> i = j).
Proof.
  intro Hn. split; [|split].
  - intros i Hi. rewrite rank_unrank_prod by exact Hn. apply Nat.mod_small. exact Hi.
  - intro i. split; [apply unrank_prod_length|]. unfold unrank_prod. apply Forall_forall. intros d Hd.
    apply in_map_iff in Hd. destruct Hd as (r & <- & _). apply Nat.mod_upper_bound. exact Hn.
  - intros i j Hi Hj E. pose proof (f_equal (rank_digits n) E) as R.
    rewrite !rank_unrank_prod in R by exact Hn. rewrite !Nat.mod_small in R by assumption. exact R.
Qed.

(* ---------- mixed radix (block products) ---------- *)
Fixpoint rank_mixed (sizes ds : list nat) : nat :=
  match sizes, ds with
  | s :: rest, d :: ds' => d * prod_list rest + rank_mixed rest ds'
  | _, _ => 0
  end.

Lemma unrank_partition_cons i s rest :
  unrank_partition i (s :: rest) = ((i / prod_list rest) mod s) :: unrank_partition i rest.
Proof.
  unfold unrank_partition. simpl length. rewrite <- cons_seq. simpl map. f_equal.
  rewrite <- seq_shift, map_map. apply map_ext. intro r. simpl. reflexivity.
Qed.

Lemma prod_list_pos sizes : Forall (fun s => s <> 0) sizes -> prod_list sizes <> 0.
Proof. induction 1 as [|s l Hs Hl IH]; simpl; [lia|]. nia. Qed.

Theorem rank_unrank_partition sizes : Forall (fun s => s <> 0) sizes ->
  forall i, rank_mixed sizes (unrank_partition i sizes) = i mod prod_list sizes.
Proof.
  induction 1 as [|s rest Hs Hrest IH]; intro i.
  - simpl. reflexivity.
  - rewrite unrank_partition_cons. simpl rank_mixed. rewrite IH. simpl prod_list.
    pose proof (prod_list_pos rest Hrest) as Hp.
    rewrite (Nat.mul_comm s (prod_list rest)). rewrite (Nat.mod_mul_r i (prod_list rest) s Hp Hs). lia.
Qed.

Theorem unrank_partition_bijection sizes : Forall (fun s => s <> 0) sizes ->
  (forall i, i < prod_list sizes -> rank_mixed sizes (unrank_partition i sizes) = i) /\
  (forall i, length (unrank_partition i sizes) = length sizes /\
             forall r, r < length sizes -> nth r (unrank_partition i sizes) 0 < nth r sizes 1) /\
  (forall i j, i < prod_list sizes -> j < prod_list sizes -> unrank_partition i sizes = unrank_partition j sizes -> i = j).
Proof.
  intro Hs. split; [|split].
  - intros i Hi. rewrite rank_unrank_partition by exact Hs. apply Nat.mod_small. exact Hi.
  - intro i. unfold unrank_partition. split; [rewrite map_length, seq_length; reflexivity|].
    intros r Hr. set (f := fun r => (i / prod_list (skipn (r + 1) sizes)) mod nth r sizes 1).
    rewrite (nth_indep (map f (seq 0 (length sizes))) 0 (f 0)) by (rewrite map_length, seq_length; exact Hr).
    rewrite (map_nth f (seq 0 (length sizes)) 0 r), seq_nth by exact Hr. unfold f. simpl. apply Nat.mod_upper_bound.
    rewrite Forall_forall in Hs. apply Hs. apply nth_In. exact Hr.
  - intros i j Hi Hj E. pose proof (f_equal (rank_mixed sizes) E) as R.
    rewrite !rank_unrank_partition in R by exact Hs. rewrite !Nat.mod_small in R by assumption. exact R.
Qed.

(* ---------- skip sampling ---------- *)
(* for every sequence of geometric draws >= 1 the visited indices are strictly increasing and
   below the bound, hence pairwise distinct *)
Lemma skip_indices_spec draws : forall cur bound,
  Forall (fun g => 1 <= g) draws ->
  Forall (fun i => cur <= i /\ i < bound) (skip_indices draws cur bound) /\
  StronglySorted lt (skip_indices draws cur bound).
Proof.
  induction draws as [|g rest IH]; intros cur bound Hg; simpl; [split; constructor|].
  inversion Hg as [|? ? Hg1 Hrest]; subst.
  destruct (Nat.leb_spec (cur + g) bound) as [Hle|Hgt]; [|split; constructor].
  destruct (IH (cur + g) bound Hrest) as [F S]. split.
  - constructor; [lia|]. eapply Forall_impl; [|exact F]. simpl. intros i [A B]. lia.
  - constructor; [exact S|]. eapply Forall_impl; [|exact F]. simpl. intros i [A B]. lia.
Qed.

Theorem visited_distinct draws count :
  Forall (fun g => 1 <= g) draws ->
  NoDup (visited draws count) /\ Forall (fun i => i < count) (visited draws count).
Proof.
  intro Hg. destruct (skip_indices_spec draws 0 count Hg) as [F S]. unfold visited. split.
  - clear F. induction S as [|i l S IH F]; constructor; [|exact IH].
    intro Hin. rewrite Forall_forall in F. specialize (F i Hin). lia.
  - eapply Forall_impl; [|exact F]. simpl. intros i [_ B]. exact B.
Qed.
