(* C13 - boundary operators form a chain complex. *)
From Coq Require Import String ZArith List Bool.
From XV Require Import Base.Label Base.LSet Base.ODict Base.Attr Base.Outcome Model.Hypergraph
  Model.SimplicialComplex Model.Hodge Proofs.HgViews Proofs.ScInv Proofs.HodgeProofs Proofs.HodgeMore Proofs.SortProofs Proofs.ChainComplex Model.Stats Model.Graph Proofs.GraphProofs Proofs.HodgeKernel.
Import ListNotations.
Open Scope Z_scope.

(* the double boundary vanishes: for every simplex tau and every candidate face rho, the signed
   count of the ways of reaching rho by deleting two positions of tau is zero *)
Theorem C13_double_boundary_zero : forall tau rho, dd tau rho = 0.
Proof. exact dd_zero. Qed.
Print Assumptions C13_double_boundary_zero.

(* every entry of B_k * B_{k+1} is zero, for every choice of orientations: rho is any row simplex of
   B_k, tau any column simplex of B_{k+1}, mid the list of k-simplices with their orientations.
   The two hypotheses are what C03 guarantees for a simplicial complex: no simplex is listed twice
   and every facet of tau is listed (downward closure). *)
Theorem C13_dd_zero : forall rho tau o_rho o_tau mid (o_face : nat -> Z),
  NoDup (map fst mid) ->
  (forall j, (j < length tau)%nat -> In (remove_nth j tau, o_face j) mid) ->
  sumZ (fun c => bentry rho (fst c) o_rho (snd c) * bentry (fst c) tau (snd c) o_tau) mid = 0.
Proof. exact boundary_product_entry. Qed.
Print Assumptions C13_dd_zero.

(* an entry of a boundary matrix is a signed count of the positions whose deletion gives the row *)
Theorem C13_entry_formula : forall rho sigma o_rho o_sigma,
  bentry rho sigma o_rho o_sigma =
  sumZ (fun j => delta (remove_nth j sigma) rho * sgn (o_sigma + Z.of_nat j + o_rho)) (seq 0 (length sigma)).
Proof. exact bentry_sum. Qed.
Print Assumptions C13_entry_formula.

Example C13_nonvacuous :
  let s := srun [SAddSimplex [LInt 1; LInt 2; LInt 3] None [] ([], []); SAddSimplex [LInt 3; LInt 4] None [] ([], [])] hg_empty in
  let o := [(LInt 0, 1); (LInt 2, 1)] in
  map (map Z.abs) (boundary_matrix s o 2) = [[1]; [1]; [1]; [0]] /\
  mat_mul 1 (boundary_matrix s o 1) (boundary_matrix s o 2) = [[0]; [0]; [0]; [0]].
Proof. vm_compute. split; reflexivity. Qed.
Print Assumptions C13_nonvacuous.

(* consequently every Hodge Laplacian L_k = B_k^T B_k + B_{k+1} B_{k+1}^T is symmetric ... *)
Theorem C13_hodge_symmetric : forall s orient o i j,
  let n := length (cols_of s orient o) in
  (i < n)%nat -> (j < n)%nat -> entry (hodge_laplacian s orient o) i j = entry (hodge_laplacian s orient o) j i.
Proof. exact hodge_symmetric. Qed.
Print Assumptions C13_hodge_symmetric.

(* ... and positive semidefinite: x^T L x >= 0 for every integer vector (hence every real one), for
   every complex, every order and every orientation; the quadratic form is a sum of squares *)
Theorem C13_hodge_psd : forall s orient o (x : nat -> Z),
  let n := length (cols_of s orient o) in
  0 <= sumZ (fun i => sumZ (fun j => x i * entry (hodge_laplacian s orient o) i j * x j) (seq 0 n)) (seq 0 n).
Proof. exact hodge_psd. Qed.
Print Assumptions C13_hodge_psd.

(* the reference orientation is canonical: the sorted form of a simplex depends only on its node set *)
Theorem C13_sort_canonical : forall l1 l2,
  NoDup l1 -> NoDup l2 -> (forall y, In y l1 -> orderable y) -> (forall x, In x l1 <-> In x l2) ->
  sort_simplex l1 = sort_simplex l2.
Proof. exact sort_simplex_canonical. Qed.
Print Assumptions C13_sort_canonical.

(* the chain-complex identity for the matrices of the model: at every state of a simplicial complex
   reachable by any history (C03's invariant), with numbers or strings as node labels, for every
   orientation assignment and every order, every entry of B_k B_{k+1} is zero *)
Theorem C13_boundary_product_zero : forall ops orient k i j,
  let s := srun ops hg_empty in
  Orderable s ->
  let Bk := boundary_matrix s orient k in
  let Bk1 := boundary_matrix s orient (S k) in
  (i < length Bk)%nat -> (j < length (cols_of s orient (S k)))%nat ->
  dot (nth i Bk []) (col 0 Bk1 j) = 0.
Proof.
  intros ops orient k i j s Ho. apply boundary_product_zero; [|exact Ho].
  exact (srun_SInv ops hg_empty SInv_empty).
Qed.
Print Assumptions C13_boundary_product_zero.

(* the order-0 Laplacian: its quadratic form is the sum over the 1-simplices {a, b} of (y_b - y_a)^2,
   and L_0 y = 0 exactly when y is constant on connected components - the kernel is spanned by the
   indicator vectors of the components, so its dimension is their number.  For every simplicial-complex
   state reachable by any history, number/string labels, every orientation. *)
Theorem C13_L0_quadratic_form : forall ops orient (y : lbl -> Z),
  let s := srun ops hg_empty in
  Orderable s ->
  let n := length (cols_of s orient 0) in
  sumZ (fun i => sumZ (fun j => vec s y i * entry (hodge_laplacian s orient 0) i j * vec s y j) (seq 0 n)) (seq 0 n) =
  sumZ (fun sigma => gap y sigma * gap y sigma) (map snd (cols_of s orient 1)).
Proof. intros ops orient y s Ho. apply L0_quadratic; [exact (srun_SInv ops hg_empty SInv_empty)|exact Ho]. Qed.
Print Assumptions C13_L0_quadratic_form.

Theorem C13_L0_kernel : forall ops orient (y : lbl -> Z),
  let s := srun ops hg_empty in
  Orderable s ->
  let n := length (cols_of s orient 0) in
  (forall i, (i < n)%nat -> Lvec s orient y i = 0) <->
  (forall a b, In a (keys (h_node s)) -> Reach s a b -> y a = y b).
Proof. intros ops orient y s Ho. apply L0_kernel_components; [exact (srun_SInv ops hg_empty SInv_empty)|exact Ho]. Qed.
Print Assumptions C13_L0_kernel.
