"""Fail-closed translator of two deterministic generators - xgi/generators/lattice.py::ring_lattice and
xgi/generators/simple.py::star_clique - into Gallina edge-list functions (coq/Gen/SimpleGens.v).  `Props/C16.v`
proves the hand-written models `ring_lattice_edges` / `star_clique_edges` (about which the structure theorems
speak, and which are compared with the running code) equal to the regenerated functions.

Accepted statements (in order; anything else fails the translation):
    [docstring]   from ..core import Hypergraph          (ignored)
    if <guard>: raise ... [elif ...: raise ...]           parameter validation (ignored: the theorems assume valid input)
    if <guard>: warn(...)                                 (ignored)
    <name> = range(<e>[, <e>])                            a named range
    nodes = list(<range>) + list(<range>)                 (node list: ignored here, checked by the oracle)
    edges = <listcomp>      H = Hypergraph(edges)         edges of the network, in order
    H = empty_hypergraph()  H.add_nodes_from(<x>)         (ignored)
    H.add_edges_from(<listcomp>)    H.add_edge(<elem>)    edges appended in order
    return H
  <listcomp> ::= [<elem> for <v> in <iter> (for <v> in <iter>)*]
  <iter>     ::= range(<e>[, <e>]) | <named range> | combinations(<named range>, <e>)
  <elem>     ::= (<e>, ..., <e>) | [<e>, ...] | <elem> + <elem> | [<e> for <v> in <iter>] | <v bound to a combination>
  <e>        ::= <param> | <v> | <natural literal> | <e> (+|-|*|//|%) <e> | <named range>[<e>]
`-` is truncated subtraction, `//` and `%` are Nat.div / Nat.modulo (natural-number parameters)."""
import ast, os
from . import common as C

GEN = os.path.join(C.COQ, "Gen")


class TranslationError(Exception):
    pass


class Gen:
    def __init__(self, params):
        self.params = set(params)
        self.ranges = {}          # name -> (lo, len) as Gallina nat terms
        self.vars = {}            # bound variable -> "nat" | "list"

    def e(self, x):
        if isinstance(x, ast.Name) and (x.id in self.params or self.vars.get(x.id) == "nat"):
            return x.id
        if isinstance(x, ast.Constant) and isinstance(x.value, int) and not isinstance(x.value, bool) and x.value >= 0:
            return str(x.value)
        if isinstance(x, ast.BinOp) and type(x.op) in (ast.Add, ast.Sub, ast.Mult, ast.FloorDiv, ast.Mod):
            op = {ast.Add: "+", ast.Sub: "-", ast.Mult: "*", ast.FloorDiv: "/", ast.Mod: "mod"}[type(x.op)]
            return f"({self.e(x.left)} {op} {self.e(x.right)})"
        if isinstance(x, ast.Subscript) and isinstance(x.value, ast.Name) and x.value.id in self.ranges:
            return f"({self.ranges[x.value.id][0]} + {self.e(x.slice)})"
        raise TranslationError(f"number not understood: {ast.unparse(x)}")

    def rng(self, x):
        if isinstance(x, ast.Call) and isinstance(x.func, ast.Name) and x.func.id == "range" and 1 <= len(x.args) <= 2:
            if len(x.args) == 1:
                return "0", self.e(x.args[0])
            lo, hi = self.e(x.args[0]), self.e(x.args[1])
            return lo, f"({hi} - {lo})"
        if isinstance(x, ast.Name) and x.id in self.ranges:
            return self.ranges[x.id]
        raise TranslationError(f"range not understood: {ast.unparse(x)}")

    def iterable(self, x):
        """(Gallina list term, kind of its elements)"""
        if isinstance(x, ast.Call) and isinstance(x.func, ast.Name) and x.func.id == "combinations" and len(x.args) == 2:
            lo, ln = self.rng(x.args[0])
            return f"(combs (seq {lo} {ln}) {self.e(x.args[1])})", "list"
        lo, ln = self.rng(x)
        return f"(seq {lo} {ln})", "nat"

    def elem(self, x):
        if isinstance(x, (ast.Tuple, ast.List)):
            return "[" + "; ".join(self.e(v) for v in x.elts) + "]"
        if isinstance(x, ast.BinOp) and isinstance(x.op, ast.Add):
            return f"({self.elem(x.left)} ++ {self.elem(x.right)})"
        if isinstance(x, ast.ListComp):
            return self.listcomp(x, inner=True)
        if isinstance(x, ast.Name) and self.vars.get(x.id) == "list":
            return x.id
        raise TranslationError(f"edge not understood: {ast.unparse(x)}")

    def listcomp(self, lc, inner=False):
        gens = lc.generators
        if any(g.ifs or not isinstance(g.target, ast.Name) for g in gens):
            raise TranslationError(f"comprehension not understood: {ast.unparse(lc)[:80]}")
        saved = dict(self.vars)
        binders = []
        for g in gens:
            term, kind = self.iterable(g.iter)
            binders.append((g.target.id, term))
            self.vars[g.target.id] = kind
        body = self.e(lc.elt) if inner else self.elem(lc.elt)
        self.vars = saved
        v, t = binders[-1]
        out = f"(map (fun {v} => {body}) {t})"
        for v, t in reversed(binders[:-1]):
            out = f"(flat_map (fun {v} => {out}) {t})"
        return out

    def function(self, fn):
        parts = []
        for st in fn.body:
            if isinstance(st, ast.Expr) and isinstance(st.value, ast.Constant):
                continue
            if isinstance(st, ast.ImportFrom):
                continue
            if isinstance(st, ast.If):
                def only_raise_or_warn(node):
                    ok = all(isinstance(b, ast.Raise) or (isinstance(b, ast.Expr) and isinstance(b.value, ast.Call)
                             and isinstance(b.value.func, ast.Name) and b.value.func.id == "warn") for b in node.body)
                    return ok and all(isinstance(o, ast.If) and only_raise_or_warn(o) for o in node.orelse)
                if only_raise_or_warn(st):
                    continue
                raise TranslationError(f"if statement not understood: {ast.unparse(st)[:80]}")
            if isinstance(st, ast.Return):
                if ast.unparse(st) != "return H":
                    raise TranslationError("unexpected return")
                continue
            if isinstance(st, ast.Assign) and len(st.targets) == 1 and isinstance(st.targets[0], ast.Name):
                name, val = st.targets[0].id, st.value
                if isinstance(val, ast.Call) and isinstance(val.func, ast.Name) and val.func.id == "range":
                    self.ranges[name] = self.rng(val); continue
                if name == "nodes":
                    continue
                if name == "edges" and isinstance(val, ast.ListComp):
                    parts.append(self.listcomp(val)); continue
                if name == "H" and ast.unparse(val) in ("empty_hypergraph()", "Hypergraph(edges)", "Hypergraph()"):
                    continue
                raise TranslationError(f"assignment not understood: {ast.unparse(st)[:80]}")
            if isinstance(st, ast.Expr) and isinstance(st.value, ast.Call) and isinstance(st.value.func, ast.Attribute) \
                    and isinstance(st.value.func.value, ast.Name) and st.value.func.value.id == "H" and len(st.value.args) == 1:
                m, arg = st.value.func.attr, st.value.args[0]
                if m == "add_nodes_from":
                    continue
                if m == "add_edges_from" and isinstance(arg, ast.ListComp):
                    parts.append(self.listcomp(arg)); continue
                if m == "add_edge":
                    parts.append(f"[{self.elem(arg)}]"); continue
            raise TranslationError(f"statement not understood: {ast.unparse(st)[:80]}")
        if not parts:
            raise TranslationError("no edges found")
        return " ++\n  ".join(parts)


SPEC = [("src_ring_lattice", "lattice.py", "ring_lattice", ["n", "d", "k", "l"]),
        ("src_star_clique", "simple.py", "star_clique", ["n_star", "n_clique", "d_max"])]


def translate():
    out = []
    for coqname, fname, pyname, params in SPEC:
        tree = ast.parse(open(os.path.join(C.REPO, "xgi", "generators", fname)).read())
        fns = [n for n in tree.body if isinstance(n, ast.FunctionDef) and n.name == pyname]
        if len(fns) != 1 or [a.arg for a in fns[0].args.args] != params:
            raise TranslationError(f"{pyname} not found or unexpected parameters")
        term = Gen(params).function(fns[0])
        out.append(f"Definition {coqname} ({' '.join(params)} : nat) : list (list nat) :=\n  {term}.\n")
    return out


def regenerate():
    defs = translate()
    os.makedirs(GEN, exist_ok=True)
    text = ("(* GENERATED by harness/translate_gens.py from xgi/generators/lattice.py::ring_lattice and simple.py::star_clique - do not edit. *)\n"
            "From Coq Require Import List Arith.\nFrom XV Require Import Base.Label Base.LSet.\nImport ListNotations.\n\n" + "\n".join(defs))
    p = os.path.join(GEN, "SimpleGens.v")
    if not os.path.exists(p) or open(p).read() != text:
        open(p, "w").write(text)
    return defs
