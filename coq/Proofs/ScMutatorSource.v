(* C03: the three helpers through which SimplicialComplex writes its tables - _add_simplex, _add_face, _remove_simplex_id -
   regenerated from xgi/core/simplicialcomplex.py on every run (Gen/ScMutators.v), run under the semantics of Model/PyIR.v,
   are the model's insert_edge / remove_edge1. *)
From Coq Require Import String ZArith List Bool Lia.
From XV Require Import Base.Label Base.LSet Base.ODict Base.Attr Base.Outcome Model.Hypergraph Model.SimplicialComplex Model.PyIR
     Gen.ScMutators Proofs.HgViews Proofs.HgInv Proofs.HgInvOps Proofs.Combs Proofs.ScTables Proofs.ScInv Proofs.IRLemmas.
Import ListNotations.
Open Scope Z_scope.

(* _remove_simplex_id(idx) is, statement for statement, Hypergraph.remove_edge *)
Theorem sc_remove_simplex_id_is_source e s : Inv s ->
  run_method src_sc_remove_simplex_id [e] [] s = remove_edge1 e s.
Proof. exact (remove_edge_prog_ok e s). Qed.

(* _add_face(members): the id is drawn from the counter *)
Theorem sc_add_face_is_source ms s : NoDup ms -> existsb is_none ms = false ->
  run_method_f src_sc_add_face ms None [] s = ok (insert_edge (LInt (h_uid s)) ms [] (with_uid s (h_uid s + 1))).
Proof.
  intros ND Nn. unfold run_method_f, run_guarded, src_sc_add_face. cbn [run_guards].
  assert (Hms : forall x, In x ms -> is_none x = false).
  { intros x Hx. destruct (is_none x) eqn:E; [|reflexivity]. exfalso.
    assert (existsb is_none ms = true) by (apply existsb_exists; exists x; split; assumption). congruence. }
  rewrite exec_list_cons, exec_binduid. hgs.
  set (e := LInt (h_uid s)). set (s0 := with_uid s (h_uid s + 1)).
  set (en := mkEnv [] [] LNone [] LNone [] ms None e []).
  rewrite exec_list_cons, exec_setmembers. change (veval VUid en) with e. change (is_none e) with false. cbn [tab set_tab e_members en].
  rewrite exec_list_cons, exec_formembers. change (e_members en) with ms.
  change [SNewSet TNode VLoop; SNewAttr TNode VLoop] with ([] ++ [SNewSet TNode VLoop; SNewAttr TNode VLoop]).
  rewrite (nstep_loop_ok [] VUid e en (fun x => eq_refl) (fun x => eq_refl) (fun x s1 _ => eq_refl) ms _ Hms).
  rewrite exec_list_cons, exec_newattr. change (veval VUid en) with e. change (is_none e) with false. cbn [atab set_atab].
  rewrite !exec_list_nil. rewrite (insert_edge_as_nstep e ms [] s0 ND).
  rewrite fold_nstep_with_edge, h_eattr_with_edge, fold_nstep_h_eattr. reflexivity.
Qed.

(* _add_simplex(members, idx, **attr): the id has been chosen by the caller *)
Theorem sc_add_simplex_is_source ms e a s : NoDup ms -> existsb is_none ms = false -> is_none e = false ->
  run_method_f src_sc_add_simplex ms (Some e) a s = ok (insert_edge e ms a s).
Proof.
  intros ND Nn Ne. unfold run_method_f, run_guarded, src_sc_add_simplex. cbn [run_guards].
  assert (Hms : forall x, In x ms -> is_none x = false).
  { intros x Hx. destruct (is_none x) eqn:E; [|reflexivity]. exfalso.
    assert (existsb is_none ms = true) by (apply existsb_exists; exists x; split; assumption). congruence. }
  set (en := mkEnv [] [] LNone a LNone [] ms (Some e) LNone []).
  rewrite exec_list_cons, exec_newset. change (veval VIdx en) with e. rewrite Ne. cbn [tab set_tab].
  rewrite exec_list_cons, exec_formembers. change (e_members en) with ms.
  change [SIf (BIsNone VLoop) [SRaise ValueError] []; SNewSet TNode VLoop; SNewAttr TNode VLoop]
    with ([SIf (BIsNone VLoop) [SRaise ValueError] []] ++ [SNewSet TNode VLoop; SNewAttr TNode VLoop]).
  rewrite (nstep_loop_ok [SIf (BIsNone VLoop) [SRaise ValueError] []] VIdx e en (fun x => eq_refl) (fun x => eq_refl)).
  2:{ intros x s1 Nx. rewrite exec_list_cons, exec_if. cbn [beval]. change (veval VLoop (with_loop en x)) with x. rewrite Nx.
      rewrite !exec_list_nil. reflexivity. }
  2:{ exact Hms. }
  rewrite exec_list_cons, exec_setmembers. change (veval VIdx en) with e. rewrite Ne. cbn [tab set_tab e_members en].
  rewrite exec_list_cons, exec_newattr. change (veval VIdx en) with e. rewrite Ne. cbn [atab set_atab].
  rewrite exec_list_cons, exec_attrupdate. change (veval VIdx en) with e. cbn [atab set_atab h_eattr with_eattr e_attr en].
  rewrite get_set_same, set_set_same, !exec_list_nil.
  rewrite (insert_edge_as_nstep e ms a s ND).
  rewrite fold_nstep_with_edge, with_eattr_with_eattr, !h_eattr_with_edge, !h_edge_with_edge, with_edge_with_edge, set_set_same, fold_nstep_h_eattr. reflexivity.
Qed.


(* ---------- add_simplex(members, idx=None, **attr), whole ---------- *)
Lemma exec_rebind body en s :
  exec (SRebindIdxFalsy body) en s =
  let auto := match e_idx en with Some i => py_falsy i | None => true end in
  exec_list body
    (mkEnv (e_args en) (e_flags en) (e_loop en) (e_attr en) (e_loop1 en) (e_locals en) (e_members en)
           (Some (if auto then LInt (h_uid s) else match e_idx en with Some i => i | None => LNone end)) (e_uid en) (e_eattr en))
    (if auto then with_uid s (h_uid s + 1) else s).
Proof.
  cbn [exec]. cbv zeta. generalize (if match e_idx en with Some i => py_falsy i | None => true end then with_uid s (h_uid s + 1) else s).
  induction body as [|q r IH]; intro s0; [reflexivity|]. cbn [exec_list].
  destruct (exec q _ s0) as [s' [|y]]; [apply IH|reflexivity].
Qed.

Lemma exec_call body en s : exec (SCall body) en s = exec_list body en s.
Proof.
  cbn [exec]. generalize s. induction body as [|q r IH]; intro s0; [reflexivity|]. cbn [exec_list].
  destruct (exec q en s0) as [s' [|y]]; [apply IH|reflexivity].
Qed.

Lemma py_falsy_is_falsy i : py_falsy i = falsy i. Proof. reflexivity. Qed.
Lemma py_falsy_not_none i : py_falsy i = false -> is_none i = false.
Proof. destruct i; cbn; congruence. Qed.

Lemma seteqb_congr_l a a' b : seteq a a' -> seteqb a b = seteqb a' b.
Proof.
  intro H. destruct (seteqb a' b) eqn:E.
  - apply seteqb_spec. apply seteqb_spec in E. intro x. rewrite (H x). apply E.
  - destruct (seteqb a b) eqn:E'; [|reflexivity]. apply seteqb_spec in E'.
    assert (seteqb a' b = true) by (apply seteqb_spec; intro x; rewrite <- (H x); apply E'). congruence.
Qed.

Lemma has_simplex_congr s f f' : seteq f f' -> has_simplex s f = has_simplex s f'.
Proof.
  intro H. unfold has_simplex, set_eqb. induction (h_edge s) as [|kv r IH]; [reflexivity|]. cbn [existsb].
  rewrite IH, (seteqb_congr_l f f' (snd kv) H). reflexivity.
Qed.

Lemma order_by_nil_iff nh f : order_by nh f = [] <-> f = [].
Proof.
  split.
  - intro H. destruct f as [|x r]; [reflexivity|]. exfalso.
    assert (I : In x (order_by nh (x :: r))) by (apply order_by_seteq; left; reflexivity). rewrite H in I. exact I.
  - intros ->. unfold order_by. cbn [filter app]. rewrite app_nil_r.
    induction nh as [|y nh IH]; [reflexivity|]. cbn [filter mem]. exact IH.
Qed.

Lemma NoDup_app_disjoint_intro (a b : list lbl) : NoDup a -> NoDup b -> (forall x, In x a -> In x b -> False) -> NoDup (a ++ b).
Proof.
  intros Ha Hb D. induction Ha as [|x a Nx Ha IH]; [exact Hb|]. cbn [app]. constructor.
  - rewrite in_app_iff. intros [H|H]; [contradiction|]. apply (D x); [left; reflexivity|exact H].
  - apply IH. intros y Hy. apply D. right. exact Hy.
Qed.

Lemma order_by_NoDup nh f : NoDup nh -> NoDup f -> NoDup (order_by nh f).
Proof.
  intros Hn Hf. unfold order_by. apply NoDup_app_disjoint_intro; [apply NoDup_filter; exact Hn|apply NoDup_filter; exact Hf|].
  intros x H1 H2. apply filter_In in H1. apply filter_In in H2. destruct H1 as [H1 _]. destruct H2 as [_ H2].
  apply negb_true_iff, mem_nIn in H2. contradiction.
Qed.

(* the faces the loop visits: no repeats inside a face, no None *)
Definition GoodFace (ms f : list lbl) : Prop := NoDup f /\ (forall x, In x f -> In x ms).

Lemma order_faces_good ms hint : NoDup ms -> Forall (@NoDup lbl) hint ->
  forall f, In f (order_faces (subfaces ms) hint) -> GoodFace ms f.
Proof.
  intros ND Hh f Hf. split.
  - unfold order_faces in Hf. apply in_app_iff in Hf. destruct Hf as [Hf|Hf]; apply filter_In in Hf; destruct Hf as [Hf _].
    + apply dedup_sets_sub in Hf. rewrite Forall_forall in Hh. apply Hh. exact Hf.
    + apply dedup_sets_sub in Hf. unfold subfaces in Hf. apply in_flat_map in Hf. destruct Hf as (k & _ & Hk).
      eapply combs_NoDup; eassumption.
  - destruct (order_faces_sound _ _ _ Hf) as (g & Hg & Hs). intros x Hx. apply (proj1 (subfaces_sound ms g Hg)). apply Hs. exact Hx.
Qed.

Lemma face_loop_ok ms nh : NoDup nh -> existsb is_none ms = false ->
  forall faces s, (forall f, In f faces -> GoodFace ms f) ->
  loop (fun s f => run_guarded src_sc_face_guards src_sc_face_item (mkEnv [] [] LNone [] LNone [] f None LNone []) s)
       (map (order_by nh) faces) s
  = ok (fold_left (add_face nh) faces s).
Proof.
  intros Hn Nn. induction faces as [|f r IH]; intros s Hg; [reflexivity|]. cbn [map loop fold_left].
  assert (G : GoodFace ms f) by (apply Hg; left; reflexivity). destruct G as [Gd Gs].
  assert (Step : run_guarded src_sc_face_guards src_sc_face_item (mkEnv [] [] LNone [] LNone [] (order_by nh f) None LNone []) s
                 = ok (add_face nh s f)).
  { unfold run_guarded, src_sc_face_guards, src_sc_face_item. cbn [run_guards beval e_members].
    change (existsb (fun kv => seteqb (order_by nh f) (snd kv)) (h_edge s)) with (has_simplex s (order_by nh f)).
    rewrite (has_simplex_congr s _ f (order_by_seteq nh f)).
    destruct (order_by nh f) as [|x o] eqn:Eo.
    - apply order_by_nil_iff in Eo. subst f. reflexivity.
    - assert (Ef : f <> []) by (intro Z; apply (proj2 (order_by_nil_iff nh f)) in Z; congruence).
      unfold add_face. destruct f as [|y f']; [congruence|]. destruct (has_simplex s (y :: f')); [reflexivity|].
      rewrite exec_list_cons, exec_call.
      assert (Hsrc := sc_add_face_is_source (x :: o) s). unfold run_method_f, run_guarded in Hsrc. cbn [run_guards] in Hsrc.
      rewrite <- Eo in *.
      assert (ND' : NoDup (order_by nh (y :: f'))) by (apply order_by_NoDup; assumption).
      assert (Nn' : existsb is_none (order_by nh (y :: f')) = false).
      { destruct (existsb is_none (order_by nh (y :: f'))) eqn:E; [|reflexivity]. exfalso.
        apply existsb_exists in E. destruct E as (z & Hz & Nz). apply order_by_seteq in Hz. apply Gs in Hz.
        assert (existsb is_none ms = true) by (apply existsb_exists; exists z; split; assumption). congruence. }
      specialize (Hsrc ND' Nn').
      destruct (exec_list src_sc_add_face _ s) as [s' o'] eqn:Ex. unfold ok in Hsrc. injection Hsrc as -> ->.
      rewrite exec_list_nil. reflexivity. }
  rewrite Step. unfold ok at 1. rewrite IH; [reflexivity|]. intros g Hg'. apply Hg. right. exact Hg'.
Qed.

Theorem sc_add_simplex_full_is_source ms idx a hint s :
  NoDup (snd hint) -> Forall (@NoDup lbl) (fst hint) -> has LNone (h_edge s) = false ->
  run_add_simplex src_sc_add_simplex_guards src_sc_add_simplex_head src_sc_face_guards src_sc_face_item ms idx a
                  (map (order_by (snd hint)) (order_faces (subfaces (mkset ms)) (fst hint))) s
  = add_simplex ms idx a hint s.
Proof.
  intros Hn Hh NoNe. unfold run_add_simplex, add_simplex, src_sc_add_simplex_guards. cbn [run_guards beval e_members e_idx tab].
  destruct (existsb is_none (mkset ms)) eqn:Nn; [reflexivity|].
  change (existsb (fun kv => seteqb (mkset ms) (snd kv)) (h_edge s)) with (has_simplex s (mkset ms)).
  destruct (match mkset ms with [] => true | _ => false end); cbn [orb]; [reflexivity|].
  destruct (has_simplex s (mkset ms)) eqn:G2; [reflexivity|].
  assert (G3 : has (match idx with Some i => i | None => LNone end) (h_edge s) = (match idx with Some i => has i (h_edge s) | None => false end))
    by (destruct idx; [reflexivity|exact NoNe]).
  rewrite G3. destruct (match idx with Some i => has i (h_edge s) | None => false end) eqn:G3'; [reflexivity|].
  unfold src_sc_add_simplex_head. rewrite exec_list_cons, exec_rebind. cbv zeta. cbn [e_args e_flags e_loop e_attr e_loop1 e_locals e_members e_idx e_uid e_eattr].
  set (auto := match idx with Some i => py_falsy i | None => true end).
  change (match idx with Some i => falsy i | None => true end) with auto.
  set (e := if auto then LInt (h_uid s) else match idx with Some i => i | None => LNone end).
  set (s0 := if auto then with_uid s (h_uid s + 1) else s).
  assert (Ne : is_none e = false).
  { unfold e, auto. destruct idx as [i|]; [|reflexivity]. destruct (py_falsy i) eqn:F; [reflexivity|]. apply py_falsy_not_none. exact F. }
  rewrite exec_list_cons, exec_call.
  assert (Hsrc := sc_add_simplex_is_source (mkset ms) e a s0 (NoDup_mkset ms) Nn Ne).
  unfold run_method_f, run_guarded in Hsrc. cbn [run_guards] in Hsrc.
  destruct (exec_list src_sc_add_simplex _ s0) as [s' o'] eqn:Ex. unfold ok in Hsrc. injection Hsrc as -> ->.
  rewrite exec_list_cons, exec_uid. cbn [veval e_idx]. rewrite !exec_list_nil.
  unfold add_faces.
  apply (face_loop_ok (mkset ms) (snd hint) Hn Nn).
  apply order_faces_good; [apply NoDup_mkset|exact Hh].
Qed.

(* ---------- remove_simplex_id(idx), the public method ---------- *)
Lemma exec_callarg body k en s :
  exec (SCallArg body k) en s = exec_list body (mkEnv [veval k en] [] LNone [] LNone [] [] None LNone []) s.
Proof.
  cbn [exec]. cbv zeta. generalize s. induction body as [|q r IH]; intro s0; [reflexivity|]. cbn [exec_list].
  destruct (exec q _ s0) as [s' [|y]]; [apply IH|reflexivity].
Qed.

Lemma callee_present e s : Inv s -> has e (h_edge s) = true ->
  exec_list src_sc_remove_simplex_id (mkEnv [e] [] LNone [] LNone [] [] None LNone []) s = (st_of (remove_edge1 e s), Ok).
Proof.
  intros I H. pose proof (sc_remove_simplex_id_is_source e s I) as R. unfold run_method, run_method_a in R.
  destruct (exec_list src_sc_remove_simplex_id _ s) as [s' o']. rewrite <- R. cbn [st_of fst].
  unfold remove_edge1 in R. unfold has in H. destruct (get e (h_edge s)); [|discriminate]. unfold ok in R. injection R as _ ->. reflexivity.
Qed.

Lemma sup_loop_ok en : forall es s, Inv s -> NoDup es -> (forall e, In e es -> has e (h_edge s) = true) ->
  iter_list [SCallArg src_sc_remove_simplex_id VLoop] en es s
  = (fold_left (fun s e => st_of (remove_edge1 e s)) es s, Ok).
Proof.
  induction es as [|e es IH]; intros s I ND P; [reflexivity|]. cbn [iter_list fold_left].
  rewrite exec_list_cons, exec_callarg. change (veval VLoop (with_loop en e)) with e.
  rewrite (callee_present e s I (P e (or_introl eq_refl))), exec_list_nil.
  apply NoDup_cons_iff in ND. destruct ND as [Ne ND].
  apply IH; [apply Inv_remove_edge1; exact I|exact ND|].
  intros e' He'. unfold has. rewrite remove_edge1_get. destruct (lbl_eqb_spec e' e) as [->|N]; [contradiction|].
  apply (P e'). right. exact He'.
Qed.

Lemma NoDup_map_fst_filter {V} (f : lbl * V -> bool) (d : list (lbl * V)) : NoDup (map fst d) -> NoDup (map fst (filter f d)).
Proof.
  induction d as [|kv r IH]; cbn [map filter]; intro ND; [constructor|]. apply NoDup_cons_iff in ND. destruct ND as [Nk ND].
  destruct (f kv); [|apply IH; exact ND]. cbn [map]. constructor; [|apply IH; exact ND].
  intro H. apply Nk. apply in_map_iff in H. destruct H as (x & E & Hx). apply filter_In in Hx. apply in_map_iff. exists x. tauto.
Qed.

Theorem sc_remove_simplex_id_public_is_source idx s : Inv s ->
  run_remove_simplex_id src_sc_remove_simplex_id_public idx
     (match get idx (h_edge s) with Some ms => supfaces_id s ms | None => [] end) s
  = remove_simplex_id idx s.
Proof.
  intro I. unfold run_remove_simplex_id, remove_simplex_id. destruct (get idx (h_edge s)) as [ms|] eqn:G; [|reflexivity].
  assert (K : NoDup (keys (h_edge s))) by (destruct I as (_ & (_ & _ & _ & K4) & _); exact K4).
  unfold src_sc_remove_simplex_id_public.
  set (en := mkEnv [idx] [] LNone [] LNone [supfaces_id s ms] [] None LNone []).
  rewrite exec_list_cons, exec_forlocal. change (nth 0 (e_locals en) []) with (supfaces_id s ms).
  assert (P : forall e, In e (supfaces_id s ms) -> exists m, In (e, m) (h_edge s) /\ strict_sub ms m = true).
  { intros e He. unfold supfaces_id in He. apply in_map_iff in He. destruct He as ([e' m] & E & Hx). cbn in E. subst e'.
    apply filter_In in Hx. exists m. exact Hx. }
  rewrite sup_loop_ok; [|exact I|apply NoDup_map_fst_filter; exact K|].
  2:{ intros e He. destruct (P e He) as (m & Hm & _). apply has_In. apply in_map_iff. exists (e, m). split; [reflexivity|exact Hm]. }
  set (s1 := fold_left (fun s e => st_of (remove_edge1 e s)) (supfaces_id s ms) s).
  rewrite exec_list_cons, exec_callarg. change (veval (VArg 0) en) with idx.
  assert (Nin : mem idx (supfaces_id s ms) = false).
  { apply mem_nIn. intro H. destruct (P idx H) as (m & Hm & Hs). rewrite (In_get idx (h_edge s) m K Hm) in G. injection G as ->.
    unfold strict_sub in Hs. apply andb_true_iff in Hs. destruct Hs as [A B]. rewrite A in B. discriminate. }
  rewrite callee_present; [rewrite exec_list_nil; reflexivity|apply fold_remove_edge1_Inv; exact I|].
  unfold has, s1. rewrite fold_remove_edge1_get, Nin, G. reflexivity.
Qed.

(* ---------- remove_simplex_ids_from(ebunch) ---------- *)
Lemma Inv_remove_simplex_id idx s : Inv s -> Inv (st_of (remove_simplex_id idx s)).
Proof.
  intro I. unfold remove_simplex_id. destruct (get idx (h_edge s)) as [ms|]; [|exact I].
  rewrite st_of_ok. apply Inv_remove_edge1. apply fold_remove_edge1_Inv. exact I.
Qed.

Definition model_supf (s : hg) (idx : lbl) : list lbl :=
  match get idx (h_edge s) with Some ms => supfaces_id s ms | None => [] end.

Lemma remove_ids_loop_ok al : forall ids s, Inv s ->
  loop (fun s idx => match run_guards src_sc_remove_ids_guards (mkEnv [idx] [] LNone [] LNone [al] [] None LNone []) s with
                     | Some r => r
                     | None => run_remove_simplex_id src_sc_remove_simplex_id_public idx (model_supf s idx) s
                     end) ids s
  = loop (fun s idx => if mem idx al && negb (has idx (h_edge s)) then ok s else remove_simplex_id idx s) ids s.
Proof.
  induction ids as [|idx ids IH]; intros s I; [reflexivity|]. cbn [loop].
  assert (Step : match run_guards src_sc_remove_ids_guards (mkEnv [idx] [] LNone [] LNone [al] [] None LNone []) s with
                 | Some r => r
                 | None => run_remove_simplex_id src_sc_remove_simplex_id_public idx (model_supf s idx) s
                 end = (if mem idx al && negb (has idx (h_edge s)) then ok s else remove_simplex_id idx s)).
  { unfold src_sc_remove_ids_guards. cbn [run_guards beval veval e_args e_locals nth tab].
    destruct (mem idx al); cbn [andb].
    - destruct (has idx (h_edge s)); cbn [negb]; [|reflexivity].
      apply (sc_remove_simplex_id_public_is_source idx s I).
    - apply (sc_remove_simplex_id_public_is_source idx s I). }
  rewrite Step.
  assert (I' : Inv (st_of (if mem idx al && negb (has idx (h_edge s)) then ok s else remove_simplex_id idx s))).
  { destruct (mem idx al && negb (has idx (h_edge s))); [exact I|apply Inv_remove_simplex_id; exact I]. }
  destruct (if mem idx al && negb (has idx (h_edge s)) then ok s else remove_simplex_id idx s) as [[s1 o1] w1].
  cbn [st_of fst] in I'. destruct o1; [|reflexivity]. rewrite (IH s1 I'). reflexivity.
Qed.

Theorem sc_remove_simplex_ids_from_is_source ids s : Inv s ->
  run_remove_simplex_ids_from src_sc_remove_ids_guards src_sc_remove_simplex_id_public model_supf ids s
  = remove_simplex_ids_from ids s.
Proof. intro I. unfold run_remove_simplex_ids_from, remove_simplex_ids_from. apply remove_ids_loop_ok. exact I. Qed.
