"""C15 - simpliciality measures match their combinatorial definitions."""
import math, os, random, warnings
from fractions import Fraction
from itertools import combinations
from .. import common as C, histcheck as HC, gallina as G, hgsim
from . import base

PROP = "C15"
IMPORTS = "Base.Label Base.Attr Base.Outcome Model.Hypergraph Model.Simpliciality"


def gq(x):
    if x is None or (isinstance(x, float) and math.isnan(x)):
        return "None"
    f = Fraction(x).limit_denominator(10 ** 7)
    return f"(Some ({f.numerator} # {f.denominator})%Q)"


def brute(H, min_size, excl):
    """exhaustive enumeration straight from the definitions (hypergraph without repeated edges)"""
    E = [frozenset(m) for m in H.edges.members()]
    Eset = set(E)
    elig = min_size + (1 if excl else 0)
    maximal = [e for e in Eset if not any(e < f for f in Eset) and len(e) >= elig]
    missing = set()
    for e in maximal:
        for k in range(min_size, len(e)):
            for x in combinations(sorted(e, key=repr), k):
                if frozenset(x) not in Eset:
                    missing.add(frozenset(x))
    cand = [e for e in E if len(e) >= elig]
    simp = [e for e in cand if all(frozenset(x) in Eset for k in range(min_size, len(e) + 1) for x in combinations(sorted(e, key=repr), k))]
    frac = Fraction(len(simp), len(cand)) if cand else None
    if maximal:
        acc = Fraction(0)
        for e in maximal:
            sub = [frozenset(x) for k in range(min_size, len(e)) for x in combinations(sorted(e, key=repr), k)]
            d = sum(1 for x in sub if x not in Eset)
            acc += (Fraction(d, len(sub)) if sub else Fraction(0)) / len(maximal)
        mfed = acc
    else:
        mfed = Fraction(0)
    return len(missing), frac, mfed, bool(maximal)


def closed(H):
    Eset = {frozenset(m) for m in H.edges.members()}
    return all(frozenset(x) in Eset for e in Eset for k in range(1, len(e)) for x in combinations(sorted(e, key=repr), k))


def oracle(H):
    import xgi
    ms = [frozenset(m) for m in H.edges.members()]
    norepeat = len(set(ms)) == len(ms)
    for min_size in (1, 2, 3):
        for excl in (True, False):
            with warnings.catch_warnings():
                warnings.simplefilter("ignore")
                sed = xgi.simplicial_edit_distance(H, min_size=min_size, exclude_min_size=excl, normalize=False)
                es = xgi.edit_simpliciality(H, min_size=min_size, exclude_min_size=excl)
                fr = xgi.simplicial_fraction(H, min_size=min_size, exclude_min_size=excl)
                mf = xgi.mean_face_edit_distance(H, min_size=min_size, exclude_min_size=excl)
                fs = xgi.face_edit_simpliciality(H, min_size=min_size, exclude_min_size=excl)
            for name, val in (("edit_simpliciality", es), ("simplicial_fraction", fr), ("face_edit_simpliciality", fs)):
                if not (isinstance(val, float) and math.isnan(val)) and not (-1e-12 <= val <= 1 + 1e-12):
                    return f"{name}(min_size={min_size}, exclude_min_size={excl}) = {val} is outside [0, 1]"
            if norepeat:
                bm, bf, bmf, has_max = brute(H, min_size, excl)
                if has_max and not (isinstance(sed, float) and math.isnan(sed)) and sed != bm:
                    return f"simplicial_edit_distance(min_size={min_size}, exclude_min_size={excl}) = {sed}, {bm} node sets are missing"
                if bf is not None and abs(fr - float(bf)) > 1e-9:
                    return f"simplicial_fraction(min_size={min_size}, exclude_min_size={excl}) = {fr}, definition gives {bf}"
                if has_max and abs(mf - float(bmf)) > 1e-9:
                    return f"mean_face_edit_distance(min_size={min_size}, exclude_min_size={excl}) = {mf}, definition gives {bmf}"
                if min_size == 1 and closed(H):
                    for name, val in (("edit_simpliciality", es), ("simplicial_fraction", fr), ("face_edit_simpliciality", fs)):
                        if not (isinstance(val, float) and math.isnan(val)) and abs(val - 1) > 1e-9:
                            return f"{name} = {val} on a downward-closed hypergraph"
    return None


def build(rng):
    """small hypergraphs, many of them nearly closed, orderable labels"""
    import xgi
    n = rng.randint(2, 6)
    nodes = list(range(n)) if rng.random() < 0.7 else list("abcdef")[:n]
    H = xgi.Hypergraph()
    ops = []
    for _ in range(rng.randint(1, 4)):
        e = rng.sample(nodes, rng.randint(1, min(4, n)))
        ops.append(("add_edge", e, None, {}))
        if rng.random() < 0.6:
            for k in range(1, len(e)):
                for x in combinations(e, k):
                    if rng.random() < 0.75:
                        ops.append(("add_edge", list(x), None, {}))
    # drop repeated member sets most of the time
    seen, out = set(), []
    for op in ops:
        fs = frozenset(op[1])
        if fs in seen and rng.random() < 0.9:
            continue
        seen.add(fs); out.append(op)
    return out


def run(v):
    import xgi
    proof = base.proof_stage(v, PROP)
    n = 2000 if C.tier() == "thorough" else 220
    rng = random.Random(C.seed() * 151 + 15)
    failures, reports, errors, terms = [], [], [], []
    nq = 0
    hists = []
    for i in range(n):
        ops = build(rng)
        r = hgsim.run_history(ops)
        H = r["net"]
        hists.append(r)
        try:
            d = oracle(H)
        except Exception as e:  # noqa: BLE001
            d = f"raised {type(e).__name__}: {e}"
        if d:
            failures.append((f"{PROP}:{' '.join(d.split('(')[0].split(' ')[:2])}", {"what": d, "history": HC.jsonable(ops)}))
        qs = []
        for _ in range(5):
            which = rng.choice(["MSed", "MSed", "MMfed", "MFrac"])
            ms_ = rng.randint(1, 3); ex = rng.random() < 0.5; nm = rng.random() < 0.6
            with warnings.catch_warnings():
                warnings.simplefilter("ignore")
                if which == "MSed":
                    val = xgi.simplicial_edit_distance(H, min_size=ms_, exclude_min_size=ex, normalize=nm)
                elif which == "MMfed":
                    val = xgi.mean_face_edit_distance(H, min_size=ms_, exclude_min_size=ex, normalize=nm)
                else:
                    val = xgi.simplicial_fraction(H, min_size=ms_, exclude_min_size=ex)
            qs.append(G.gpair(which, G.gnat(ms_), G.gbool(ex), G.gbool(nm), gq(val)))
            nq += 1
        opsg = G.glist([hgsim.op_to_gallina(op, ex_) for op, ex_ in zip(r["ops"], r["extras"])])
        terms.append((i, G.gpair(opsg, G.glist(qs))))
    cdir = C.cases_dir(PROP)
    files = {}
    for k in range(0, len(terms), 60):
        chunk = terms[k:k + 60]
        path = os.path.join(cdir, f"cases_{PROP}_{k // 60}.v")
        with open(path, "w") as f:
            f.write("From Coq Require Import String ZArith QArith List Bool.\nFrom XV Require Import " + IMPORTS +
                    ".\nImport ListNotations.\nOpen Scope Z_scope.\nDefinition cases := [\n" + ";\n".join(t for _, t in chunk) +
                    "\n].\nEval vm_compute in (simp_bad cases).\n")
        files[path] = [i for i, _ in chunk]
    res = C.run_coq_files(files.keys())
    for path, idxs in files.items():
        rc, out = res[path]
        pairs = C.parse_pairs(out) if rc == 0 else None
        if pairs is None:
            errors.append({"file": os.path.basename(path), "rc": rc, "output": out[-1500:]})
            continue
        for ci, qi in pairs[:4]:
            reports.append({"correspondence": "Model.Simpliciality.simp_bad", "query_index": qi,
                            "history": HC.jsonable(hists[idxs[ci]]["ops"])})
    C.clean_cases(cdir)
    v.coverage.update({
        "evaluations": nq,
        "distinct_nontrivial": len({C.case_hash(h["ops"]) for h in hists if len(h["ops"]) > 1}),
        "rule": "small hypergraphs (<= 6 orderable nodes, mostly without repeated edges, many nearly downward closed); "
                "each of the three measures with min_size 1..3, both exclude_min_size and normalize values compared with "
                "the model as exact rationals; oracle: exhaustive enumeration of the definitions, ranges, value 1 on "
                "closed hypergraphs; non-trivial = more than one edge",
        "samples": [HC.jsonable(hists[0]["ops"][:5])],
        "oracle_evaluations": n * 6,
        "exhaustive": False,
    })
    base.conclude(v, proof, reports, failures, errors)


def replay(payload):
    d = payload.get("detail", payload)
    ops = HC.unjson(d["history"])
    r = hgsim.run_history(ops)
    dsc = oracle(r["net"])
    print("oracle:", dsc or "holds")
    return 1 if dsc else 0
