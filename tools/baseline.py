#!/usr/bin/env python3
"""Run /repo's pinned test suite (guard off) and compare with BASELINE.json's stable_pass list."""
import json, os, subprocess, sys, tempfile, xml.etree.ElementTree as ET
base = json.load(open('/root/.vp/BASELINE.json'))
fd, junit = tempfile.mkstemp(suffix='.xml'); os.close(fd)
env = dict(os.environ); env.pop('XGI_VERIF', None)
REPO = os.environ.get('XGI_REPO', '/repo')
cmd = base['cmd'].replace('<file>', junit).replace('cd /repo', f'cd {REPO}')
env['PYTHONPATH'] = REPO
subprocess.run(cmd, shell=True, env=env, stdout=subprocess.DEVNULL, stderr=subprocess.DEVNULL)
passed = set()
for tc in ET.parse(junit).getroot().iter('testcase'):
    ok = not any(ch.tag in ('failure', 'error', 'skipped') for ch in tc)
    if ok:
        passed.add(f"{tc.get('classname')}::{tc.get('name')}")
os.unlink(junit)
missing = [t for t in base['stable_pass'] if t not in passed]
# a test that fails in the full run is retried on its own (the suite has a flaky drawing test whose
# outcome depends on uninitialised axis limits in matplotlib's 3-D axes)
still = []
for t in missing:
    mod, name = t.split('::', 1)
    ok = False
    if mod.startswith('tests.'):
        # first in the context of its module (the flaky drawing test passes there), then alone
        path = mod.replace('.', '/') + '.py::' + name
        mpath = mod.replace('.', '/') + '.py'
        r = subprocess.run(f"cd {REPO} && /venv/bin/python -m pytest -q -p no:cacheprovider '{mpath}'", shell=True,
                           env=env, stdout=subprocess.DEVNULL, stderr=subprocess.DEVNULL)
        if r.returncode == 0:
            continue
        for _ in range(4):
            r = subprocess.run(f"cd {REPO} && /venv/bin/python -m pytest -q -p no:cacheprovider '{path}'", shell=True,
                               env=env, stdout=subprocess.DEVNULL, stderr=subprocess.DEVNULL)
            if r.returncode == 0:
                ok = True
                break
    else:
        # doctest item: rerun the module's doctests
        path = mod.replace('.', '/') + '.py'
        for _ in range(4):
            r = subprocess.run(f"cd {REPO} && /venv/bin/python -m pytest -q -p no:cacheprovider --doctest-modules '{path}'", shell=True,
                               env=env, stdout=subprocess.DEVNULL, stderr=subprocess.DEVNULL)
            if r.returncode == 0:
                ok = True
                break
    if not ok:
        still.append(t)
if missing:
    print(f"retried {len(missing)} tests individually; still failing: {len(still)}")
missing = still
print(f"stable_pass={len(base['stable_pass'])} passed_now={len(passed)} missing={len(missing)}")
for t in missing[:40]:
    print("  MISSING", t)
sys.exit(1 if missing else 0)
