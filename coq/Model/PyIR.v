(* A small imperative language for the bodies of the simplest mutators of xgi/core/hypergraph.py, and its
   semantics on the model state.  harness/translate_mutators.py regenerates the programs (Gen/Mutators.v) from the
   source on every run; Proofs/MutatorSource.v proves that running them is what the hand-written model does.

   The semantics is that of the Python objects involved:
     self._T[k]            IDDict.__getitem__: a missing key raises IDNotFound
     self._T[k] = set()    IDDict.__setitem__: the key None raises XGIError("None cannot be a node or edge")
     del self._T[k]        IDDict.__delitem__: a missing key raises IDNotFound
     s.add(x) / s.remove(x)  on the stored set; remove of a missing element raises KeyError
     for x in self._T[k].copy()   iterates a snapshot of the set
     update_uid_counter(self, k)  Hypergraph.bump_uid (tied to the source by C04_source_counter_is_model) *)
From Coq Require Import String ZArith List Bool.
From XV Require Import Base.Label Base.LSet Base.ODict Base.Attr Base.Outcome Model.Hypergraph.
Import ListNotations.

Inductive table := TNode | TEdge.                    (* _node / _edge (sets) ; their attribute dicts go along *)
Inductive vexp := VArg (i : nat) | VLoop | VLoop1.  (* the i-th label parameter, the innermost loop variable, the enclosing one *)
Inductive bexp :=
| BIn (k : vexp) (t : table)                         (* k in self._T *)
| BMember (x k : vexp) (t : table)                   (* x in self._T[k] *)
| BEmptySet (k : vexp) (t : table)                   (* not self._T[k] *)
| BFlag (i : nat)                                    (* the i-th boolean parameter *)
| BNot (b : bexp) | BAnd (a b : bexp).
Inductive stmt :=
| SIf (c : bexp) (th el : list stmt)
| SRaise (e : exc)
| SNewSet (t : table) (k : vexp)                     (* self._T[k] = set() *)
| SNewAttr (t : table) (k : vexp)                    (* self._T_attr[k] = {} *)
| SAdd (t : table) (k x : vexp)                      (* self._T[k].add(x) *)
| SRemove (t : table) (k x : vexp)                   (* self._T[k].remove(x) *)
| SDel (t : table) (k : vexp)                        (* del self._T[k] *)
| SDelAttr (t : table) (k : vexp)                    (* del self._T_attr[k] *)
| SUid (k : vexp)                                    (* update_uid_counter(self, k) *)
| SAttrUpdate (t : table) (k : vexp)                 (* self._T_attr[k].update(attr), attr = the **attr of the call *)
| SForCopy (t : table) (k : vexp) (body : list stmt)  (* for <loop> in self._T[k].copy(): body *)
| SBindIn (t : table) (k : vexp) (body : list stmt)   (* x = self._T[k] (a reference to the stored set, not mutated afterwards); body = the rest of the block *)
| SForLocal (i : nat) (minus : option vexp) (body : list stmt). (* for <loop> in <i-th bound set>[.difference({minus})]: body *)

Record env := mkEnv { e_args : list lbl; e_flags : list bool; e_loop : lbl; e_attr : attrs; e_loop1 : lbl; e_locals : list (list lbl) }.
Definition veval (v : vexp) (en : env) : lbl :=
  match v with VArg i => nth i (e_args en) LNone | VLoop => e_loop en | VLoop1 => e_loop1 en end.
Definition tab (t : table) (s : hg) : odict (list lbl) := match t with TNode => h_node s | TEdge => h_edge s end.
Definition set_tab (t : table) (s : hg) (d : odict (list lbl)) : hg := match t with TNode => with_node s d | TEdge => with_edge s d end.
Definition atab (t : table) (s : hg) : odict attrs := match t with TNode => h_nattr s | TEdge => h_eattr s end.
Definition set_atab (t : table) (s : hg) (d : odict attrs) : hg := match t with TNode => with_nattr s d | TEdge => with_eattr s d end.

(* boolean expressions can raise (IDNotFound from a lookup) *)
Fixpoint beval (b : bexp) (en : env) (s : hg) : bool + exc :=
  match b with
  | BIn k t => inl (has (veval k en) (tab t s))
  | BMember x k t => match get (veval k en) (tab t s) with Some m => inl (mem (veval x en) m) | None => inr IDNotFound end
  | BEmptySet k t => match get (veval k en) (tab t s) with Some [] => inl true | Some _ => inl false | None => inr IDNotFound end
  | BFlag i => inl (nth i (e_flags en) false)
  | BNot c => match beval c en s with inl v => inl (negb v) | inr e => inr e end
  | BAnd a c => match beval a en s with
                | inl false => inl false
                | inl true => beval c en s
                | inr e => inr e
                end
  end.

(* statements: state and outcome; fuel-free structural recursion through a mutual fixpoint on lists *)
Fixpoint exec (p : stmt) (en : env) (s : hg) {struct p} : hg * outcome :=
  match p with
  | SIf c th el =>
      match beval c en s with
      | inr e => (s, Raised e)
      | inl true => (fix go (l : list stmt) (s : hg) : hg * outcome :=
                       match l with [] => (s, Ok) | q :: r => match exec q en s with (s', Ok) => go r s' | x => x end end) th s
      | inl false => (fix go (l : list stmt) (s : hg) : hg * outcome :=
                       match l with [] => (s, Ok) | q :: r => match exec q en s with (s', Ok) => go r s' | x => x end end) el s
      end
  | SRaise e => (s, Raised e)
  | SNewSet t k => if is_none (veval k en) then (s, Raised XGIError)
                   else (set_tab t s (set (veval k en) [] (tab t s)), Ok)
  | SNewAttr t k => if is_none (veval k en) then (s, Raised XGIError)
                    else (set_atab t s (set (veval k en) [] (atab t s)), Ok)
  | SAdd t k x => match get (veval k en) (tab t s) with
                  | Some m => (set_tab t s (set (veval k en) (sadd (veval x en) m) (tab t s)), Ok)
                  | None => (s, Raised IDNotFound)
                  end
  | SRemove t k x => match get (veval k en) (tab t s) with
                     | Some m => if mem (veval x en) m
                                 then (set_tab t s (set (veval k en) (sremove (veval x en) m) (tab t s)), Ok)
                                 else (s, Raised KeyError)
                     | None => (s, Raised IDNotFound)
                     end
  | SDel t k => if has (veval k en) (tab t s) then (set_tab t s (del (veval k en) (tab t s)), Ok) else (s, Raised IDNotFound)
  | SDelAttr t k => if has (veval k en) (atab t s) then (set_atab t s (del (veval k en) (atab t s)), Ok) else (s, Raised IDNotFound)
  | SUid k => (bump_uid (veval k en) s, Ok)
  | SAttrUpdate t k => match get (veval k en) (atab t s) with
                       | Some d => (set_atab t s (set (veval k en) (aupdate d (e_attr en)) (atab t s)), Ok)
                       | None => (s, Raised IDNotFound)
                       end
  | SForCopy t k body =>
      match get (veval k en) (tab t s) with
      | None => (s, Raised IDNotFound)
      | Some m =>
          (fix iter (xs : list lbl) (s : hg) : hg * outcome :=
             match xs with
             | [] => (s, Ok)
             | x :: r =>
                 match (fix go (l : list stmt) (s : hg) : hg * outcome :=
                          match l with [] => (s, Ok)
                          | q :: r' => match exec q (mkEnv (e_args en) (e_flags en) x (e_attr en) (e_loop en) (e_locals en)) s with (s', Ok) => go r' s' | y => y end end) body s with
                 | (s', Ok) => iter r s'
                 | y => y
                 end
             end) m s
      end
  | SBindIn t k body =>
      match get (veval k en) (tab t s) with
      | None => (s, Raised IDNotFound)
      | Some m =>
          (fix go (l : list stmt) (s : hg) : hg * outcome :=
             match l with [] => (s, Ok)
             | q :: r => match exec q (mkEnv (e_args en) (e_flags en) (e_loop en) (e_attr en) (e_loop1 en) (m :: e_locals en)) s with
                         | (s', Ok) => go r s' | y => y end end) body s
      end
  | SForLocal i minus body =>
      (fix iter (xs : list lbl) (s : hg) : hg * outcome :=
         match xs with
         | [] => (s, Ok)
         | x :: r =>
             match (fix go (l : list stmt) (s : hg) : hg * outcome :=
                      match l with [] => (s, Ok)
                      | q :: r' => match exec q (mkEnv (e_args en) (e_flags en) x (e_attr en) (e_loop en) (e_locals en)) s with
                                   | (s', Ok) => go r' s' | y => y end end) body s with
             | (s', Ok) => iter r s'
             | y => y
             end
         end) (match minus with Some v => sremove (veval v en) (nth i (e_locals en) []) | None => nth i (e_locals en) [] end) s
  end.

Fixpoint exec_list (l : list stmt) (en : env) (s : hg) : hg * outcome :=
  match l with [] => (s, Ok) | q :: r => match exec q en s with (s', Ok) => exec_list r en s' | x => x end end.

Definition run_method_a (body : list stmt) (args : list lbl) (flags : list bool) (a : attrs) (s : hg) : res :=
  match exec_list body (mkEnv args flags LNone a LNone []) s with (s', o) => (s', o, O) end.
Definition run_method (body : list stmt) (args : list lbl) (flags : list bool) (s : hg) : res :=
  run_method_a body args flags [] s.
