(* C19 - derived networks (theorems are added from Proofs/DerivedProofs.v). *)
From Coq Require Import String ZArith List Bool.
From XV Require Import Base.Label Base.LSet Base.ODict Base.Attr Base.Outcome Model.Hypergraph
  Model.HgCheck Model.Copy Model.Derived Proofs.HgViews Proofs.HgInv Proofs.HgStep Proofs.Build Proofs.DerivedProofs
  Proofs.NoNoneProofs Proofs.DualProofs Proofs.UnionProofs Proofs.ComplementProofs Proofs.MaxSimplicesProofs
  Model.Stats Model.Graph Proofs.GraphProofs Proofs.LccProofs Proofs.HgErrors Proofs.RelabelProofs Proofs.CleanupProofs Proofs.CutProofs Proofs.LccInduced.
Import ListNotations.
Open Scope Z_scope.

(* subhypergraph keeps precisely the requested edges that lie inside the requested nodes, with
   their members and attributes, over exactly the requested nodes (keep_isolates = True) *)
Theorem C19_subhypergraph_exact : forall nodes edges s, Inv s -> NoNone s ->
  let r := subhypergraph nodes edges true s in
  let t := st_of r in
  let nset := sub_nset nodes s in
  let kept := filter (fun e => ssubset (mems s e) nset) (sub_eset edges s) in
  Proofs.HgErrors.out_of r = Ok /\ Inv t /\
  nkeys t = nset /\ ekeys t = kept /\
  (forall e, In e kept -> (exists M, get e (h_edge t) = Some M /\ seteq M (mems s e)) /\
                          get e (h_eattr t) = Some (aupdate [] (aupdate [] (geta e (h_eattr s))))) /\
  (forall n, In n nset -> get n (h_nattr t) = Some (aupdate [] (aupdate [] (geta n (h_nattr s))))) /\
  h_net t = h_net s.
Proof. exact subhypergraph_exact. Qed.
Print Assumptions C19_subhypergraph_exact.

(* the lemma the characterisations rest on: filling a network through add_edges_from (format 4)
   with distinct new ids yields exactly the listed edges, members, attributes and nodes *)
Theorem C19_build_edges : forall L a s, Inv s -> fresh_items s L ->
  let r := add_edges_from (EB4 L) a s in
  let t := st_of r in
  Proofs.HgErrors.out_of r = Ok /\ snd r = O /\ Inv t /\ ekeys t = ekeys s ++ map item_id L /\
  (forall it, In it L -> (exists M, get (item_id it) (h_edge t) = Some M /\ seteq M (item_ms it) /\ NoDup M) /\
                         get (item_id it) (h_eattr t) = Some (aupdate [] (aupdate a (item_attr it)))) /\
  (forall e, In e (ekeys s) -> get e (h_edge t) = get e (h_edge s) /\ get e (h_eattr t) = get e (h_eattr s)) /\
  (forall x, In x (nkeys t) <-> In x (nkeys s) \/ exists it, In it L /\ In x (item_ms it)) /\
  (exists l, nkeys t = nkeys s ++ l) /\
  (forall n, In n (nkeys s) -> get n (h_nattr t) = get n (h_nattr s)) /\
  h_net t = h_net s.
Proof. exact build_edges_effect. Qed.
Print Assumptions C19_build_edges.

(* the dual exchanges nodes and edges and transposes the incidence relation *)
Theorem C19_dual_spec : forall nhint s, Inv s -> NoNone s ->
  let r := dual nhint s in
  let t := st_of r in
  Proofs.HgErrors.out_of r = Ok /\ Inv t /\ NoNone t /\
  ekeys t = nkeys s /\ (forall x, In x (nkeys t) <-> In x (ekeys s)) /\
  (forall n e, In e (mems t n) <-> In n (mems s e)) /\
  h_net t = h_net s.
Proof. exact dual_spec. Qed.
Print Assumptions C19_dual_spec.

(* ... and is an involution: dual(dual(H)) has the nodes, edges, incidences and network attributes of H *)
Theorem C19_dual_involution : forall h1 h2 s, Inv s -> NoNone s ->
  let t := st_of (dual h2 (st_of (dual h1 s))) in
  (forall x, In x (nkeys t) <-> In x (nkeys s)) /\ (forall y, In y (ekeys t) <-> In y (ekeys s)) /\
  (forall n e, In n (mems t e) <-> In n (mems s e)) /\ h_net t = h_net s.
Proof. exact dual_involution. Qed.
Print Assumptions C19_dual_involution.

(* H1 << H2: the edges of H1 followed by those of H2 (renumbered 0, 1, ...) over the union of the nodes *)
Theorem C19_union_spec : forall s1 s2, Inv s1 -> Inv s2 -> NoNone s1 -> NoNone s2 ->
  let r := lshift s1 s2 in
  let t := st_of r in
  let E := map snd (h_edge s1) ++ map snd (h_edge s2) in
  Proofs.HgErrors.out_of r = Ok /\ Inv t /\
  ekeys t = map (fun j => LInt (Z.of_nat j)) (seq 0 (length E)) /\
  (forall j, (j < length E)%nat -> seteq (mems t (LInt (Z.of_nat j))) (nth j E [])) /\
  (forall x, In x (nkeys t) <-> In x (nkeys s1) \/ In x (nkeys s2)).
Proof. exact lshift_spec. Qed.
Print Assumptions C19_union_spec.

(* complement: exactly the absent node sets of 1 .. max size nodes *)
Theorem C19_complement_sound : forall s c, NoDup (keys (h_node s)) -> In c (complement_sets s) ->
  (1 <= length c <= comp_bound s)%nat /\ NoDup c /\ (forall x, In x c -> In x (keys (h_node s))) /\ ~ present s c.
Proof. exact complement_sound. Qed.
Print Assumptions C19_complement_sound.

Theorem C19_complement_complete : forall s f,
  NoDup f -> (forall x, In x f -> In x (keys (h_node s))) -> (1 <= length f <= comp_bound s)%nat -> ~ present s f ->
  exists c, In c (complement_sets s) /\ seteq c f.
Proof. exact complement_complete. Qed.
Print Assumptions C19_complement_complete.

(* from_max_simplices keeps every node and exactly the maximal simplices *)
Theorem C19_from_max_simplices : forall s, Inv s -> NoNone s ->
  let r := from_max_simplices s in
  let t := st_of r in
  let mx := maximal_ids s in
  Proofs.HgErrors.out_of r = Ok /\ Inv t /\
  (forall x, In x (nkeys t) <-> In x (nkeys s)) /\
  ekeys t = map (fun j => LInt (Z.of_nat j)) (seq 0 (length mx)) /\
  (forall j, (j < length mx)%nat -> seteq (mems t (LInt (Z.of_nat j))) (mems s (nth j mx LNone))).
Proof. exact from_max_simplices_spec. Qed.
Print Assumptions C19_from_max_simplices.

Theorem C19_maximal_ids : forall s e,
  In e (maximal_ids s) <->
  exists ms, In (e, ms) (h_edge s) /\ forall e' ms', In (e', ms') (h_edge s) -> e' = e \/ ~ (forall x, In x ms -> In x ms').
Proof. exact maximal_ids_spec. Qed.
Print Assumptions C19_maximal_ids.

(* largest_connected_hypergraph(in_place=True) / cleanup(connected=True): the nodes that remain are
   exactly one reachability class, and no component is larger *)
Theorem C19_largest_component_inplace : forall s c, Inv s -> first_longest (Hypergraph.components s) = Some c ->
  exists v, In v (nkeys s) /\ (forall x, In x c <-> Reach s v x) /\
            (forall c', In c' (Hypergraph.components s) -> (length c' <= length c)%nat) /\
            forall x, In x (nkeys (st_of (largest_connected_inplace s))) <-> Reach s v x.
Proof. exact lcc_inplace_spec. Qed.
Print Assumptions C19_largest_component_inplace.

(* convert_labels_to_integers (in place): the result has nodes 0..n-1 and edges 0..m-1, the renaming is the position in the
   old node / edge order (hence injective), and edge emap(e) has exactly the renamed members of e: an isomorphism. *)
Theorem C19_relabel_isomorphism : forall la s, Inv s ->
  let r := relabel_inplace la s in
  let t := st_of r in
  let nmap := fun n => LInt (Hypergraph.index_of n (nkeys s) 0) in
  let emap := fun e => LInt (Hypergraph.index_of e (ekeys s) 0) in
  out_of r = Ok /\ Inv t /\
  nkeys t = map (fun i => LInt (Z.of_nat i)) (seq 0 (length (nkeys s))) /\
  ekeys t = map (fun j => LInt (Z.of_nat j)) (seq 0 (length (ekeys s))) /\
  (forall e, In e (ekeys s) -> seteq (mems t (emap e)) (map nmap (mems s e))) /\
  (forall x y, In x (nkeys s) -> In y (nkeys s) -> nmap x = nmap y -> x = y) /\
  (forall x y, In x (ekeys s) -> In y (ekeys s) -> emap x = emap y -> x = y) /\
  h_net t = h_net s /\
  (* ... that records the old labels: the attributes are carried over and the label attribute, set last, holds the old id *)
  (forall n, In n (nkeys s) ->
     get (nmap n) (h_nattr t) = Some (aupdate (aupdate [] (aupdate [] (geta n (h_nattr s)))) [(la, aval_of_lbl n)])) /\
  (forall e, In e (ekeys s) ->
     get (emap e) (h_eattr t) = Some (aupdate (aupdate [] (aupdate [] (geta e (h_eattr s)))) [(la, aval_of_lbl e)])).
Proof. exact relabel_spec. Qed.
Print Assumptions C19_relabel_isomorphism.

(* THE CLEANUP GUARANTEES, all at once, for every flag combination and every state satisfying the invariant:
   whenever cleanup returns, the network has no repeated edges (unless multiedges are allowed), no singleton
   edges (unless allowed), no isolated nodes (unless allowed), is connected (if requested) and is labelled
   0..n-1 / 0..m-1 (if requested).  Flags as in the model: true = the Python argument is True. *)
Theorem C19_cleanup_guarantees : forall iso sing multi conn relabel s, Inv s -> NoNone s ->
  out_of (cleanup iso sing multi conn relabel s) = Ok ->
  let t := st_of (cleanup iso sing multi conn relabel s) in
  Inv t /\
  (multi = false -> NoMulti t) /\
  (sing = false -> NoSingletons t) /\
  (iso = false -> NoIsolates t) /\
  (conn = true -> Connected t) /\
  (relabel = true ->
     nkeys t = map (fun i => LInt (Z.of_nat i)) (seq 0 (length (nkeys t))) /\
     ekeys t = map (fun j => LInt (Z.of_nat j)) (seq 0 (length (ekeys t)))).
Proof. exact cleanup_guarantees. Qed.
Print Assumptions C19_cleanup_guarantees.

(* the stages only delete: after the duplicate merge, every remaining edge is an edge of the merged network
   with the same members (before relabelling) *)
Theorem C19_cleanup_stages_only_delete : forall s, Inv s ->
  SubTable (st_of (remove_edges_from (Hypergraph.singletons s) s)) s /\
  (forall e, get e (h_edge (st_of (remove_nodes_from (Hypergraph.isolates s) false true s))) = get e (h_edge s)) /\
  (forall c, first_longest (Hypergraph.components s) = Some c -> SubTable (st_of (largest_connected_inplace s)) s).
Proof.
  intros s I. split; [apply (singles_stage s I)|]. split; [apply (isolates_stage s I)|].
  intros c Hc. apply (lcc_stage s c I Hc).
Qed.
Print Assumptions C19_cleanup_stages_only_delete.

(* cut_to_order (Hypergraph): all nodes, and exactly the edges of order <= the requested order, with their members *)
Theorem C19_cut_to_order : forall order s, Inv s -> NoNone s ->
  out_of (cut_to_order false order s) = Ok ->
  let t := st_of (cut_to_order false order s) in
  Inv t /\ nkeys t = nkeys s /\
  (forall e, (exists M, get e (h_edge t) = Some M) <-> In e (ekeys s) /\ Z.of_nat (length (mems s e)) - 1 <= order) /\
  (forall e M, get e (h_edge t) = Some M -> seteq M (mems s e)).
Proof. exact cut_to_order_spec. Qed.
Print Assumptions C19_cut_to_order.

(* largest_connected_hypergraph (in place) is the sub-network INDUCED by a largest component: the nodes are one
   reachability class of maximal size, the edges exactly those all of whose members lie in it, unchanged *)
Theorem C19_largest_component_induced : forall s c, Inv s -> first_longest (Hypergraph.components s) = Some c ->
  let t := st_of (largest_connected_inplace s) in
  exists v, In v (nkeys s) /\
    (forall c', In c' (Hypergraph.components s) -> (length c' <= length c)%nat) /\
    (forall x, In x (nkeys t) <-> Reach s v x) /\
    (forall e m, get e (h_edge t) = Some m <-> get e (h_edge s) = Some m /\ forall x, In x m -> Reach s v x).
Proof. exact lcc_induced. Qed.
Print Assumptions C19_largest_component_induced.

(* the duplicate merge (rename = first, merge rule = first) ONLY merges: afterwards no two edges have the same members,
   every remaining edge is an edge of the source under its own id with the same member set, every member set of the
   source is still present, and the nodes are unchanged *)
Theorem C19_merge_only_merges : forall s, Inv s -> NoNone s ->
  out_of (merge_duplicate_edges RnFirst MrFirst None s) = Ok ->
  let t := st_of (merge_duplicate_edges RnFirst MrFirst None s) in
  Inv t /\ NoMulti t /\
  (forall x mx, get x (h_edge t) = Some mx -> exists m0, get x (h_edge s) = Some m0 /\ seteq mx m0) /\
  (forall e m0, get e (h_edge s) = Some m0 -> exists x mx, get x (h_edge t) = Some mx /\ seteq mx m0) /\
  (forall n, In n (nkeys t) <-> In n (nkeys s)).
Proof. exact merge_stage. Qed.
Print Assumptions C19_merge_only_merges.

(* the premises Inv and NoNone hold at every state reachable by an admissible, expressible history *)
Theorem C19_premises_reachable : forall ops,
  admissible_history hg_empty ops -> expressible_history ops ->
  Inv (run ops hg_empty) /\ NoNone (run ops hg_empty).
Proof. intros ops A E. apply run_NoNone; [exact A|exact E|apply Inv_empty|apply NoNone_empty]. Qed.
Print Assumptions C19_premises_reachable.

Example C19_nonvacuous :
  let s := run [OAddEdgesFrom (EB1 [[LInt 1; LInt 2; LInt 3]; [LInt 3; LInt 4]; [LInt 5]]) []; OAddNode (LInt 9) []] hg_empty in
  keys (h_edge (st_of (subhypergraph (Some [LInt 1; LInt 2; LInt 3; LInt 4]) None true s))) = [LInt 0; LInt 1] /\
  keys (h_edge (st_of (dual [] s))) = [LInt 1; LInt 2; LInt 3; LInt 4; LInt 5; LInt 9] /\
  keys (h_node (st_of (cleanup_copy false false false true true s))) = [LInt 0; LInt 1; LInt 2; LInt 3].
Proof. vm_compute. repeat split. Qed.
Print Assumptions C19_nonvacuous.

(* the cleanup theorem is not vacuous: a reachable state on which cleanup returns and changes the network *)
Example C19_cleanup_premises_met :
  let s := run [OAddEdgesFrom (EB1 [[LInt 1; LInt 2; LInt 3]; [LInt 3; LInt 2; LInt 1]; [LInt 4]; [LInt 5; LInt 6]]) []; OAddNode (LInt 9) []] hg_empty in
  out_of (cleanup false false false true true s) = Ok /\
  keys (h_node (st_of (cleanup false false false true true s))) = [LInt 0; LInt 1; LInt 2] /\
  keys (h_edge (st_of (cleanup false false false true true s))) = [LInt 0].
Proof. vm_compute. repeat split. Qed.
Print Assumptions C19_cleanup_premises_met.
