From Coq Require Import String ZArith List Bool Lia.
From XV Require Import Base.Label Base.LSet Base.ODict Base.Attr Base.Outcome Model.Hypergraph
  Model.SimplicialComplex Model.Hodge.
Import ListNotations.
Open Scope Z_scope.

Fixpoint first_false {C} (f : C -> bool) (l : list C) (i : nat) : option nat :=
  match l with [] => None | c :: r => if f c then first_false f r (S i) else Some i end.

Definition hodge_case_bad (c : list sop * list (lbl * Z) * list (nat * list (list Z) * list lbl * list lbl) * list (nat * list (list Z)))
  : option nat :=
  let '(ops, orient, bs, hs) := c in
  let s := srun ops hg_empty in
  match first_false (bcase_ok s orient) bs O with
  | Some i => Some i
  | None => match first_false (hcase_ok s orient) hs O with Some i => Some (100 + i)%nat | None => None end
  end.

Fixpoint hodge_bad_from (cases : list _) (i : nat) : list (nat * nat) :=
  match cases with
  | [] => []
  | c :: r => match hodge_case_bad c with Some j => (i, j) :: hodge_bad_from r (S i) | None => hodge_bad_from r (S i) end
  end.
Definition hodge_bad cases := hodge_bad_from cases O.
