"""C09 - structural measures are invariant under relabelling and insertion order."""
import math, os, random, warnings
from fractions import Fraction
from .. import common as C, histcheck as HC, gallina as G, hgsim
from . import base
from .C14 import big_history

PROP = "C09"
IMPORTS = "Base.Label Base.Attr Base.Outcome Model.Hypergraph Model.Stats Model.Hodge Model.Matrix Model.Graph Model.Rename"


def relabel(H, rng):
    """a bijective relabelling of nodes and edge ids combined with new insertion orders"""
    import xgi
    nodes = list(H.nodes); edges = list(H.edges)
    kind_n = rng.choice(["shift", "perm", "str", "id"])
    kind_e = rng.choice(["shift", "perm", "str", "gap", "id"])
    def mk(labels, kind):
        if kind == "id":
            return {x: x for x in labels}
        if kind == "shift":
            return dict(zip(labels, rng.sample(range(100, 100 + 3 * len(labels) + 1), len(labels))))
        if kind == "perm":
            new = list(range(len(labels))); rng.shuffle(new)
            return dict(zip(labels, new))
        if kind == "gap":
            return dict(zip(labels, rng.sample(range(0, 5 * len(labels) + 1), len(labels))))
        new = [f"x{j}" for j in range(len(labels))]; rng.shuffle(new)
        return dict(zip(labels, new))
    fn = mk(nodes, kind_n); fe = mk(edges, kind_e)
    H2 = xgi.Hypergraph()
    ns = nodes[:]; rng.shuffle(ns)
    if rng.random() < 0.5:
        H2.add_nodes_from([fn[n] for n in ns])
    es = edges[:]; rng.shuffle(es)
    for e in es:
        ms = list(H.edges.members(e)); rng.shuffle(ms)
        H2.add_edge([fn[n] for n in ms], idx=fe[e])
    H2.add_nodes_from([fn[n] for n in ns])
    return H2, fn, fe, (kind_n, kind_e)


def close(a, b):
    a = float(a); b = float(b)
    if math.isnan(a) and math.isnan(b):
        return True
    return abs(a - b) <= 1e-9 * max(1, abs(a), abs(b))


def node_fns():
    import xgi
    return {
        "degree": lambda H: H.nodes.degree.asdict(),
        "degree(order=1)": lambda H: H.nodes.degree(order=1).asdict(),
        "average_neighbor_degree": lambda H: H.nodes.average_neighbor_degree.asdict(),
        "clustering_coefficient": lambda H: xgi.clustering_coefficient(H),
        "local_clustering_coefficient": lambda H: xgi.local_clustering_coefficient(H),
        "two_node_clustering_coefficient": lambda H: xgi.two_node_clustering_coefficient(H),
        "katz_centrality": lambda H: xgi.katz_centrality(H),
    }


def scalar_fns():
    import xgi
    return {
        "density": lambda H: xgi.density(H),
        "density(order=1)": lambda H: xgi.density(H, order=1),
        "incidence_density": lambda H: xgi.incidence_density(H),
        "degree_assortativity(uniform, exact)": lambda H: xgi.degree_assortativity(H, "uniform", exact=True),
        "degree_assortativity(top-2, exact)": lambda H: xgi.degree_assortativity(H, "top-2", exact=True),
        "degree_assortativity(top-bottom, exact)": lambda H: xgi.degree_assortativity(H, "top-bottom", exact=True),
        "dynamical_assortativity": lambda H: xgi.dynamical_assortativity(H),
        "edit_simpliciality": lambda H: xgi.edit_simpliciality(H),
        "simplicial_fraction": lambda H: xgi.simplicial_fraction(H),
        "face_edit_simpliciality": lambda H: xgi.face_edit_simpliciality(H),
        "number_connected_components": lambda H: xgi.number_connected_components(H),
        "unique_edge_sizes": lambda H: xgi.unique_edge_sizes(H),
        "degree_counts": lambda H: xgi.degree_counts(H),
    }


def call(f, H):
    with warnings.catch_warnings():
        warnings.simplefilter("ignore")
        try:
            return ("ok", f(H))
        except Exception as e:  # noqa: BLE001
            return ("raised", type(e).__name__)


def compare(H, H2, fn, fe, kinds):
    """f(H) versus f(relabel(H)) mapped back through the relabelling"""
    import numpy as np, xgi
    for name, f in node_fns().items():
        a = call(f, H); b = call(f, H2)
        if a[0] != b[0]:
            return f"{name}: {a} but {b} after relabelling {kinds}"
        if a[0] == "ok":
            if set(b[1]) != set(fn[n] for n in a[1]):
                return f"{name}: different keys after relabelling {kinds}"
            for n in a[1]:
                if not close(a[1][n], b[1][fn[n]]):
                    return f"{name}[{n!r}] = {a[1][n]} but {b[1][fn[n]]} after relabelling {kinds}"
    homog = len({type(n) for n in H.nodes}) <= 1
    for name, f in scalar_fns().items():
        if "simplic" in name and not homog:
            continue   # the prefix tree needs orderable labels
        a = call(f, H); b = call(f, H2)
        if a[0] != b[0]:
            return f"{name}: {a} but {b} after relabelling {kinds}"
        if a[0] == "ok":
            x, y = a[1], b[1]
            if isinstance(x, list):
                if x != y:
                    return f"{name} = {x} but {y} after relabelling {kinds}"
            elif not close(x, y):
                return f"{name} = {x} but {y} after relabelling {kinds}"
    if {fe[e]: v for e, v in H.edges.size.asdict().items()} != H2.edges.size.asdict():
        return f"edge sizes change under relabelling {kinds}"
    if {frozenset(fn[n] for n in c) for c in xgi.connected_components(H)} != {frozenset(c) for c in xgi.connected_components(H2)}:
        return f"connected_components change under relabelling {kinds}"
    d1 = dict(xgi.shortest_path_length(H)); d2 = dict(xgi.shortest_path_length(H2))
    for a in d1:
        for b in d1[a]:
            if d1[a][b] != d2[fn[a]][fn[b]]:
                return f"shortest_path_length({a!r}, {b!r}) changes under relabelling {kinds}"
    for strict in (True, False):
        if {fe[e] for e in H.edges.maximal(strict=strict)} != set(H2.edges.maximal(strict=strict)):
            return f"maximal(strict={strict}) changes under relabelling {kinds}"
    dm1 = sorted(sorted(map(repr, (fn[n] for n in H.edges.members(e)))) for e in H.edges.duplicates())
    dm2 = sorted(sorted(map(repr, H2.edges.members(e))) for e in H2.edges.duplicates())
    if dm1 != dm2:
        return f"duplicates change under relabelling {kinds}"
    if all(len(H.edges.members(e)) for e in H.edges):
        for t in ("all", "immediate", "empirical"):
            if {(fe[a], fe[b]) for a, b in xgi.to_encapsulation_dag(H, t).edges} != set(xgi.to_encapsulation_dag(H2, t).edges):
                return f"to_encapsulation_dag({t}) changes under relabelling {kinds}"
    n1 = list(H.nodes); n2 = list(H2.nodes); e1 = list(H.edges); e2 = list(H2.edges)
    rp = [n2.index(fn[n]) for n in n1]; cp = [e2.index(fe[e]) for e in e1]
    I1 = xgi.incidence_matrix(H, sparse=False); I2 = xgi.incidence_matrix(H2, sparse=False)
    if I1.shape != (0, 0) and not np.array_equal(I1, I2[np.ix_(rp, cp)]):
        return f"incidence_matrix is not the row/column permutation after relabelling {kinds}"
    # the weighted incidence matrix: the callback is documented to receive the node LABEL and the edge ID; a weight that
    # depends on them (through tables keyed by the original names) must come out permuted like everything else
    if I1.shape != (0, 0):
        wn = {n: 1 + (i * 7) % 5 for i, n in enumerate(n1)}; we = {e: 1 + (j * 3) % 4 for j, e in enumerate(e1)}
        fni = {v: k for k, v in fn.items()}; fei = {v: k for k, v in fe.items()}
        try:
            W1 = xgi.incidence_matrix(H, sparse=False, weight=lambda n, e, X: 10 * wn[n] + we[e])
            W2 = xgi.incidence_matrix(H2, sparse=False, weight=lambda n, e, X: 10 * wn[fni[n]] + we[fei[e]])
        except Exception as ex:  # noqa: BLE001
            return f"incidence_matrix(weight=f) raised {type(ex).__name__}: {ex} under relabelling {kinds}"
        exp = np.array([[10 * wn[n] + we[e] if n in H.edges.members(e) else 0 for e in e1] for n in n1])
        if not np.array_equal(W1, exp):
            return f"incidence_matrix(weight=f) does not hold f(node, edge) at the incidences {kinds}"
        if not np.array_equal(W1, W2[np.ix_(rp, cp)]):
            return f"incidence_matrix(weight=f) is not the row/column permutation after relabelling {kinds}"
    mats = (("adjacency_matrix", lambda X: xgi.adjacency_matrix(X, sparse=False)),
            ("laplacian", lambda X: xgi.laplacian(X, sparse=False)),
            ("clique_motif_matrix", lambda X: xgi.clique_motif_matrix(X, sparse=False)),
            ("adjacency_matrix(order=2, weighted)", lambda X: xgi.adjacency_matrix(X, order=2, weighted=True, sparse=False)),
            ("multiorder_laplacian", lambda X: xgi.multiorder_laplacian(X, [1, 2], [1, 1])),
            ("normalized_hypergraph_laplacian", lambda X: xgi.normalized_hypergraph_laplacian(X, sparse=False)))
    for nm, f in mats:
        a = call(lambda X: np.asarray(f(X)), H); b = call(lambda X: np.asarray(f(X)), H2)
        if a[0] != b[0]:
            return f"{nm}: {a[0]} but {b[0]} after relabelling {kinds}"
        if a[0] == "ok":
            A1, A2 = a[1], b[1]
            if A1.shape != A2.shape or (A1.size and not np.allclose(A1, A2[np.ix_(rp, rp)], equal_nan=True)):
                return f"{nm} is not the induced permutation after relabelling {kinds}"
    with warnings.catch_warnings():
        warnings.simplefilter("ignore")
        P1 = np.asarray(xgi.intersection_profile(H, sparse=False)); P2 = np.asarray(xgi.intersection_profile(H2, sparse=False))
    if P1.shape != P2.shape or (P1.size and not np.array_equal(P1, P2[np.ix_(cp, cp)])):
        return f"intersection_profile is not the induced permutation after relabelling {kinds}"
    return None


def queries(rng, H2, fn):
    """the implementation's answers on the relabelled network"""
    import xgi
    nodes = list(H2.nodes)
    qs = []
    qs.append(("RDegree", "(RaMap " + G.glist([G.gpair(G.lbl(n), G.gZ(d)) for n, d in H2.nodes.degree.asdict().items()]) + ")"))
    qs.append(("RSize", "(RaMap " + G.glist([G.gpair(G.lbl(e), G.gZ(d)) for e, d in H2.edges.size.asdict().items()]) + ")"))
    for v in rng.sample(nodes, min(2, len(nodes))):
        qs.append((f"(RNeighbors {G.lbl(v)})", f"(RaSet {G.lbls(list(H2.nodes.neighbors(v)))})"))
        qs.append((f"(RComponent {G.lbl(v)})", f"(RaSet {G.lbls(list(xgi.node_connected_component(H2, v)))})"))
        d = xgi.single_source_shortest_path_length(H2, v)
        row = G.glist([G.gpair(G.lbl(b), "None" if d[b] == math.inf else f"(Some {G.gZ(int(d[b]))})") for b in nodes])
        qs.append((f"(RDistances {G.lbl(v)})", f"(RaDist {row})"))
    if len(nodes) >= 2:
        A = xgi.adjacency_matrix(H2, sparse=False, weighted=True)
        i, j = rng.sample(range(len(nodes)), 2)
        qs.append((f"(RShared {G.lbl(nodes[i])} {G.lbl(nodes[j])})", f"(RaZ {G.gZ(int(A[i, j]))})"))
    if nodes:
        cc = xgi.clustering_coefficient(H2)
        row = []
        for n in nodes:
            f = Fraction(float(cc[n])).limit_denominator(10 ** 6)
            row.append(G.gpair(G.lbl(n), G.gpair(G.gZ(f.numerator), G.gZ(f.denominator))))
        qs.append(("RClusteringQ", f"(RaQ {G.glist(row)})"))
    return qs


def run(v):
    proof = base.proof_stage(v, PROP)
    thorough = C.tier() == "thorough"
    rng = random.Random(C.seed() * 191 + 9)
    recs = HC.gen_histories(hgsim, 1000 if thorough else 120, 9, C.seed() + 90, malformed_share=0.0)
    for _ in range(1500 if thorough else 150):
        recs.append(hgsim.run_history(big_history(rng)))
    failures, reports, errors, terms = [], [], [], []
    nq = 0
    kinds_seen = {}
    for i, r in enumerate(recs):
        H = r["net"]
        if (r["obs"] and r["obs"][-1].get("broken")) or H.num_nodes == 0:
            continue
        for rep in range(2):
            H2, fn, fe, kinds = relabel(H, rng)
            kinds_seen[str(kinds)] = kinds_seen.get(str(kinds), 0) + 1
            try:
                d = compare(H, H2, fn, fe, kinds)
            except Exception as e:  # noqa: BLE001
                d = f"comparison raised {type(e).__name__}: {e}"
            if d:
                failures.append((f"{PROP}:{d.split('[')[0].split('=')[0].split(':')[0].strip()[:60]}",
                                 {"what": d, "history": HC.jsonable(r["ops"]),
                                  "node_map": HC.jsonable(list(fn.items())), "edge_map": HC.jsonable(list(fe.items()))}))
                break
        else:
            try:
                with warnings.catch_warnings():
                    warnings.simplefilter("ignore")
                    qs = queries(rng, H2, fn)
                nq += len(qs)
                opsg = G.glist([hgsim.op_to_gallina(op, ex) for op, ex in zip(r["ops"], r["extras"])])
                gm = lambda m: G.glist([G.gpair(G.lbl(a), G.lbl(b)) for a, b in m.items()])
                terms.append((i, G.gpair(opsg, gm(fn), gm(fe), G.glist([G.gpair(q, a) for q, a in qs]))))
            except G.Unsupported:
                pass
    cdir = C.cases_dir(PROP)
    files = {}
    for k in range(0, len(terms), 50):
        chunk = terms[k:k + 50]
        path = os.path.join(cdir, f"cases_{PROP}_{k // 50}.v")
        with open(path, "w") as f:
            f.write("From Coq Require Import String ZArith List Bool.\nFrom XV Require Import " + IMPORTS +
                    ".\nImport ListNotations.\nOpen Scope Z_scope.\nDefinition cases : list (list op * list (lbl * lbl) * list (lbl * lbl) * list (rquery * ranswer)) := [\n" +
                    ";\n".join(t for _, t in chunk) + "\n].\nEval vm_compute in (rename_bad cases).\n")
        files[path] = [i for i, _ in chunk]
    res = C.run_coq_files(files.keys())
    for path, idxs in files.items():
        rc, out = res[path]
        pairs = C.parse_pairs(out) if rc == 0 else None
        if pairs is None:
            errors.append({"file": os.path.basename(path), "rc": rc, "output": out[-1500:]})
            continue
        for ci, qi in pairs[:4]:
            reports.append({"correspondence": "Model.Rename.rename_bad", "query_index": qi,
                            "history": HC.jsonable(recs[idxs[ci]]["ops"])})
    C.clean_cases(cdir)
    st = HC.stats(recs)
    v.coverage.update({
        "evaluations": nq,
        "distinct_nontrivial": st.pop("distinct_nontrivial"),
        "rule": "hypergraphs from generated histories plus sparser 4-11 node networks, each with two random bijective "
                "relabellings (nodes: shifted ints / permutation of 0..n-1 / strings / identity; edge ids: the same plus "
                "gapped ints) combined with shuffled node, edge and member insertion orders; oracle: every listed measure "
                "on H versus on the relabelled network mapped back, matrices up to the induced permutation; "
                "correspondence: the implementation's degree, size, neighbours, component, distances, shared-edge count "
                "and clustering on the relabelled network versus the model on rename_hg of the model state",
        "samples": [HC.jsonable(recs[0]["ops"][:3])],
        "oracle_evaluations": sum(kinds_seen.values()),
        "relabelling_kinds": kinds_seen,
        "exhaustive": False,
        **st,
    })
    base.conclude(v, proof, reports, failures, errors)


def replay(payload):
    import xgi
    d = payload.get("detail", payload)
    ops = HC.unjson(d["history"])
    r = hgsim.run_history(ops)
    H = r["net"]
    fn = dict(HC.unjson(d["node_map"])); fe = dict(HC.unjson(d["edge_map"]))
    H2 = xgi.Hypergraph()
    for e in H.edges:
        H2.add_edge([fn[n] for n in H.edges.members(e)], idx=fe[e])
    H2.add_nodes_from([fn[n] for n in H.nodes])
    dsc = compare(H, H2, fn, fe, "replay")
    print("oracle:", dsc or "holds for the in-order relabelling (the recorded failure also involved a shuffled insertion order)")
    return 1 if dsc else 0
