(* The invariant of C01/C04 on the Hypergraph model and its preservation by every op. *)
From Coq Require Import String ZArith List Bool Lia.
From XV Require Import Base.Label Base.LSet Base.ODict Base.Attr Base.Outcome Model.Hypergraph
  Proofs.HgViews.
Import ListNotations.
Open Scope Z_scope.

Definition W1 (s : hg) : Prop := forall n e, In e (mships s n) <-> In n (mems s e).
Definition KWF (s : hg) : Prop :=
  keys (h_nattr s) = keys (h_node s) /\ keys (h_eattr s) = keys (h_edge s) /\
  NoDup (keys (h_node s)) /\ NoDup (keys (h_edge s)).
Definition UidInv (s : hg) : Prop :=
  forall e z, In e (ekeys s) -> as_int e = Some z -> z < h_uid s.
(* the sets stored in the tables are duplicate-free *)
Definition VND (s : hg) : Prop := (forall n, NoDup (mships s n)) /\ (forall e, NoDup (mems s e)).
Definition Inv (s : hg) : Prop := W1 s /\ KWF s /\ VND s /\ UidInv s.

Lemma Inv_empty : Inv hg_empty.
Proof.
  split; [|split; [|split]].
  - intros n e. unfold mships, mems, getl. simpl. tauto.
  - unfold KWF. simpl. repeat split; constructor.
  - split; intro; constructor.
  - intros e z [].
Qed.

Ltac beq x y := destruct (lbl_eqb_spec x y) as [?|?]; [subst|].

(* ------------------------------------------------------------------ attach / insert_edge *)

Lemma attach_mships e s n x :
  mships (attach e s n) x = if lbl_eqb x n then sadd e (mships s n) else mships s x.
Proof.
  unfold attach, mships, edge_add, node_add. simpl. rewrite getl_set.
  pose proof (ensure_node_mships n s) as E. unfold mships in E. rewrite !E. reflexivity.
Qed.

Lemma attach_mems e s n y :
  mems (attach e s n) y = if lbl_eqb y e then sadd n (mems s e) else mems s y.
Proof.
  unfold attach. rewrite edge_add_mems. unfold mems, node_add. simpl.
  rewrite !ensure_node_edge. reflexivity.
Qed.

Lemma attach_W1 e s n : W1 s -> W1 (attach e s n).
Proof.
  intros H x y. rewrite attach_mships, attach_mems.
  beq x n; beq y e; rewrite ?In_sadd.
  - tauto.
  - rewrite (H n y). intuition congruence.
  - rewrite <- (H x e). intuition congruence.
  - apply H.
Qed.

Lemma attach_VND e s n : VND s -> VND (attach e s n).
Proof.
  intros [H1 H2]. split; intro x.
  - rewrite attach_mships. destruct (lbl_eqb x n); [apply NoDup_sadd|]; apply H1.
  - rewrite attach_mems. destruct (lbl_eqb x e); [apply NoDup_sadd|]; apply H2.
Qed.

Lemma attach_edge_keys e s n : has e (h_edge s) = true -> ekeys (attach e s n) = ekeys s.
Proof.
  intro H. unfold attach. rewrite edge_add_ekeys.
  - unfold ekeys, node_add. simpl. rewrite ensure_node_edge. reflexivity.
  - unfold node_add. simpl. rewrite ensure_node_edge. exact H.
Qed.

Lemma attach_has e s n : has e (h_edge s) = true -> has e (h_edge (attach e s n)) = true.
Proof.
  intro H. apply has_In. change (In e (ekeys (attach e s n))). rewrite attach_edge_keys by exact H.
  apply has_In. exact H.
Qed.

Lemma attach_eattr e s n : h_eattr (attach e s n) = h_eattr s.
Proof. unfold attach, edge_add, node_add. simpl. apply ensure_node_eattr. Qed.
Lemma attach_uid e s n : h_uid (attach e s n) = h_uid s.
Proof. unfold attach, edge_add, node_add. simpl. apply ensure_node_uid. Qed.
Lemma attach_net e s n : h_net (attach e s n) = h_net s.
Proof. unfold attach, edge_add, node_add. simpl. apply ensure_node_net. Qed.

Lemma attach_nodeK e s n :
  keys (h_nattr s) = keys (h_node s) -> NoDup (keys (h_node s)) ->
  keys (h_nattr (attach e s n)) = keys (h_node (attach e s n)) /\ NoDup (keys (h_node (attach e s n))).
Proof.
  intros H1 H2. unfold attach, edge_add. simpl.
  pose proof (ensure_node_nakeys n s H1) as K1.
  pose proof (ensure_node_has n s) as K2.
  assert (K3 : NoDup (keys (h_node (ensure_node n s)))).
  { change (NoDup (nkeys (ensure_node n s))). rewrite ensure_node_nkeys.
    destruct (has n (h_node s)) eqn:E; [exact H2|].
    apply NoDup_snoc; [exact H2|]. apply has_nIn. exact E. }
  unfold node_add. simpl. rewrite keys_set_in by (apply has_In; exact K2).
  split; assumption.
Qed.

Definition EdgeSide (s s' : hg) : Prop :=
  h_eattr s' = h_eattr s /\ h_uid s' = h_uid s /\ ekeys s' = ekeys s /\ h_net s' = h_net s.

Lemma fold_attach e ms : forall s,
  has e (h_edge s) = true -> W1 s -> VND s ->
  keys (h_nattr s) = keys (h_node s) -> NoDup (keys (h_node s)) ->
  let s' := fold_left (attach e) ms s in
  W1 s' /\ VND s' /\ keys (h_nattr s') = keys (h_node s') /\ NoDup (keys (h_node s')) /\ EdgeSide s s'.
Proof.
  induction ms as [|n ms IH]; intros s He Hw Hv Hk Hn; simpl.
  - exact (conj Hw (conj Hv (conj Hk (conj Hn (conj eq_refl (conj eq_refl (conj eq_refl eq_refl))))))).
  - destruct (attach_nodeK e s n Hk Hn) as [K1 K2].
    specialize (IH (attach e s n) (attach_has e s n He) (attach_W1 e s n Hw) (attach_VND e s n Hv) K1 K2).
    simpl in IH. destruct IH as (A & V & B & C & D1 & D2 & D3 & D4).
    split; [exact A|]. split; [exact V|]. split; [exact B|]. split; [exact C|]. unfold EdgeSide. split; [|split; [|split]].
    + rewrite D1. apply attach_eattr.
    + rewrite D2. apply attach_uid.
    + rewrite D3. apply attach_edge_keys. exact He.
    + rewrite D4. apply attach_net.
Qed.

Lemma W1_not_listed s e : W1 s -> ~ In e (ekeys s) -> forall n, ~ In e (mships s n).
Proof.
  intros H Hn n Hi. apply H in Hi. apply Hn. unfold mems in Hi.
  eapply getl_nonempty_key. exact Hi.
Qed.

Lemma insert_edge_spec e ms a s :
  ~ In e (ekeys s) -> W1 s -> KWF s -> VND s ->
  let s' := insert_edge e ms a s in
  W1 s' /\ KWF s' /\ VND s' /\ ekeys s' = ekeys s ++ [e] /\ h_uid s' = h_uid s /\ h_net s' = h_net s.
Proof.
  intros Hne Hw (K1 & K2 & K3 & K4) Hv. unfold insert_edge.
  set (s1 := with_edge s (set e [] (h_edge s))).
  assert (He1 : has e (h_edge s1) = true).
  { apply has_In. unfold s1. simpl. apply In_keys_set. left; reflexivity. }
  assert (Hw1 : W1 s1).
  { intros n x. unfold s1, mships, mems. simpl. rewrite getl_set.
    beq x e.
    - split; [|intros []]. intro Hi. exfalso. exact (W1_not_listed s e Hw Hne n Hi).
    - apply Hw. }
  assert (Hv1 : VND s1).
  { destruct Hv as [V1 V2]. split; intro x; [apply V1|].
    unfold s1, mems. simpl. rewrite getl_set. destruct (lbl_eqb x e); [constructor|apply V2]. }
  pose proof (fold_attach e ms s1 He1 Hw1 Hv1 K1 K3) as F. simpl in F.
  destruct F as (A & V & B & C & D1 & D2 & D3 & D4).
  set (s2 := fold_left (attach e) ms s1) in *.
  assert (Ek : ekeys s2 = ekeys s ++ [e]).
  { rewrite D3. unfold s1, ekeys. simpl. apply keys_set_nin. exact Hne. }
  split; [|split; [|split; [|split; [|split]]]].
  - intros n x. unfold mships, mems. simpl. apply A.
  - unfold KWF. simpl. repeat split; auto.
    + rewrite D1. unfold s1. simpl. rewrite keys_set_nin by (rewrite K2; exact Hne).
      rewrite K2. symmetry. exact Ek.
    + change (NoDup (ekeys s2)). rewrite Ek. apply NoDup_snoc; assumption.
  - exact V.
  - unfold ekeys. simpl. exact Ek.
  - simpl. rewrite D2. reflexivity.
  - simpl. rewrite D4. reflexivity.
Qed.

(* ------------------------------------------------------------------ uid *)

Lemma UidInv_bump e s : UidInv s -> UidInv (bump_uid e s).
Proof.
  intros H x z Hx Hz. unfold bump_uid in *. destruct (as_int e) as [ze|]; [|apply (H x z); assumption].
  destruct (h_uid s <=? ze) eqn:E; simpl in *.
  - specialize (H x z Hx Hz). apply Z.leb_le in E. lia.
  - apply (H x z); assumption.
Qed.

Lemma bump_uid_covers e s z : as_int e = Some z -> z < h_uid (bump_uid e s).
Proof.
  intro H. unfold bump_uid. rewrite H. destruct (h_uid s <=? z) eqn:E; simpl.
  - lia.
  - apply Z.leb_gt in E. exact E.
Qed.

Lemma bump_uid_tables e s :
  h_node (bump_uid e s) = h_node s /\ h_nattr (bump_uid e s) = h_nattr s /\
  h_edge (bump_uid e s) = h_edge s /\ h_eattr (bump_uid e s) = h_eattr s /\ h_net (bump_uid e s) = h_net s.
Proof.
  unfold bump_uid. destruct (as_int e); [destruct (h_uid s <=? z)|]; simpl; auto.
Qed.

Lemma bump_uid_W1 e s : W1 s -> W1 (bump_uid e s).
Proof.
  intros H n x. unfold mships, mems. destruct (bump_uid_tables e s) as (A & _ & C & _).
  rewrite A, C. apply H.
Qed.
Lemma bump_uid_KWF e s : KWF s -> KWF (bump_uid e s).
Proof.
  unfold KWF. destruct (bump_uid_tables e s) as (A & B & C & D & _). rewrite A, B, C, D. tauto.
Qed.

Lemma bump_uid_VND e s : VND s -> VND (bump_uid e s).
Proof.
  intros [H1 H2]. unfold VND, mships, mems. destruct (bump_uid_tables e s) as (A & _ & C & _).
  rewrite A, C. split; assumption.
Qed.

Lemma bump_uid_mono e s : h_uid s <= h_uid (bump_uid e s).
Proof.
  unfold bump_uid. destruct (as_int e); [destruct (h_uid s <=? z) eqn:E|]; simpl; try lia.
Qed.

(* adding edge e with an explicit id, then bumping *)
Lemma Inv_insert_explicit e ms a s :
  ~ In e (ekeys s) -> Inv s -> Inv (bump_uid e (insert_edge e ms a s)).
Proof.
  intros Hne (Hw & Hk & Hv & Hu).
  destruct (insert_edge_spec e ms a s Hne Hw Hk Hv) as (A & B & V & C & D & _).
  split; [|split; [|split]].
  - apply bump_uid_W1. exact A.
  - apply bump_uid_KWF. exact B.
  - apply bump_uid_VND. exact V.
  - intros x z Hx Hz. unfold ekeys in Hx. destruct (bump_uid_tables e (insert_edge e ms a s)) as (_ & _ & T & _).
    rewrite T in Hx. change (In x (ekeys (insert_edge e ms a s))) in Hx. rewrite C in Hx.
    apply in_app_iff in Hx. destruct Hx as [Hx|[Hx|[]]].
    + specialize (Hu x z Hx Hz). pose proof (bump_uid_mono e (insert_edge e ms a s)). lia.
    + subst x. apply bump_uid_covers. exact Hz.
Qed.

(* adding with the automatic id *)
Lemma Inv_insert_auto ms a s :
  Inv s -> Inv (insert_edge (LInt (h_uid s)) ms a (with_uid s (h_uid s + 1))).
Proof.
  intros (Hw & Hk & Hv & Hu).
  set (s0 := with_uid s (h_uid s + 1)).
  assert (Hne : ~ In (LInt (h_uid s)) (ekeys s0)).
  { intro Hi. specialize (Hu (LInt (h_uid s)) (h_uid s) Hi eq_refl). lia. }
  assert (Hw0 : W1 s0) by exact Hw.
  assert (Hk0 : KWF s0) by exact Hk.
  assert (Hv0 : VND s0) by exact Hv.
  destruct (insert_edge_spec (LInt (h_uid s)) ms a s0 Hne Hw0 Hk0 Hv0) as (A & B & V & C & D & _).
  split; [exact A|split; [exact B|split; [exact V|]]].
  intros x z Hx Hz. rewrite C in Hx. rewrite D. unfold s0; simpl.
  apply in_app_iff in Hx. destruct Hx as [Hx|[Hx|[]]].
  - specialize (Hu x z Hx Hz). lia.
  - subst x. simpl in Hz. inversion Hz. lia.
Qed.

Lemma auto_id_fresh_aux s : Inv s -> ~ In (LInt (h_uid s)) (ekeys (with_uid s (h_uid s + 1))).
Proof.
  intros (_ & _ & _ & U) Hi. specialize (U (LInt (h_uid s)) (h_uid s) Hi eq_refl). lia.
Qed.
