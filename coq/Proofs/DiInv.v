(* The invariant of C02 on the DiHypergraph model and its preservation by every op. *)
From Coq Require Import String ZArith List Bool Lia.
From XV Require Import Base.Label Base.LSet Base.ODict Base.Attr Base.Outcome Model.Hypergraph
  Model.DiHypergraph Proofs.HgViews Proofs.HgInv Proofs.HgInvOps Proofs.HgKeys.
Import ListNotations.
Open Scope Z_scope.

Definition Agree (d : dhg) : Prop :=
  (forall n, In n (nkeys (ts d)) <-> In n (nkeys (hs d))) /\
  (forall e, In e (ekeys (ts d)) <-> In e (ekeys (hs d))) /\
  h_uid (ts d) = h_uid (hs d).

Definition DInv (d : dhg) : Prop := Inv (ts d) /\ Inv (hs d) /\ Agree d.

Lemma DInv_empty : DInv dhg_empty.
Proof. split; [apply Inv_empty|split; [apply Inv_empty|]]. repeat split; auto. Qed.

Lemma dloop_inv {A} (P : dhg -> Prop) (f : dhg -> A -> dres) l :
  (forall d x, P d -> P (dst_of (f d x))) -> forall d, P d -> P (dst_of (dloop f l d)).
Proof.
  intro Hf. induction l as [|x xs IH]; intros d Hd; simpl; [exact Hd|].
  specialize (Hf d x Hd). destruct (f d x) as [[d' o] w]. unfold dst_of in Hf; simpl in Hf.
  destruct o; [|exact Hf].
  specialize (IH d' Hf). destruct (dloop f xs d') as [[d'' o'] w']. exact IH.
Qed.

Lemma dbind_inv (P : dhg -> Prop) (r : dres) (k : dhg -> dres) :
  P (dst_of r) -> (forall d, P d -> P (dst_of (k d))) -> P (dst_of (dbind r k)).
Proof.
  intros Hr Hk. destruct r as [[d o] w]. unfold dst_of in Hr; simpl in Hr. unfold dbind.
  destruct o; [|exact Hr].
  specialize (Hk d Hr). destruct (k d) as [[d' o'] w']. exact Hk.
Qed.

Lemma has_agree_node n d : Agree d -> has n (h_node (hs d)) = has n (h_node (ts d)).
Proof.
  intros (A & _). destruct (has n (h_node (ts d))) eqn:E.
  - apply has_In. apply A. apply has_In. exact E.
  - apply has_nIn. intro H. apply A in H. apply has_In in H. unfold nkeys in *. congruence.
Qed.
Lemma has_agree_edge e d : Agree d -> has e (h_edge (hs d)) = has e (h_edge (ts d)).
Proof.
  intros (_ & A & _). destruct (has e (h_edge (ts d))) eqn:E.
  - apply has_In. apply A. apply has_In. exact E.
  - apply has_nIn. intro H. apply A in H. apply has_In in H. unfold ekeys in *. congruence.
Qed.

(* ---------- attribute setters on the tail side ---------- *)

Lemma DInv_lift_same (f : hg -> res) d :
  (forall s, Inv s -> Inv (st_of (f s))) -> (forall s, SameStruct s (st_of (f s))) ->
  DInv d -> DInv (dst_of (lift_ts f d)).
Proof.
  intros Hi Hs (I1 & I2 & (A1 & A2 & A3)). unfold lift_ts.
  specialize (Hi (ts d) I1). specialize (Hs (ts d)). destruct (f (ts d)) as [[s' o] w].
  unfold st_of in *; simpl in *. destruct Hs as (S1 & S2 & S3).
  split; [exact Hi|split; [exact I2|]]. unfold Agree, nkeys, ekeys. simpl. rewrite S1, S2, S3. auto.
Qed.

(* ---------- nodes ---------- *)

Lemma DInv_add_node_body n a d : DInv d -> DInv (dst_of (d_add_node_body n a d)).
Proof.
  intros (I1 & I2 & Ag). pose proof Ag as (A1 & A2 & A3). unfold d_add_node_body.
  destruct (has n (h_node (ts d))) eqn:E.
  - split; [apply Inv_nattr_update; assumption|split; [exact I2|exact Ag]].
  - destruct (is_none n); [split; [|split]; assumption|].
    split; [apply Inv_nattr_update; [apply ensure_node_has|apply Inv_ensure_node; exact I1]|].
    split; [apply Inv_ensure_node; exact I2|].
    split; [|split].
    + intro x. unfold dst_of; simpl. change (nkeys (nattr_update n a ?s)) with (nkeys s).
      rewrite !ensure_node_In, A1. reflexivity.
    + intro x. unfold dst_of; simpl. change (ekeys (nattr_update n a ?s)) with (ekeys s).
      rewrite !ensure_node_ekeys. apply A2.
    + unfold dst_of; simpl. rewrite !ensure_node_uid. exact A3.
Qed.

Lemma DInv_add_nodes_from items a d : DInv d -> DInv (dst_of (d_add_nodes_from items a d)).
Proof.
  unfold d_add_nodes_from. apply dloop_inv. intros d' [n od] I. apply DInv_add_node_body. exact I.
Qed.

(* ---------- removing edges ---------- *)

Lemma DInv_remove_edge_raw e d : DInv d -> DInv (d_remove_edge_raw e d).
Proof.
  intros (I1 & I2 & (A1 & A2 & A3)). unfold d_remove_edge_raw.
  destruct (remove_edge1_keys e (ts d)) as (T1 & T2 & T3).
  destruct (remove_edge1_keys e (hs d)) as (H1 & H2 & H3). cbv zeta in *.
  split; [apply Inv_remove_edge1; exact I1|split; [apply Inv_remove_edge1; exact I2|]].
  split; [|split]; simpl.
  - intro x. rewrite T1, H1. apply A1.
  - intro x. rewrite T2, H2, A2. reflexivity.
  - rewrite T3, H3. exact A3.
Qed.

Lemma DInv_remove_edge e d : DInv d -> DInv (dst_of (d_remove_edge e d)).
Proof.
  intro I. unfold d_remove_edge. destruct (has e (h_edge (ts d))); [|exact I].
  apply DInv_remove_edge_raw. exact I.
Qed.

Lemma DInv_remove_edges_from es d : DInv d -> DInv (dst_of (d_remove_edges_from es d)).
Proof. unfold d_remove_edges_from. apply dloop_inv. intros d' e I. apply DInv_remove_edge. exact I. Qed.

Lemma is_nil_true l : is_nil l = true -> l = [].
Proof. destruct l; [reflexivity|discriminate]. Qed.

Lemma DInv_drop_if_empty re d e : DInv d -> DInv (d_drop_if_empty re d e).
Proof.
  intros (I1 & I2 & (A1 & A2 & A3)). unfold d_drop_if_empty.
  destruct (is_nil (tail d e)) eqn:E1; simpl; [|split; [|split; [|split; [|split]]]; assumption].
  destruct (is_nil (head d e)) eqn:E2; simpl; [|split; [|split; [|split; [|split]]]; assumption].
  destruct re; simpl; [|split; [|split; [|split; [|split]]]; assumption].
  destruct (has e (h_edge (ts d))); [|split; [|split; [|split; [|split]]]; assumption].
  apply is_nil_true in E1, E2.
  destruct (drop_edge_keys e (ts d)) as (T1 & T2 & T3). destruct (drop_edge_keys e (hs d)) as (H1 & H2 & H3).
  split; [apply Inv_drop_empty_edge; assumption|split; [apply Inv_drop_empty_edge; assumption|]].
  split; [|split]; simpl.
  - intro x. rewrite T1, H1. apply A1.
  - intro x. rewrite T2, H2, A2. reflexivity.
  - exact A3.
Qed.

Lemma fold_DInv {A} (f : dhg -> A -> dhg) l :
  (forall d x, DInv d -> DInv (f d x)) -> forall d, DInv d -> DInv (fold_left f l d).
Proof.
  intro Hf. induction l as [|x xs IH]; intros d I; simpl; [exact I|]. apply IH. apply Hf. exact I.
Qed.

(* ---------- removing nodes ---------- *)

Lemma remove_edge1_mships e s : Inv s ->
  forall x y, In y (mships (st_of (remove_edge1 e s)) x) <-> y <> e /\ In y (mships s x).
Proof.
  intros (W & _) x y. unfold remove_edge1. destruct (get e (h_edge s)) as [ms|] eqn:G.
  - rewrite st_of_ok, drop_edge_mships.
    destruct (unlink_views e ms s) as (A & _). cbv zeta in A. rewrite A.
    assert (Hms : mems s e = ms) by (unfold mems, getl; rewrite G; reflexivity).
    destruct (mem x ms) eqn:M.
    + rewrite In_sremove. tauto.
    + split; [|tauto]. intro H. split; [|exact H]. intro; subst y.
      apply W in H. rewrite Hms in H. apply mem_In in H. congruence.
  - rewrite st_of_raise. split; [|tauto]. intro H. split; [|exact H]. intro; subst y.
    apply W in H. apply get_None in G. apply G. eapply getl_nonempty_key. exact H.
Qed.

Lemma fold_remove_raw_mships es : forall d, DInv d ->
  let d' := fold_left (fun d e => d_remove_edge_raw e d) es d in
  DInv d' /\
  (forall x y, In y (mships (ts d') x) <-> ~ In y es /\ In y (mships (ts d) x)) /\
  (forall x y, In y (mships (hs d') x) <-> ~ In y es /\ In y (mships (hs d) x)).
Proof.
  induction es as [|e es IH]; intros d I; simpl.
  - split; [exact I|]. split; intros; tauto.
  - pose proof (DInv_remove_edge_raw e d I) as I'.
    destruct (IH _ I') as (A & B & C). cbv zeta in *. split; [exact A|].
    destruct I as (I1 & I2 & _).
    split; intros x y.
    + rewrite B. change (ts (d_remove_edge_raw e d)) with (st_of (remove_edge1 e (ts d))).
      rewrite (remove_edge1_mships e (ts d) I1). intuition.
    + rewrite C. change (hs (d_remove_edge_raw e d)) with (st_of (remove_edge1 e (hs d))).
      rewrite (remove_edge1_mships e (hs d) I2). intuition.
Qed.

Lemma no_elements_nil {A} (l : list A) : (forall x, ~ In x l) -> l = [].
Proof. destruct l as [|a l]; [reflexivity|]. intro H. exfalso. apply (H a). left; reflexivity. Qed.

Lemma drop_isolated_node n s : Inv s -> mships s n = [] ->
  Inv (drop_node n s) /\
  (forall x, In x (nkeys (drop_node n s)) <-> x <> n /\ In x (nkeys s)) /\
  ekeys (drop_node n s) = ekeys s /\ h_uid (drop_node n s) = h_uid s.
Proof.
  intros Is Hm. destruct (drop_node_keys n s) as (D1 & D2 & D3). split; [|auto].
  destruct (get n (h_node s)) as [es|] eqn:Gs.
  - assert (es = []) by (unfold mships, getl in Hm; rewrite Gs in Hm; exact Hm). subst es.
    pose proof (Inv_remove_node n false false s Is) as R. unfold remove_node in R. rewrite Gs in R.
    exact R.
  - unfold drop_node. rewrite !del_nin.
    + destruct s; exact Is.
    + destruct Is as (_ & (K1 & _) & _). rewrite K1. apply get_None. exact Gs.
    + apply get_None. exact Gs.
Qed.

Lemma DInv_remove_node n st re d : DInv d -> DInv (dst_of (d_remove_node n st re d)).
Proof.
  intro I. unfold d_remove_node. destruct (get n (h_node (ts d))) as [outs|] eqn:G; [|exact I].
  destruct st.
  - (* strong: remove every incident edge, then the (now isolated) node *)
    destruct (fold_remove_raw_mships (sunion (in_mships d n) outs) d I) as (I1 & M1 & M2). cbv zeta in *.
    set (d1 := fold_left (fun d e => d_remove_edge_raw e d) (sunion (in_mships d n) outs) d) in *.
    assert (Houts : mships (ts d) n = outs) by (unfold mships, getl; rewrite G; reflexivity).
    assert (Z1 : mships (ts d1) n = []).
    { apply no_elements_nil. intros y Hy. apply M1 in Hy. destruct Hy as [Hn Hy]. apply Hn.
      apply In_sunion. right. rewrite <- Houts. exact Hy. }
    assert (Z2 : mships (hs d1) n = []).
    { apply no_elements_nil. intros y Hy. apply M2 in Hy. destruct Hy as [Hn Hy]. apply Hn.
      apply In_sunion. left. exact Hy. }
    destruct I1 as (J1 & J2 & (A1 & A2 & A3)).
    destruct (drop_isolated_node n (ts d1) J1 Z1) as (K1 & T1 & T2 & T3).
    destruct (drop_isolated_node n (hs d1) J2 Z2) as (K2 & H1 & H2 & H3).
    unfold dst_of, dok, both. simpl.
    split; [exact K1|split; [exact K2|]]. split; [|split]; simpl.
    + intro x. rewrite T1, H1, A1. reflexivity.
    + intro x. rewrite T2, H2. apply A2.
    + exact A3.
  - (* weak *)
    unfold dst_of, dok. simpl. apply fold_DInv; [intros; apply DInv_drop_if_empty; assumption|].
    destruct I as (I1 & I2 & (A1 & A2 & A3)).
    destruct (remove_node_weak_keep_keys n (ts d)) as (T1 & T2 & T3).
    destruct (remove_node_weak_keep_keys n (hs d)) as (H1 & H2 & H3). cbv zeta in *.
    split; [apply Inv_remove_node; exact I1|split; [apply Inv_remove_node; exact I2|]].
    split; [|split]; simpl.
    + intro x. rewrite T1, H1, A1. reflexivity.
    + intro x. rewrite T2, H2. apply A2.
    + rewrite T3, H3. exact A3.
Qed.

Lemma DInv_remove_nodes_from ns st re d : DInv d -> DInv (dst_of (d_remove_nodes_from ns st re d)).
Proof.
  unfold d_remove_nodes_from. apply dloop_inv. intros d' n I.
  destruct (has n (h_node (ts d'))); [apply DInv_remove_node; exact I|exact I].
Qed.

(* ---------- adding edges ---------- *)

Lemma bump_uid_keys e s :
  nkeys (bump_uid e s) = nkeys s /\ ekeys (bump_uid e s) = ekeys s.
Proof. destruct (bump_uid_tables e s) as (A & _ & C & _). unfold nkeys, ekeys. rewrite A, C. auto. Qed.

Lemma bump_uid_same_uid e s1 s2 : h_uid s1 = h_uid s2 -> h_uid (bump_uid e s1) = h_uid (bump_uid e s2).
Proof. intro H. unfold bump_uid. destruct (as_int e); [rewrite H; destruct (h_uid s2 <=? z)|]; simpl; auto. Qed.

Lemma DInv_insert_explicit e tl hd a d :
  ~ In e (ekeys (ts d)) -> DInv d -> DInv (d_insert_edge true e tl hd a d).
Proof.
  intros Hne (I1 & I2 & (A1 & A2 & A3)).
  assert (Hne2 : ~ In e (ekeys (hs d))) by (intro H; apply Hne; apply A2; exact H).
  unfold d_insert_edge. cbv zeta.
  destruct (ensure_nodes_spec tl (hs d)) as (N2 & E2 & U2 & D2).
  assert (Hne3 : ~ In e (ekeys (ensure_nodes tl (hs d)))) by (rewrite E2; exact Hne2).
  pose proof (Inv_insert_explicit e tl a (ts d) Hne I1) as J1.
  pose proof (Inv_insert_explicit e hd [] (ensure_nodes tl (hs d)) Hne3 (D2 I2)) as J2.
  destruct (ensure_nodes_spec hd (bump_uid e (insert_edge e tl a (ts d)))) as (N1 & E1 & U1 & D1).
  destruct I1 as (W1a & K1a & V1a & _). destruct (D2 I2) as (W2a & K2a & V2a & _).
  destruct (insert_edge_spec e tl a (ts d) Hne W1a K1a V1a) as (_ & _ & _ & Ek1 & Eu1 & _).
  destruct (insert_edge_spec e hd [] (ensure_nodes tl (hs d)) Hne3 W2a K2a V2a) as (_ & _ & _ & Ek2 & Eu2 & _).
  split; [apply D1; exact J1|split; [exact J2|]].
  split; [|split]; simpl.
  - intro x. rewrite N1. destruct (bump_uid_keys e (insert_edge e tl a (ts d))) as [B1 _].
    destruct (bump_uid_keys e (insert_edge e hd [] (ensure_nodes tl (hs d)))) as [B2 _].
    rewrite B1, B2, !insert_edge_nkeys, N2, A1. tauto.
  - intro x. rewrite E1. destruct (bump_uid_keys e (insert_edge e tl a (ts d))) as [_ B1].
    destruct (bump_uid_keys e (insert_edge e hd [] (ensure_nodes tl (hs d)))) as [_ B2].
    rewrite B1, B2, Ek1, Ek2, E2, !in_app_iff, A2. tauto.
  - rewrite U1. apply bump_uid_same_uid. rewrite Eu1, Eu2, U2. exact A3.
Qed.

Lemma DInv_next d : DInv d -> DInv (d_next d).
Proof.
  intros (I1 & I2 & (A1 & A2 & A3)). unfold d_next, both.
  split; [apply Inv_with_uid; [lia|exact I1]|split; [apply Inv_with_uid; [lia|exact I2]|]].
  split; [exact A1|split; [exact A2|]]. simpl. lia.
Qed.

Lemma ensure_nodes_with_uid ns u : forall s, ensure_nodes ns (with_uid s u) = with_uid (ensure_nodes ns s) u.
Proof.
  unfold ensure_nodes. induction ns as [|n ns IH]; intro s; [reflexivity|]. cbn [fold_left].
  assert (E : ensure_node n (with_uid s u) = with_uid (ensure_node n s) u).
  { unfold ensure_node. cbn [h_node with_uid]. destruct (has n (h_node s)); reflexivity. }
  rewrite E. apply IH.
Qed.

Lemma DInv_insert_auto tl hd a d :
  DInv d -> DInv (d_insert_edge false (LInt (h_uid (ts d))) tl hd a (d_next d)).
Proof.
  intros (I1 & I2 & (A1 & A2 & A3)).
  unfold d_insert_edge, d_next, both. cbv zeta. simpl ts. simpl hs.
  destruct (ensure_nodes_spec tl (hs d)) as (N2 & E2 & U2 & D2).
  rewrite ensure_nodes_with_uid.
  set (h1 := ensure_nodes tl (hs d)) in *.
  pose proof (Inv_insert_auto tl a (ts d) I1) as J1.
  pose proof (Inv_insert_auto hd [] h1 (D2 I2)) as J2. rewrite U2, <- A3 in J2.
  set (e := LInt (h_uid (ts d))) in *.
  rewrite <- A3. set (t0 := with_uid (ts d) (h_uid (ts d) + 1)) in *.
  set (h0 := with_uid h1 (h_uid (ts d) + 1)) in *.
  destruct (ensure_nodes_spec hd (insert_edge e tl a t0)) as (N1 & E1 & U1 & D1).
  assert (Hne : ~ In e (ekeys t0)) by (apply (auto_id_fresh_aux (ts d) I1)).
  assert (Hne2 : ~ In e (ekeys h0)).
  { intro H. apply Hne. change (ekeys h0) with (ekeys h1) in H. rewrite E2 in H. apply A2. exact H. }
  destruct I1 as (W1a & K1a & V1a & _). destruct (D2 I2) as (W2a & K2a & V2a & _).
  destruct (insert_edge_spec e tl a t0 Hne W1a K1a V1a) as (_ & _ & _ & Ek1 & Eu1 & _).
  destruct (insert_edge_spec e hd [] h0 Hne2 W2a K2a V2a) as (_ & _ & _ & Ek2 & Eu2 & _).
  split; [apply D1; exact J1|split; [exact J2|]].
  split; [|split]; simpl.
  - intro x. rewrite N1, !insert_edge_nkeys. change (nkeys t0) with (nkeys (ts d)).
    change (nkeys h0) with (nkeys h1). rewrite N2, A1. tauto.
  - intro x. rewrite E1, Ek1, Ek2, !in_app_iff. change (ekeys t0) with (ekeys (ts d)).
    change (ekeys h0) with (ekeys h1). rewrite E2, A2. tauto.
  - rewrite U1, Eu1. transitivity (h_uid h0); [reflexivity|symmetry; exact Eu2].
Qed.

Lemma DInv_add_edge tl hd idx a d : DInv d -> DInv (dst_of (d_add_edge tl hd idx a d)).
Proof.
  intro I. unfold d_add_edge. destruct (has_none tl || has_none hd); [exact I|].
  destruct idx as [i|].
  - destruct (has i (h_edge (ts d))) eqn:E; [exact I|].
    apply DInv_insert_explicit; [apply has_false_nin; exact E|exact I].
  - apply DInv_insert_auto. exact I.
Qed.

Lemma DInv_bulk_explicit a d tl hd idx ea : DInv d -> DInv (dst_of (d_bulk_item true a d tl hd idx ea)).
Proof.
  intro I. unfold d_bulk_item. destruct (has idx (h_edge (ts d))) eqn:E; [exact I|].
  destruct (has_none tl || has_none hd); [exact I|]. destruct (is_none idx); [exact I|].
  apply DInv_insert_explicit; [apply has_false_nin; exact E|exact I].
Qed.

Lemma DInv_bulk_auto a d tl hd ea :
  DInv d -> DInv (dst_of (d_bulk_item false a (d_next d) tl hd (LInt (h_uid (ts d))) ea)).
Proof.
  intro I. unfold d_bulk_item. pose proof (DInv_next d I) as I'.
  destruct (has (LInt (h_uid (ts d))) (h_edge (ts (d_next d)))); [exact I'|].
  destruct (has_none tl || has_none hd); [exact I'|]. simpl is_none. cbv iota.
  apply DInv_insert_auto. exact I.
Qed.

Lemma DInv_add_edges_from eb a d : DInv d -> DInv (dst_of (d_add_edges_from eb a d)).
Proof.
  intro I. destruct eb as [l|l|l|l|l]; simpl; revert d I; apply dloop_inv.
  - intros d' [tl hd] I'. apply DInv_bulk_auto. exact I'.
  - intros d' [[tl hd] i] I'. apply DInv_bulk_explicit. exact I'.
  - intros d' [[tl hd] ea] I'. apply DInv_bulk_auto. exact I'.
  - intros d' [[[tl hd] i] ea] I'. apply DInv_bulk_explicit. exact I'.
  - intros d' [idx [tl hd]] I'.
    destruct (has idx (h_edge (ts d'))) eqn:E; [exact I'|].
    destruct (has_none tl || has_none hd); [exact I'|]. destruct (is_none idx); [exact I'|].
    apply DInv_insert_explicit; [apply has_false_nin; exact E|exact I'].
Qed.

(* ---------- add_node_to_edge / remove_node_from_edge ---------- *)

Lemma new_empty_edge_eq e s : new_empty_edge e s = bump_uid e (insert_edge e [] [] s).
Proof. reflexivity. Qed.

Lemma DInv_new_empty_edge e d : ~ In e (ekeys (ts d)) -> DInv d -> DInv (both (new_empty_edge e) d).
Proof.
  intros Hne I. pose proof (DInv_insert_explicit e [] [] [] d Hne I) as H.
  unfold d_insert_edge in H. simpl in H. exact H.
Qed.

Lemma DInv_ensure_node n d : DInv d -> DInv (both (ensure_node n) d).
Proof.
  intros (I1 & I2 & (A1 & A2 & A3)). unfold both.
  split; [apply Inv_ensure_node; exact I1|split; [apply Inv_ensure_node; exact I2|]].
  split; [|split]; simpl.
  - intro x. rewrite !ensure_node_In, A1. reflexivity.
  - intro x. rewrite !ensure_node_ekeys. apply A2.
  - rewrite !ensure_node_uid. exact A3.
Qed.

Lemma attach_keys_present e s n :
  has e (h_edge s) = true -> has n (h_node s) = true ->
  (forall x, In x (nkeys (attach e s n)) <-> In x (nkeys s)) /\ ekeys (attach e s n) = ekeys s /\
  h_uid (attach e s n) = h_uid s.
Proof.
  intros He Hn. split; [|split; [apply attach_edge_keys; exact He|apply attach_uid]].
  intro x. rewrite attach_nkeys_In. apply has_In in Hn. split; [intros [->|H]; auto|auto].
Qed.

Lemma DInv_add_node_to_edge e n dir d : DInv d -> DInv (dst_of (d_add_node_to_edge e n dir d)).
Proof.
  intro I. unfold d_add_node_to_edge.
  destruct dir; try exact I.
  all: destruct (negb (has e (h_edge (ts d))) && is_none e); [exact I|].
  all: set (d1 := if has e (h_edge (ts d)) then d else both (new_empty_edge e) d).
  all: assert (I1 : DInv d1 /\ has e (h_edge (ts d1)) = true).
  1,3: unfold d1; destruct (has e (h_edge (ts d))) eqn:E; [split; [exact I|exact E]|];
       (split; [apply DInv_new_empty_edge; [apply has_false_nin; exact E|exact I]|]);
       unfold both; simpl ts; rewrite new_empty_edge_eq;
       destruct (bump_uid_tables e (insert_edge e [] [] (ts d))) as (_ & _ & T & _); rewrite T;
       simpl; apply has_In; apply In_keys_set; left; reflexivity.
  all: destruct I1 as [I1 He1].
  all: destruct (negb (has n (h_node (ts d1))) && is_none n); [exact I1|].
  all: pose proof (DInv_ensure_node n d1 I1) as (J1 & J2 & (A1 & A2 & A3)).
  all: set (d2 := both (ensure_node n) d1) in *.
  all: assert (Hn2 : has n (h_node (ts d2)) = true) by (unfold d2, both; simpl; apply ensure_node_has).
  all: assert (Hn2' : has n (h_node (hs d2)) = true) by (unfold d2, both; simpl; apply ensure_node_has).
  all: assert (He2 : has e (h_edge (ts d2)) = true) by (unfold d2, both; simpl; rewrite ensure_node_edge; exact He1).
  all: assert (He2' : has e (h_edge (hs d2)) = true)
         by (apply has_In; apply A2; apply has_In; exact He2).
  - destruct (attach_keys_present e (ts d2) n He2 Hn2) as (K1 & K2 & K3).
    unfold dst_of, dok. cbn [fst ts hs].
    split; [apply Inv_attach; assumption|split; [exact J2|]].
    split; [|split]; cbn [ts hs].
    + intro x. rewrite K1. apply A1.
    + intro x. rewrite K2. apply A2.
    + rewrite K3. exact A3.
  - destruct (attach_keys_present e (hs d2) n He2' Hn2') as (K1 & K2 & K3).
    unfold dst_of, dok. cbn [fst ts hs].
    split; [exact J1|split; [apply Inv_attach; assumption|]].
    split; [|split]; cbn [ts hs].
    + intro x. rewrite K1. apply A1.
    + intro x. rewrite K2. apply A2.
    + rewrite K3. exact A3.
Qed.

(* removing one incidence on one side *)
Lemma Inv_unlink1 e n s : Inv s -> Inv (unlink1 e n s).
Proof.
  intro I.
  destruct (has e (h_edge s) && has n (h_node s) && mem n (getl e (h_edge s))) eqn:C.
  - apply andb_true_iff in C. destruct C as [C Hm]. apply andb_true_iff in C. destruct C as [He Hn].
    pose proof (Inv_remove_node_from_edge e n false s I) as R.
    unfold remove_node_from_edge in R. rewrite He, Hn, Hm in R. simpl in R.
    rewrite andb_false_r in R. exact R.
  - (* nothing to remove: the same sets are written back *)
    destruct I as (W & (K1 & K2 & K3 & K4) & (V1 & V2) & U).
    assert (Hnm : ~ In n (mems s e)).
    { intro Hi. pose proof Hi as Hi2. apply W in Hi2.
      assert (has e (h_edge s) = true) by (apply has_In; eapply getl_nonempty_key; exact Hi).
      assert (has n (h_node s) = true) by (apply has_In; eapply getl_nonempty_key; exact Hi2).
      assert (mem n (getl e (h_edge s)) = true) by (apply mem_In; exact Hi).
      rewrite H, H0, H1 in C. discriminate. }
    assert (Hem : ~ In e (mships s n)) by (intro Hi; apply W in Hi; contradiction).
    assert (Mm : forall y, mems (unlink1 e n s) y = mems s y).
    { intro y. unfold unlink1, mems, node_rem. destruct (has n (h_node (edge_rem e n s))); simpl;
      fold (mems (edge_rem e n s) y); rewrite edge_rem_mems;
      (destruct (lbl_eqb_spec y e) as [->|]; [apply sremove_nIn; exact Hnm|reflexivity]). }
    assert (Ms : forall x, mships (unlink1 e n s) x = mships s x).
    { intro x. unfold unlink1. rewrite node_rem_mships.
      destruct (edge_rem_other e n s) as (T1 & _). unfold mships. rewrite T1.
      destruct (lbl_eqb_spec x n) as [->|]; [apply sremove_nIn; exact Hem|reflexivity]. }
    destruct (unlink1_keys e n s) as (Q1 & Q2 & Q3).
    destruct (edge_rem_other e n s) as (T1 & T2 & T3 & T4).
    split; [|split; [|split]].
    + intros x y. rewrite Ms, Mm. apply W.
    + unfold KWF. change (keys (h_node (unlink1 e n s))) with (nkeys (unlink1 e n s)).
      change (keys (h_edge (unlink1 e n s))) with (ekeys (unlink1 e n s)). rewrite Q1, Q2.
      unfold unlink1, node_rem. destruct (has n (h_node (edge_rem e n s))); simpl; rewrite T2, T3; auto.
    + split; intro x; [rewrite Ms; apply V1|rewrite Mm; apply V2].
    + intros x z Hx Hz. rewrite Q2 in Hx. rewrite Q3. apply (U x z); assumption.
Qed.

Lemma DInv_remove_node_from_edge e n dir re d :
  DInv d -> DInv (dst_of (d_remove_node_from_edge e n dir re d)).
Proof.
  intro I. unfold d_remove_node_from_edge. destruct dir; try exact I.
  all: destruct (negb (has e (h_edge (ts d)))); [exact I|].
  all: destruct (negb (has n (h_node (ts d)))); [exact I|].
  all: match goal with |- context [negb ?c] => destruct c end; [|exact I].
  all: simpl negb; cbv iota; unfold dst_of, dok; simpl; apply DInv_drop_if_empty.
  all: destruct I as (I1 & I2 & (A1 & A2 & A3)).
  - destruct (unlink1_keys e n (ts d)) as (Q1 & Q2 & Q3).
    split; [apply Inv_unlink1; exact I1|split; [exact I2|]]. split; [|split]; cbn [ts hs].
    + intro x. rewrite Q1. apply A1.
    + intro x. rewrite Q2. apply A2.
    + rewrite Q3. exact A3.
  - destruct (unlink1_keys e n (hs d)) as (Q1 & Q2 & Q3).
    split; [exact I1|split; [apply Inv_unlink1; exact I2|]]. split; [|split]; cbn [ts hs].
    + intro x. rewrite Q1. apply A1.
    + intro x. rewrite Q2. apply A2.
    + rewrite Q3. exact A3.
Qed.

(* ---------- clear, relabel, cleanup ---------- *)

Lemma DInv_cleared net1 net2 u : DInv (mkD (mkHG [] [] [] [] net1 u) (mkHG [] [] [] [] net2 u)).
Proof.
  split; [apply Inv_cleared|split; [apply Inv_cleared|]]. repeat split; auto.
Qed.

Lemma DInv_clear rn d : DInv d -> DInv (dst_of (d_clear rn d)).
Proof.
  intros (_ & _ & (_ & _ & A3)). unfold d_clear, dst_of, dok, clear. simpl. rewrite A3. apply DInv_cleared.
Qed.

Lemma DInv_relabel la d : DInv d -> DInv (dst_of (d_relabel la d)).
Proof.
  intros (_ & _ & (_ & _ & A3)). unfold d_relabel. cbv zeta.
  apply dbind_inv; [apply DInv_add_nodes_from; rewrite A3; apply DInv_cleared|].
  intros d1 I1. apply dbind_inv.
  { apply DInv_lift_same; [intros; apply Inv_set_node_attrs_dict; assumption|
                           intros; apply set_node_attrs_dict_same|exact I1]. }
  intros d2 I2. apply dbind_inv; [apply DInv_add_edges_from; exact I2|].
  intros d3 I3.
  apply DInv_lift_same; [intros; apply Inv_set_edge_attrs_dict; assumption|
                         intros; apply set_edge_attrs_dict_same|exact I3].
Qed.

Lemma DInv_cleanup iso rl d : DInv d -> DInv (dst_of (d_cleanup iso rl d)).
Proof.
  intro I. unfold d_cleanup. apply dbind_inv.
  - destruct iso; [exact I|apply DInv_remove_nodes_from; exact I].
  - intros d1 I1. destruct rl; [apply DInv_relabel; exact I1|exact I1].
Qed.

Theorem dstep_DInv d o : DInv d -> DInv (dst_of (dstep d o)).
Proof.
  intro I. destruct o; simpl dstep.
  - apply DInv_add_node_body; exact I.
  - apply DInv_add_nodes_from; exact I.
  - apply DInv_remove_node; exact I.
  - apply DInv_remove_nodes_from; exact I.
  - apply DInv_lift_same; [intros; apply Inv_set_node_attrs_named; assumption|intros; apply set_node_attrs_named_same|exact I].
  - apply DInv_lift_same; [intros; apply Inv_set_node_attrs_scalar; assumption|intros; apply set_node_attrs_scalar_same|exact I].
  - apply DInv_lift_same; [intros; apply Inv_set_node_attrs_dict; assumption|intros; apply set_node_attrs_dict_same|exact I].
  - apply DInv_add_edge; exact I.
  - apply DInv_add_edges_from; exact I.
  - apply DInv_lift_same; [intros; apply Inv_set_edge_attrs_named; assumption|intros; apply set_edge_attrs_named_same|exact I].
  - apply DInv_lift_same; [intros; apply Inv_set_edge_attrs_scalar; assumption|intros; apply set_edge_attrs_scalar_same|exact I].
  - apply DInv_lift_same; [intros; apply Inv_set_edge_attrs_dict; assumption|intros; apply set_edge_attrs_dict_same|exact I].
  - apply DInv_add_node_to_edge; exact I.
  - apply DInv_remove_edge; exact I.
  - apply DInv_remove_edges_from; exact I.
  - apply DInv_remove_node_from_edge; exact I.
  - apply DInv_clear; exact I.
  - apply DInv_cleanup; exact I.
  - apply DInv_relabel; exact I.
  - destruct I as (I1 & I2 & A). split; [apply Inv_with_net; exact I1|split; [exact I2|exact A]].
Qed.

Theorem drun_DInv ops : forall d, DInv d -> DInv (drun ops d).
Proof.
  induction ops as [|o r IH]; intros d I; simpl; [exact I|]. apply IH. apply dstep_DInv. exact I.
Qed.

Theorem drun_prefix_DInv ops k d : DInv d -> DInv (drun (firstn k ops) d).
Proof. apply drun_DInv. Qed.

(* what DInv means for the reports *)
Theorem DInv_reports d : DInv d ->
  (forall n e, In n (tail d e) <-> In e (out_mships d n)) /\
  (forall n e, In n (head d e) <-> In e (in_mships d n)) /\
  (forall e n, In n (tail d e) \/ In n (head d e) -> In n (nkeys (ts d)) /\ In e (ekeys (ts d))) /\
  (forall n e, In e (out_mships d n) \/ In e (in_mships d n) -> In e (ekeys (ts d)) /\ In n (nkeys (ts d))) /\
  (forall n, In n (nkeys (ts d)) <-> has n (h_nattr (ts d)) = true) /\
  (forall e, In e (ekeys (ts d)) <-> has e (h_eattr (ts d)) = true) /\
  NoDup (nkeys (ts d)) /\ NoDup (ekeys (ts d)) /\
  NoDup (keys (h_nattr (ts d))) /\ NoDup (keys (h_eattr (ts d))).
Proof.
  intros (I1 & I2 & (A1 & A2 & A3)).
  destruct (Inv_reports_core (ts d) I1) as (W1a & M1 & S1 & N1 & E1 & D1 & D2 & D3 & D4).
  destruct (Inv_reports_core (hs d) I2) as (W2a & M2 & S2 & _).
  split; [intros n e; symmetry; apply W1a|]. split; [intros n e; symmetry; apply W2a|].
  split.
  { intros e n [H|H].
    - apply (M1 e n H).
    - destruct (M2 e n H) as [X Y]. split; [apply A1; exact X|apply A2; exact Y]. }
  split.
  { intros n e [H|H].
    - apply (S1 n e H).
    - destruct (S2 n e H) as [X Y]. split; [apply A2; exact X|apply A1; exact Y]. }
  auto 10.
Qed.
