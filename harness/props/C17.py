"""C17 - a seed fully determines every stochastic result."""
import importlib, inspect, pkgutil, random, warnings
from .. import common as C, translate_seed
from . import base

PROP = "C17"


def snap(x):
    import numpy as np, xgi
    if isinstance(x, xgi.DiHypergraph):
        return ("D", list(x.nodes), [(e, tuple(sorted(map(repr, x.edges.tail(e)))), tuple(sorted(map(repr, x.edges.head(e))))) for e in x.edges])
    if isinstance(x, xgi.Hypergraph):
        return (type(x).__name__, list(x.nodes), [(e, tuple(sorted(map(repr, x.edges.members(e))))) for e in x.edges])
    if isinstance(x, dict):
        return {k: snap(v) for k, v in x.items()}
    if isinstance(x, np.ndarray):
        return ("arr", x.shape, x.tobytes())
    if isinstance(x, (list, tuple)):
        return [snap(v) for v in x]
    if isinstance(x, np.generic):
        return x.item()
    return x


def call_table(rng):
    """name -> list of thunks taking the seed; parameters vary with rng"""
    import networkx as nx, numpy as np, xgi
    H = xgi.random_hypergraph(rng.randint(6, 10), [0.3, 0.08], seed=rng.randrange(50))
    Hs = xgi.random_hypergraph(14, [0.15, 0.03], seed=5)
    G_ = nx.erdos_renyi_graph(rng.randint(6, 9), 0.45, seed=rng.randrange(50))
    n = rng.randint(7, 11)
    k1 = {i: rng.randint(1, 3) for i in range(6)}; k2 = {i: rng.randint(2, 4) for i in range(4)}
    t = {}
    t["random_hypergraph"] = lambda s: xgi.random_hypergraph(n, [0.2, 0.05], seed=s)
    t["fast_random_hypergraph"] = lambda s: xgi.fast_random_hypergraph(n, [0.2, 0.05], seed=s)
    t["chung_lu_hypergraph"] = lambda s: xgi.chung_lu_hypergraph(k1, k2, seed=s)
    t["dcsbm_hypergraph"] = lambda s: xgi.dcsbm_hypergraph(k1, k2, {i: i % 2 for i in range(6)}, {i: i % 2 for i in range(4)},
                                                          np.array([[4, 2], [2, 4]]), seed=s)
    t["watts_strogatz_hypergraph"] = lambda s: xgi.watts_strogatz_hypergraph(n, 3, 2, 2, 0.4, seed=s)
    t["shuffle_hyperedges"] = lambda s: xgi.shuffle_hyperedges(H, order=1, p=0.6, seed=s)
    t["flag_complex"] = lambda s: xgi.flag_complex(G_, max_order=2, ps=[0.5], seed=s)
    t["flag_complex_d2"] = lambda s: xgi.flag_complex_d2(G_, p2=0.5, seed=s)
    t["random_flag_complex"] = lambda s: xgi.random_flag_complex(n, 0.5, max_order=2, seed=s)
    t["random_flag_complex_d2"] = lambda s: xgi.random_flag_complex_d2(n, 0.5, seed=s)
    t["random_simplicial_complex"] = lambda s: xgi.random_simplicial_complex(n, [0.3, 0.2], seed=s)
    t["uniform_HPPM"] = lambda s: xgi.uniform_HPPM(10, 3, 2, 0.5, 0.8, seed=s)
    t["uniform_HSBM"] = lambda s: xgi.uniform_HSBM(8, 3, np.full((2, 2, 2), 0.3), [4, 4], seed=s)
    t["uniform_erdos_renyi_hypergraph"] = lambda s: xgi.uniform_erdos_renyi_hypergraph(n, 3, 0.2, seed=s)
    kk = {i: rng.randint(1, 3) for i in range(rng.randint(6, 10))}    # often not realizable: the repair step draws too
    t["uniform_hypergraph_configuration_model"] = lambda s: xgi.uniform_hypergraph_configuration_model(dict(kk), 3, seed=s)
    t["random_layout"] = lambda s: xgi.random_layout(H, seed=s)
    t["pairwise_spring_layout"] = lambda s: xgi.pairwise_spring_layout(H, seed=s)
    t["barycenter_spring_layout"] = lambda s: xgi.barycenter_spring_layout(H, seed=s)
    t["weighted_barycenter_spring_layout"] = lambda s: xgi.weighted_barycenter_spring_layout(H, seed=s)
    t["bipartite_spring_layout"] = lambda s: xgi.bipartite_spring_layout(H, seed=s)
    t["spectral_clustering"] = lambda s: xgi.spectral_clustering(Hs, 3, seed=s)
    # k-means inside spectral clustering has data-dependent branches (a cluster that empties, early
    # convergence): more inputs and cluster numbers, each recorded with the call for the replay
    for i in range(8):
        nn = rng.randint(8, 24)
        Hv = xgi.random_hypergraph(nn, [rng.choice([0.1, 0.15, 0.25]), rng.choice([0.02, 0.05])], seed=rng.randrange(1000))
        Hv.remove_nodes_from(list(Hv.nodes.isolates()))      # the normalised Laplacian refuses isolated nodes
        kv = rng.randint(2, 5)
        if Hv.num_nodes <= kv:
            continue
        def th(s, Hv=Hv, kv=kv):
            return xgi.spectral_clustering(Hv, kv, seed=s)
        th.args = {"nodes": list(Hv.nodes), "edges": [sorted(e) for e in Hv.edges.members()], "k": kv}
        t[f"spectral_clustering/{i}"] = th
    return t


def introspected():
    """public module-level functions of the installed package that accept `seed`"""
    import xgi
    out = set()
    for m in pkgutil.walk_packages(xgi.__path__, "xgi."):
        try:
            mod = importlib.import_module(m.name)
        except Exception:  # noqa: BLE001
            continue
        for name, f in inspect.getmembers(mod, inspect.isfunction):
            if f.__module__ != mod.__name__ or name.startswith("_"):
                continue
            try:
                if "seed" in inspect.signature(f).parameters:
                    out.add(name)
            except (TypeError, ValueError):
                pass
    return out


class EigSpy:
    """Records what the sparse eigensolver (ARPACK through scipy.sparse.linalg.eigsh) is given and returns, for
    every call made by xgi.communities.spectral while the spy is installed."""
    def __init__(self):
        self.rec = []
    def __enter__(self):
        import numpy as np
        import xgi.communities.spectral as sp
        self.sp, self.orig = sp, sp.eigsh
        def spy(L, *a, **kw):
            out = self.orig(L, *a, **kw)
            v0 = kw.get("v0")
            self.rec.append(((L.toarray().tobytes(), repr(a), kw.get("k"), None if v0 is None else np.asarray(v0).tobytes()),
                             np.asarray(out[1]).tobytes()))
            return out
        sp.eigsh = spy
        return self
    def __exit__(self, *exc):
        self.sp.eigsh = self.orig
        return False


def spied(f, seed):
    """(result, eigensolver records of this very call)"""
    with EigSpy() as spy:
        out = snap(f(seed))
    return out, list(spy.rec)


def eigensolver_explains(ra, rb):
    """the two calls handed the eigensolver byte-identical arguments and got different eigenvectors back: the
    difference between the two results then comes from state hidden inside ARPACK (its restart-vector generator
    keeps a Fortran SAVE'd seed across calls), not from the Python code"""
    # a call without a start vector (v0 None) lets ARPACK draw its own: then the library did not pass the seed on, and the
    # difference is the library's, not the solver's
    return len(ra) == len(rb) and len(ra) > 0 and all(x[0] == y[0] and x[0][3] is not None for x, y in zip(ra, rb)) \
        and any(x[1] != y[1] for x, y in zip(ra, rb))


def perturb(rng, table):
    import numpy as np
    for _ in range(rng.randint(0, 5)):
        random.random()
    for _ in range(rng.randint(0, 5)):
        np.random.rand()
    if rng.random() < 0.5:
        random.seed(rng.randrange(1000))
    if rng.random() < 0.5:
        np.random.seed(rng.randrange(1000))
    if rng.random() < 0.5:     # another seeded function of the package in between
        other = rng.choice(sorted(table))
        try:
            table[other](rng.randrange(100))
        except Exception:  # noqa: BLE001
            pass


def stream_usage(f, seed):
    """which global generators a call seeds and touches (the run-time counterpart of the event list)"""
    import numpy as np
    calls = {"py_seed": [], "np_seed": []}
    orig_py, orig_np = random.seed, np.random.seed
    def py_seed(a=None, *r, **k):
        calls["py_seed"].append(a); return orig_py(a, *r, **k)
    def np_seed_(a=None, *r, **k):
        calls["np_seed"].append(a); return orig_np(a, *r, **k)
    random.seed = py_seed; np.random.seed = np_seed_
    try:
        random.seed(12345); np.random.seed(12345)
        calls["py_seed"].clear(); calls["np_seed"].clear()
        s0, n0 = random.getstate(), np.random.get_state()[1].tobytes() + bytes([np.random.get_state()[2] % 256])
        f(seed)
        s1, n1 = random.getstate(), np.random.get_state()[1].tobytes() + bytes([np.random.get_state()[2] % 256])
    finally:
        random.seed = orig_py; np.random.seed = orig_np
    return {"py_seeded": seed in calls["py_seed"], "np_seeded": seed in calls["np_seed"],
            "py_touched": s0 != s1, "np_touched": n0 != n1}


def run(v):
    proof = base.proof_stage(v, PROP)
    thorough = C.tier() == "thorough"
    rng = random.Random(C.seed() * 211 + 17)
    failures, reports = [], []
    rows = {name: evs for _, name, evs in translate_seed.regenerate()}
    pub = introspected()
    if set(rows) != pub:
        reports.append({"correspondence": "seeded functions: translator vs introspection",
                        "only_in_source_scan": sorted(set(rows) - pub), "only_in_introspection": sorted(pub - set(rows))})
    rounds = 12 if thorough else 3
    ncalls = 0
    covered = set()
    # fixed probe for the recorded finding (so that it is reported on every run, not only when sampled)
    try:
        import xgi
        with warnings.catch_warnings():
            warnings.simplefilter("ignore")
            Hk = xgi.Hypergraph([[0, 6], [1, 5], [2, 3], [4, 8], [6, 7], [1, 6, 8]])
            fk = lambda s: xgi.spectral_clustering(Hk, 3, seed=s)
            outs = [spied(fk, 0) for _ in range(12)]
            ncalls += 12
            diff = [o for o in outs if o[0] != outs[0][0]]
            if diff:
                sig = "spectral_clustering:eigensolver-hidden-state" if eigensolver_explains(outs[0][1], diff[0][1]) else "spectral_clustering"
                failures.append((f"{PROP}:{sig}", {"what": "spectral_clustering(H, 3, seed=0) returns different clusterings on repeated calls",
                                                   "function": "spectral_clustering/known", "seed": 0,
                                                   "args": {"nodes": list(Hk.nodes), "edges": [sorted(e) for e in Hk.edges.members()], "k": 3}}))
    except Exception as e:  # noqa: BLE001
        failures.append((f"{PROP}:spectral_clustering:raised", {"what": f"spectral_clustering raised {type(e).__name__}: {e}", "function": "spectral_clustering", "seed": 0}))
    for rd in range(rounds):
        with warnings.catch_warnings():
            warnings.simplefilter("ignore")
            table = call_table(rng)
        missing = pub - {x.split('/')[0] for x in table}
        if missing and rd == 0:
            reports.append({"correspondence": "seeded function without a call recipe in the oracle", "functions": sorted(missing)})
        for name in sorted(table):
            f = table[name]
            for seed in ([0, 1, 7, 123] if thorough else [0, 7]):
                with warnings.catch_warnings():
                    warnings.simplefilter("ignore")
                    try:
                        is_spec = name.startswith("spectral_clustering")
                        a, ra = spied(f, seed) if is_spec else (snap(f(seed)), None)
                        ok = True
                        rb = None
                        for _ in range(4 if thorough else 2):
                            perturb(rng, table)
                            b, rb = spied(f, seed) if is_spec else (snap(f(seed)), None)
                            ncalls += 1
                            if a != b:
                                ok = False
                                break
                        if not ok and is_spec and eigensolver_explains(ra, rb):
                            failures.append((f"{PROP}:spectral_clustering:eigensolver-hidden-state",
                                             {"what": "spectral_clustering: scipy's ARPACK eigensolver returns different eigenvectors for identical arguments (matrix, k, seeded start vector)",
                                              "function": name, "seed": seed, "round": rd, "args": getattr(f, "args", None)}))
                        elif not ok:
                            failures.append((f"{PROP}:{name.split('/')[0]}", {"what": f"{name.split('/')[0]}(..., seed={seed}) returned different results on two calls with the global generators perturbed in between",
                                                                "function": name, "seed": seed, "round": rd, "args": getattr(f, "args", None)}))
                        # run-time stream usage against the generated event list
                        if rd == 0 and seed == 0 and name in rows:
                            u = stream_usage(f, seed)
                            evs = rows[name]
                            if u["py_seeded"] != ("ESeed PyRandom" in evs) or u["np_seeded"] != ("ESeed NpGlobal" in evs):
                                reports.append({"correspondence": "generated event list vs run-time seeding", "function": name, "events": evs, "observed": u})
                            if (u["py_touched"] and not any("PyRandom" in e for e in evs)) or (u["np_touched"] and not any("NpGlobal" in e for e in evs)):
                                reports.append({"correspondence": "generated event list misses a generator the call touches", "function": name, "events": evs, "observed": u})
                        covered.add(name.split('/')[0])
                    except Exception as e:  # noqa: BLE001
                        failures.append((f"{PROP}:{name}:raised", {"what": f"{name} raised {type(e).__name__}: {e}", "function": name, "seed": seed}))
    v.coverage.update({
        "evaluations": ncalls,
        "distinct_nontrivial": len(covered),
        "rule": "every public function with a seed parameter (list regenerated from the source and cross-checked by "
                "introspection), called twice with the same arguments and seed with random draws, reseeding of both "
                "global generators and calls to other seeded functions in between; the generated event list is compared "
                "with the seeding calls and generator state changes observed at run time; non-trivial = distinct functions",
        "samples": sorted(covered)[:5],
        "oracle_evaluations": ncalls,
        "functions": sorted(rows),
        "exhaustive": False,
    })
    base.conclude(v, proof, reports, failures, [])


def replay(payload):
    d = payload.get("detail", payload)
    rng = random.Random(0)
    table = call_table(rng)
    if d.get("args"):
        import xgi
        Hr = xgi.Hypergraph(); Hr.add_nodes_from(d["args"]["nodes"]); Hr.add_edges_from(d["args"]["edges"])
        f = lambda s: getattr(xgi, d["function"].split("/")[0])(Hr, d["args"]["k"], seed=s)
    else:
        f = table[d["function"]]
    a = snap(f(d["seed"]))
    for _ in range(14):
        perturb(rng, table)
        if snap(f(d["seed"])) != a:
            print("oracle: results differ"); return 1
    print("oracle: holds"); return 0
