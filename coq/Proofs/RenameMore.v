(* C09, continued: clustering coefficient, projection, line graph and encapsulation links commute
   with injective relabellings. *)
From Coq Require Import String ZArith List Bool Lia.
From XV Require Import Base.Label Base.LSet Base.ODict Base.Attr Base.Outcome Model.Hypergraph Model.Stats Model.Hodge
     Model.Matrix Model.Graph Model.Rename Proofs.HgViews Proofs.RenameProofs.
Import ListNotations.
Open Scope Z_scope.

Section More.
  Variables fn fe : lbl -> lbl.
  Hypothesis Hn : Inj fn.
  Hypothesis He : Inj fe.
  Variable s : hg.
  Let s' := rename_hg fn fe s.

  Lemma filter_mem_map (X l : list lbl) :
    filter (fun b => mem b (map fn X)) (map fn l) = map fn (filter (fun b => mem b X) l).
  Proof.
    induction l as [|x l IH]; [reflexivity|]. cbn [map filter]. rewrite (mem_map fn Hn).
    destruct (mem x X); cbn [map]; rewrite IH; reflexivity.
  Qed.

  (* clustering_coefficient: numerator (closed 3-walks) and denominator k (k - 1) are unchanged *)
  Theorem clustering_rename v : clustering s' (fn v) = clustering s v.
  Proof.
    unfold clustering. unfold s'. rewrite (nbrs_rename fn fe Hn He s v). rewrite map_length. f_equal.
    set (nb := nbrs s v).
    assert (G : forall l acc,
      fold_left (fun acc a => acc + Z.of_nat (length (filter (fun b => mem b (nbrs (rename_hg fn fe s) a)) (map fn nb)))) (map fn l) acc =
      fold_left (fun acc a => acc + Z.of_nat (length (filter (fun b => mem b (nbrs s a)) nb))) l acc).
    { induction l as [|a l IH]; intro acc; [reflexivity|]. cbn [map fold_left].
      rewrite (nbrs_rename fn fe Hn He s a), filter_mem_map, map_length. apply IH. }
    apply G.
  Qed.

  (* to_graph: the links of the relabelled network are the relabelled links *)
  Theorem projection_links_rename :
    projection_links s' = map (fun ab => (fn (fst ab), fn (snd ab))) (projection_links s).
  Proof.
    unfold projection_links. change (keys (h_node s')) with (nkeys s'). unfold s'. rewrite (nkeys_rename fn fe s).
    unfold nkeys. induction (keys (h_node s)) as [|a l IH]; [reflexivity|].
    cbn [map flat_map]. rewrite (nbrs_rename fn fe Hn He s a), IH, map_app, !map_map. reflexivity.
  Qed.

  (* to_line_graph: same intersection sizes and minima between the relabelled edges *)
  Lemma line_row_rename sv e1 m1 (r : list (lbl * list lbl)) :
    flat_map (fun kv => let k := zlen (sinter (map fn m1) (snd kv)) in
                        if sv <=? k then [(fe e1, fst kv, (k, Z.min (zlen (map fn m1)) (zlen (snd kv))))] else [])
             (map (fun kv => (fe (fst kv), map fn (snd kv))) r) =
    map (fun t => (fe (fst (fst t)), fe (snd (fst t)), snd t))
        (flat_map (fun kv => let k := zlen (sinter m1 (snd kv)) in
                             if sv <=? k then [(e1, fst kv, (k, Z.min (zlen m1) (zlen (snd kv))))] else []) r).
  Proof.
    induction r as [|[e2 m2] r IH]; [reflexivity|]. cbn [map flat_map fst snd]. cbv zeta in *.
    rewrite map_app. f_equal; [|exact IH].
    rewrite (sinter_map fn Hn). unfold zlen. rewrite !map_length.
    destruct (sv <=? Z.of_nat (length (sinter m1 m2))); reflexivity.
  Qed.

  Lemma line_links_rename sv (es : list (lbl * list lbl)) :
    line_links sv (map (fun kv => (fe (fst kv), map fn (snd kv))) es) =
    map (fun t => (fe (fst (fst t)), fe (snd (fst t)), snd t)) (line_links sv es).
  Proof.
    induction es as [|[e1 m1] r IH]; [reflexivity|]. cbn [map line_links fst snd].
    rewrite IH, map_app. f_equal. apply line_row_rename.
  Qed.

  Theorem line_graph_rename sv :
    line_links sv (h_edge s') = map (fun t => (fe (fst (fst t)), fe (snd (fst t)), snd t)) (line_links sv (h_edge s)).
  Proof. apply line_links_rename. Qed.
End More.

(* ---------- maximal edges ---------- *)
Section Maximal.
  Variables fn fe : lbl -> lbl.
  Hypothesis Hn : Inj fn.
  Hypothesis He : Inj fe.
  Variable s : hg.
  Let s' := rename_hg fn fe s.

  Lemma ssubset_map (f : lbl -> lbl) (Hf : Inj f) a b : ssubset (map f a) (map f b) = ssubset a b.
  Proof.
    unfold ssubset. induction a as [|x a IH]; [reflexivity|]. cbn [map forallb]. rewrite (mem_map f Hf), IH. reflexivity.
  Qed.
  Lemma seteqb_map (f : lbl -> lbl) (Hf : Inj f) a b : seteqb (map f a) (map f b) = seteqb a b.
  Proof. unfold seteqb. rewrite !(ssubset_map f Hf). reflexivity. Qed.

  Lemma filter_map_commute {A B} (f : A -> B) (p : A -> bool) (q : B -> bool) l :
    (forall x, q (f x) = p x) -> filter q (map f l) = map f (filter p l).
  Proof.
    intro H. induction l as [|x l IH]; [reflexivity|]. cbn [map filter]. rewrite H.
    destruct (p x); cbn [map]; rewrite IH; reflexivity.
  Qed.

  Lemma inter_memberships_rename ms :
    inter_memberships s' (map fn ms) = map fe (inter_memberships s ms).
  Proof.
    unfold inter_memberships. change (keys (h_edge s')) with (ekeys s'). unfold s'. rewrite (ekeys_rename fn fe s).
    unfold ekeys. generalize (keys (h_edge s)). induction ms as [|n ms IH]; intro acc; [reflexivity|].
    cbn [map fold_left]. change (getl (fn n) (h_node (rename_hg fn fe s))) with (mships (rename_hg fn fe s) (fn n)).
    rewrite (mships_rename fn fe Hn s n), (sinter_map fe He). apply IH.
  Qed.

  Theorem maximal_rename strict : maximal strict s' = map fe (maximal strict s).
  Proof.
    unfold maximal. change (keys (h_edge s')) with (ekeys s'). unfold s'. rewrite (ekeys_rename fn fe s). unfold ekeys.
    apply filter_map_commute. intro e. cbv zeta.
    change (getl (fe e) (h_edge (rename_hg fn fe s))) with (mems (rename_hg fn fe s) (fe e)).
    rewrite (mems_rename fn fe He s e). fold (mems s e). rewrite inter_memberships_rename.
    destruct strict.
    - change [fe e] with (map fe [e]). rewrite (seteqb_map fe He), map_length. reflexivity.
    - assert (Ed : map fst (filter (fun kv => seteqb (snd kv) (map fn (mems s e)) && Nat.eqb (length (snd kv)) (length (map fn (mems s e))))
                                   (h_edge (rename_hg fn fe s))) =
                   map fe (map fst (filter (fun kv => seteqb (snd kv) (mems s e) && Nat.eqb (length (snd kv)) (length (mems s e))) (h_edge s)))).
      { unfold rename_hg, rename_table. cbn [h_edge].
        rewrite (filter_map_commute (fun kv : lbl * list lbl => (fe (fst kv), map fn (snd kv)))
                   (fun kv => seteqb (snd kv) (mems s e) && Nat.eqb (length (snd kv)) (length (mems s e)))).
        - rewrite !map_map. reflexivity.
        - intro kv. cbn [snd]. rewrite (seteqb_map fn Hn), !map_length. reflexivity. }
      rewrite Ed, (seteqb_map fe He), !map_length. reflexivity.
  Qed.
End Maximal.
