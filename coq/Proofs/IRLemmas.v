(* Lemmas about the interpreter of Model/PyIR.v and about program fragments written out literally - nothing here depends on a
   generated file, so that the ties of one class are not broken by a change to another class's source. *)
From Coq Require Import String ZArith List Bool Lia.
From XV Require Import Base.Label Base.LSet Base.ODict Base.Attr Base.Outcome Model.Hypergraph Model.PyIR
     Proofs.HgViews Proofs.HgInv Proofs.HgInvOps Proofs.HgErrors.
Import ListNotations.
Open Scope Z_scope.

(* ---------- unfolding lemmas for the interpreter ---------- *)
Lemma exec_if c th el en s :
  exec (SIf c th el) en s =
  match beval c en s with
  | inr e => (s, Raised e)
  | inl true => exec_list th en s
  | inl false => exec_list el en s
  end.
Proof.
  cbn [exec]. destruct (beval c en s) as [[|]|e]; [| |reflexivity].
  - generalize s. induction th as [|q r IH]; intro s0; [reflexivity|]. cbn [exec_list]. destruct (exec q en s0) as [s' [|x]]; [apply IH|reflexivity].
  - generalize s. induction el as [|q r IH]; intro s0; [reflexivity|]. cbn [exec_list]. destruct (exec q en s0) as [s' [|x]]; [apply IH|reflexivity].
Qed.

Fixpoint iter_list (body : list stmt) (en : env) (xs : list lbl) (s : hg) : hg * outcome :=
  match xs with
  | [] => (s, Ok)
  | x :: r => match exec_list body (with_loop en x) s with (s', Ok) => iter_list body en r s' | y => y end
  end.

Lemma exec_for t k body en s :
  exec (SForCopy t k body) en s =
  match get (veval k en) (tab t s) with
  | None => (s, Raised IDNotFound)
  | Some m => iter_list body en m s
  end.
Proof.
  cbn [exec]. destruct (get (veval k en) (tab t s)) as [m|]; [|reflexivity].
  generalize s. induction m as [|x r IH]; intro s0; [reflexivity|]. cbn [iter_list].
  assert (E : forall l s1, (fix go (l : list stmt) (s : hg) : hg * outcome :=
               match l with [] => (s, Ok)
               | q :: r' => match exec q (with_loop en x) s with (s', Ok) => go r' s' | y => y end end) l s1
             = exec_list l (with_loop en x) s1).
  { induction l as [|q r' IHl]; intro s1; [reflexivity|]. cbn [exec_list]. destruct (exec q _ s1) as [s' [|y]]; [apply IHl|reflexivity]. }
  rewrite E. destruct (exec_list body _ s0) as [s' [|y]]; [apply IH|reflexivity].
Qed.

Lemma exec_newset t k en s : exec (SNewSet t k) en s =
  if is_none (veval k en) then (s, Raised XGIError) else (set_tab t s (set (veval k en) [] (tab t s)), Ok).
Proof. reflexivity. Qed.
Lemma exec_newattr t k en s : exec (SNewAttr t k) en s =
  if is_none (veval k en) then (s, Raised XGIError) else (set_atab t s (set (veval k en) [] (atab t s)), Ok).
Proof. reflexivity. Qed.
Lemma exec_add t k x en s : exec (SAdd t k x) en s =
  match get (veval k en) (tab t s) with
  | Some m => (set_tab t s (set (veval k en) (sadd (veval x en) m) (tab t s)), Ok)
  | None => (s, Raised IDNotFound)
  end.
Proof. reflexivity. Qed.
Lemma exec_remove t k x en s : exec (SRemove t k x) en s =
  match get (veval k en) (tab t s) with
  | Some m => if mem (veval x en) m then (set_tab t s (set (veval k en) (sremove (veval x en) m) (tab t s)), Ok) else (s, Raised KeyError)
  | None => (s, Raised IDNotFound)
  end.
Proof. reflexivity. Qed.
Lemma exec_del t k en s : exec (SDel t k) en s =
  if has (veval k en) (tab t s) then (set_tab t s (del (veval k en) (tab t s)), Ok) else (s, Raised IDNotFound).
Proof. reflexivity. Qed.
Lemma exec_delattr t k en s : exec (SDelAttr t k) en s =
  if has (veval k en) (atab t s) then (set_atab t s (del (veval k en) (atab t s)), Ok) else (s, Raised IDNotFound).
Proof. reflexivity. Qed.
Lemma exec_uid k en s : exec (SUid k) en s = (bump_uid (veval k en) s, Ok).
Proof. reflexivity. Qed.
Lemma exec_raise e en s : exec (SRaise e) en s = (s, Raised e).
Proof. reflexivity. Qed.
Lemma exec_list_cons q r en s : exec_list (q :: r) en s = match exec q en s with (s', Ok) => exec_list r en s' | x => x end.
Proof. reflexivity. Qed.
Lemma exec_list_nil en s : exec_list [] en s = (s, Ok).
Proof. reflexivity. Qed.

Ltac hgs := unfold with_loop, with_local, with_uid_var; cbn [h_node h_nattr h_edge h_eattr h_net h_uid with_node with_nattr with_edge with_eattr with_uid
                 tab set_tab atab set_atab veval e_args e_flags e_loop e_attr e_loop1 e_locals e_members e_idx e_uid e_eattr with_loop with_local with_uid_var nth].
Ltac step := rewrite ?exec_list_cons, ?exec_list_nil, ?exec_if, ?exec_newset, ?exec_newattr, ?exec_add, ?exec_remove, ?exec_del,
                     ?exec_delattr, ?exec_uid, ?exec_raise; cbn [beval]; hgs; cbn [negb andb];
             repeat match goal with H : is_none _ = false |- _ => rewrite H end.

Lemma bump_uid_tables e s : h_node (bump_uid e s) = h_node s /\ h_edge (bump_uid e s) = h_edge s /\
  h_nattr (bump_uid e s) = h_nattr s /\ h_eattr (bump_uid e s) = h_eattr s.
Proof. unfold bump_uid. destruct (as_int e) as [z|]; [destruct (h_uid s <=? z)|]; repeat split. Qed.

(* ---------- add_node_to_edge: for every state, whatever its shape ---------- *)
Definition antE_tail : list stmt :=
  [SIf (BNot (BIn (VArg 1) TNode)) [SNewSet TNode (VArg 1); SNewAttr TNode (VArg 1)] [];
   SAdd TEdge (VArg 0) (VArg 1); SAdd TNode (VArg 1) (VArg 0)].

Lemma antE_tail_ok e n s1 m : get e (h_edge s1) = Some m ->
  (let (s', o) := exec_list antE_tail (mkEnv [e; n] [] LNone [] LNone [] [] None LNone []) s1 in (s', o, O)) =
  (if negb (has n (h_node s1)) && is_none n then raise s1 XGIError
   else ok (node_add n e (edge_add e n (ensure_node n s1)))).
Proof.
  intro Ge. unfold antE_tail. step.
  destruct (has n (h_node s1)) eqn:Hn; cbn [negb andb]; repeat step.
  - unfold has in Hn. destruct (get n (h_node s1)) as [l|] eqn:Gn; [|discriminate Hn].
    rewrite Ge. repeat step. rewrite Gn. repeat step.
    unfold ok, node_add, edge_add, ensure_node, has, getl. rewrite Gn, Ge. hgs. rewrite Gn. reflexivity.
  - destruct (is_none n) eqn:Nn; [reflexivity|]. repeat step. rewrite Ge. repeat step.
    rewrite get_set_same. repeat step.
    unfold ok, node_add, edge_add, ensure_node, getl. rewrite Hn. hgs. rewrite Ge, get_set_same. reflexivity.
Qed.


(* ---------- remove_edge: on every state satisfying the class invariant ---------- *)
Lemma fold_node_rem_tables e : forall xs s,
  h_edge (fold_left (fun s n => node_rem n e s) xs s) = h_edge s /\
  h_eattr (fold_left (fun s n => node_rem n e s) xs s) = h_eattr s.
Proof.
  induction xs as [|x xs IH]; intro s; cbn [fold_left]; [split; reflexivity|].
  destruct (IH (node_rem x e s)) as [A B]. rewrite A, B. unfold node_rem. destruct (has x (h_node s)); split; reflexivity.
Qed.

Lemma iter_remove_ok e l0 l1 ms ix u ea : forall xs s, NoDup xs ->
  (forall x, In x xs -> exists l, get x (h_node s) = Some l /\ mem e l = true) ->
  iter_list [SRemove TNode VLoop (VArg 0)] (mkEnv [e] [] l0 [] l1 [] ms ix u ea) xs s = (fold_left (fun s n => node_rem n e s) xs s, Ok).
Proof.
  induction xs as [|x xs IH]; intros s ND H; [reflexivity|]. cbn [iter_list fold_left].
  inversion ND as [|? ? Hx ND']; subst. destruct (H x (or_introl eq_refl)) as (l & Gl & Ml).
  rewrite exec_list_cons, exec_remove. hgs. rewrite Gl, Ml. rewrite exec_list_nil.
  assert (E : with_node s (set x (sremove e l) (h_node s)) = node_rem x e s).
  { unfold node_rem, has, getl. rewrite Gl. reflexivity. }
  rewrite E. apply IH; [exact ND'|].
  intros y Hy. destruct (H y (or_intror Hy)) as (ly & Gy & My). exists ly. split; [|exact My].
  rewrite <- E. hgs. rewrite get_set_other; [exact Gy|]. intro; subst. contradiction.
Qed.

Lemma remove_edge_prog_ok e s : Inv s ->
  run_method [SForCopy TEdge (VArg 0) [SRemove TNode VLoop (VArg 0)]; SDel TEdge (VArg 0); SDelAttr TEdge (VArg 0)] [e] [] s = remove_edge1 e s.
Proof.
  intros (W & (_ & Kea & _ & _) & (_ & Vm) & _). unfold run_method, run_method_a, remove_edge1.
  rewrite exec_list_cons, exec_for. hgs. destruct (get e (h_edge s)) as [m|] eqn:Ge; [|reflexivity].
  assert (Hm : mems s e = m) by (unfold mems, getl; rewrite Ge; reflexivity).
  rewrite (iter_remove_ok e LNone LNone [] None LNone [] m s).
  2:{ rewrite <- Hm. apply Vm. }
  2:{ intros x Hx. assert (Hi : In e (mships s x)) by (apply W; rewrite Hm; exact Hx).
      unfold mships, getl in Hi. destruct (get x (h_node s)) as [l|]; [|destruct Hi]. exists l. split; [reflexivity|apply mem_In; exact Hi]. }
  set (s' := fold_left (fun s n => node_rem n e s) m s). destruct (fold_node_rem_tables e m s) as [A B]. fold s' in A, B.
  repeat step. rewrite A.
  assert (He : has e (h_edge s) = true) by (unfold has; rewrite Ge; reflexivity). rewrite He. repeat step.
  rewrite B. assert (Hea : has e (h_eattr s) = true).
  { apply has_In. rewrite Kea. apply has_In. exact He. }
  rewrite Hea. unfold ok, drop_edge. rewrite A, B. reflexivity.
Qed.

(* ---------- remove_node_from_edge: on every state satisfying the class invariant ---------- *)

(* ---------- add_node(node, **attr): whenever the attribute table has the keys of the node table (KWF) ---------- *)
Lemma exec_attrupdate t k en s : exec (SAttrUpdate t k) en s =
  match get (veval k en) (atab t s) with
  | Some d => (set_atab t s (set (veval k en) (aupdate d (e_attr en)) (atab t s)), Ok)
  | None => (s, Raised IDNotFound)
  end.
Proof. reflexivity. Qed.


(* ---------- remove_node(n, strong, remove_empty): on every state satisfying the class invariant ---------- *)
Lemma exec_bind t k body en s :
  exec (SBindIn t k body) en s =
  match get (veval k en) (tab t s) with
  | None => (s, Raised IDNotFound)
  | Some m => exec_list body (with_local en m) s
  end.
Proof.
  cbn [exec]. destruct (get (veval k en) (tab t s)) as [m|]; [|reflexivity].
  generalize s. induction body as [|q r IH]; intro s0; [reflexivity|]. cbn [exec_list].
  destruct (exec q _ s0) as [s' [|y]]; [apply IH|reflexivity].
Qed.

Lemma exec_forlocal i minus body en s :
  exec (SForLocal i minus body) en s =
  iter_list body en
            (match minus with Some v => sremove (veval v en) (nth i (e_locals en) []) | None => nth i (e_locals en) [] end) s.
Proof.
  cbn [exec]. generalize (match minus with Some v => sremove (veval v en) (nth i (e_locals en) []) | None => nth i (e_locals en) [] end).
  intro xs. generalize s. induction xs as [|x r IH]; intro s0; [reflexivity|]. cbn [iter_list].
  assert (E : forall l s1, (fix go (l : list stmt) (s : hg) : hg * outcome :=
               match l with [] => (s, Ok)
               | q :: r' => match exec q (with_loop en x) s with (s', Ok) => go r' s' | y => y end end) l s1
             = exec_list l (with_loop en x) s1).
  { induction l as [|q r' IHl]; intro s1; [reflexivity|]. cbn [exec_list]. destruct (exec q _ s1) as [s' [|y]]; [apply IHl|reflexivity]. }
  rewrite E. destruct (exec_list body _ s0) as [s' [|y]]; [apply IH|reflexivity].
Qed.

(* the inner loop of the strong branch: remove e from the membership sets of the listed nodes *)
Lemma iter_remove_e_ok args flags locs e l1 ms ix u ea : forall xs s, NoDup xs ->
  (forall x, In x xs -> exists l, get x (h_node s) = Some l /\ mem e l = true) ->
  iter_list [SRemove TNode VLoop VLoop1] (mkEnv args flags e [] l1 locs ms ix u ea) xs s = (fold_left (fun s m => node_rem m e s) xs s, Ok).
Proof.
  induction xs as [|x xs IH]; intros s ND H; [reflexivity|]. cbn [iter_list fold_left].
  inversion ND as [|? ? Hx ND']; subst. destruct (H x (or_introl eq_refl)) as (l & Gl & Ml).
  rewrite exec_list_cons, exec_remove. hgs. rewrite Gl, Ml. rewrite exec_list_nil.
  assert (E : with_node s (set x (sremove e l) (h_node s)) = node_rem x e s).
  { unfold node_rem, has, getl. rewrite Gl. reflexivity. }
  rewrite E. apply IH; [exact ND'|].
  intros y Hy. destruct (H y (or_intror Hy)) as (ly & Gy & My). exists ly. split; [|exact My].
  rewrite <- E. hgs. rewrite get_set_other; [exact Gy|]. intro; subst. contradiction.
Qed.

(* what the strong loop needs of the edges still to be processed *)
Definition StrongQ (n : lbl) (s0 s : hg) (es : list lbl) : Prop :=
  forall e, In e es -> exists m, get e (h_edge s) = Some m /\ get e (h_edge s0) = Some m /\ NoDup m /\
                                 has e (h_eattr s) = true /\
                                 forall x, In x m -> x <> n -> exists l, get x (h_node s) = Some l /\ mem e l = true.

Lemma strong_loop_ok n flags locs s0 lp0 lp1 ms ix u ea : forall es s, NoDup es -> StrongQ n s0 s es ->
  iter_list [SBindIn TEdge VLoop [SDel TEdge VLoop; SDelAttr TEdge VLoop; SForLocal 0 (Some (VArg 0)) [SRemove TNode VLoop VLoop1]]]
            (mkEnv [n] flags lp0 [] lp1 locs ms ix u ea) es s =
  (fold_left (fun s e => let nbrs := getl e (h_edge s) in let s' := drop_edge e s in
                         fold_left (fun s m => node_rem m e s) (sremove n nbrs) s') es s, Ok).
Proof.
  induction es as [|e es IH]; intros s ND Q; [reflexivity|]. cbn [iter_list fold_left].
  inversion ND as [|? ? He ND']; subst.
  destruct (Q e (or_introl eq_refl)) as (m & Gm & _ & NDm & Ha & Hn).
  rewrite exec_list_cons, exec_bind. hgs. rewrite Gm. rewrite exec_list_cons, exec_del. hgs.
  assert (Hh : has e (h_edge s) = true) by (unfold has; rewrite Gm; reflexivity). rewrite Hh.
  rewrite exec_list_cons, exec_delattr. hgs. rewrite Ha.
  rewrite exec_list_cons, exec_forlocal. hgs.
  set (s' := with_eattr (with_edge s (del e (h_edge s))) (del e (h_eattr s))).
  assert (Ed : s' = drop_edge e s) by reflexivity.
  rewrite (iter_remove_e_ok [n] flags (m :: locs) e lp0 ms ix u ea (sremove n m) s').
  2:{ apply NoDup_sremove. exact NDm. }
  2:{ intros x Hx. apply In_sremove in Hx. destruct Hx as [Nx Hx]. destruct (Hn x Hx Nx) as (l & Gl & Ml). exists l. split; [exact Gl|exact Ml]. }
  rewrite !exec_list_nil.
  assert (Egl : getl e (h_edge s) = m) by (unfold getl; rewrite Gm; reflexivity). rewrite Egl. rewrite <- Ed.
  set (s2 := fold_left (fun s m0 => node_rem m0 e s) (sremove n m) s').
  apply IH; [exact ND'|].
  (* the invariant for the remaining edges *)
  intros e' He'. assert (Ne : e' <> e) by (intro; subst; contradiction).
  destruct (Q e' (or_intror He')) as (m' & Gm' & G0' & NDm' & Ha' & Hn').
  destruct (fold_node_rem_tables e (sremove n m) s') as [T1 T2]. fold s2 in T1, T2.
  exists m'. split; [rewrite T1; unfold s'; hgs; rewrite get_del_other by exact Ne; exact Gm'|].
  split; [exact G0'|]. split; [exact NDm'|].
  split; [rewrite T2; unfold s', has; hgs; rewrite get_del_other by exact Ne; exact Ha'|].
  intros x Hx Nx. destruct (Hn' x Hx Nx) as (l & Gl & Ml).
  (* node x after removing e from the listed nodes: its set is l or l minus e, and e' stays *)
  assert (G : forall ys t, (exists l0, get x (h_node t) = Some l0 /\ mem e' l0 = true) ->
              exists l0, get x (h_node (fold_left (fun s m0 => node_rem m0 e s) ys t)) = Some l0 /\ mem e' l0 = true).
  { induction ys as [|y ys IHy]; intros t Ht; [exact Ht|]. cbn [fold_left]. apply IHy.
    destruct Ht as (l0 & G0 & M0). unfold node_rem. destruct (has y (h_node t)) eqn:Hy; [|exists l0; auto]. hgs.
    destruct (lbl_eqb_spec x y) as [->|Nxy].
    - rewrite get_set_same. exists (sremove e (getl y (h_node t))). split; [reflexivity|].
      unfold getl. rewrite G0. apply mem_In. apply In_sremove. split; [exact Ne|apply mem_In; exact M0].
    - rewrite get_set_other by exact Nxy. exists l0. auto. }
  apply G. exists l. split; [unfold s'; hgs; exact Gl|exact Ml].
Qed.

Definition WeakQ (n : lbl) (s : hg) (es : list lbl) : Prop :=
  forall e, In e es -> exists m, get e (h_edge s) = Some m /\ mem n m = true /\ has e (h_eattr s) = true.

Lemma weak_loop_ok n strong re locs l0 l1 ms ix u ea : forall es s, NoDup es -> WeakQ n s es ->
  iter_list [SRemove TEdge VLoop (VArg 0); SIf (BAnd (BEmptySet VLoop TEdge) (BFlag 1)) [SDel TEdge VLoop; SDelAttr TEdge VLoop] []]
            (mkEnv [n] [strong; re] l0 [] l1 locs ms ix u ea) es s =
  (fold_left (fun s e => let s' := edge_rem e n s in
                         if (match getl e (h_edge s') with [] => true | _ => false end) && re && has e (h_edge s')
                         then drop_edge e s' else s') es s, Ok).
Proof.
  induction es as [|e es IH]; intros s ND Q; [reflexivity|]. cbn [iter_list fold_left].
  inversion ND as [|? ? He ND']; subst.
  destruct (Q e (or_introl eq_refl)) as (m & Gm & Mn & Ha).
  rewrite exec_list_cons, exec_remove. hgs. rewrite Gm, Mn.
  assert (E1 : with_edge s (set e (sremove n m) (h_edge s)) = edge_rem e n s).
  { unfold edge_rem, has, getl. rewrite Gm. reflexivity. }
  rewrite E1. set (s' := edge_rem e n s).
  assert (Ge' : get e (h_edge s') = Some (sremove n m)) by (unfold s'; rewrite <- E1; hgs; apply get_set_same).
  assert (Ha' : h_eattr s' = h_eattr s) by (unfold s'; rewrite <- E1; reflexivity).
  assert (Hh' : has e (h_edge s') = true) by (unfold has; rewrite Ge'; reflexivity).
  assert (Gl' : getl e (h_edge s') = sremove n m) by (unfold getl; rewrite Ge'; reflexivity).
  rewrite exec_list_cons, exec_if. cbn [beval]. hgs. rewrite Ge'. cbv zeta. rewrite Gl', Hh'.
  assert (Rest : forall t, (h_eattr t = del e (h_eattr s) \/ h_eattr t = h_eattr s) ->
                           (forall e', e' <> e -> get e' (h_edge t) = get e' (h_edge s)) -> WeakQ n t es).
  { intros t Hat Het e' He'. assert (Ne : e' <> e) by (intro; subst; contradiction).
    destruct (Q e' (or_intror He')) as (m' & Gm' & Mn' & Ha2). exists m'. split; [rewrite Het by exact Ne; exact Gm'|].
    split; [exact Mn'|]. destruct Hat as [Hat|Hat]; rewrite Hat; [unfold has; rewrite get_del_other by exact Ne; exact Ha2|exact Ha2]. }
  assert (Oth : forall e', e' <> e -> get e' (h_edge s') = get e' (h_edge s)).
  { intros e' Ne. unfold s'. rewrite <- E1. hgs. apply get_set_other. exact Ne. }
  destruct (sremove n m) as [|y r] eqn:Es; cbn [andb].
  - destruct re; cbn [nth andb].
    + rewrite exec_list_cons, exec_del. hgs. rewrite Hh'. rewrite exec_list_cons, exec_delattr. hgs. rewrite Ha', Ha. rewrite !exec_list_nil.
      assert (Ed : with_eattr (with_edge s' (del e (h_edge s'))) (del e (h_eattr s)) = drop_edge e s') by (unfold drop_edge; rewrite Ha'; reflexivity).
      rewrite Ed. apply IH; [exact ND'|]. apply Rest.
      * left. unfold drop_edge. hgs. rewrite Ha'. reflexivity.
      * intros e' Ne. unfold drop_edge. hgs. rewrite get_del_other by exact Ne. apply Oth. exact Ne.
    + rewrite !exec_list_nil. apply IH; [exact ND'|]. apply Rest; [right; exact Ha'|exact Oth].
  - rewrite !exec_list_nil. apply IH; [exact ND'|]. apply Rest; [right; exact Ha'|exact Oth].
Qed.



(* ---------- add_edge(members, idx=None, **attr) ---------- *)
Lemma exec_binduid body en s :
  exec (SBindUid body) en s =
  exec_list body (with_uid_var en (match e_idx en with Some i => i | None => LInt (h_uid s) end))
            (match e_idx en with Some _ => s | None => with_uid s (h_uid s + 1) end).
Proof.
  cbn [exec]. generalize (match e_idx en with Some _ => s | None => with_uid s (h_uid s + 1) end).
  induction body as [|q r IH]; intro s0; [reflexivity|]. cbn [exec_list].
  destruct (exec q _ s0) as [s' [|y]]; [apply IH|reflexivity].
Qed.

Lemma exec_formembers body en s : exec (SForMembers body) en s = iter_list body en (e_members en) s.
Proof.
  cbn [exec]. generalize (e_members en). intro xs. generalize s. induction xs as [|x r IH]; intro s0; [reflexivity|]. cbn [iter_list].
  assert (E : forall l s1, (fix go (l : list stmt) (s : hg) : hg * outcome :=
               match l with [] => (s, Ok)
               | q :: r' => match exec q (with_loop en x) s with (s', Ok) => go r' s' | y => y end end) l s1
             = exec_list l (with_loop en x) s1).
  { induction l as [|q r' IHl]; intro s1; [reflexivity|]. cbn [exec_list]. destruct (exec q _ s1) as [s' [|y]]; [apply IHl|reflexivity]. }
  rewrite E. destruct (exec_list body _ s0) as [s' [|y]]; [apply IH|reflexivity].
Qed.

Lemma set_set_same {V} k (v1 v2 : V) d : set k v2 (set k v1 d) = set k v2 d.
Proof.
  induction d as [|[k' v'] r IH]; cbn [set].
  - rewrite lbl_eqb_refl. reflexivity.
  - destruct (lbl_eqb k k') eqn:E; cbn [set]; rewrite E; [reflexivity|]. rewrite IH. reflexivity.
Qed.

Lemma attach_has_edge e n s : has e (h_edge (attach e s n)) = true.
Proof. unfold attach, edge_add, has. hgs. rewrite get_set_same. reflexivity. Qed.

(* the member loop: for each node, create it if new, then record the membership on both sides *)
Lemma member_loop_ok e a l0 l1 ms ix ea : forall xs s,
  (forall x, In x xs -> is_none x = false) -> has e (h_edge s) = true ->
  iter_list [SIf (BNot (BIn VLoop TNode)) [SNewSet TNode VLoop; SNewAttr TNode VLoop] []; SAdd TNode VLoop VUid; SAdd TEdge VUid VLoop]
            (mkEnv [] [] l0 a l1 [] ms ix e ea) xs s = (fold_left (attach e) xs s, Ok).
Proof.
  induction xs as [|x xs IH]; intros s Hn He; [reflexivity|]. cbn [iter_list fold_left].
  assert (Nx : is_none x = false) by (apply Hn; left; reflexivity).
  assert (Goal1 : exec_list [SIf (BNot (BIn VLoop TNode)) [SNewSet TNode VLoop; SNewAttr TNode VLoop] []; SAdd TNode VLoop VUid; SAdd TEdge VUid VLoop]
                    (with_loop (mkEnv [] [] l0 a l1 [] ms ix e ea) x) s = (attach e s x, Ok)).
  { rewrite exec_list_cons, exec_if. cbn [beval]. hgs.
    unfold attach, ensure_node.
    destruct (has x (h_node s)) eqn:Hx; cbn [negb].
    - rewrite exec_list_nil. unfold has in Hx. destruct (get x (h_node s)) as [l|] eqn:Gx; [|discriminate Hx].
      rewrite exec_list_cons, exec_add. hgs. rewrite Gx. rewrite exec_list_cons, exec_add. hgs.
      unfold has in He. destruct (get e (h_edge s)) as [m|] eqn:Ge; [|discriminate He]. rewrite exec_list_nil.
      unfold node_add, edge_add, getl. hgs. rewrite Gx, Ge. reflexivity.
    - rewrite exec_list_cons, exec_newset. hgs. rewrite Nx. rewrite exec_list_cons, exec_newattr. hgs. rewrite Nx. rewrite exec_list_nil.
      rewrite exec_list_cons, exec_add. hgs. rewrite get_set_same. rewrite exec_list_cons, exec_add. hgs.
      unfold has in He. destruct (get e (h_edge s)) as [m|] eqn:Ge; [|discriminate He]. rewrite exec_list_nil.
      unfold node_add, edge_add, getl. hgs. rewrite get_set_same, Ge. reflexivity. }
  rewrite Goal1. apply IH; [intros y Hy; apply Hn; right; exact Hy|apply attach_has_edge].
Qed.

Lemma fold_attach_has_edge e : forall xs s, has e (h_edge s) = true -> has e (h_edge (fold_left (attach e) xs s)) = true.
Proof. induction xs as [|x xs IH]; intros s H; [exact H|]. cbn [fold_left]. apply IH. apply attach_has_edge. Qed.

Lemma fold_attach_eattr e : forall xs s, h_eattr (fold_left (attach e) xs s) = h_eattr s.
Proof. induction xs as [|x xs IH]; intro s; [reflexivity|]. cbn [fold_left]. rewrite IH. unfold attach, edge_add, node_add, ensure_node. destruct (has x (h_node s)); reflexivity. Qed.

(* the statements after the guards, once the id is known *)
Lemma add_edge_body_ok a ms ix u s0 rest :
  is_none u = false -> (forall x, In x ms -> is_none x = false) ->
  exec_list [SNewSet TEdge VUid;
             SForMembers [SIf (BNot (BIn VLoop TNode)) [SNewSet TNode VLoop; SNewAttr TNode VLoop] []; SAdd TNode VLoop VUid; SAdd TEdge VUid VLoop];
             SNewAttr TEdge VUid; SAttrUpdate TEdge VUid; rest]
            (mkEnv [] [] LNone a LNone [] ms ix u []) s0 =
  exec_list [rest] (mkEnv [] [] LNone a LNone [] ms ix u []) (insert_edge u ms a s0).
Proof.
  intros Nu Hms. rewrite exec_list_cons, exec_newset. hgs. rewrite Nu.
  rewrite exec_list_cons, exec_formembers. hgs.
  set (s1 := with_edge s0 (set u [] (h_edge s0))).
  assert (H1 : has u (h_edge s1) = true) by (unfold s1, has; hgs; rewrite get_set_same; reflexivity).
  rewrite (member_loop_ok u a LNone LNone ms ix [] ms s1 Hms H1).
  set (s2 := fold_left (attach u) ms s1).
  rewrite exec_list_cons, exec_newattr. hgs. rewrite Nu.
  rewrite exec_list_cons, exec_attrupdate. hgs. rewrite get_set_same. rewrite set_set_same.
  unfold insert_edge. fold s1. fold s2. reflexivity.
Qed.



(* ---------- clear(remove_net_attr) : on every state ---------- *)
Lemma exec_clear t en s : exec (SClear t) en s = (set_tab t s [], Ok).
Proof. reflexivity. Qed.
Lemma exec_clearattr t en s : exec (SClearAttr t) en s = (set_atab t s [], Ok).
Proof. reflexivity. Qed.
Lemma exec_clearnet en s : exec SClearNet en s = (mkHG (h_node s) (h_nattr s) (h_edge s) (h_eattr s) [] (h_uid s), Ok).
Proof. reflexivity. Qed.


(* ---------- clear_edges() : whenever the node table has distinct keys, none of them None ---------- *)
Lemma exec_forkeys t body en s : exec (SForKeys t body) en s = iter_list body en (keys (tab t s)) s.
Proof.
  cbn [exec]. generalize (keys (tab t s)). intro xs. generalize s. induction xs as [|x r IH]; intro s0; [reflexivity|]. cbn [iter_list].
  assert (E : forall l s1, (fix go (l : list stmt) (s : hg) : hg * outcome :=
               match l with [] => (s, Ok)
               | q :: r' => match exec q (with_loop en x) s with (s', Ok) => go r' s' | y => y end end) l s1
             = exec_list l (with_loop en x) s1).
  { induction l as [|q r' IHl]; intro s1; [reflexivity|]. cbn [exec_list]. destruct (exec q _ s1) as [s' [|y]]; [apply IHl|reflexivity]. }
  rewrite E. destruct (exec_list body _ s0) as [s' [|y]]; [apply IH|reflexivity].
Qed.

Lemma reset_loop_ok en : forall xs s, (forall x, In x xs -> is_none x = false) ->
  iter_list [SNewSet TNode VLoop] en xs s = (with_node s (fold_left (fun d x => set x [] d) xs (h_node s)), Ok).
Proof.
  induction xs as [|x xs IH]; intros s H; [destruct s; reflexivity|]. cbn [iter_list fold_left].
  rewrite exec_list_cons, exec_newset. hgs. rewrite (H x (or_introl eq_refl)). rewrite exec_list_nil.
  rewrite IH by (intros y Hy; apply H; right; exact Hy). reflexivity.
Qed.

Lemma set_app_notin {V} k (v : V) d1 d2 : ~ In k (keys d1) -> set k v (d1 ++ d2) = d1 ++ set k v d2.
Proof.
  induction d1 as [|[k' v'] r IH]; intro H; [reflexivity|]. cbn [app set].
  destruct (lbl_eqb_spec k k') as [->|N]; [exfalso; apply H; left; reflexivity|].
  rewrite IH; [reflexivity|]. intro Hi. apply H. right. exact Hi.
Qed.

Lemma reset_all (d2 : odict (list lbl)) : forall d1, NoDup (keys (d1 ++ d2)) ->
  fold_left (fun d x => set x [] d) (keys d2) (d1 ++ d2) = d1 ++ map (fun kv => (fst kv, [])) d2.
Proof.
  induction d2 as [|[k v] r IH]; intros d1 ND; [reflexivity|]. cbn [keys map fold_left fst].
  assert (Hk : ~ In k (keys d1)).
  { unfold keys in ND. rewrite map_app in ND. cbn [map fst] in ND. apply NoDup_remove_2 in ND.
    intro Hi. apply ND. apply in_or_app. left. exact Hi. }
  rewrite set_app_notin by exact Hk. cbn [set]. rewrite lbl_eqb_refl.
  change (d1 ++ (k, []) :: r) with (d1 ++ [(k, @nil lbl)] ++ r). rewrite app_assoc.
  change (map fst r) with (keys r). rewrite IH.
  - rewrite <- app_assoc. reflexivity.
  - rewrite <- app_assoc. unfold keys in *. rewrite map_app in *. cbn [map fst app] in *. exact ND.
Qed.


(* ---------- remove_edges_from(ebunch) : on every state satisfying the class invariant ---------- *)
Lemma remove_one_ok e args flags l1 locs ms ix u ea s : Inv s ->
  exec_list [SForCopy TEdge VLoop [SRemove TNode VLoop VLoop1]; SDel TEdge VLoop; SDelAttr TEdge VLoop]
            (mkEnv args flags e [] l1 locs ms ix u ea) s =
  (st_of (remove_edge1 e s), out_of (remove_edge1 e s)).
Proof.
  intros (W & (_ & Kea & _ & _) & (_ & Vm) & _). unfold remove_edge1.
  rewrite exec_list_cons, exec_for. hgs. destruct (get e (h_edge s)) as [m|] eqn:Ge; [|reflexivity].
  assert (Hm : mems s e = m) by (unfold mems, getl; rewrite Ge; reflexivity).
  rewrite (iter_remove_e_ok args flags locs e l1 ms ix u ea m s).
  2:{ rewrite <- Hm. apply Vm. }
  2:{ intros x Hx. assert (Hi : In e (mships s x)) by (apply W; rewrite Hm; exact Hx).
      unfold mships, getl in Hi. destruct (get x (h_node s)) as [l|]; [|destruct Hi]. exists l. split; [reflexivity|apply mem_In; exact Hi]. }
  set (s' := fold_left (fun s n => node_rem n e s) m s). destruct (fold_node_rem_tables e m s) as [A B]. fold s' in A, B.
  rewrite exec_list_cons, exec_del. hgs. rewrite A.
  assert (He : has e (h_edge s) = true) by (unfold has; rewrite Ge; reflexivity). rewrite He.
  rewrite exec_list_cons, exec_delattr. hgs. rewrite B.
  assert (Hea : has e (h_eattr s) = true) by (apply has_In; rewrite Kea; apply has_In; exact He).
  rewrite Hea, exec_list_nil. unfold ok, drop_edge, st_of, out_of. cbn [fst snd]. rewrite A, B. reflexivity.
Qed.

Lemma remove_edge1_no_warn e s : snd (remove_edge1 e s) = O.
Proof. unfold remove_edge1. destruct (get e (h_edge s)); reflexivity. Qed.

Lemma remove_loop_ok args flags l0 l1 locs ms ix u ea : forall es s, Inv s ->
  (let (s', o) := iter_list [SForCopy TEdge VLoop [SRemove TNode VLoop VLoop1]; SDel TEdge VLoop; SDelAttr TEdge VLoop]
                            (mkEnv args flags l0 [] l1 locs ms ix u ea) es s in (s', o, O)) = remove_edges_from es s.
Proof.
  induction es as [|e es IH]; intros s I; [reflexivity|]. unfold remove_edges_from. cbn [iter_list loop]. hgs.
  rewrite (remove_one_ok e args flags l0 locs ms ix u ea s I).
  pose proof (Inv_remove_edge1 e s I) as I'. pose proof (remove_edge1_no_warn e s) as Wn.
  destruct (remove_edge1 e s) as [[s1 o1] w1]. cbn [st_of out_of fst snd] in *. subst w1.
  destruct o1 as [|x]; [|reflexivity].
  specialize (IH s1 I'). unfold remove_edges_from in IH. rewrite <- IH.
  destruct (iter_list _ _ es s1) as [s2 o2]. reflexivity.
Qed.

(* ---------- the member loop of the adding helpers and bulk formats; insert_edge seen as node-side steps ---------- *)
Lemma exec_setmembers t k en s : exec (SSetMembers t k) en s =
  if is_none (veval k en) then (s, Raised XGIError) else (set_tab t s (set (veval k en) (e_members en) (tab t s)), Ok).
Proof. reflexivity. Qed.


(* the member loop of the two adding helpers: create the node if new, record the membership on the node side *)
Definition nstep (e : lbl) (s : hg) (x : lbl) : hg := node_add x e (ensure_node x s).

Lemma nstep_loop_ok (pre : list stmt) k e en :
  (forall x, veval VLoop (with_loop en x) = x) -> (forall x, veval k (with_loop en x) = e) ->
  (forall x s, is_none x = false -> exec_list pre (with_loop en x) s = (s, Ok)) ->
  forall xs s, (forall x, In x xs -> is_none x = false) ->
  iter_list [SIf (BNot (BIn VLoop TNode)) (pre ++ [SNewSet TNode VLoop; SNewAttr TNode VLoop]) []; SAdd TNode VLoop k] en xs s
  = (fold_left (nstep e) xs s, Ok).
Proof.
  intros Vl Vk Hpre. induction xs as [|x xs IH]; intros s Hn; [reflexivity|]. cbn [iter_list fold_left].
  assert (Nx : is_none x = false) by (apply Hn; left; reflexivity).
  assert (Step : exec_list [SIf (BNot (BIn VLoop TNode)) (pre ++ [SNewSet TNode VLoop; SNewAttr TNode VLoop]) []; SAdd TNode VLoop k]
                   (with_loop en x) s = (nstep e s x, Ok)).
  { rewrite exec_list_cons, exec_if. cbn [beval tab]. rewrite Vl. unfold nstep, ensure_node.
    destruct (has x (h_node s)) eqn:Hx; cbn [negb].
    - rewrite exec_list_nil, exec_list_cons, exec_add. rewrite Vl, Vk. cbn [tab].
      unfold has in Hx. destruct (get x (h_node s)) as [l|] eqn:G; [|discriminate Hx].
      rewrite exec_list_nil. unfold node_add, getl. rewrite G. reflexivity.
    - assert (P : exec_list (pre ++ [SNewSet TNode VLoop; SNewAttr TNode VLoop]) (with_loop en x) s =
                  (with_nattr (with_node s (set x [] (h_node s))) (set x [] (h_nattr s)), Ok)).
      { assert (App : forall l1 l2 en0 s0 s1, exec_list l1 en0 s0 = (s1, Ok) -> exec_list (l1 ++ l2) en0 s0 = exec_list l2 en0 s1).
        { induction l1 as [|q r IHl]; intros l2 en0 s0 s1 H; [cbn [exec_list] in H; injection H as <-; reflexivity|].
          cbn [app]. rewrite exec_list_cons in *. destruct (exec q en0 s0) as [s' [|y]]; [apply IHl; exact H|discriminate H]. }
        rewrite (App pre _ _ s s (Hpre x s Nx)).
        rewrite exec_list_cons, exec_newset, Vl, Nx. rewrite exec_list_cons, exec_newattr, Vl, Nx. rewrite exec_list_nil. reflexivity. }
      rewrite P. rewrite exec_list_cons, exec_add, Vl, Vk. cbn [tab h_node with_node with_nattr]. rewrite get_set_same, exec_list_nil.
      unfold node_add, getl. cbn [h_node with_node with_nattr]. rewrite get_set_same. reflexivity. }
  rewrite Step. apply IH. intros y Hy. apply Hn. right. exact Hy.
Qed.

(* the same loop, seen from the model: attach = the node-side step plus the addition to the edge's own set *)
Lemma nstep_h_edge e x s : h_edge (nstep e s x) = h_edge s.
Proof. unfold nstep, node_add, ensure_node. destruct (has x (h_node s)); reflexivity. Qed.
Lemma nstep_with_edge e x s v : nstep e (with_edge s v) x = with_edge (nstep e s x) v.
Proof. unfold nstep, node_add, ensure_node. cbn [h_node with_edge]. destruct (has x (h_node s)); reflexivity. Qed.
Lemma fold_nstep_with_edge e v : forall xs s, fold_left (nstep e) xs (with_edge s v) = with_edge (fold_left (nstep e) xs s) v.
Proof. induction xs as [|x xs IH]; intro s; [reflexivity|]. cbn [fold_left]. rewrite nstep_with_edge. apply IH. Qed.
Lemma fold_nstep_h_edge e : forall xs s, h_edge (fold_left (nstep e) xs s) = h_edge s.
Proof. induction xs as [|x xs IH]; intro s; [reflexivity|]. cbn [fold_left]. rewrite IH. apply nstep_h_edge. Qed.
Lemma fold_nstep_h_eattr e : forall xs s, h_eattr (fold_left (nstep e) xs s) = h_eattr s.
Proof.
  induction xs as [|x xs IH]; intro s; [reflexivity|]. cbn [fold_left]. rewrite IH.
  unfold nstep, node_add, ensure_node. destruct (has x (h_node s)); reflexivity.
Qed.

Lemma h_eattr_with_edge s v : h_eattr (with_edge s v) = h_eattr s.
Proof. reflexivity. Qed.
Lemma h_edge_with_edge s v : h_edge (with_edge s v) = v.
Proof. reflexivity. Qed.
Lemma with_eattr_with_eattr s v w : with_eattr (with_eattr s v) w = with_eattr s w.
Proof. reflexivity. Qed.
Lemma with_edge_with_edge s v w : with_edge (with_edge s v) w = with_edge s w.
Proof. reflexivity. Qed.

Lemma fold_attach_split e : forall xs s acc, get e (h_edge s) = Some acc ->
  fold_left (attach e) xs s =
  with_edge (fold_left (nstep e) xs s) (set e (fold_left (fun a x => sadd x a) xs acc) (h_edge s)).
Proof.
  induction xs as [|x xs IH]; intros s acc G; cbn [fold_left].
  - destruct s as [n na ed ea net u]. unfold with_edge. cbn [h_node h_nattr h_edge h_eattr h_net h_uid] in *. f_equal.
    clear - G. induction ed as [|[k v] r IHr]; [discriminate G|]. cbn [get set] in *. destruct (lbl_eqb e k); [injection G as <-; reflexivity|].
    f_equal. apply IHr. exact G.
  - assert (E : attach e s x = with_edge (nstep e s x) (set e (sadd x acc) (h_edge s))).
    { assert (H : h_edge (node_add x e (ensure_node x s)) = h_edge s) by (apply (nstep_h_edge e x s)).
      unfold attach, edge_add, nstep, getl. rewrite H, G. reflexivity. }
    rewrite E. rewrite (IH _ (sadd x acc)).
    + rewrite fold_nstep_with_edge. cbn [h_edge with_edge]. rewrite with_edge_with_edge, set_set_same. reflexivity.
    + cbn [h_edge with_edge]. apply get_set_same.
Qed.

Lemma fold_sadd_nodup : forall xs acc, NoDup (acc ++ xs) -> fold_left (fun a x => sadd x a) xs acc = acc ++ xs.
Proof.
  induction xs as [|x xs IH]; intros acc ND; cbn [fold_left]; [rewrite app_nil_r; reflexivity|].
  assert (Nm : mem x acc = false).
  { destruct (mem x acc) eqn:E; [|reflexivity]. exfalso. apply mem_In in E. apply NoDup_remove_2 in ND. apply ND. apply in_or_app. left. exact E. }
  assert (Es : sadd x acc = acc ++ [x]) by (unfold sadd; rewrite Nm; reflexivity).
  rewrite Es, IH; rewrite <- app_assoc; [reflexivity|exact ND].
Qed.

Lemma insert_edge_as_nstep e ms a s : NoDup ms ->
  insert_edge e ms a s =
  with_eattr (with_edge (fold_left (nstep e) ms s) (set e ms (h_edge s))) (set e (aupdate [] a) (h_eattr s)).
Proof.
  intro ND. unfold insert_edge.
  rewrite (fold_attach_split e ms (with_edge s (set e [] (h_edge s))) []) by (cbn [h_edge with_edge]; apply get_set_same).
  rewrite fold_nstep_with_edge. cbn [h_edge h_eattr with_edge]. rewrite with_edge_with_edge, set_set_same, fold_nstep_h_eattr.
  rewrite (fold_sadd_nodup ms []) by exact ND. reflexivity.
Qed.



(* insert_edge for an arbitrary member list: the stored set is the list without repeats *)
Lemma insert_edge_as_nstep' e ms a s :
  insert_edge e ms a s =
  with_eattr (with_edge (fold_left (nstep e) ms s) (set e (mkset ms) (h_edge s))) (set e (aupdate [] a) (h_eattr s)).
Proof.
  unfold insert_edge.
  rewrite (fold_attach_split e ms (with_edge s (set e [] (h_edge s))) []) by (cbn [h_edge with_edge]; apply get_set_same).
  rewrite fold_nstep_with_edge. cbn [h_edge h_eattr with_edge]. rewrite with_edge_with_edge, set_set_same, fold_nstep_h_eattr. reflexivity.
Qed.

(* ---------- attribute dicts ---------- *)
Lemma exec_attrupdateitem t k en s : exec (SAttrUpdateItem t k) en s =
  match get (veval k en) (atab t s) with
  | Some d => (set_atab t s (set (veval k en) (aupdate d (e_eattr en)) (atab t s)), Ok)
  | None => (s, Raised IDNotFound)
  end.
Proof. reflexivity. Qed.

(* a dict (unique keys) poured into an empty dict is itself; update keeps keys unique *)
Lemma aset_fresh k v d : ~ In k (map fst d) -> aset k v d = d ++ [(k, v)].
Proof.
  induction d as [|[k' v'] r IH]; intro H; [reflexivity|]. cbn [aset app].
  destruct (String.eqb_spec k k') as [->|N]; [exfalso; apply H; left; reflexivity|].
  rewrite IH; [reflexivity|]. intro Hi. apply H. right. exact Hi.
Qed.
Lemma aupdate_app_fresh : forall u d, NoDup (map fst (d ++ u)) -> aupdate d u = d ++ u.
Proof.
  unfold aupdate. induction u as [|[k v] u IH]; intros d ND; cbn [fold_left fst snd]; [rewrite app_nil_r; reflexivity|].
  assert (Hk : ~ In k (map fst d)).
  { rewrite map_app in ND. cbn [map fst] in ND. apply NoDup_remove_2 in ND. intro Hi. apply ND. apply in_or_app. left. exact Hi. }
  rewrite (aset_fresh k v d Hk). rewrite IH; rewrite <- app_assoc; [reflexivity|exact ND].
Qed.
Lemma aupdate_nil_id a : NoDup (map fst a) -> aupdate [] a = a.
Proof. intro ND. apply (aupdate_app_fresh a []). exact ND. Qed.
Lemma aset_keys_nodup k v d : NoDup (map fst d) -> NoDup (map fst (aset k v d)).
Proof.
  induction d as [|[k' v'] r IH]; intro ND; cbn [aset]; [constructor; [intros []|constructor]|].
  destruct (String.eqb_spec k k') as [->|N]; [exact ND|]. cbn [map fst]. inversion ND as [|? ? Hn ND']; subst.
  constructor; [|apply IH; exact ND'].
  intro Hi. apply Hn. clear - Hi N. induction r as [|[k2 v2] r IHr]; cbn [aset map fst] in *.
  - destruct Hi as [E|[]]. congruence.
  - destruct (String.eqb_spec k k2) as [->|N2]; [exact Hi|]. cbn [map fst] in Hi. destruct Hi as [E|Hi]; [left; exact E|right; apply IHr; exact Hi].
Qed.
Lemma aupdate_keys_nodup : forall u d, NoDup (map fst d) -> NoDup (map fst (aupdate d u)).
Proof. unfold aupdate. induction u as [|[k v] u IH]; intros d ND; cbn [fold_left]; [exact ND|]. apply IH. apply aset_keys_nodup. exact ND. Qed.

