(* C14: the breadth-first search of Model/Graph.v computes exactly the reachability class of its
   source, with the fuel the model gives it, on every state satisfying Inv; the components are a
   partition of the node set. *)
From Coq Require Import String ZArith List Bool Lia Permutation.
From XV Require Import Base.Label Base.LSet Base.ODict Base.Attr Base.Outcome Model.Hypergraph Model.Stats Model.Graph
     Proofs.HgViews Proofs.HgInv Proofs.StatsProofs.
Import ListNotations.

(* ---------- adjacency ---------- *)
Lemma nbrs_spec s a b : In b (nbrs s a) <-> b <> a /\ exists e, In e (mships s a) /\ In b (mems s e).
Proof. apply node_neighbors_spec. Qed.

Lemma nbrs_sym s a b : W1 s -> In b (nbrs s a) -> In a (nbrs s b).
Proof.
  intros HW H. apply nbrs_spec in H. destruct H as (N & e & H1 & H2). apply nbrs_spec.
  split; [congruence|]. exists e. split; [apply HW; exact H2|apply HW; exact H1].
Qed.

Lemma nbrs_node s a b : W1 s -> In b (nbrs s a) -> In b (nkeys s).
Proof.
  intros HW H. apply nbrs_spec in H. destruct H as (_ & e & _ & H2). apply HW in H2.
  unfold mships in H2. apply (getl_nonempty_key b (h_node s) e). exact H2.
Qed.

Lemma nbrs_irrefl s a : ~ In a (nbrs s a).
Proof. intro H. apply nbrs_spec in H. destruct H as [N _]. congruence. Qed.

(* reachability by steps between nodes that share an edge *)
Inductive Reach (s : hg) (a : lbl) : lbl -> Prop :=
| Reach_refl : Reach s a a
| Reach_step b c : Reach s a b -> In c (nbrs s b) -> Reach s a c.

Lemma Reach_trans s a b c : Reach s a b -> Reach s b c -> Reach s a c.
Proof. intros H1 H2. induction H2 as [|x y _ IH Hy]; [exact H1|]. eapply Reach_step; eassumption. Qed.

Lemma Reach_sym s a b : W1 s -> Reach s a b -> Reach s b a.
Proof.
  intros HW H. induction H as [|x y _ IH Hy]; [constructor|].
  eapply Reach_trans; [|exact IH]. eapply Reach_step; [constructor|]. apply nbrs_sym; assumption.
Qed.

Lemma Reach_node s a b : W1 s -> In a (nkeys s) -> Reach s a b -> In b (nkeys s).
Proof. intros HW Ha H. induction H as [|x y _ _ Hy]; [exact Ha|]. eapply nbrs_node; eassumption. Qed.

(* ---------- fresh ---------- *)
Lemma In_fresh seen frontier x : In x (fresh seen frontier) <-> In x frontier /\ ~ In x seen.
Proof.
  unfold fresh. rewrite filter_In, In_dedup, negb_true_iff, mem_nIn. tauto.
Qed.

Lemma NoDup_fresh seen frontier : NoDup (fresh seen frontier).
Proof. unfold fresh. apply NoDup_filter. apply NoDup_dedup. Qed.

Lemma NoDup_app_in {A} (a b : list A) :
  NoDup a -> NoDup b -> (forall x, In x a -> In x b -> False) -> NoDup (a ++ b).
Proof.
  induction 1 as [|x a Hx Ha IH]; intros Hb Hd; simpl; [exact Hb|].
  constructor.
  - rewrite in_app_iff. intros [H|H]; [contradiction|]. apply (Hd x); [left; reflexivity|exact H].
  - apply IH; [exact Hb|]. intros y Hy. apply Hd. right; exact Hy.
Qed.

Lemma NoDup_app_fresh seen frontier : NoDup seen -> NoDup (seen ++ fresh seen frontier).
Proof.
  intro H. apply NoDup_app_in; [exact H|apply NoDup_fresh|].
  intros y Hy Hf. apply In_fresh in Hf. tauto.
Qed.

(* ---------- _plain_bfs ---------- *)
Lemma bfs_nil fuel s seen : bfs fuel s [] seen = seen.
Proof. destruct fuel; reflexivity. Qed.

(* soundness: whatever the fuel, only nodes reachable from the source are collected *)
Lemma bfs_sound s v : forall fuel frontier seen,
  (forall x, In x frontier -> Reach s v x) -> (forall x, In x seen -> Reach s v x) ->
  forall x, In x (bfs fuel s frontier seen) -> Reach s v x.
Proof.
  induction fuel as [|f IH]; intros frontier seen Hf Hs x Hx; cbn [bfs] in Hx; [apply Hs; exact Hx|].
  destruct frontier as [|y fr]; [apply Hs; exact Hx|].
  revert Hx. apply IH.
  - intros z Hz. apply in_flat_map in Hz. destruct Hz as (w & Hw & Hz).
    apply In_fresh in Hw. eapply Reach_step; [apply Hf; apply Hw|exact Hz].
  - intros z Hz. apply in_app_iff in Hz. destruct Hz as [Hz|Hz]; [apply Hs; exact Hz|].
    apply In_fresh in Hz. apply Hf. apply Hz.
Qed.

(* the frontier covers the neighbours of what has been seen *)
Definition Covered (s : hg) (frontier seen : list lbl) : Prop :=
  forall x y, In x seen -> In y (nbrs s x) -> In y seen \/ In y frontier.

(* completeness: with fuel + |seen| >= |U| + 2 the search ends with a set closed under neighbours *)
Lemma bfs_closed s (U : list lbl) :
  (forall x y, In y (nbrs s x) -> In y U) ->
  forall fuel frontier seen,
    NoDup seen -> incl seen U -> incl frontier U -> Covered s frontier seen ->
    (length U + 2 <= fuel + length seen)%nat ->
    let R := bfs fuel s frontier seen in
    incl seen R /\ incl frontier R /\ (forall x y, In x R -> In y (nbrs s x) -> In y R) /\ NoDup R /\ incl R U.
Proof.
  intros HU. induction fuel as [|f IH]; intros frontier seen Hnd Hsu Hfu Hcov Hfuel R.
  - exfalso. pose proof (NoDup_incl_length Hnd Hsu). simpl in Hfuel. lia.
  - subst R. cbn [bfs]. destruct frontier as [|y0 fr].
    + split; [apply incl_refl|]. split; [intros z []|]. split; [|split; assumption].
      intros x y Hx Hy. destruct (Hcov x y Hx Hy) as [H|[]]. exact H.
    + set (frontier := y0 :: fr) in *.
      set (new := fresh seen frontier).
      assert (Hnd' : NoDup (seen ++ new)) by (apply NoDup_app_fresh; exact Hnd).
      assert (Hsu' : incl (seen ++ new) U).
      { intros z Hz. apply in_app_iff in Hz. destruct Hz as [Hz|Hz]; [apply Hsu; exact Hz|].
        apply In_fresh in Hz. apply Hfu. apply Hz. }
      assert (Hfr_in : forall z, In z frontier -> In z (seen ++ new)).
      { intros z Hz. apply in_app_iff. destruct (in_dec lbl_eq_dec z seen) as [Hi|Hn]; [left; exact Hi|].
        right. apply In_fresh. split; assumption. }
      destruct new as [|n0 nw] eqn:Enew.
      * (* nothing new: the next frontier is empty and the search stops *)
        cbn [flat_map]. rewrite bfs_nil, app_nil_r.
        split; [apply incl_refl|]. rewrite app_nil_r in Hfr_in.
        split; [exact Hfr_in|]. split; [|split; assumption].
        intros x y Hx Hy. destruct (Hcov x y Hx Hy) as [H|H]; [exact H|apply Hfr_in; exact H].
      * rewrite <- Enew in *.
        assert (Hlen : (length (seen ++ new) >= S (length seen))%nat).
        { rewrite app_length. rewrite Enew. simpl. lia. }
        specialize (IH (flat_map (nbrs s) new) (seen ++ new) Hnd' Hsu').
        destruct IH as (I1 & I2 & I3 & I4 & I5).
        -- intros z Hz. apply in_flat_map in Hz. destruct Hz as (w & _ & Hz). eapply HU; exact Hz.
        -- intros x y Hx Hy. apply in_app_iff in Hx. destruct Hx as [Hx|Hx].
           ++ destruct (Hcov x y Hx Hy) as [H|H]; [left; apply in_app_iff; left; exact H|].
              left. apply Hfr_in. exact H.
           ++ right. apply in_flat_map. exists x. split; assumption.
        -- lia.
        -- split; [intros z Hz; apply I1; apply in_app_iff; left; exact Hz|].
           split; [intros z Hz; apply I1; apply Hfr_in; exact Hz|].
           split; [exact I3|]. split; assumption.
Qed.

(* ---------- components ---------- *)
Lemma component_props s v : W1 s -> In v (nkeys s) ->
  let R := component s v in
  In v R /\ (forall x y, In x R -> In y (nbrs s x) -> In y R) /\ NoDup R /\ incl R (nkeys s).
Proof.
  intros HW Hv R. subst R. unfold component, bfs_fuel.
  destruct (bfs_closed s (nkeys s) (fun x y H => nbrs_node s x y HW H)
                       (S (S (length (h_node s)))) [v] []) as (_ & I2 & I3 & I4 & I5).
  - constructor.
  - intros z [].
  - intros z [<-|[]]. exact Hv.
  - intros x y [].
  - unfold nkeys, keys. rewrite map_length. simpl. lia.
  - split; [apply I2; left; reflexivity|]. split; [exact I3|]. split; assumption.
Qed.

(* the search from v returns exactly the nodes reachable from v *)
Theorem component_spec s v x : W1 s -> In v (nkeys s) -> (In x (component s v) <-> Reach s v x).
Proof.
  intros HW Hv. split.
  - apply bfs_sound.
    + intros z [<-|[]]. constructor.
    + intros z [].
  - destruct (component_props s v HW Hv) as (Hin & Hcl & _ & _).
    intro H. induction H as [|b c _ IH Hc]; [exact Hin|]. eapply Hcl; eassumption.
Qed.

Definition RClosed (s : hg) (l : list lbl) : Prop := forall x y, In x l -> Reach s x y -> In y l.

Lemma comps_from_spec s : W1 s -> forall vs seen,
  incl vs (nkeys s) -> RClosed s seen ->
  let cs := comps_from s vs seen in
  NoDup (concat cs) /\
  (forall x, In x (concat cs) -> ~ In x seen) /\
  (forall v, In v vs -> In v seen \/ In v (concat cs)) /\
  (forall c, In c cs -> exists v, In v vs /\ c = component s v) /\
  incl (concat cs) (nkeys s).
Proof.
  intros HW. induction vs as [|v r IH]; intros seen Hvs Hcl cs; subst cs; cbn [comps_from].
  - simpl. split; [constructor|]. split; [intros x []|]. split; [intros v []|]. split; [intros c []|intros x []].
  - assert (Hr : incl r (nkeys s)) by (intros z Hz; apply Hvs; right; exact Hz).
    assert (Hv : In v (nkeys s)) by (apply Hvs; left; reflexivity).
    destruct (mem v seen) eqn:Em.
    + apply mem_In in Em. destruct (IH seen Hr Hcl) as (I1 & I2 & I3 & I4 & I5).
      split; [exact I1|]. split; [exact I2|]. split.
      * intros w [<-|Hw]; [left; exact Em|apply I3; exact Hw].
      * split; [|exact I5]. intros c Hc. destruct (I4 c Hc) as (w & Hw & E). exists w. split; [right; exact Hw|exact E].
    + apply mem_nIn in Em.
      destruct (component_props s v HW Hv) as (Pin & Pcl & Pnd & Pinc).
      set (c := component s v) in *.
      assert (Hdisj : forall x, In x c -> ~ In x seen).
      { intros x Hx Hs. apply Em. apply (Hcl x v Hs). apply Reach_sym; [exact HW|].
        apply (component_spec s v x HW Hv). exact Hx. }
      assert (Hcl' : RClosed s (seen ++ c)).
      { intros x y Hx Hxy. apply in_app_iff in Hx. apply in_app_iff. destruct Hx as [Hx|Hx].
        - left. eapply Hcl; eassumption.
        - right. apply (component_spec s v y HW Hv). eapply Reach_trans; [|exact Hxy].
          apply (component_spec s v x HW Hv). exact Hx. }
      destruct (IH (seen ++ c) Hr Hcl') as (I1 & I2 & I3 & I4 & I5).
      cbn [concat]. split.
      * apply NoDup_app_in; [exact Pnd|exact I1|].
        intros x Hx Hx'. apply (I2 x Hx'). apply in_app_iff. right. exact Hx.
      * split.
        { intros x Hx. apply in_app_iff in Hx. destruct Hx as [Hx|Hx]; [apply Hdisj; exact Hx|].
          intro Hs. apply (I2 x Hx). apply in_app_iff. left. exact Hs. }
        split.
        { intros w [<-|Hw]; [right; apply in_app_iff; left; exact Pin|].
          destruct (I3 w Hw) as [H|H].
          - apply in_app_iff in H. destruct H as [H|H]; [left; exact H|right; apply in_app_iff; left; exact H].
          - right. apply in_app_iff. right. exact H. }
        split.
        { intros c' [<-|Hc']; [exists v; split; [left; reflexivity|reflexivity]|].
          destruct (I4 c' Hc') as (w & Hw & E). exists w. split; [right; exact Hw|exact E]. }
        intros x Hx. apply in_app_iff in Hx. destruct Hx as [Hx|Hx]; [apply Pinc; exact Hx|apply I5; exact Hx].
Qed.

(* connected_components partition the node set into reachability classes *)
Theorem components_partition s : W1 s ->
  NoDup (concat (components s)) /\
  (forall x, In x (concat (components s)) <-> In x (nkeys s)) /\
  (forall c, In c (components s) -> exists v, In v (nkeys s) /\ forall x, In x c <-> Reach s v x).
Proof.
  intro HW. unfold components.
  destruct (comps_from_spec s HW (keys (h_node s)) [] (incl_refl _)) as (I1 & _ & I3 & I4 & I5).
  - intros x y [].
  - split; [exact I1|]. split.
    + intro x. split; [apply I5|]. intro Hx. destruct (I3 x Hx) as [[]|H]. exact H.
    + intros c Hc. destruct (I4 c Hc) as (v & Hv & ->). exists v. split; [exact Hv|].
      intro x. apply component_spec; assumption.
Qed.

(* is_connected: true exactly when every node is reachable from the first *)
Theorem is_connected_spec s v r : W1 s -> NoDup (nkeys s) -> nkeys s = v :: r ->
  (is_connected s = Some true <-> forall x, In x (nkeys s) -> Reach s v x).
Proof.
  intros HW Hnd E.
  assert (Hic : is_connected s = Some (Nat.eqb (length (component s v)) (length (h_node s)))).
  { unfold is_connected. fold (nkeys s). rewrite E. reflexivity. }
  rewrite Hic. clear Hic.
  assert (Hv : In v (nkeys s)) by (rewrite E; left; reflexivity).
  destruct (component_props s v HW Hv) as (Pin & Pcl & Pnd & Pinc).
  assert (EL : length (h_node s) = length (nkeys s)) by (unfold nkeys, keys; rewrite map_length; reflexivity).
  split.
  - intro H. injection H as H. apply Nat.eqb_eq in H. rewrite EL in H.
    intros x Hx. apply (component_spec s v x HW Hv).
    apply (NoDup_length_incl Pnd (l' := nkeys s)); [lia|exact Pinc|exact Hx].
  - intro H. f_equal. apply Nat.eqb_eq. rewrite EL.
    apply Nat.le_antisymm.
    + apply NoDup_incl_length; assumption.
    + apply NoDup_incl_length; [exact Hnd|]. intros x Hx. apply (component_spec s v x HW Hv). apply H. exact Hx.
Qed.

(* ---------- breadth-first distances ---------- *)
Inductive Walk (s : hg) (a : lbl) : lbl -> nat -> Prop :=
| Walk_0 : Walk s a a O
| Walk_S b c n : Walk s a b n -> In c (nbrs s b) -> Walk s a c (S n).

Lemma Walk_Reach s a b n : Walk s a b n -> Reach s a b.
Proof. induction 1; [constructor|eapply Reach_step; eassumption]. Qed.
Lemma Reach_Walk s a b : Reach s a b -> exists n, Walk s a b n.
Proof. induction 1 as [|b c _ [n IH] Hc]; [exists O; constructor|exists (S n); eapply Walk_S; eassumption]. Qed.

Lemma Walk_prepend s a b c n : In b (nbrs s a) -> Walk s b c n -> Walk s a c (S n).
Proof.
  intros Hb H. induction H as [|x y n _ IH Hy].
  - eapply Walk_S; [constructor|exact Hb].
  - eapply Walk_S; [exact IH|exact Hy].
Qed.

Lemma Walk_sym s a b n : W1 s -> Walk s a b n -> Walk s b a n.
Proof.
  intros HW H. induction H as [|x y n _ IH Hy]; [constructor|].
  eapply Walk_prepend; [|exact IH]. apply nbrs_sym; assumption.
Qed.

(* b is at distance exactly j from a *)
Definition MinWalk (s : hg) (a b : lbl) (j : nat) : Prop := Walk s a b j /\ forall n, Walk s a b n -> (j <= n)%nat.

Lemma MinWalk_unique s a b j j' : MinWalk s a b j -> MinWalk s a b j' -> j = j'.
Proof. intros [H1 H2] [H3 H4]. apply Nat.le_antisymm; auto. Qed.

Record LInv (s : hg) (a : lbl) (k : nat) (frontier seen : list lbl) : Prop := {
  li_seen : forall x, In x seen <-> exists n, (n < k)%nat /\ Walk s a x n;
  li_front : forall x, In x frontier -> Walk s a x k;
  li_cover : forall x, Walk s a x k -> In x seen \/ In x frontier }.

Lemma LInv_new s a k frontier seen x : LInv s a k frontier seen ->
  (In x (fresh seen frontier) <-> MinWalk s a x k).
Proof.
  intros [A B Cv]. rewrite In_fresh. split.
  - intros [Hf Hn]. split; [apply B; exact Hf|].
    intros n Hw. destruct (Nat.le_gt_cases k n) as [H|H]; [exact H|].
    exfalso. apply Hn. apply A. exists n. split; assumption.
  - intros [Hw Hmin]. assert (Hn : ~ In x seen).
    { intro Hs. apply A in Hs. destruct Hs as (n & Hlt & Hwn). specialize (Hmin n Hwn). lia. }
    split; [|exact Hn]. destruct (Cv x Hw) as [H|H]; [contradiction|exact H].
Qed.

Lemma LInv_step s a k frontier seen : LInv s a k frontier seen ->
  LInv s a (S k) (flat_map (nbrs s) (fresh seen frontier)) (seen ++ fresh seen frontier).
Proof.
  intros L. pose proof L as [A B Cv].
  assert (A' : forall x, In x (seen ++ fresh seen frontier) <-> exists n, (n < S k)%nat /\ Walk s a x n).
  { intro x. rewrite in_app_iff. split.
    - intros [H|H].
      + apply A in H. destruct H as (n & Hlt & Hw). exists n. split; [lia|exact Hw].
      + apply (LInv_new s a k frontier seen x L) in H. exists k. split; [lia|apply H].
    - intros (n & Hlt & Hw). destruct (Nat.eq_dec n k) as [->|N].
      + destruct (in_dec lbl_eq_dec x seen) as [Hi|Hn]; [left; exact Hi|].
        right. apply In_fresh. split; [|exact Hn]. destruct (Cv x Hw) as [H|H]; [contradiction|exact H].
      + left. apply A. exists n. split; [lia|exact Hw]. }
  constructor.
  - exact A'.
  - intros x Hx. apply in_flat_map in Hx. destruct Hx as (w & Hw & Hx).
    apply (LInv_new s a k frontier seen w L) in Hw. eapply Walk_S; [apply Hw|exact Hx].
  - intros x Hx. inversion Hx as [|b c n Hb Hc]; subst.
    destruct (in_dec lbl_eq_dec b (fresh seen frontier)) as [Hn|Hn].
    + right. apply in_flat_map. exists b. split; assumption.
    + left. apply A'.
      assert (Hbs : In b seen).
      { destruct (Cv b Hb) as [H|H]; [exact H|].
        destruct (in_dec lbl_eq_dec b seen) as [Hi|Hni]; [exact Hi|].
        exfalso. apply Hn. apply In_fresh. split; assumption. }
      apply A in Hbs. destruct Hbs as (m & Hlt & Hwm). exists (S m). split; [lia|].
      eapply Walk_S; eassumption.
Qed.

Lemma bfs_levels_nil fuel s seen d : bfs_levels fuel s [] seen d = [].
Proof. destruct fuel; reflexivity. Qed.

(* soundness, whatever the fuel: a listed pair carries the exact distance *)
Lemma bfs_levels_sound s a : forall fuel k frontier seen,
  LInv s a k frontier seen ->
  forall x d, In (x, d) (bfs_levels fuel s frontier seen (Z.of_nat k)) ->
  exists j, d = Z.of_nat j /\ MinWalk s a x j.
Proof.
  induction fuel as [|f IH]; intros k frontier seen L x d Hx; cbn [bfs_levels] in Hx; [destruct Hx|].
  destruct frontier as [|y0 fr]; [destruct Hx|].
  apply in_app_iff in Hx. destruct Hx as [Hx|Hx].
  - apply in_map_iff in Hx. destruct Hx as (w & E & Hw). inversion E; subst.
    exists k. split; [reflexivity|]. apply (LInv_new s a k _ seen x L). exact Hw.
  - replace (Z.of_nat k + 1)%Z with (Z.of_nat (S k)) in Hx by lia.
    eapply IH; [|exact Hx]. apply LInv_step. exact L.
Qed.

Lemma walks_in_seen s a k seen :
  (forall x, In x seen <-> exists n, (n < k)%nat /\ Walk s a x n) ->
  (forall x, Walk s a x k -> In x seen) ->
  forall x n, Walk s a x n -> In x seen.
Proof.
  intros A Hk x n H. induction H as [|b c n _ IH Hc].
  - destruct k as [|k']; [apply Hk; constructor|]. apply A. exists O. split; [lia|constructor].
  - apply A in IH. destruct IH as (m & Hlt & Hw).
    destruct (Nat.eq_dec (S m) k) as [E|N].
    + apply Hk. rewrite <- E. eapply Walk_S; eassumption.
    + apply A. exists (S m). split; [lia|]. eapply Walk_S; eassumption.
Qed.

(* completeness with the fuel of the model *)
Lemma bfs_levels_complete s a (U : list lbl) :
  (forall x y, In y (nbrs s x) -> In y U) ->
  forall fuel k frontier seen,
    LInv s a k frontier seen -> NoDup seen -> incl seen U -> incl frontier U ->
    (length U + 2 <= fuel + length seen)%nat ->
    forall x n, Walk s a x n -> In x seen \/ exists d, In (x, d) (bfs_levels fuel s frontier seen (Z.of_nat k)).
Proof.
  intros HU. induction fuel as [|f IH]; intros k frontier seen L Hnd Hsu Hfu Hfuel x n Hw.
  - exfalso. pose proof (NoDup_incl_length Hnd Hsu). simpl in Hfuel. lia.
  - pose proof L as [A B Cv]. cbn [bfs_levels]. destruct frontier as [|y0 fr].
    + left. eapply walks_in_seen; [exact A| |exact Hw].
      intros z Hz. destruct (Cv z Hz) as [H|[]]. exact H.
    + set (frontier := y0 :: fr) in *.
      destruct (fresh seen frontier) as [|n0 nw] eqn:Enew.
      * left. eapply walks_in_seen; [exact A| |exact Hw].
        intros z Hz. destruct (Cv z Hz) as [H|H]; [exact H|].
        destruct (in_dec lbl_eq_dec z seen) as [Hi|Hni]; [exact Hi|].
        exfalso. assert (Hin : In z (fresh seen frontier)) by (apply In_fresh; split; assumption).
        rewrite Enew in Hin. destruct Hin.
      * rewrite <- Enew. set (new := fresh seen frontier) in *.
        assert (Hnd' : NoDup (seen ++ new)) by (apply NoDup_app_fresh; exact Hnd).
        assert (Hsu' : incl (seen ++ new) U).
        { intros z Hz. apply in_app_iff in Hz. destruct Hz as [Hz|Hz]; [apply Hsu; exact Hz|].
          apply In_fresh in Hz. apply Hfu. apply Hz. }
        assert (Hlen : (length (seen ++ new) >= S (length seen))%nat).
        { rewrite app_length. rewrite Enew. simpl. lia. }
        replace (Z.of_nat k + 1)%Z with (Z.of_nat (S k)) by lia.
        destruct (IH (S k) (flat_map (nbrs s) new) (seen ++ new) (LInv_step s a k frontier seen L) Hnd' Hsu') with (x := x) (n := n)
          as [H|[d H]].
        -- intros z Hz. apply in_flat_map in Hz. destruct Hz as (w & _ & Hz). eapply HU; exact Hz.
        -- lia.
        -- exact Hw.
        -- apply in_app_iff in H. destruct H as [H|H]; [left; exact H|].
           right. exists (Z.of_nat k). apply in_app_iff. left. apply in_map_iff. exists x. split; [reflexivity|exact H].
        -- right. exists d. apply in_app_iff. right. exact H.
Qed.

Lemma LInv_init s a : LInv s a O [a] [].
Proof.
  constructor.
  - intro x. split; [intros []|]. intros (n & Hlt & _). lia.
  - intros x [<-|[]]. constructor.
  - intros x Hx. right. inversion Hx; subst. left. reflexivity.
Qed.

Lemma In_levels s a x d : In (x, d) (levels s a) -> exists j, d = Z.of_nat j /\ MinWalk s a x j.
Proof. unfold levels. apply (bfs_levels_sound s a (bfs_fuel s) O [a] []). apply LInv_init. Qed.

Lemma get_In_some {V} (k : lbl) (d : odict V) v : In (k, v) d -> exists v', get k d = Some v'.
Proof.
  intro H. destruct (get k d) as [v'|] eqn:E; [exists v'; reflexivity|].
  exfalso. apply get_None in E. apply E. unfold keys. apply in_map_iff. exists (k, v). split; [reflexivity|exact H].
Qed.

Lemma levels_complete s a b n : W1 s -> In a (nkeys s) -> Walk s a b n -> exists d, In (b, d) (levels s a).
Proof.
  intros HW Ha Hw.
  destruct (bfs_levels_complete s a (nkeys s) (fun x y H => nbrs_node s x y HW H)
              (bfs_fuel s) O [a] [] (LInv_init s a)) with (x := b) (n := n) as [[]|[d Hd]].
  - constructor.
  - intros z [].
  - intros z [<-|[]]. exact Ha.
  - unfold bfs_fuel, nkeys, keys. rewrite map_length. simpl. lia.
  - exact Hw.
  - exists d. exact Hd.
Qed.

(* dist a b = Some d exactly when the shortest walk from a to b has d steps *)
Theorem dist_spec s a b j : W1 s -> In a (nkeys s) ->
  (dist s a b = Some (Z.of_nat j) <-> MinWalk s a b j).
Proof.
  intros HW Ha. unfold dist. split.
  - intro H. apply get_In in H. apply In_levels in H. destruct H as (j' & E & Hm).
    apply Nat2Z.inj in E. subst j'. exact Hm.
  - intros Hm. pose proof Hm as [Hw _].
    destruct (levels_complete s a b j HW Ha Hw) as [d Hd].
    destruct (get_In_some b (levels s a) d Hd) as [d' E]. rewrite E.
    apply get_In in E. apply In_levels in E. destruct E as (j' & -> & Hm').
    rewrite (MinWalk_unique s a b j j' Hm Hm'). reflexivity.
Qed.

Lemma dist_some_nat s a b d : dist s a b = Some d -> exists j, d = Z.of_nat j /\ MinWalk s a b j.
Proof. unfold dist. intro H. apply get_In in H. apply In_levels in H. exact H. Qed.

(* infinite exactly across components *)
Theorem dist_none s a b : W1 s -> In a (nkeys s) -> (dist s a b = None <-> ~ Reach s a b).
Proof.
  intros HW Ha. split.
  - intros H Hr. apply Reach_Walk in Hr. destruct Hr as [n Hw].
    destruct (levels_complete s a b n HW Ha Hw) as [d Hd].
    destruct (get_In_some b (levels s a) d Hd) as [d' E]. unfold dist in H. congruence.
  - intro H. destruct (dist s a b) as [d|] eqn:E; [|reflexivity].
    exfalso. apply H. destruct (dist_some_nat s a b d E) as (j & _ & [Hw _]). eapply Walk_Reach; exact Hw.
Qed.

(* symmetric, and zero exactly on the diagonal *)
Theorem dist_sym s a b : W1 s -> In a (nkeys s) -> In b (nkeys s) -> dist s a b = dist s b a.
Proof.
  intros HW Ha Hb.
  assert (Hms : forall x y j, MinWalk s x y j -> MinWalk s y x j).
  { intros x y j [H1 H2]. split; [apply Walk_sym; assumption|].
    intros n Hn. apply H2. apply Walk_sym; assumption. }
  destruct (dist s a b) as [d|] eqn:E.
  - destruct (dist_some_nat s a b d E) as (j & -> & Hm). symmetry.
    apply (dist_spec s b a j HW Hb). apply Hms. exact Hm.
  - symmetry. apply (dist_none s b a HW Hb). intro Hr.
    apply (dist_none s a b HW Ha) in E. apply E. apply Reach_sym; assumption.
Qed.

Theorem dist_diag s a b : W1 s -> In a (nkeys s) -> (dist s a b = Some 0%Z <-> a = b).
Proof.
  intros HW Ha. change 0%Z with (Z.of_nat O). rewrite (dist_spec s a b O HW Ha). split.
  - intros [H _]. inversion H. reflexivity.
  - intros <-. split; [constructor|]. intros n _. lia.
Qed.

(* ---------- converters ---------- *)
Theorem projection_links_spec s a b :
  In (a, b) (projection_links s) <-> In a (nkeys s) /\ In b (nbrs s a).
Proof.
  unfold projection_links. rewrite in_flat_map. split.
  - intros (x & Hx & H). apply in_map_iff in H. destruct H as (y & E & Hy). inversion E; subst. split; assumption.
  - intros [Ha Hb]. exists a. split; [exact Ha|]. apply in_map_iff. exists b. split; [reflexivity|exact Hb].
Qed.

Theorem all_links_spec s a b :
  In (a, b) (all_links s) <->
  exists ma mb, In (a, ma) (h_edge s) /\ In (b, mb) (h_edge s) /\
                mb <> [] /\ (forall x, In x mb -> In x ma) /\ (length mb < length ma)%nat.
Proof.
  unfold all_links. rewrite in_flat_map. split.
  - intros ([a' ma] & Ha & H). apply in_flat_map in H. destruct H as ([b' mb] & Hb & H).
    cbn [fst snd] in H. destruct (encapsulates ma mb) eqn:E; [|destruct H].
    destruct H as [H|[]]. inversion H; subst. exists ma, mb.
    unfold encapsulates in E. apply andb_true_iff in E. destruct E as [E E3].
    apply andb_true_iff in E. destruct E as [E1 E2].
    split; [exact Ha|]. split; [exact Hb|]. split.
    + intro N. subst mb. discriminate E1.
    + split; [apply ssubset_spec; exact E2|apply Nat.ltb_lt; exact E3].
  - intros (ma & mb & Ha & Hb & Hne & Hsub & Hlt). exists (a, ma). split; [exact Ha|].
    apply in_flat_map. exists (b, mb). split; [exact Hb|]. cbn [fst snd].
    assert (E : encapsulates ma mb = true).
    { unfold encapsulates. apply andb_true_iff. split; [apply andb_true_iff; split|].
      - destruct mb; [congruence|reflexivity].
      - apply ssubset_spec. exact Hsub.
      - apply Nat.ltb_lt. exact Hlt. }
    rewrite E. left. reflexivity.
Qed.

Lemma dag_links_incl s t : incl (dag_links s t) (all_links s).
Proof. destruct t; cbn [dag_links]; intros x Hx; [exact Hx| |]; apply filter_In in Hx; apply Hx. Qed.

(* every link of the three dags goes to a strictly smaller edge, so they are acyclic *)
Theorem dag_links_decrease s t a b : NoDup (ekeys s) ->
  In (a, b) (dag_links s t) -> (esize s b < esize s a)%nat.
Proof.
  intros Hnd H. apply dag_links_incl in H. apply all_links_spec in H.
  destruct H as (ma & mb & Ha & Hb & _ & _ & Hlt).
  unfold esize, getl. rewrite (In_get _ _ _ Hnd Ha), (In_get _ _ _ Hnd Hb). exact Hlt.
Qed.
