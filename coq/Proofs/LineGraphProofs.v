(* C14: the s-line graph links exactly the pairs of edges sharing at least s nodes, with the size
   of the intersection (and the smaller size) as weight; the bipartite links are the incidences. *)
From Coq Require Import String ZArith List Bool Lia.
From XV Require Import Base.Label Base.LSet Base.ODict Base.Attr Base.Outcome Model.Hypergraph Model.Stats Model.Graph.
Import ListNotations.
Open Scope Z_scope.

Definition inter_size (m1 m2 : list lbl) : Z := zlen (sinter m1 m2).

Theorem line_links_sound sv : forall es e1 e2 w, In (e1, e2, w) (line_links sv es) ->
  exists i j m1 m2, (i < j < length es)%nat /\ nth i es (LNone, []) = (e1, m1) /\ nth j es (LNone, []) = (e2, m2) /\
                    sv <= inter_size m1 m2 /\ w = (inter_size m1 m2, Z.min (zlen m1) (zlen m2)).
Proof.
  induction es as [|[a ma] r IH]; intros e1 e2 w H; [destruct H|]. cbn [line_links] in H.
  apply in_app_iff in H. destruct H as [H|H].
  - apply in_flat_map in H. destruct H as ([b mb] & Hb & H). cbn [fst snd] in H.
    destruct (sv <=? zlen (sinter ma mb)) eqn:E; [|destruct H]. destruct H as [H|[]]. inversion H; subst.
    destruct (In_nth _ _ (LNone, []) Hb) as (k & Hk & Ek).
    exists O, (S k), ma, mb. cbn [length nth]. split; [lia|]. split; [reflexivity|]. split; [exact Ek|].
    split; [apply Z.leb_le; exact E|reflexivity].
  - destruct (IH e1 e2 w H) as (i & j & m1 & m2 & Hij & Ei & Ej & Hs & Ew).
    exists (S i), (S j), m1, m2. cbn [length nth]. split; [lia|]. repeat split; assumption.
Qed.

Theorem line_links_complete sv : forall es i j e1 e2 m1 m2,
  (i < j < length es)%nat -> nth i es (LNone, []) = (e1, m1) -> nth j es (LNone, []) = (e2, m2) ->
  sv <= inter_size m1 m2 ->
  In (e1, e2, (inter_size m1 m2, Z.min (zlen m1) (zlen m2))) (line_links sv es).
Proof.
  induction es as [|[a ma] r IH]; intros i j e1 e2 m1 m2 Hij Ei Ej Hs; [simpl in Hij; lia|].
  cbn [line_links]. apply in_app_iff. destruct i as [|i].
  - left. cbn [nth] in Ei. inversion Ei; subst. destruct j as [|j]; [lia|]. cbn [nth length] in *.
    apply in_flat_map. exists (e2, m2). split; [rewrite <- Ej; apply nth_In; lia|]. cbn [fst snd].
    unfold inter_size in Hs. apply Z.leb_le in Hs. rewrite Hs. left. reflexivity.
  - right. destruct j as [|j]; [lia|]. cbn [nth length] in *. apply (IH i j); [lia|assumption..].
Qed.
