(* Boundary matrices and Hodge Laplacians of xgi/linalg/hodge_matrix.py (C13).
   A simplex is handled in its reference orientation: its members sorted with numbers before
   strings.  The face that omits position j of a simplex sigma carries the sign
   (-1)^(o(sigma) + j + o(face)), exactly the code's (orientations[u] + order - i) % 2 for the
   i-th combination (which omits position order - i). *)
From Coq Require Import String ZArith List Bool Lia.
From XV Require Import Base.Label Base.LSet Base.ODict Base.Attr Base.Outcome Model.Hypergraph.
Import ListNotations.
Open Scope Z_scope.

(* sort key (isinstance(e, str), e) *)
Definition key_ltb (a b : lbl) : bool :=
  match a, b with
  | LInt x, LInt y => x <? y
  | LInt _, LStr _ => true
  | LStr x, LStr y => String.ltb x y
  | _, _ => false
  end.
Fixpoint insert_key (x : lbl) (l : list lbl) : list lbl :=
  match l with
  | [] => [x]
  | y :: r => if key_ltb x y then x :: y :: r else y :: insert_key x r
  end.
Definition sort_simplex (l : list lbl) : list lbl := fold_right insert_key [] l.

Fixpoint remove_nth {A} (j : nat) (l : list A) : list A :=
  match l, j with
  | [], _ => []
  | _ :: r, O => r
  | x :: r, S j' => x :: remove_nth j' r
  end.

Fixpoint lbls_eqb (a b : list lbl) : bool :=
  match a, b with [], [] => true | x :: a', y :: b' => lbl_eqb x y && lbls_eqb a' b' | _, _ => false end.

Definition sgn (e : Z) : Z := if Z.even e then 1 else -1.

(* entry of the boundary matrix at (face rho, simplex sigma) *)
Definition bentry (rho sigma : list lbl) (o_rho o_sigma : Z) : Z :=
  fold_left (fun acc j => if lbls_eqb (remove_nth j sigma) rho then acc + sgn (o_sigma + Z.of_nat j + o_rho) else acc)
            (seq 0 (length sigma)) 0.

(* a matrix over row / column simplices with their orientations *)
Definition bmatrix (rows cols : list (list lbl * Z)) : list (list Z) :=
  map (fun r => map (fun c => bentry (fst r) (fst c) (snd r) (snd c)) cols) rows.

(* ---------- the matrices of a simplicial complex ---------- *)
Definition orient_of (orient : list (lbl * Z)) (e : lbl) : Z :=
  match get e orient with Some z => z | None => 0 end.

(* edges with `size` members, in edge order, as (sorted members, orientation), with their ids *)
Definition simplices_of_size (s : hg) (orient : list (lbl * Z)) (size : nat) : list (lbl * (list lbl * Z)) :=
  map (fun kv => (fst kv, (sort_simplex (snd kv), orient_of orient (fst kv))))
      (filter (fun kv => Nat.eqb (length (snd kv)) size) (h_edge s)).
Definition node_simplices (s : hg) : list (lbl * (list lbl * Z)) :=
  map (fun n => (n, ([n], 0))) (keys (h_node s)).

(* boundary_matrix(S, order, orientations): rows = simplices of order-1, columns = of order *)
Definition rows_of (s : hg) (orient : list (lbl * Z)) (order : nat) :=
  match order with
  | O => simplices_of_size s orient 0
  | S O => node_simplices s
  | S o' => simplices_of_size s orient (S o')
  end.
Definition cols_of (s : hg) (orient : list (lbl * Z)) (order : nat) :=
  match order with
  | O => node_simplices s
  | S o' => simplices_of_size s orient (S (S o'))
  end.
Definition boundary_matrix (s : hg) (orient : list (lbl * Z)) (order : nat) : list (list Z) :=
  bmatrix (map snd (rows_of s orient order)) (map snd (cols_of s orient order)).

(* ---------- integer matrices ---------- *)
Definition dot (a b : list Z) : Z := fold_left Z.add (map (fun p => fst p * snd p) (combine a b)) 0.
Definition col {A} (d : A) (m : list (list A)) (j : nat) : list A := map (fun r => nth j r d) m.
Definition ncols {A} (m : list (list A)) : nat := match m with [] => O | r :: _ => length r end.
Definition transpose (nc : nat) (m : list (list Z)) : list (list Z) := map (fun j => col 0 m j) (seq 0 nc).
Definition mat_mul (nc : nat) (a b : list (list Z)) : list (list Z) :=
  map (fun r => map (fun j => dot r (col 0 b j)) (seq 0 nc)) a.
Definition mat_add (a b : list (list Z)) : list (list Z) :=
  map (fun p => map (fun q => fst q + snd q) (combine (fst p) (snd p))) (combine a b).

(* hodge_laplacian(S, order) = B_o^T B_o + B_{o+1} B_{o+1}^T, an n_o x n_o matrix *)
Definition hodge_laplacian (s : hg) (orient : list (lbl * Z)) (order : nat) : list (list Z) :=
  let n := length (cols_of s orient order) in
  let n1 := length (cols_of s orient (S order)) in
  let B := boundary_matrix s orient order in
  let B1 := boundary_matrix s orient (S order) in
  let down := mat_mul n (transpose n B) B in
  let up := mat_mul n B1 (transpose n1 B1) in
  mat_add down up.

Fixpoint mat_eqb (a b : list (list Z)) : bool :=
  match a, b with
  | [], [] => true
  | r :: a', r' :: b' => (fix eq (u v : list Z) := match u, v with [], [] => true | x :: u', y :: v' => (x =? y) && eq u' v' | _, _ => false end) r r' && mat_eqb a' b'
  | _, _ => false
  end.

(* ---------- correspondence ---------- *)
Fixpoint ids_eqb (a b : list lbl) : bool :=
  match a, b with [], [] => true | x :: a', y :: b' => lbl_eqb x y && ids_eqb a' b' | _, _ => false end.

(* (order, observed matrix, observed row ids, observed column ids) *)
Definition bcase_ok (s : hg) (orient : list (lbl * Z)) (c : nat * list (list Z) * list lbl * list lbl) : bool :=
  let '(order, m, rids, cids) := c in
  let rows := rows_of s orient order in
  let cols := cols_of s orient order in
  match rows, cols with
  | [], _ | _, [] => ids_eqb (map fst rows) rids && ids_eqb (map fst cols) cids   (* an all-zero matrix of that shape *)
  | _, _ => mat_eqb (boundary_matrix s orient order) m && ids_eqb (map fst rows) rids && ids_eqb (map fst cols) cids
  end.
Definition hcase_ok (s : hg) (orient : list (lbl * Z)) (c : nat * list (list Z)) : bool :=
  let '(order, m) := c in
  match cols_of s orient order with
  | [] => match m with [] => true | _ => false end
  | _ => mat_eqb (hodge_laplacian s orient order) m
  end.
