(* C19: what cleanup guarantees.  The guarantees are stated on the edge table and the node keys; the class
   invariant (Inv, kept by every stage) ties the membership table to them. *)
From Coq Require Import String ZArith List Bool Lia Permutation.
From XV Require Import Base.Label Base.LSet Base.ODict Base.Attr Base.Outcome Model.Hypergraph Model.Stats Model.Graph
     Proofs.HgViews Proofs.HgInv Proofs.HgInvOps Proofs.HgStep Proofs.HgKeys Proofs.HgErrors Proofs.ScTables
     Proofs.HgSpec Proofs.Build Proofs.DerivedProofs Proofs.GraphProofs Proofs.LccProofs Proofs.RelabelProofs
     Proofs.QuotCount Proofs.DecoderProofs Proofs.EditDistance.
Import ListNotations.
Open Scope Z_scope.

(* ---------- the guarantees ---------- *)
Definition NoSingletons (t : hg) : Prop := forall e ms, get e (h_edge t) = Some ms -> length ms <> 1%nat.
Definition NoMulti (t : hg) : Prop :=
  forall e f ms mf, get e (h_edge t) = Some ms -> get f (h_edge t) = Some mf -> seteq ms mf -> e = f.
Definition NoIsolates (t : hg) : Prop :=
  forall n, In n (nkeys t) -> exists e ms, get e (h_edge t) = Some ms /\ In n ms.
Definition Connected (t : hg) : Prop := forall x y, In x (nkeys t) -> In y (nkeys t) -> Reach t x y.

(* every edge of t is an edge of s with the same members *)
Definition SubTable (t s : hg) : Prop := forall e ms, get e (h_edge t) = Some ms -> get e (h_edge s) = Some ms.

Lemma NoSingletons_sub t s : SubTable t s -> NoSingletons s -> NoSingletons t.
Proof. intros S H e ms G. apply (H e ms). apply S. exact G. Qed.
Lemma NoMulti_sub t s : SubTable t s -> NoMulti s -> NoMulti t.
Proof. intros S H e f ms mf G1 G2. apply (H e f ms mf); apply S; assumption. Qed.

Lemma mems_get s e ms : get e (h_edge s) = Some ms -> mems s e = ms.
Proof. intro G. unfold mems, getl. rewrite G. reflexivity. Qed.
Lemma In_mems_get s e n : In n (mems s e) -> exists ms, get e (h_edge s) = Some ms /\ In n ms.
Proof. unfold mems, getl. destruct (get e (h_edge s)) as [ms|]; [|intros []]. intro H. exists ms. auto. Qed.

(* ---------- removing a duplicate-free list of present edges ---------- *)
Lemma remove_edges_from_table es : forall s, NoDup es -> (forall e, In e es -> In e (ekeys s)) ->
  out_of (remove_edges_from es s) = Ok /\
  nkeys (st_of (remove_edges_from es s)) = nkeys s /\
  forall e', get e' (h_edge (st_of (remove_edges_from es s))) = if mem e' es then None else get e' (h_edge s).
Proof.
  unfold remove_edges_from. induction es as [|e es IH]; intros s ND Hin.
  - cbn [loop]. rewrite st_of_ok. split; [reflexivity|]. split; [reflexivity|]. intro e'. reflexivity.
  - inversion ND as [|? ? Hn ND']; subst.
    assert (He : In e (ekeys s)) by (apply Hin; left; reflexivity).
    destruct (get e (h_edge s)) as [ms|] eqn:G; [|apply get_None in G; contradiction].
    assert (F : remove_edge1 e s = (st_of (remove_edge1 e s), Ok, O)).
    { unfold remove_edge1. rewrite G. reflexivity. }
    destruct (loop_cons_ok (fun s e => remove_edge1 e s) e es s _ O F) as [E1 E2]. rewrite E1, E2.
    destruct (remove_edge1_keys e s) as (K1 & K2 & _). cbv zeta in K1, K2.
    destruct (IH (st_of (remove_edge1 e s)) ND') as (O' & N' & T').
    { intros x Hx. apply K2. split; [intro; subst; contradiction|apply Hin; right; exact Hx]. }
    split; [exact O'|]. split; [rewrite N'; exact K1|].
    intro e'. rewrite T', remove_edge1_get. cbn [mem].
    destruct (lbl_eqb e' e); cbn [orb]; destruct (mem e' es); reflexivity.
Qed.

Lemma NoDup_keys_filter {V} (p : lbl * V -> bool) (d : odict V) : NoDup (keys d) -> NoDup (map fst (filter p d)).
Proof.
  unfold keys. induction d as [|[k v] d IH]; cbn [map filter fst]; intro ND; [constructor|].
  inversion ND as [|? ? Hn ND']; subst. destruct (p (k, v)); [|apply IH; exact ND'].
  cbn [map fst]. constructor; [|apply IH; exact ND'].
  intro Hi. apply Hn. apply in_map_iff in Hi. destruct Hi as ([k' v'] & E & Hf). cbn [fst] in E. subst k'.
  apply filter_In in Hf. destruct Hf as [Hf _]. change k with (fst (k, v')). apply in_map. exact Hf.
Qed.

(* stage 2: singleton edges *)
Theorem singles_stage s : Inv s ->
  let t := st_of (remove_edges_from (Hypergraph.singletons s) s) in
  out_of (remove_edges_from (Hypergraph.singletons s) s) = Ok /\ Inv t /\ nkeys t = nkeys s /\ SubTable t s /\ NoSingletons t.
Proof.
  intro I. cbv zeta. pose proof I as (_ & (_ & _ & _ & Ke) & _).
  destruct (remove_edges_from_table (Hypergraph.singletons s) s) as (O1 & N1 & T1).
  { unfold Hypergraph.singletons. apply NoDup_keys_filter. exact Ke. }
  { intros e He. unfold Hypergraph.singletons in He. apply in_map_iff in He. destruct He as ([e' ms] & <- & Hf).
    apply filter_In in Hf. destruct Hf as [Hf _]. unfold ekeys, keys. change e' with (fst (e', ms)). apply in_map. exact Hf. }
  split; [exact O1|]. split; [apply Inv_remove_edges_from; exact I|]. split; [exact N1|]. split.
  - intros e ms G. rewrite T1 in G. destruct (mem e (Hypergraph.singletons s)); [discriminate|exact G].
  - intros e ms G. rewrite T1 in G. destruct (mem e (Hypergraph.singletons s)) eqn:M; [discriminate|].
    intro L. apply mem_nIn in M. apply M. unfold Hypergraph.singletons. apply in_map_iff. exists (e, ms). split; [reflexivity|].
    apply filter_In. split; [apply get_In; exact G|]. cbn [snd]. apply Nat.eqb_eq. exact L.
Qed.

(* ---------- weak removal of nodes that are in no edge leaves the edge table alone ---------- *)
Lemma remove_unused_nodes_table ns : forall s, Inv s ->
  (forall n e ms, In n ns -> get e (h_edge s) = Some ms -> ~ In n ms) ->
  forall e, get e (h_edge (st_of (remove_nodes_from ns false true s))) = get e (h_edge s).
Proof.
  unfold remove_nodes_from. induction ns as [|n ns IH]; intros s I Hu e.
  - cbn [loop]. rewrite st_of_ok. reflexivity.
  - cbn [loop]. destruct (has n (h_node s)) eqn:Hh.
    + assert (Hn : In n (nkeys s)) by (apply has_In; exact Hh).
      destruct (remove_node_weak_spec n true s I Hn) as [T1 I1]. cbv zeta in T1, I1.
      assert (Eo : out_of (remove_node n false true s) = Ok).
      { unfold remove_node. unfold has in Hh. destruct (get n (h_node s)); [reflexivity|discriminate Hh]. }
      assert (Same : forall e', get e' (h_edge (st_of (remove_node n false true s))) = get e' (h_edge s)).
      { intro e'. rewrite T1. destruct (get e' (h_edge s)) as [m|] eqn:G; [|reflexivity].
        assert (M : mem n m = false) by (apply mem_nIn; apply (Hu n e' m (or_introl eq_refl) G)). rewrite M. reflexivity. }
      destruct (remove_node n false true s) as [[s1 o] w] eqn:E. unfold out_of in Eo. cbn [fst snd] in Eo. subst o.
      unfold st_of in *. cbn [fst] in *.
      specialize (IH s1 I1). destruct (loop _ ns s1) as [[s2 o2] w2]. cbn [fst] in *.
      rewrite IH; [apply Same|]. intros n' e' ms Hn' G. rewrite Same in G. apply (Hu n' e' ms (or_intror Hn') G).
    + unfold warn1. specialize (IH s I (fun n' e' ms Hn' G => Hu n' e' ms (or_intror Hn') G) e).
      destruct (loop _ ns s) as [[s2 o2] w2]. unfold st_of in *. cbn [fst] in *. exact IH.
Qed.

Lemma remove_nodes_from_out ns st re : forall s, out_of (remove_nodes_from ns st re s) = Ok.
Proof.
  intro s. unfold remove_nodes_from. apply (loop_out (fun o => o = Ok)); [reflexivity|].
  intros s' n. destruct (has n (h_node s')) eqn:Hh; [|reflexivity].
  unfold remove_node. unfold has in Hh. destruct (get n (h_node s')); [destruct st; reflexivity|discriminate Hh].
Qed.

Lemma isolates_spec s n : NoDup (nkeys s) -> (In n (Hypergraph.isolates s) <-> In n (nkeys s) /\ mships s n = []).
Proof.
  intro ND. unfold Hypergraph.isolates. rewrite in_map_iff. split.
  - intros ([n' es] & <- & Hf). apply filter_In in Hf. destruct Hf as [Hf He]. cbn [snd fst] in *.
    destruct es; [|discriminate He]. split; [unfold nkeys, keys; change n' with (fst (n', @nil lbl)); apply in_map; exact Hf|].
    unfold mships, getl. rewrite (get_In_NoDup n' [] (h_node s) ND Hf). reflexivity.
  - intros [Hn Hm]. unfold mships, getl in Hm. destruct (get n (h_node s)) as [es|] eqn:G; [|apply get_None in G; contradiction].
    subst es. exists (n, []). split; [reflexivity|]. apply filter_In. split; [apply get_In; exact G|reflexivity].
Qed.

(* stage 3: isolated nodes *)
Theorem isolates_stage s : Inv s ->
  let t := st_of (remove_nodes_from (Hypergraph.isolates s) false true s) in
  out_of (remove_nodes_from (Hypergraph.isolates s) false true s) = Ok /\ Inv t /\
  (forall e, get e (h_edge t) = get e (h_edge s)) /\
  (forall x, In x (nkeys t) <-> In x (nkeys s) /\ ~ In x (Hypergraph.isolates s)) /\ NoIsolates t.
Proof.
  intro I. cbv zeta. pose proof I as (W & (_ & _ & Kn & _) & _).
  assert (T : forall e, get e (h_edge (st_of (remove_nodes_from (Hypergraph.isolates s) false true s))) = get e (h_edge s)).
  { apply remove_unused_nodes_table; [exact I|]. intros n e ms Hn G Hi.
    apply (isolates_spec s n Kn) in Hn. destruct Hn as [_ Hm].
    assert (In e (mships s n)) by (apply W; rewrite (mems_get s e ms G); exact Hi). rewrite Hm in H. destruct H. }
  split; [apply remove_nodes_from_out|]. split; [apply Inv_remove_nodes_from; exact I|]. split; [exact T|].
  split; [intro x; apply remove_nodes_from_nkeys|].
  intros n Hn. apply remove_nodes_from_nkeys in Hn. destruct Hn as [Hn Hni].
  destruct (mships s n) as [|e es] eqn:Em.
  - exfalso. apply Hni. apply (isolates_spec s n Kn). split; assumption.
  - assert (Hi : In n (mems s e)) by (apply W; rewrite Em; left; reflexivity).
    apply In_mems_get in Hi. destruct Hi as (ms & G & Hi). exists e, ms. split; [rewrite T; exact G|exact Hi].
Qed.

(* ---------- weak removal of a list of nodes, on the edge table ---------- *)
Definition wstep (n : lbl) (o : option (list lbl)) : option (list lbl) :=
  match o with Some m => if mem n m then weak_result n true (Some m) else Some m | None => None end.

Lemma remove_nodes_weak_table ns : forall s, Inv s -> forall e,
  get e (h_edge (st_of (remove_nodes_from ns false true s))) = fold_left (fun o n => wstep n o) ns (get e (h_edge s)).
Proof.
  unfold remove_nodes_from. induction ns as [|n ns IH]; intros s I e.
  - cbn [loop fold_left]. rewrite st_of_ok. reflexivity.
  - cbn [loop fold_left]. destruct (has n (h_node s)) eqn:Hh.
    + assert (Hn : In n (nkeys s)) by (apply has_In; exact Hh).
      destruct (remove_node_weak_spec n true s I Hn) as [T1 I1]. cbv zeta in T1, I1.
      assert (Eo : out_of (remove_node n false true s) = Ok).
      { unfold remove_node. unfold has in Hh. destruct (get n (h_node s)); [reflexivity|discriminate Hh]. }
      assert (Same : get e (h_edge (st_of (remove_node n false true s))) = wstep n (get e (h_edge s))).
      { rewrite T1. unfold wstep. destruct (get e (h_edge s)); reflexivity. }
      destruct (remove_node n false true s) as [[s1 o] w] eqn:E. unfold out_of in Eo. cbn [fst snd] in Eo. subst o.
      unfold st_of in *. cbn [fst] in *.
      specialize (IH s1 I1 e). destruct (loop _ ns s1) as [[s2 o2] w2]. cbn [fst] in *.
      rewrite IH, Same. reflexivity.
    + unfold warn1. specialize (IH s I e). destruct (loop _ ns s) as [[s2 o2] w2]. unfold st_of in *. cbn [fst] in *.
      rewrite IH. f_equal. unfold wstep. destruct (get e (h_edge s)) as [m|] eqn:G; [|reflexivity].
      assert (M : mem n m = false).
      { apply mem_nIn. intro Hi. apply has_nIn in Hh. apply Hh. apply (members_are_nodes s e n I). rewrite (mems_get s e m G). exact Hi. }
      rewrite M. reflexivity.
Qed.

Lemma wfold_None ns : fold_left (fun o n => wstep n o) ns None = None.
Proof. induction ns as [|n ns IH]; [reflexivity|]. cbn [fold_left wstep]. exact IH. Qed.

Lemma wfold_untouched ns : forall m, (forall n, In n ns -> ~ In n m) -> fold_left (fun o n => wstep n o) ns (Some m) = Some m.
Proof.
  induction ns as [|n ns IH]; intros m H; [reflexivity|]. cbn [fold_left wstep].
  assert (M : mem n m = false) by (apply mem_nIn; apply H; left; reflexivity). rewrite M.
  apply IH. intros n' Hn'. apply H. right. exact Hn'.
Qed.

Lemma wfold_all_removed ns : forall m, m <> [] -> (forall x, In x m -> In x ns) -> fold_left (fun o n => wstep n o) ns (Some m) = None.
Proof.
  induction ns as [|n ns IH]; intros m Hne H.
  - destruct m as [|x m]; [congruence|]. destruct (H x (or_introl eq_refl)).
  - cbn [fold_left wstep]. destruct (mem n m) eqn:M.
    + unfold weak_result. destruct (sremove n m) as [|y r] eqn:Er; [apply wfold_None|].
      apply IH; [discriminate|]. intros x Hx. rewrite <- Er in Hx. apply In_sremove in Hx. destruct Hx as [Nx Hx].
      destruct (H x Hx) as [E|E]; [congruence|exact E].
    + apply mem_nIn in M. apply IH; [exact Hne|]. intros x Hx. destruct (H x Hx) as [E|E]; [subst; contradiction|exact E].
Qed.

(* members of one edge are mutually reachable *)
Lemma edge_members_reach s e m x y : W1 s -> get e (h_edge s) = Some m -> In x m -> In y m -> Reach s x y.
Proof.
  intros W G Hx Hy. destruct (lbl_eq_dec y x) as [->|N]; [apply Reach_refl|].
  eapply Reach_step; [apply Reach_refl|]. apply nbrs_spec. split; [exact N|]. exists e.
  split; [apply W; rewrite (mems_get s e m G); exact Hx|rewrite (mems_get s e m G); exact Hy].
Qed.

(* stage 4: the largest component *)
Theorem lcc_stage s c : Inv s -> first_longest (Hypergraph.components s) = Some c ->
  let t := st_of (largest_connected_inplace s) in
  out_of (largest_connected_inplace s) = Ok /\ Inv t /\ SubTable t s /\ Connected t /\
  (forall x, In x (nkeys t) -> In x (nkeys s)) /\ (NoIsolates s -> NoIsolates t).
Proof.
  intros I Hc. cbv zeta. pose proof I as (W & _).
  destruct (lcc_inplace_spec s c I Hc) as (v & Hv & Ec & _ & Nt).
  assert (It : Inv (st_of (largest_connected_inplace s))) by (apply Inv_lcc; exact I).
  unfold largest_connected_inplace in *. rewrite Hc in *.
  set (ns := sdiff (keys (h_node s)) c) in *.
  set (t := st_of (remove_nodes_from ns false true s)) in *.
  assert (Tb : forall e m, get e (h_edge t) = Some m <-> get e (h_edge s) = Some m /\ forall x, In x m -> Reach s v x).
  { intros e m. unfold t. rewrite (remove_nodes_weak_table ns s I e).
    destruct (get e (h_edge s)) as [m0|] eqn:G; [|rewrite wfold_None; split; [discriminate|intros [H _]; discriminate H]].
    assert (Hnodes : forall x, In x m0 -> In x (nkeys s)).
    { intros x Hx. apply (members_are_nodes s e x I). rewrite (mems_get s e m0 G). exact Hx. }
    assert (Hns : forall x, In x ns <-> In x (nkeys s) /\ ~ Reach s v x).
    { intro x. unfold ns. rewrite In_sdiff, Ec. reflexivity. }
    assert (Dec : (exists x0, In x0 m0 /\ Reach s v x0) \/ (forall x, In x m0 -> ~ Reach s v x)).
    { destruct (existsb (fun x => mem x c) m0) eqn:Ex.
      - left. apply existsb_exists in Ex. destruct Ex as (x0 & Hx0 & Mx). exists x0. split; [exact Hx0|]. apply Ec. apply mem_In. exact Mx.
      - right. intros x Hx R. apply Ec in R. apply mem_In in R.
        assert (existsb (fun x => mem x c) m0 = true) by (apply existsb_exists; exists x; auto). congruence. }
    destruct Dec as [(x0 & Hx0 & R0)|Hnone].
    - (* some member is in the component: all are, the edge is untouched *)
      assert (All : forall x, In x m0 -> Reach s v x).
      { intros x Hx. eapply Reach_trans; [exact R0|]. apply (edge_members_reach s e m0 x0 x W G Hx0 Hx). }
      rewrite wfold_untouched.
      + split; [intro H; inversion H; subst; split; [reflexivity|exact All]|intros [H _]; exact H].
      + intros n Hn Hi. apply Hns in Hn. destruct Hn as [_ Hn]. apply Hn. apply All. exact Hi.
    - (* no member is in the component *)
      destruct m0 as [|y m0'].
      + rewrite wfold_untouched by (intros n _ []). split; [intro H; inversion H; subst; split; [reflexivity|intros x []]|intros [H _]; exact H].
      + rewrite wfold_all_removed; [|discriminate|].
        * split; [discriminate|]. intros [H R]. inversion H; subst. exfalso. apply (Hnone y (or_introl eq_refl)). apply R. left. reflexivity.
        * intros x Hx. apply Hns. split; [apply Hnodes; exact Hx|apply Hnone; exact Hx]. }
  split; [apply remove_nodes_from_out|]. split; [exact It|].
  split; [intros e m G; apply Tb in G; apply G|].
  pose proof It as (Wt & _).
  assert (Rt : forall x, Reach s v x -> Reach t v x).
  { intros x R. induction R as [|b c0 R IH Hc0]; [apply Reach_refl|].
    eapply Reach_step; [exact IH|]. apply nbrs_spec in Hc0. destruct Hc0 as (N & e & He & Hce).
    apply nbrs_spec. split; [exact N|]. exists e.
    apply W in He. apply In_mems_get in He. destruct He as (m & G & Hb).
    assert (Gt : get e (h_edge t) = Some m).
    { apply Tb. split; [exact G|]. intros x Hx. eapply Reach_trans; [exact R|]. apply (edge_members_reach s e m b x W G Hb Hx). }
    rewrite (mems_get s e m G) in Hce.
    split; [apply Wt; rewrite (mems_get t e m Gt); exact Hb|rewrite (mems_get t e m Gt); exact Hce]. }
  split.
  { intros x y Hx Hy. apply Nt in Hx. apply Nt in Hy. eapply Reach_trans; [apply (Reach_sym t v x Wt); apply Rt; exact Hx|apply Rt; exact Hy]. }
  split.
  { intros x Hx. apply Nt in Hx. apply (Reach_node s v x W Hv Hx). }
  intros NI n Hn. apply Nt in Hn. destruct (NI n (Reach_node s v n W Hv Hn)) as (e & m & G & Hi).
  exists e, m. split; [|exact Hi]. apply Tb. split; [exact G|]. intros x Hx. eapply Reach_trans; [exact Hn|].
  apply (edge_members_reach s e m n x W G Hi Hx).
Qed.

(* ---------- stage 5: integer relabelling transports every guarantee ---------- *)
Section Relabel.
  Variable la : string.
  Variable s : hg.
  Hypothesis I : Inv s.
  Let t := st_of (relabel_inplace la s).
  Let nmap := fun n => LInt (Hypergraph.index_of n (nkeys s) 0).
  Let emap := fun e => LInt (Hypergraph.index_of e (ekeys s) 0).

  Lemma relabel_facts :
    Inv t /\ (forall x, In x (nkeys t) <-> exists n, In n (nkeys s) /\ x = nmap n) /\
    (forall x, In x (ekeys t) <-> exists e, In e (ekeys s) /\ x = emap e) /\
    (forall e, In e (ekeys s) -> seteq (mems t (emap e)) (map nmap (mems s e))) /\
    (forall x y, In x (nkeys s) -> In y (nkeys s) -> nmap x = nmap y -> x = y) /\
    (forall x y, In x (ekeys s) -> In y (ekeys s) -> emap x = emap y -> x = y).
  Proof.
    destruct (relabel_spec la s I) as (_ & It & Kn & Ke & M & In_ & Ie & _). cbv zeta in *.
    pose proof I as (_ & (_ & _ & NDn & NDe) & _).
    split; [exact It|]. split.
    { intro x. fold t in Kn. rewrite Kn, <- (map_index_positions (nkeys s) NDn), in_map_iff.
      split; intros (n & A & B); exists n; [split; [exact B|symmetry; exact A]|split; [symmetry; apply B|apply A]]. }
    split.
    { intro x. fold t in Ke. rewrite Ke, <- (map_index_positions (ekeys s) NDe), in_map_iff.
      split; intros (n & A & B); exists n; [split; [exact B|symmetry; exact A]|split; [symmetry; apply B|apply A]]. }
    split; [exact M|]. split; [exact In_|exact Ie].
  Qed.

  Lemma map_nmap_NoDup e : NoDup (map nmap (mems s e)).
  Proof.
    destruct relabel_facts as (_ & _ & _ & _ & Inj & _). pose proof I as (_ & _ & (_ & Vm) & _).
    assert (G : forall l, NoDup l -> (forall x, In x l -> In x (nkeys s)) -> NoDup (map nmap l)).
    { induction l as [|a l IH]; intros ND Hl; [constructor|]. inversion ND as [|? ? Ha ND']; subst. cbn [map]. constructor.
      - intro Hi. apply in_map_iff in Hi. destruct Hi as (b & E & Hb). apply Ha.
        rewrite (Inj a b (Hl a (or_introl eq_refl)) (Hl b (or_intror Hb)) (eq_sym E)). exact Hb.
      - apply IH; [exact ND'|intros x Hx; apply Hl; right; exact Hx]. }
    apply G; [apply Vm|]. intros x Hx. apply (members_are_nodes s e x I Hx).
  Qed.

  Lemma relabel_edge_back e' ms' : get e' (h_edge t) = Some ms' ->
    exists e, In e (ekeys s) /\ e' = emap e /\ seteq ms' (map nmap (mems s e)) /\ length ms' = length (mems s e).
  Proof.
    intro G. destruct relabel_facts as (It & _ & Ke & M & _ & _).
    assert (He' : In e' (ekeys t)) by (apply (get_Some_In e' (h_edge t) ms' G)).
    apply Ke in He'. destruct He' as (e & He & ->). exists e. split; [exact He|]. split; [reflexivity|].
    pose proof (M e He) as Sq. rewrite (mems_get t (emap e) ms' G) in Sq. split; [exact Sq|].
    assert (Nms : NoDup ms') by (rewrite <- (mems_get t (emap e) ms' G); destruct It as (_ & _ & (_ & Vm) & _); apply Vm).
    rewrite <- (map_length nmap (mems s e)).
    apply Nat.le_antisymm; apply NoDup_incl_length; try assumption; try apply map_nmap_NoDup; intros a Ha; apply Sq; exact Ha.
  Qed.

  Lemma relabel_NoSingletons : NoSingletons s -> NoSingletons t.
  Proof.
    intros H e' ms' G. destruct (relabel_edge_back e' ms' G) as (e & He & _ & _ & L). rewrite L.
    destruct (get e (h_edge s)) as [m|] eqn:Ge; [|apply get_None in Ge; contradiction].
    rewrite (mems_get s e m Ge). apply (H e m Ge).
  Qed.

  Lemma relabel_NoMulti : NoMulti s -> NoMulti t.
  Proof.
    intros H e' f' ms' mf' G1 G2 Sq. destruct relabel_facts as (_ & _ & _ & _ & Inj & _).
    destruct (relabel_edge_back e' ms' G1) as (e & He & -> & S1 & _).
    destruct (relabel_edge_back f' mf' G2) as (f & Hf & -> & S2 & _).
    destruct (get e (h_edge s)) as [m|] eqn:Ge; [|apply get_None in Ge; contradiction].
    destruct (get f (h_edge s)) as [m2|] eqn:Gf; [|apply get_None in Gf; contradiction].
    rewrite (H e f m m2 Ge Gf); [reflexivity|].
    assert (Sm : seteq (map nmap m) (map nmap m2)).
    { intro a. rewrite <- (mems_get s e m Ge), <- (mems_get s f m2 Gf), <- (S1 a), <- (S2 a). apply Sq. }
    assert (Nod : forall x ee mm, get ee (h_edge s) = Some mm -> In x mm -> In x (nkeys s)).
    { intros x ee mm Gm Hx. apply (members_are_nodes s ee x I). rewrite (mems_get s ee mm Gm). exact Hx. }
    intro a. split; intro Ha.
    - assert (Hm : In (nmap a) (map nmap m2)) by (apply Sm; apply in_map; exact Ha).
      apply in_map_iff in Hm. destruct Hm as (b & E & Hb). rewrite <- (Inj b a (Nod b f m2 Gf Hb) (Nod a e m Ge Ha) E). exact Hb.
    - assert (Hm : In (nmap a) (map nmap m)) by (apply Sm; apply in_map; exact Ha).
      apply in_map_iff in Hm. destruct Hm as (b & E & Hb). rewrite <- (Inj b a (Nod b e m Ge Hb) (Nod a f m2 Gf Ha) E). exact Hb.
  Qed.

  Lemma relabel_NoIsolates : NoIsolates s -> NoIsolates t.
  Proof.
    intros H x Hx. destruct relabel_facts as (_ & Kn & Ke & M & _ & _).
    apply Kn in Hx. destruct Hx as (n & Hn & ->). destruct (H n Hn) as (e & m & G & Hi).
    assert (He : In e (ekeys s)) by (apply (get_Some_In e (h_edge s) m G)).
    assert (Hm : In (nmap n) (mems t (emap e))) by (apply (M e He); apply in_map; rewrite (mems_get s e m G); exact Hi).
    apply In_mems_get in Hm. destruct Hm as (ms' & G' & Hi'). exists (emap e), ms'. auto.
  Qed.

  Lemma relabel_Connected : Connected s -> Connected t.
  Proof.
    intros H x' y' Hx' Hy'. destruct relabel_facts as (It & Kn & Ke & M & Inj & _). pose proof I as (W & _). pose proof It as (Wt & _).
    apply Kn in Hx'. destruct Hx' as (x & Hx & ->). apply Kn in Hy'. destruct Hy' as (y & Hy & ->).
    assert (R : forall z, Reach s x z -> Reach t (nmap x) (nmap z)).
    { intros z Rz. induction Rz as [|b c Rb IH Hc]; [apply Reach_refl|].
      eapply Reach_step; [exact IH|]. pose proof (Reach_node s x b W Hx Rb) as Hb.
      pose proof (nbrs_node s b c W Hc) as Hcn.
      apply nbrs_spec in Hc. destruct Hc as (N & e & He & Hce).
      assert (Hbe : In b (mems s e)) by (apply W; exact He).
      assert (Hek : In e (ekeys s)) by (apply (getl_nonempty_key e (h_edge s) b Hbe)).
      apply nbrs_spec. split; [intro E; apply N; apply (Inj c b Hcn Hb E)|].
      exists (emap e). split; [apply Wt|]; apply (M e Hek); apply in_map; assumption. }
    apply R. apply H; assumption.
  Qed.
End Relabel.

Lemma bind_out_ok r k : out_of (bind r k) = Ok ->
  out_of r = Ok /\ out_of (k (st_of r)) = Ok /\ st_of (bind r k) = st_of (k (st_of r)).
Proof.
  destruct r as [[s o] w]. unfold out_of, st_of, bind. cbn [fst snd]. destruct o.
  - destruct (k s) as [[s' o'] w']. cbn [fst snd]. intro H. auto.
  - cbn [fst snd]. discriminate.
Qed.

(* ---------- stage 1: merging duplicate edges (rename = first, merge rule = first) ---------- *)
Lemma ins_sorted_In x : forall l r, ins_sorted x l = Some r -> forall y, In y r <-> y = x \/ In y l.
Proof.
  induction l as [|a l IH]; intros r H y; cbn [ins_sorted] in H.
  - inversion H; subst. cbn [In]. intuition.
  - destruct (lbl_ltb x a) as [[|]|]; [inversion H; subst; cbn [In]; intuition| |discriminate].
    destruct (ins_sorted x l) as [r'|] eqn:E; [|discriminate]. inversion H; subst. cbn [In]. rewrite (IH r' eq_refl y). intuition.
Qed.

Lemma sort_aux_In : forall l r, sort_lbls_aux l = Some r -> forall y, In y r <-> In y l.
Proof.
  induction l as [|a l IH]; intros r H y; cbn [sort_lbls_aux] in H.
  - inversion H; subst. reflexivity.
  - destruct (sort_lbls_aux l) as [r'|] eqn:E; [|discriminate]. rewrite (ins_sorted_In a r' r H y), (IH r' eq_refl y). cbn [In]. intuition.
Qed.

Lemma sort_lbls_In l r : sort_lbls l = Some r -> forall y, In y r <-> In y l.
Proof.
  unfold sort_lbls. destruct l as [|a [|b l]]; intros H y.
  - inversion H; subst. reflexivity.
  - inversion H; subst. reflexivity.
  - destruct (all_comparable (a :: b :: l)); [|discriminate]. apply (sort_aux_In _ r H y).
Qed.

Definition multi (g : list lbl * list lbl) : bool := match snd g with _ :: _ :: _ => true | _ => false end.
Definition firstid (ids : list lbl) : lbl := match sort_lbls ids with Some (f :: _) => f | _ => LNone end.

Lemma group_add_cases ms idx g :
  (exists g1 m ids g2, g = g1 ++ (m, ids) :: g2 /\ seteqb m ms = true /\
                       (forall p, In p g1 -> seteqb (fst p) ms = false) /\
                       group_add ms idx g = g1 ++ (m, ids ++ [idx]) :: g2) \/
  ((forall p, In p g -> seteqb (fst p) ms = false) /\ group_add ms idx g = g ++ [(ms, [idx])]).
Proof.
  induction g as [|[m ids] g IH]; cbn [group_add].
  - right. split; [intros p []|reflexivity].
  - destruct (seteqb m ms) eqn:E.
    + left. exists [], m, ids, g. split; [reflexivity|]. split; [exact E|]. split; [intros p []|reflexivity].
    + destruct IH as [(g1 & m' & ids' & g2 & E1 & E2 & E3 & E4)|[E3 E4]].
      * left. exists ((m, ids) :: g1), m', ids', g2. split; [rewrite E1; reflexivity|]. split; [exact E2|].
        split; [intros p [<-|Hp]; [exact E|apply E3; exact Hp]|]. rewrite E4. reflexivity.
      * right. split; [intros p [<-|Hp]; [exact E|apply E3; exact Hp]|]. rewrite E4. reflexivity.
Qed.

Lemma NoDup_app_mid_insert {A} (a b c : list A) x : NoDup (a ++ b ++ c) -> ~ In x (a ++ b ++ c) -> NoDup (a ++ (b ++ [x]) ++ c).
Proof.
  intros ND Hn. apply (Permutation_NoDup (l := x :: a ++ b ++ c)); [|constructor; assumption].
  rewrite <- app_assoc. cbn [app].
  apply Permutation_trans with (a ++ x :: b ++ c); [apply Permutation_middle|].
  apply Permutation_app_head. apply Permutation_middle.
Qed.

Notation NoDupS' := (NoDupR (list lbl) seteqb).
Notation memS' := (memR (list lbl) seteqb).

Record GInv (g : list (list lbl * list lbl)) (done : list (lbl * list lbl)) : Prop := {
  g_sound : forall gm ids e, In (gm, ids) g -> In e ids -> exists m, In (e, m) done /\ seteq gm m;
  g_complete : forall e m, In (e, m) done -> exists gm ids, In (gm, ids) g /\ In e ids /\ seteq gm m;
  g_keys : NoDupS' (map fst g);
  g_ids : NoDup (flat_map snd g) }.

Lemma NoDupS_app_one l x : NoDupS' l -> memS' x l = false -> NoDupS' (l ++ [x]).
Proof.
  induction l as [|a l IH]; intros ND M; cbn [app NoDupR]; [split; [reflexivity|exact I]|].
  destruct ND as [Ha ND]. cbn [memR existsb] in M. apply orb_false_iff in M. destruct M as [M1 M2].
  split; [|apply IH; assumption]. rewrite memR_app, Ha. cbn [memR existsb orb]. rewrite seteqb_sym, M1. reflexivity.
Qed.

Lemma GInv_step g done ms idx : GInv g done -> ~ In idx (map fst done) -> GInv (group_add ms idx g) (done ++ [(idx, ms)]).
Proof.
  intros [Gs Gc Gk Gi] Hn.
  assert (Hfresh : ~ In idx (flat_map snd g)).
  { intro Hi. apply in_flat_map in Hi. destruct Hi as ([gm ids] & Hg & Hi). destruct (Gs gm ids idx Hg Hi) as (m & Hm & _).
    apply Hn. change idx with (fst (idx, m)). apply in_map. exact Hm. }
  destruct (group_add_cases ms idx g) as [(g1 & m & ids & g2 & E1 & E2 & E3 & E4)|[E3 E4]]; rewrite E4.
  - subst g. apply seteqb_spec in E2.
    assert (Hmid : In (m, ids) (g1 ++ (m, ids) :: g2)) by (apply in_or_app; right; left; reflexivity).
    constructor.
    + intros gm ids' e Hg He. apply in_app_iff in Hg. destruct Hg as [Hg|[Hg|Hg]].
      * destruct (Gs gm ids' e (in_or_app _ _ _ (or_introl Hg)) He) as (m' & Hm' & Sq). exists m'. split; [apply in_or_app; left; exact Hm'|exact Sq].
      * inversion Hg; subst. apply in_app_iff in He. destruct He as [He|[<-|[]]].
        -- destruct (Gs gm ids e Hmid He) as (m' & Hm' & Sq). exists m'. split; [apply in_or_app; left; exact Hm'|exact Sq].
        -- exists ms. split; [apply in_or_app; right; left; reflexivity|exact E2].
      * assert (Hg' : In (gm, ids') (g1 ++ (m, ids) :: g2)) by (apply in_or_app; right; right; exact Hg).
        destruct (Gs gm ids' e Hg' He) as (m' & Hm' & Sq). exists m'. split; [apply in_or_app; left; exact Hm'|exact Sq].
    + intros e m' Hd. apply in_app_iff in Hd. destruct Hd as [Hd|[Hd|[]]].
      * destruct (Gc e m' Hd) as (gm & ids' & Hg & He & Sq). apply in_app_iff in Hg. destruct Hg as [Hg|[Hg|Hg]].
        -- exists gm, ids'. split; [apply in_or_app; left; exact Hg|auto].
        -- inversion Hg; subst. exists gm, (ids' ++ [idx]). split; [apply in_or_app; right; left; reflexivity|]. split; [apply in_or_app; left; exact He|exact Sq].
        -- exists gm, ids'. split; [apply in_or_app; right; right; exact Hg|auto].
      * inversion Hd; subst. exists m, (ids ++ [e]). split; [apply in_or_app; right; left; reflexivity|]. split; [apply in_or_app; right; left; reflexivity|exact E2].
    + rewrite map_app in *. cbn [map fst] in *. exact Gk.
    + rewrite flat_map_app in *. cbn [flat_map snd] in *.
      (* insert idx after ids *)
      apply NoDup_app_mid_insert; [exact Gi|exact Hfresh].
  - constructor.
    + intros gm ids e Hg He. apply in_app_iff in Hg. destruct Hg as [Hg|[Hg|[]]].
      * destruct (Gs gm ids e Hg He) as (m' & Hm' & Sq). exists m'. split; [apply in_or_app; left; exact Hm'|exact Sq].
      * inversion Hg; subst. destruct He as [<-|[]]. exists gm. split; [apply in_or_app; right; left; reflexivity|intro; tauto].
    + intros e m' Hd. apply in_app_iff in Hd. destruct Hd as [Hd|[Hd|[]]].
      * destruct (Gc e m' Hd) as (gm & ids' & Hg & He & Sq). exists gm, ids'. split; [apply in_or_app; left; exact Hg|auto].
      * inversion Hd; subst. exists m', [e]. split; [apply in_or_app; right; left; reflexivity|]. split; [left; reflexivity|intro; tauto].
    + rewrite map_app. cbn [map fst]. apply NoDupS_app_one; [exact Gk|].
      apply memR_false. intros y Hy. apply in_map_iff in Hy. destruct Hy as (p & <- & Hp). rewrite seteqb_sym. apply E3. exact Hp.
    + rewrite flat_map_app. cbn [flat_map snd app]. apply NoDup_app_intro; [exact Gi|constructor; [intros []|constructor]|].
      intros x Hx [<-|[]]. apply Hfresh. exact Hx.
Qed.

Lemma GInv_nil : GInv [] [].
Proof.
  constructor.
  - intros gm ids e [].
  - intros e m [].
  - exact I.
  - constructor.
Qed.

Lemma groups_GInv s : NoDup (ekeys s) -> GInv (groups s) (h_edge s).
Proof.
  intro ND. unfold groups.
  assert (G : forall l done g, GInv g done -> NoDup (map fst (done ++ l)) ->
              GInv (fold_left (fun g kv => group_add (snd kv) (fst kv) g) l g) (done ++ l)).
  { induction l as [|[idx ms] l IH]; intros done g Hg Hnd; cbn [fold_left]; [rewrite app_nil_r; exact Hg|].
    replace (done ++ (idx, ms) :: l) with ((done ++ [(idx, ms)]) ++ l) by (rewrite <- app_assoc; reflexivity).
    apply IH.
    - cbn [fst snd]. apply GInv_step; [exact Hg|]. rewrite map_app in Hnd. cbn [map fst] in Hnd.
      apply NoDup_remove_2 in Hnd. intro Hi. apply Hnd. apply in_or_app. left. exact Hi.
    - rewrite <- app_assoc. exact Hnd. }
  apply (G (h_edge s) [] [] GInv_nil). exact ND.
Qed.

Definition merged_item (s : hg) (p : list lbl * list lbl) : list lbl * lbl * attrs :=
  (fst p, firstid (snd p), geta (firstid (snd p)) (h_eattr s)).

Lemma merge_collect_first g : forall s d ne r, merge_collect RnFirst MrFirst None g s d ne = inl r ->
  r = (s, d ++ flat_map snd (filter multi g), ne ++ map (merged_item s) (filter multi g)) /\
  (forall p, In p (filter multi g) -> exists f rest, sort_lbls (snd p) = Some (f :: rest)).
Proof.
  induction g as [|[ms ids] g IH]; intros s d ne r H; cbn [merge_collect] in H.
  - inversion H; subst. cbn [filter flat_map map]. rewrite !app_nil_r. split; [reflexivity|intros p []].
  - destruct ids as [|a [|b ids']].
    + cbn [filter multi snd]. apply IH. exact H.
    + cbn [filter multi snd]. apply IH. exact H.
    + cbn [filter multi snd flat_map map]. unfold merged_edge in H.
      destruct (sort_lbls (a :: b :: ids')) as [[|f rest]|] eqn:Es; try discriminate H.
      destruct (IH s (d ++ a :: b :: ids') (ne ++ [(ms, f, geta f (h_eattr s))]) r H) as [E P].
      split.
      * rewrite E. unfold merged_item at 2. cbn [fst snd]. unfold firstid. rewrite Es. rewrite <- !app_assoc. reflexivity.
      * intros p [<-|Hp]; [cbn [snd]; exists f, rest; exact Es|apply P; exact Hp].
Qed.

Lemma NoDupS_In_eq (g : list (list lbl * list lbl)) p q :
  NoDupS' (map fst g) -> In p g -> In q g -> seteq (fst p) (fst q) -> p = q.
Proof.
  induction g as [|a g IH]; intros ND Hp Hq Sq; [destruct Hp|]. cbn [map NoDupR] in ND. destruct ND as [Ha ND].
  assert (K : forall r, In r g -> seteqb (fst a) (fst r) = false).
  { intros r Hr. apply (proj1 (memR_false (list lbl) seteqb (fst a) (map fst g)) Ha). apply in_map. exact Hr. }
  destruct Hp as [<-|Hp]; destruct Hq as [<-|Hq].
  - reflexivity.
  - apply seteqb_spec in Sq. rewrite (K q Hq) in Sq. discriminate.
  - assert (Sq' : seteq (fst a) (fst p)) by (intro x; symmetry; apply Sq). apply seteqb_spec in Sq'. rewrite (K p Hp) in Sq'. discriminate.
  - apply IH; assumption.
Qed.

Lemma NoDup_app_l' {A} (a b : list A) : NoDup (a ++ b) -> NoDup a.
Proof. induction a as [|x a IH]; cbn [app]; intro H; [constructor|]. inversion H as [|? ? Hx H']; subst. constructor; [intro Hi; apply Hx; apply in_or_app; left; exact Hi|apply IH; exact H']. Qed.
Lemma NoDup_app_r' {A} (a b : list A) : NoDup (a ++ b) -> NoDup b.
Proof. induction a as [|x a IH]; cbn [app]; intro H; [exact H|]. inversion H; subst. apply IH. assumption. Qed.

Lemma NoDup_app_disjoint {A} (a b : list A) x : NoDup (a ++ b) -> In x a -> In x b -> False.
Proof.
  induction a as [|y a IH]; cbn [app]; intros ND H1 H2; [destruct H1|]. inversion ND as [|? ? Hy ND']; subst.
  destruct H1 as [->|H1]; [apply Hy; apply in_or_app; right; exact H2|apply IH; assumption].
Qed.

Lemma NoDup_flat_map_filter {A B} (f : A -> list B) (p : A -> bool) l : NoDup (flat_map f l) -> NoDup (flat_map f (filter p l)).
Proof.
  induction l as [|a l IH]; cbn [flat_map filter]; intro ND; [constructor|].
  pose proof (NoDup_app_r' _ _ ND) as ND2.
  destruct (p a); [|apply IH; exact ND2]. cbn [flat_map].
  apply NoDup_app_intro; [apply (NoDup_app_l' _ _ ND)|apply IH; exact ND2|].
  intros x H1 H2. apply in_flat_map in H2. destruct H2 as (b & Hb & Hx). apply filter_In in Hb. destruct Hb as [Hb _].
  assert (Hx2 : In x (flat_map f l)) by (apply in_flat_map; exists b; auto).
  apply (NoDup_app_disjoint _ _ x ND H1 Hx2).
Qed.

Lemma firstid_In ids f rest : sort_lbls ids = Some (f :: rest) -> firstid ids = f /\ In f ids.
Proof.
  intro E. unfold firstid. rewrite E. split; [reflexivity|]. apply (sort_lbls_In ids (f :: rest) E f). left. reflexivity.
Qed.

Lemma NoDup_firstids (M : list (list lbl * list lbl)) : NoDup (flat_map snd M) ->
  (forall p, In p M -> In (firstid (snd p)) (snd p)) -> NoDup (map (fun p => firstid (snd p)) M).
Proof.
  induction M as [|p M IH]; intros ND H; cbn [map]; [constructor|]. cbn [flat_map] in ND. constructor.
  - intro Hi. apply in_map_iff in Hi. destruct Hi as (q & E & Hq).
    assert (H1 : In (firstid (snd p)) (snd p)) by (apply H; left; reflexivity).
    assert (H2 : In (firstid (snd p)) (flat_map snd M)).
    { apply in_flat_map. exists q. split; [exact Hq|]. rewrite <- E. apply H. right. exact Hq. }
    apply (NoDup_app_disjoint _ _ _ ND H1 H2).
  - apply IH; [apply (NoDup_app_r' _ _ ND)|intros q Hq; apply H; right; exact Hq].
Qed.

Theorem merge_stage s : Inv s -> NoNone s ->
  out_of (merge_duplicate_edges RnFirst MrFirst None s) = Ok ->
  let t := st_of (merge_duplicate_edges RnFirst MrFirst None s) in
  Inv t /\ NoMulti t /\
  (* only merging: every remaining edge is an edge of s under its own id with the same member set, every member
     set of s is still present, and the nodes are unchanged *)
  (forall x mx, get x (h_edge t) = Some mx -> exists m0, get x (h_edge s) = Some m0 /\ seteq mx m0) /\
  (forall e m0, get e (h_edge s) = Some m0 -> exists x mx, get x (h_edge t) = Some mx /\ seteq mx m0) /\
  (forall n, In n (nkeys t) <-> In n (nkeys s)).
Proof.
  intros I [NNn NNe] Hok. cbv zeta. split; [apply Inv_merge; exact I|].
  pose proof I as (W & (_ & _ & Kn & Ke) & _).
  pose proof (groups_GInv s Ke) as [Gs Gc Gk Gi].
  unfold merge_duplicate_edges in *.
  destruct (merge_collect RnFirst MrFirst None (groups s) s [] []) as [[[s1 dups] ne]|[s' e]] eqn:Emc; [|discriminate Hok].
  destruct (merge_collect_first (groups s) s [] [] _ Emc) as [E Srt]. cbn [app] in E.
  set (M := filter multi (groups s)) in *. inversion E; subst s1 dups ne. clear E.
  assert (InM : forall p, In p M -> In p (groups s) /\ multi p = true) by (intros p Hp; apply filter_In in Hp; exact Hp).
  assert (Fid : forall p, In p M -> In (firstid (snd p)) (snd p)).
  { intros p Hp. destruct (Srt p Hp) as (f & rest & Es). destruct (firstid_In (snd p) f rest Es) as [-> Hf]. exact Hf. }
  assert (NDd : NoDup (flat_map snd M)) by (apply NoDup_flat_map_filter; exact Gi).
  assert (Dk : forall x, In x (flat_map snd M) -> In x (ekeys s)).
  { intros x Hx. apply in_flat_map in Hx. destruct Hx as ([gm ids] & Hp & Hx). destruct (InM _ Hp) as [Hg _].
    destruct (Gs gm ids x Hg Hx) as (m & Hm & _). unfold ekeys, keys. change x with (fst (x, m)). apply in_map. exact Hm. }
  destruct (remove_edges_from_table (flat_map snd M) s NDd Dk) as (O2 & N2 & T2).
  pose proof (Inv_remove_edges_from (flat_map snd M) s I) as I2.
  set (r2 := remove_edges_from (flat_map snd M) s) in *. set (s2 := st_of r2) in *.
  set (ne := map (merged_item s) M) in *.
  assert (Er : (match ne with [] => ok s2 | _ :: _ => add_edges_from (EB4 ne) [] s2 end) = add_edges_from (EB4 ne) [] s2).
  { destruct ne; reflexivity. }
  assert (Fr : fresh_items s2 ne).
  { split.
    - unfold ne. rewrite map_map. cbn [item_id merged_item fst snd]. apply NoDup_firstids; assumption.
    - intros it Hit. unfold ne in Hit. apply in_map_iff in Hit. destruct Hit as ([gm ids] & <- & Hp).
      cbn [item_id item_ms merged_item fst snd]. pose proof (Fid _ Hp) as Hf. cbn [snd] in Hf. destruct (InM _ Hp) as [Hg _].
      assert (Hd : In (firstid ids) (flat_map snd M)) by (apply in_flat_map; exists (gm, ids); auto).
      split; [|split].
      + apply get_None. rewrite T2. apply mem_In in Hd. rewrite Hd. reflexivity.
      + apply is_none_false. intro E. apply NNe. rewrite <- E. apply Dk. exact Hd.
      + apply no_none_members. intro Hn. destruct (Gs gm ids (firstid ids) Hg Hf) as (m & Hm & Sq).
        apply NNn. apply (members_are_nodes s (firstid ids) LNone I).
        rewrite (mems_get s (firstid ids) m (get_In_NoDup _ _ _ Ke Hm)). apply Sq. exact Hn. }
  destruct (build_edges_effect ne [] s2 I2 Fr) as (O3 & _ & I3 & E3 & Items & Old & NK3 & _).
  destruct (bind_ok_st r2 (fun s2 => bind (match ne with [] => ok s2 | _ :: _ => add_edges_from (EB4 ne) [] s2 end) (fun s3 => ok s3)) O2) as [Est _].
  rewrite Est. fold s2. rewrite Er.
  destruct (bind_ok_st (add_edges_from (EB4 ne) [] s2) (fun s3 => ok s3) O3) as [Est2 _]. rewrite Est2, st_of_ok.
  set (t := st_of (add_edges_from (EB4 ne) [] s2)) in *.
  (* classification of the edges of t *)
  assert (Cl : forall x mx, get x (h_edge t) = Some mx ->
            exists gm ids, In (gm, ids) (groups s) /\ seteq mx gm /\
                           ((multi (gm, ids) = true /\ x = firstid ids) \/ (multi (gm, ids) = false /\ In x ids))).
  { intros x mx G. assert (Hx : In x (ekeys t)) by (apply (get_Some_In x (h_edge t) mx G)).
    rewrite E3 in Hx. apply in_app_iff in Hx. destruct Hx as [Hx|Hx].
    - destruct (Old x Hx) as [Go _]. rewrite G in Go. symmetry in Go. rewrite T2 in Go.
      destruct (mem x (flat_map snd M)) eqn:Md; [discriminate|]. apply mem_nIn in Md.
      destruct (Gc x mx (get_In _ _ _ Go)) as (gm & ids & Hg & Hi & Sq). exists gm, ids. split; [exact Hg|].
      split; [intro a; symmetry; apply Sq|]. right. split; [|exact Hi].
      destruct (multi (gm, ids)) eqn:Mu; [|reflexivity]. exfalso. apply Md. apply in_flat_map. exists (gm, ids). split; [|exact Hi].
      apply filter_In. auto.
    - apply in_map_iff in Hx. destruct Hx as (it & <- & Hit). destruct (Items it Hit) as [(Mm & GM & SM & _) _].
      rewrite G in GM. inversion GM; subst Mm. unfold ne in Hit. apply in_map_iff in Hit. destruct Hit as ([gm ids] & <- & Hp).
      cbn [item_id item_ms merged_item fst snd] in *. destruct (InM _ Hp) as [Hg Mu]. exists gm, ids. split; [exact Hg|]. split; [exact SM|].
      left. split; [exact Mu|reflexivity]. }
  split.
  { intros x y mx my Gx Gy Sq.
    destruct (Cl x mx Gx) as (gm1 & ids1 & Hg1 & S1 & C1). destruct (Cl y my Gy) as (gm2 & ids2 & Hg2 & S2 & C2).
    assert (Eg : (gm1, ids1) = (gm2, ids2)).
    { apply (NoDupS_In_eq (groups s)); [exact Gk|exact Hg1|exact Hg2|]. cbn [fst]. intro a. rewrite <- (S1 a), <- (S2 a). apply Sq. }
    inversion Eg; subst gm2 ids2.
    destruct C1 as [[Mu1 ->]|[Mu1 Hx]]; destruct C2 as [[Mu2 ->]|[Mu2 Hy]]; try congruence.
    unfold multi in Mu1. cbn [snd] in Mu1. destruct ids1 as [|a [|b r]]; [destruct Hx| |discriminate Mu1].
    destruct Hx as [<-|[]]. destruct Hy as [<-|[]]. reflexivity. }
  split.
  { intros x mx Gx. destruct (Cl x mx Gx) as (gm & ids & Hg & S1 & C1).
    assert (Hx : In x ids).
    { destruct C1 as [[Mu ->]|[_ Hx]]; [|exact Hx]. apply (Fid (gm, ids)). apply filter_In. auto. }
    destruct (Gs gm ids x Hg Hx) as (m0 & Hm0 & Sq). exists m0. split; [apply (get_In_NoDup _ _ _ Ke Hm0)|].
    intro a. rewrite (S1 a). apply Sq. }
  split.
  { intros e m0 Ge. destruct (Gc e m0 (get_In _ _ _ Ge)) as (gm & ids & Hg & Hi & Sq).
    destruct (multi (gm, ids)) eqn:Mu.
    - assert (Hp : In (gm, ids) M) by (apply filter_In; auto).
      destruct (Items (merged_item s (gm, ids))) as [(Mm & GM & SM & _) _].
      { unfold ne. apply in_map. exact Hp. }
      cbn [item_id item_ms merged_item fst snd] in GM, SM. exists (firstid ids), Mm. split; [exact GM|].
      intro a. rewrite (SM a). apply Sq.
    - assert (Hnd : ~ In e (flat_map snd M)).
      { intro Hd. apply in_flat_map in Hd. destruct Hd as ([gm' ids'] & Hp' & He'). destruct (InM _ Hp') as [Hg' Mu'].
        destruct (Gs gm' ids' e Hg' He') as (m1 & Hm1 & S1). 
        assert (m1 = m0) by (pose proof (get_In_NoDup _ _ _ Ke Hm1); congruence). subst m1.
        assert (Eg : (gm', ids') = (gm, ids)).
        { apply (NoDupS_In_eq (groups s)); [exact Gk|exact Hg'|exact Hg|]. cbn [fst]. intro a. rewrite (S1 a). symmetry. apply Sq. }
        inversion Eg; subst. congruence. }
      assert (G2 : get e (h_edge s2) = Some m0).
      { rewrite T2. apply mem_nIn in Hnd. rewrite Hnd. exact Ge. }
      destruct (Old e (get_Some_In e (h_edge s2) m0 G2)) as [Go _]. exists e, m0. split; [rewrite Go; exact G2|intro; tauto]. }
  intro n. rewrite (NK3 n). rewrite N2. split; [|intro H; left; exact H].
  intros [H|(it & Hit & Hm)]; [exact H|]. unfold ne in Hit. apply in_map_iff in Hit. destruct Hit as ([gm ids] & <- & Hp).
  cbn [item_ms merged_item fst snd] in Hm. destruct (InM _ Hp) as [Hg _]. pose proof (Fid _ Hp) as Hf. cbn [snd] in Hf.
  destruct (Gs gm ids (firstid ids) Hg Hf) as (m & Hm' & Sq).
  apply (members_are_nodes s (firstid ids) n I). rewrite (mems_get s (firstid ids) m (get_In_NoDup _ _ _ Ke Hm')). apply Sq. exact Hm.
Qed.

Lemma SubTable_refl s : SubTable s s.
Proof. intros e ms G. exact G. Qed.
Lemma SubTable_trans a b c : SubTable a b -> SubTable b c -> SubTable a c.
Proof. intros H1 H2 e ms G. apply H2. apply H1. exact G. Qed.
Lemma NoIsolates_same_table t s : (forall e, get e (h_edge t) = get e (h_edge s)) -> (forall x, In x (nkeys t) -> In x (nkeys s)) ->
  NoIsolates s -> NoIsolates t.
Proof. intros T N H n Hn. destruct (H n (N n Hn)) as (e & ms & G & Hi). exists e, ms. rewrite T. auto. Qed.

(* THE GUARANTEES of cleanup(isolates, singletons, multiedges, connected, relabel), whenever it returns:
   no repeated edges unless multiedges were allowed, no singleton edges unless allowed, no isolated nodes
   unless allowed, connected if requested, labels 0..n-1 / 0..m-1 if requested - all at once. *)
Theorem cleanup_guarantees iso sing multi conn relabel s : Inv s -> NoNone s ->
  out_of (cleanup iso sing multi conn relabel s) = Ok ->
  let t := st_of (cleanup iso sing multi conn relabel s) in
  Inv t /\
  (multi = false -> NoMulti t) /\
  (sing = false -> NoSingletons t) /\
  (iso = false -> NoIsolates t) /\
  (conn = true -> Connected t) /\
  (relabel = true ->
     nkeys t = map (fun i => LInt (Z.of_nat i)) (seq 0 (length (nkeys t))) /\
     ekeys t = map (fun j => LInt (Z.of_nat j)) (seq 0 (length (ekeys t)))).
Proof.
  intros I NN Hok. cbv zeta. unfold cleanup in *.
  (* stage 1 *)
  destruct (bind_out_ok _ _ Hok) as (O1 & Hok1 & E1). rewrite E1. clear E1 Hok.
  set (s1 := st_of (if multi then ok s else merge_duplicate_edges RnFirst MrFirst None s)) in *.
  assert (F1 : Inv s1 /\ (multi = false -> NoMulti s1)).
  { unfold s1. destruct multi.
    - rewrite st_of_ok. split; [exact I|discriminate].
    - destruct (merge_stage s I NN O1) as (A & B & _). split; [exact A|intros _; exact B]. }
  destruct F1 as [I1 M1].
  (* stage 2 *)
  destruct (bind_out_ok _ _ Hok1) as (O2 & Hok2 & E2). rewrite E2. clear E2 Hok1.
  set (s2 := st_of (if sing then ok s1 else remove_edges_from (Hypergraph.singletons s1) s1)) in *.
  assert (F2 : Inv s2 /\ SubTable s2 s1 /\ (sing = false -> NoSingletons s2)).
  { unfold s2. destruct sing.
    - rewrite st_of_ok. split; [exact I1|]. split; [apply SubTable_refl|discriminate].
    - destruct (singles_stage s1 I1) as (_ & A & _ & B & C). split; [exact A|]. split; [exact B|intros _; exact C]. }
  destruct F2 as (I2 & S2 & G2).
  (* stage 3 *)
  destruct (bind_out_ok _ _ Hok2) as (O3 & Hok3 & E3). rewrite E3. clear E3 Hok2.
  set (s3 := st_of (if iso then ok s2 else remove_nodes_from (Hypergraph.isolates s2) false true s2)) in *.
  assert (F3 : Inv s3 /\ (forall e, get e (h_edge s3) = get e (h_edge s2)) /\ (iso = false -> NoIsolates s3)).
  { unfold s3. destruct iso.
    - rewrite st_of_ok. split; [exact I2|]. split; [reflexivity|discriminate].
    - destruct (isolates_stage s2 I2) as (_ & A & B & _ & C). split; [exact A|]. split; [exact B|intros _; exact C]. }
  destruct F3 as (I3 & T3 & G3).
  assert (S3 : SubTable s3 s1) by (intros e ms G; apply S2; rewrite <- T3; exact G).
  (* stage 4 *)
  destruct (bind_out_ok _ _ Hok3) as (O4 & Hok4 & E4). rewrite E4. clear E4 Hok3.
  set (doit := conn && negb (match h_node s3 with [] => true | _ :: _ => false end)) in *.
  set (s4 := st_of (if doit then largest_connected_inplace s3 else ok s3)) in *.
  assert (F4 : Inv s4 /\ SubTable s4 s3 /\ (conn = true -> Connected s4) /\ (NoIsolates s3 -> NoIsolates s4)).
  { unfold s4. destruct doit eqn:Ed.
    - unfold largest_connected_inplace in O4. destruct (first_longest (Hypergraph.components s3)) as [c|] eqn:Ec; [|discriminate O4].
      destruct (lcc_stage s3 c I3 Ec) as (_ & A & B & C & _ & D). split; [exact A|]. split; [exact B|]. split; [intros _; exact C|exact D].
    - rewrite st_of_ok. split; [exact I3|]. split; [apply SubTable_refl|]. split; [|auto].
      intros ->. unfold doit in Ed. cbn [andb] in Ed. apply negb_false_iff in Ed.
      intros x y Hx. unfold nkeys, keys in Hx. destruct (h_node s3); [destruct Hx|discriminate Ed]. }
  destruct F4 as (I4 & S4 & C4 & P4).
  (* stage 5 *)
  destruct relabel.
  - destruct (relabel_spec "label" s4 I4) as (_ & It & Kn & Ke & _). cbv zeta in It, Kn, Ke.
    split; [exact It|].
    split; [intros Hm; apply (relabel_NoMulti "label" s4 I4); apply (NoMulti_sub s4 s1 (SubTable_trans _ _ _ S4 S3)); apply M1; exact Hm|].
    split; [intros Hs; apply (relabel_NoSingletons "label" s4 I4); apply (NoSingletons_sub s4 s2); [|apply G2; exact Hs];
            intros e ms G; rewrite <- T3; apply S4; exact G|].
    split; [intros Hi; apply (relabel_NoIsolates "label" s4 I4); apply P4; apply G3; exact Hi|].
    split; [intros Hc; apply (relabel_Connected "label" s4 I4); apply C4; exact Hc|].
    intros _. split.
    + rewrite Kn at 1. rewrite Kn at 1. rewrite map_length, seq_length. reflexivity.
    + rewrite Ke at 1. rewrite Ke at 1. rewrite map_length, seq_length. reflexivity.
  - rewrite st_of_ok. split; [exact I4|].
    split; [intros Hm; apply (NoMulti_sub s4 s1 (SubTable_trans _ _ _ S4 S3)); apply M1; exact Hm|].
    split; [intros Hs; apply (NoSingletons_sub s4 s2); [|apply G2; exact Hs]; intros e ms G; rewrite <- T3; apply S4; exact G|].
    split; [intros Hi; apply P4; apply G3; exact Hi|]. split; [exact C4|discriminate].
Qed.
