(* C02 - directed incidence integrity (tail/head vs out/in) under every history. *)
From Coq Require Import String ZArith List Bool.
From XV Require Import Base.Label Base.LSet Base.ODict Base.Attr Base.Outcome Model.Hypergraph
  Model.HgCheck Model.DiHypergraph Model.DiCheck Proofs.HgViews Proofs.HgInv Proofs.DiInv.
Import ListNotations.

Theorem C02_init_wf : DInv dhg_empty.
Proof. exact DInv_empty. Qed.
Print Assumptions C02_init_wf.

(* one call of any DiHypergraph mutator, returning or raising *)
Theorem C02_step_wf : forall d o, DInv d -> DInv (dst_of (dstep d o)).
Proof. exact dstep_DInv. Qed.
Print Assumptions C02_step_wf.

Theorem C02_history_wf : forall ops, DInv (drun ops dhg_empty).
Proof. intro ops. exact (drun_DInv ops dhg_empty DInv_empty). Qed.
Print Assumptions C02_history_wf.

Theorem C02_prefix_wf : forall ops k, DInv (drun (firstn k ops) dhg_empty).
Proof. intros ops k. exact (drun_prefix_DInv ops k dhg_empty DInv_empty). Qed.
Print Assumptions C02_prefix_wf.

(* tail <-> out-memberships, head <-> in-memberships, nothing dangling in either direction,
   one attribute record per node and per edge *)
Theorem C02_reports : forall d, DInv d ->
  (forall n e, In n (tail d e) <-> In e (out_mships d n)) /\
  (forall n e, In n (head d e) <-> In e (in_mships d n)) /\
  (forall e n, In n (tail d e) \/ In n (head d e) -> In n (nkeys (ts d)) /\ In e (ekeys (ts d))) /\
  (forall n e, In e (out_mships d n) \/ In e (in_mships d n) -> In e (ekeys (ts d)) /\ In n (nkeys (ts d))) /\
  (forall n, In n (nkeys (ts d)) <-> has n (h_nattr (ts d)) = true) /\
  (forall e, In e (ekeys (ts d)) <-> has e (h_eattr (ts d)) = true) /\
  NoDup (nkeys (ts d)) /\ NoDup (ekeys (ts d)) /\
  NoDup (keys (h_nattr (ts d))) /\ NoDup (keys (h_eattr (ts d))).
Proof. exact DInv_reports. Qed.
Print Assumptions C02_reports.

(* non-vacuity: a node in both head and tail of one edge, then a strong removal *)
Definition c02_example_ops : list dop :=
  [DAddEdgesFrom (DB1 [([LInt 1; LInt 2], [LInt 3]); ([LInt 3], [LInt 4]); ([LInt 2], [LInt 2; LInt 5])]) [];
   DAddNodeToEdge (LInt 1) (LInt 6) DirOut;
   DRemoveNode (LInt 1) true true].
Example C02_nonvacuous :
  dwf_b (drun c02_example_ops dhg_empty) = true /\
  keys (h_edge (ts (drun c02_example_ops dhg_empty))) = [LInt 1; LInt 2] /\
  in_mships (drun c02_example_ops dhg_empty) (LInt 3) = [].
Proof. vm_compute. repeat split. Qed.
Print Assumptions C02_nonvacuous.
