"""Fail-closed translator of the bodies of eight DiHypergraph mutators - add_node, add_node_to_edge, remove_edge,
remove_edges_from, remove_node_from_edge, clear, add_edge, remove_node - and of the items of the bulk calls (add_edges_from in all
five formats, remove_nodes_from) (xgi/core/dihypergraph.py) - into programs of the statement language of
coq/Model/PyIRD.v (coq/Gen/DiMutators.v).  `Props/C02.v` proves that running the regenerated programs on a state satisfying
the class invariant is exactly what the hand-written two-sided model does.

Accepted statements (anything else fails the translation):
    if <cond>: <stmts> [elif ...] [else: <stmts>]        raise XGIError(...) / IDNotFound(...)
    self._node[<v>] = {"in": set(), "out": set()}         self._edge[<v>] = {"in": set(), "out": set()}
    self._node_attr[<v>] = {} | self._node_attr_dict_factory()           (same for _edge_attr)
    self._node[<v>][<sd>].add(<v>)   .remove(<v>)         (same for _edge)
    del self._edge[<v>]    del self._edge_attr[<v>]       (and _node / _node_attr)
    update_uid_counter(self, <v>)      self._node_attr[<v>].update(<the **attr of the method>)
    self._node.clear() ...  self._net_attr.clear()
    the direction prologue   if direction == "in": ed = ..; nd = .. elif direction == "out": ed = ..; nd = .. else: raise XGIError(..)
        (the four literals are read from the source; the rest of the block is its scope)
    edge = self._edge[<v>].copy()        (scope = the rest of the block)       for <x> in edge["in"|"out"]: <stmts>
    for <x> in <the iterable parameter>: <stmts>
  <cond> ::= <v> [not] in self._T | <v> [not] in self._T[<v>][<sd>] | not self._T[<v>][<sd>] | <flag> | not <cond> | <cond> and <cond>
  <v> a label parameter or a loop variable (two levels); <sd> ::= "in" | "out" | ed | nd; <flag> a boolean parameter.
add_edge(self, members, idx=None, **attr) additionally: the decoding  if isinstance(members, (tuple, list)): tail = list(members[0]);
    head = list(members[1]) else: raise XGIError(..)  (the model takes the two lists); leading guards `if <cond>: raise E(..)` /
    `if <cond>: warn(..); return`, then `uid = next(self._edge_uid) if idx is None else idx`, guards again, then statements with
    `for <x> in tail|head:`; <cond> also `None in tail`, `None in head`, `<cond> or <cond>`, `idx in self._edge[.keys()]`, `idx is [not] None`."""
import ast, os
from . import common as C

GEN = os.path.join(C.COQ, "Gen")
TABLES = {"_node": "TNode", "_edge": "TEdge"}
ATABLES = {"_node_attr": "TNode", "_edge_attr": "TEdge"}
PAIR = "{'in': set(), 'out': set()}"


class TranslationError(Exception):
    pass


class M:
    def __init__(self, labels, flags, kwattr=None, ids=None, direction=None, idx=None, tail=None, head=None):
        self.labels, self.flags, self.kwattr, self.ids, self.direction = labels, flags, kwattr, ids, direction
        self.idx, self.tail, self.head, self.uid = idx, tail, head, None     # add_edge: the optional id, the two member lists, the bound uid
        self.item_mode = False      # the item of a bulk loop: the decoding of `members` is skipped, `continue` ends the item
        self.eattr = None           # the item's own attribute dict
        self.edgevar = None         # the name bound to {"in": set(tail), "out": set(head)}
        self.flag_exprs = {}        # source text of a boolean expression -> flag index
        self.decodes = ()
        self.loops = []            # innermost first
        self.sides = None          # (ed name, nd name) once the direction prologue is seen
        self.local = None          # the name bound by  edge = self._edge[k].copy()

    def v(self, x):
        if isinstance(x, ast.Name) and x.id in self.labels:
            return f"(VArg {self.labels.index(x.id)})"
        if isinstance(x, ast.Name) and x.id in self.loops[:2]:
            return "VLoop" if self.loops.index(x.id) == 0 else "VLoop1"
        if isinstance(x, ast.Name) and self.uid is not None and x.id == self.uid:
            return "VUid"
        if isinstance(x, ast.Name) and self.idx is not None and x.id == self.idx:
            return "VIdx"
        raise TranslationError(f"label not understood: {ast.unparse(x)}")

    def sd(self, x):
        if isinstance(x, ast.Constant) and x.value in ("in", "out"):
            return "(SConst SdIn)" if x.value == "in" else "(SConst SdOut)"
        if isinstance(x, ast.Name) and self.sides and x.id in self.sides:
            return "SEd" if x.id == self.sides[0] else "SNd"
        raise TranslationError(f"side not understood: {ast.unparse(x)}")

    def selftab(self, x, tables):
        if isinstance(x, ast.Attribute) and isinstance(x.value, ast.Name) and x.value.id == "self" and x.attr in tables:
            return tables[x.attr]
        return None

    def sub(self, x, tables):
        """self._T[<v>] -> (table, key)"""
        if isinstance(x, ast.Subscript):
            t = self.selftab(x.value, tables)
            if t:
                return t, self.v(x.slice)
        return None

    def sub2(self, x):
        """self._T[<v>][<sd>] -> (table, key, side)"""
        if isinstance(x, ast.Subscript):
            s = self.sub(x.value, TABLES)
            if s:
                return s[0], s[1], self.sd(x.slice)
        return None

    def cond(self, c):
        if isinstance(c, ast.Name) and c.id in getattr(self, "abbrev", {}):
            return self.cond(self.abbrev[c.id])
        if ast.unparse(c) in self.flag_exprs:
            return f"(DFlag {self.flag_exprs[ast.unparse(c)]})"
        if isinstance(c, ast.BoolOp) and isinstance(c.op, ast.Or):
            parts = [self.cond(v) for v in c.values]
            out = parts[-1]
            for p in reversed(parts[:-1]):
                out = f"(DOr {p} {out})"
            return out
        if isinstance(c, ast.Compare) and len(c.ops) == 1 and isinstance(c.ops[0], ast.In) and ast.unparse(c.left) == "None" \
                and isinstance(c.comparators[0], ast.Name) and c.comparators[0].id in (self.tail, self.head) and self.tail:
            return "DNoneInTail" if c.comparators[0].id == self.tail else "DNoneInHead"
        if isinstance(c, ast.Compare) and len(c.ops) == 1 and isinstance(c.ops[0], ast.In) and ast.unparse(c.left) == "None" \
                and self.edgevar and ast.unparse(c.comparators[0]) in (f"{self.edgevar}['in']", f"{self.edgevar}['out']"):
            return "DNoneInTail" if ast.unparse(c.comparators[0]).endswith("['in']") else "DNoneInHead"

        if isinstance(c, ast.Compare) and len(c.ops) == 1 and isinstance(c.ops[0], (ast.Is, ast.IsNot)) and self.idx is not None \
                and isinstance(c.left, ast.Name) and c.left.id == self.idx and ast.unparse(c.comparators[0]) == "None":
            return "DIdxNone" if isinstance(c.ops[0], ast.Is) else "(DNot DIdxNone)"
        if isinstance(c, ast.Compare) and len(c.ops) == 1 and isinstance(c.ops[0], ast.In) and self.idx is not None \
                and isinstance(c.left, ast.Name) and c.left.id == self.idx:
            right = c.comparators[0]
            if isinstance(right, ast.Call) and isinstance(right.func, ast.Attribute) and right.func.attr == "keys" and not right.args:
                right = right.func.value
            t = self.selftab(right, TABLES)
            if t:
                return f"(DIdxIn {t})"
        if isinstance(c, ast.BoolOp) and isinstance(c.op, ast.And):
            parts = [self.cond(v) for v in c.values]
            out = parts[-1]
            for p in reversed(parts[:-1]):
                out = f"(DAnd {p} {out})"
            return out
        if isinstance(c, ast.UnaryOp) and isinstance(c.op, ast.Not):
            s = self.sub2(c.operand)
            if s:
                return f"(DEmpty {s[1]} {s[0]} {s[2]})"
            return f"(DNot {self.cond(c.operand)})"
        if isinstance(c, ast.Name) and c.id in self.flags:
            return f"(DFlag {self.flags.index(c.id)})"
        if isinstance(c, ast.Compare) and len(c.ops) == 1 and isinstance(c.ops[0], (ast.In, ast.NotIn)):
            right = c.comparators[0]
            t = self.selftab(right, TABLES)
            if t:
                base = f"(DIn {self.v(c.left)} {t})"
            else:
                s = self.sub2(right)
                if not s:
                    raise TranslationError(f"condition not understood: {ast.unparse(c)}")
                base = f"(DMember {self.v(c.left)} {s[1]} {s[0]} {s[2]})"
            return base if isinstance(c.ops[0], ast.In) else f"(DNot {base})"
        raise TranslationError(f"condition not understood: {ast.unparse(c)}")

    def dir_prologue(self, st):
        """if direction == "in": ed = a; nd = b elif direction == "out": ed = c; nd = d else: raise XGIError(...)"""
        def test(t, lit):
            return isinstance(t, ast.Compare) and len(t.ops) == 1 and isinstance(t.ops[0], ast.Eq) and isinstance(t.left, ast.Name) \
                and t.left.id == self.direction and isinstance(t.comparators[0], ast.Constant) and t.comparators[0].value == lit
        def assigns(body):
            if len(body) != 2 or not all(isinstance(b, ast.Assign) and len(b.targets) == 1 and isinstance(b.targets[0], ast.Name)
                                         and isinstance(b.value, ast.Constant) and b.value.value in ("in", "out") for b in body):
                return None
            return [(b.targets[0].id, "SdIn" if b.value.value == "in" else "SdOut") for b in body]
        if not (self.direction and isinstance(st, ast.If) and test(st.test, "in") and len(st.orelse) == 1 and isinstance(st.orelse[0], ast.If)):
            return None
        el = st.orelse[0]
        if not (test(el.test, "out") and len(el.orelse) == 1 and isinstance(el.orelse[0], ast.Raise) and isinstance(el.orelse[0].exc, ast.Call)
                and isinstance(el.orelse[0].exc.func, ast.Name) and el.orelse[0].exc.func.id == "XGIError"):
            return None
        a, b = assigns(st.body), assigns(el.body)
        if not a or not b or [x[0] for x in a] != [x[0] for x in b] or a[0][0] == a[1][0]:
            return None
        return (a[0][0], a[1][0]), (a[0][1], a[1][1], b[0][1], b[1][1])

    def guards(self, stmts):
        """leading `if c: raise E(...)` / `if c: warn(...); return` statements -> (guards, remaining statements)"""
        gs = []
        for i, st in enumerate(stmts):
            if isinstance(st, ast.If) and not st.orelse:
                b = st.body
                if len(b) == 1 and isinstance(b[0], ast.Raise) and isinstance(b[0].exc, ast.Call) and isinstance(b[0].exc.func, ast.Name) \
                        and b[0].exc.func.id in ("XGIError", "IDNotFound"):
                    gs.append(f"({self.cond(st.test)}, GRaise {b[0].exc.func.id})")
                    continue
                if len(b) == 2 and isinstance(b[0], ast.Expr) and isinstance(b[0].value, ast.Call) and isinstance(b[0].value.func, ast.Name) \
                        and b[0].value.func.id == "warn" and ((isinstance(b[1], ast.Return) and b[1].value is None and not self.item_mode)
                                                             or (isinstance(b[1], ast.Continue) and self.item_mode)):
                    gs.append(f"({self.cond(st.test)}, GWarnReturn)")
                    continue
            if self.item_mode and ast.unparse(st) in self.decodes:
                continue          # input decoding: the interpreter is handed the two member lists
            return gs, stmts[i:]
        return gs, []

    def block(self, stmts):
        out = []
        for i, st in enumerate(stmts):
            p = self.dir_prologue(st) if self.sides is None else None
            if p:
                self.sides = p[0]
                rest = self.block(stmts[i + 1:])
                self.sides = None
                out.append(f"(DBindDir {' '.join(p[1])} {rest})")
                return "[" + "; ".join(out) + "]"
            # x = self._node[<v>]  followed by  del self._node[<v>]: a reference to the pair of sets, unreachable from the
            # tables afterwards (so nothing in its scope can change them)
            if isinstance(st, ast.Assign) and len(st.targets) == 1 and isinstance(st.targets[0], ast.Name) and self.local is None:
                s_ = self.sub(st.value, {"_node": "TNode"})
                if s_ and i + 1 < len(stmts) and ast.unparse(stmts[i + 1]) == f"del {ast.unparse(st.value)}":
                    self.local = st.targets[0].id
                    rest = self.block(stmts[i + 1:])
                    self.local = None
                    out.append(f"(DBindNodeRef {s_[1]} {rest})")
                    return "[" + "; ".join(out) + "]"
            # x = self._edge[<v>]  followed by  del self._edge[<v>]: the same for an edge; a snapshot is the same thing
            if isinstance(st, ast.Assign) and len(st.targets) == 1 and isinstance(st.targets[0], ast.Name):
                s_ = self.sub(st.value, {"_edge": "TEdge"})
                if s_ and i + 1 < len(stmts) and ast.unparse(stmts[i + 1]) == f"del {ast.unparse(st.value)}":
                    saved, self.local = self.local, st.targets[0].id
                    rest = self.block(stmts[i + 1:])
                    self.local = saved
                    out.append(f"(DBindEdgeCopy {s_[1]} {rest})")
                    return "[" + "; ".join(out) + "]"
            # edge = self._edge[<v>].copy()
            if isinstance(st, ast.Assign) and len(st.targets) == 1 and isinstance(st.targets[0], ast.Name) and self.local is None \
                    and isinstance(st.value, ast.Call) and isinstance(st.value.func, ast.Attribute) and st.value.func.attr == "copy" \
                    and not st.value.args:
                s = self.sub(st.value.func.value, {"_edge": "TEdge"})
                if s:
                    self.local = st.targets[0].id
                    rest = self.block(stmts[i + 1:])
                    self.local = None
                    out.append(f"(DBindEdgeCopy {s[1]} {rest})")
                    return "[" + "; ".join(out) + "]"
            out.append(self.stmt(st))
        return "[" + "; ".join(out) + "]"

    def stmt(self, st):
        if isinstance(st, ast.If):
            return f"(DIf {self.cond(st.test)} {self.block(st.body)} {self.block(st.orelse)})"
        if isinstance(st, ast.Raise) and isinstance(st.exc, ast.Call) and isinstance(st.exc.func, ast.Name) \
                and st.exc.func.id in ("XGIError", "IDNotFound"):
            return f"(DRaise {st.exc.func.id})"
        if isinstance(st, ast.Assign) and len(st.targets) == 1:
            tgt, val = st.targets[0], st.value
            s = self.sub(tgt, TABLES)
            if s and ast.unparse(val) == PAIR:
                return f"(DNewPair {s[0]} {s[1]})"
            s = self.sub(tgt, ATABLES)
            if s and ast.unparse(val) in ("{}", "self._node_attr_dict_factory()", "self._edge_attr_dict_factory()"):
                return f"(DNewAttr {s[0]} {s[1]})"
            s = self.sub(tgt, {"_edge": "TEdge"})
            if s and self.edgevar and isinstance(val, ast.Name) and val.id == self.edgevar:
                return f"(DSetPair {s[1]})"
        if isinstance(st, ast.Expr) and isinstance(st.value, ast.Call):
            call = st.value
            if isinstance(call.func, ast.Name) and call.func.id == "update_uid_counter" and len(call.args) == 2 \
                    and ast.unparse(call.args[0]) == "self":
                return f"(DUid {self.v(call.args[1])})"
            if isinstance(call.func, ast.Attribute) and call.func.attr == "update" and len(call.args) == 1 \
                    and isinstance(call.args[0], ast.Name) and call.args[0].id == self.kwattr:
                s = self.sub(call.func.value, ATABLES)
                if s:
                    return f"(DAttrUpdate {s[0]} {s[1]})"
            if isinstance(call.func, ast.Attribute) and call.func.attr == "update" and len(call.args) == 1 \
                    and isinstance(call.args[0], ast.Name) and self.eattr is not None and call.args[0].id == self.eattr:
                s = self.sub(call.func.value, ATABLES)
                if s:
                    return f"(DAttrUpdateItem {s[0]} {s[1]})"
            if isinstance(call.func, ast.Attribute) and call.func.attr in ("add", "remove") and len(call.args) == 1:
                s = self.sub2(call.func.value)
                if s:
                    return f"({'DAdd' if call.func.attr == 'add' else 'DRemove'} {s[0]} {s[1]} {s[2]} {self.v(call.args[0])})"
            if isinstance(call.func, ast.Attribute) and call.func.attr == "clear" and not call.args and not call.keywords:
                t = self.selftab(call.func.value, TABLES)
                if t:
                    return f"(DClear {t})"
                t = self.selftab(call.func.value, ATABLES)
                if t:
                    return f"(DClearAttr {t})"
                if ast.unparse(call.func.value) == "self._net_attr":
                    return "DClearNet"
        if isinstance(st, ast.Delete) and len(st.targets) == 1:
            s = self.sub(st.targets[0], TABLES)
            if s:
                return f"(DDel {s[0]} {s[1]})"
            s = self.sub(st.targets[0], ATABLES)
            if s:
                return f"(DDelAttr {s[0]} {s[1]})"
        if isinstance(st, ast.For) and isinstance(st.target, ast.Name) and not st.orelse and len(self.loops) < 2:
            it = st.iter
            if isinstance(it, ast.Name) and self.tail is not None and it.id in (self.tail, self.head) and not self.loops:
                self.loops.insert(0, st.target.id)
                body = self.block(st.body)
                self.loops.pop(0)
                return f"({'DForTail' if it.id == self.tail else 'DForHead'} {body})"
            if isinstance(it, ast.Name) and self.ids is not None and it.id == self.ids and not self.loops:
                self.loops.insert(0, st.target.id)
                body = self.block(st.body)
                self.loops.pop(0)
                return f"(DForIds {body})"
            loc = lambda x: isinstance(x, ast.Subscript) and isinstance(x.value, ast.Name) and x.value.id == self.local \
                and isinstance(x.slice, ast.Constant) and x.slice.value in ("in", "out")
            # x["in"].union(x["out"])
            if isinstance(it, ast.Call) and isinstance(it.func, ast.Attribute) and it.func.attr == "union" and len(it.args) == 1 \
                    and loc(it.func.value) and loc(it.args[0]) and it.func.value.slice.value == "in" and it.args[0].slice.value == "out":
                self.loops.insert(0, st.target.id)
                body = self.block(st.body)
                self.loops.pop(0)
                return f"(DForLocalUnion {body})"
            # x[sd].difference({<v>})
            if isinstance(it, ast.Call) and isinstance(it.func, ast.Attribute) and it.func.attr == "difference" and len(it.args) == 1 \
                    and loc(it.func.value) and isinstance(it.args[0], ast.Set) and len(it.args[0].elts) == 1:
                minus = self.v(it.args[0].elts[0])
                self.loops.insert(0, st.target.id)
                body = self.block(st.body)
                self.loops.pop(0)
                return f"(DForLocalMinus {'SdIn' if it.func.value.slice.value == 'in' else 'SdOut'} {minus} {body})"
            if isinstance(it, ast.Subscript) and isinstance(it.value, ast.Name) and it.value.id == self.local \
                    and isinstance(it.slice, ast.Constant) and it.slice.value in ("in", "out"):
                self.loops.insert(0, st.target.id)
                body = self.block(st.body)
                self.loops.pop(0)
                return f"(DForLocal {'SdIn' if it.slice.value == 'in' else 'SdOut'} {body})"
        raise TranslationError(f"statement not understood: {ast.unparse(st)[:90]}")


# (coq name, method, label parameters, flag parameters, iterable parameter, direction parameter); parameters in source order
SPEC = [("dsrc_add_node", "add_node", ["node"], [], None, None),
        ("dsrc_add_node_to_edge", "add_node_to_edge", ["edge", "node"], [], None, "direction"),
        ("dsrc_remove_edge", "remove_edge", ["idx"], [], None, None),
        ("dsrc_remove_edges_from", "remove_edges_from", [], [], "ebunch", None),
        ("dsrc_remove_node_from_edge", "remove_node_from_edge", ["edge", "node"], ["remove_empty"], None, "direction"),
        ("dsrc_clear", "clear", [], ["remove_net_attr"], None, None),
        ("dsrc_remove_node", "remove_node", ["n"], ["strong", "remove_empty"], None, None)]


def translate():
    tree = ast.parse(open(os.path.join(C.REPO, "xgi", "core", "dihypergraph.py")).read())
    cls = [n for n in tree.body if isinstance(n, ast.ClassDef) and n.name == "DiHypergraph"]
    if len(cls) != 1:
        raise TranslationError("class DiHypergraph not found")
    out = []
    for coqname, pyname, labels, flags, ids, direction in SPEC:
        fns = [n for n in cls[0].body if isinstance(n, ast.FunctionDef) and n.name == pyname]
        want = ["self"] + labels + ([ids] if ids else []) + ([direction] if direction else []) + flags
        if len(fns) != 1 or [a.arg for a in fns[0].args.args] != want or fns[0].args.vararg or fns[0].args.kwonlyargs:
            raise TranslationError(f"DiHypergraph.{pyname} not found or unexpected parameters")
        kw = fns[0].args.kwarg.arg if fns[0].args.kwarg else None
        body = [s for s in fns[0].body if not (isinstance(s, ast.Expr) and isinstance(s.value, ast.Constant))]
        out.append(f"Definition {coqname} : list dstmt :=\n  {M(labels, flags, kw, ids, direction).block(body)}.\n")
    return out + translate_add_edge(cls[0]) + translate_add_edges_from_items(cls[0]) + translate_add_edges_from_dict(cls[0]) \
        + translate_remove_nodes_from(cls[0]) + translate_add_nodes_from(cls[0])


FORMAT_DISPATCH = {
    "(e, next(self._edge_uid), {})": (False, False),
    "(e[0], e[1], {})": (True, False),
    "(e[0], next(self._edge_uid), e[1])": (False, True),
    "(e[0], e[1], e[2])": (True, True),
}
NEXT_ITEM = "try:\n    e = next(new_edges)\nexcept StopIteration:\n    break"
DECODE_ITEM = ("try:\n    tail = list(members[0])\n    head = list(members[1])\n    edge = {'in': set(tail), 'out': set(head)}\n"
               "except TypeError as e:\n    raise XGIError('Invalid ebunch format') from e")


DECODE_DICT = ("if isinstance(members, (tuple, list)):\n    tail = members[0]\n    head = members[1]\nelse:\n"
               "    raise XGIError('Directed edge must be a list or tuple!')",
               "try:\n    tail, head = (list(tail), list(head))\n    edge = {'in': set(tail), 'out': set(head)}\n"
               "except TypeError as e:\n    raise XGIError('Invalid ebunch format') from e")


def translate_add_edges_from_dict(cls):
    """the dict branch (format 5) of DiHypergraph.add_edges_from:  for idx, members in ebunch_to_add.items(): <item>"""
    fns = [n for n in cls.body if isinstance(n, ast.FunctionDef) and n.name == "add_edges_from"]
    if len(fns) != 1:
        raise TranslationError("DiHypergraph.add_edges_from not found")
    body = [s for s in fns[0].body if not (isinstance(s, ast.Expr) and isinstance(s.value, ast.Constant))]
    first = body[0] if body else None
    if not (isinstance(first, ast.If) and ast.unparse(first.test) == "isinstance(ebunch_to_add, dict)" and not first.orelse
            and len(first.body) == 2 and isinstance(first.body[1], ast.Return) and first.body[1].value is None):
        raise TranslationError("DiHypergraph.add_edges_from: expected the dict branch first")
    loop = first.body[0]
    if not (isinstance(loop, ast.For) and ast.unparse(loop.target) == "(idx, members)" and ast.unparse(loop.iter) == "ebunch_to_add.items()"
            and not loop.orelse):
        raise TranslationError("DiHypergraph.add_edges_from: expected `for idx, members in ebunch_to_add.items():`")
    m = M([], [], None, idx="idx", tail="tail", head="head")
    m.item_mode, m.edgevar, m.decodes = True, "edge", DECODE_DICT
    gs, rest = m.guards(loop.body)
    return [f"Definition dsrc_dict_item_guards : list (dbexp * guard_action) :=\n  [{'; '.join(gs)}].\n",
            f"Definition dsrc_dict_item : list dstmt :=\n  {m.block(rest)}.\n"]


def translate_add_edges_from_items(cls):
    """formats 1-4 of DiHypergraph.add_edges_from: the dispatch on the format (read into a table), the item
    (`if idx in self._edge.keys(): warn(...) else: <statements>`, a guarded body) and the fetch of the next item"""
    fns = [n for n in cls.body if isinstance(n, ast.FunctionDef) and n.name == "add_edges_from"]
    if len(fns) != 1 or fns[0].args.kwarg is None:
        raise TranslationError("DiHypergraph.add_edges_from not found")
    loops = [s for s in fns[0].body if isinstance(s, ast.While)]
    if len(loops) != 1 or ast.unparse(loops[0].test) != "True" or loops[0].orelse or len(loops[0].body) != 3:
        raise TranslationError("DiHypergraph.add_edges_from: expected one `while True:` loop of three statements")
    disp, item, nxt = loops[0].body
    table, cur = [], disp
    for k in (1, 2, 3, 4):
        if not (isinstance(cur, ast.If) and isinstance(cur.test, ast.Name) and cur.test.id == f"format{k}" and len(cur.body) == 1
                and isinstance(cur.body[0], ast.Assign) and ast.unparse(cur.body[0].targets[0]) == "(members, idx, eattr)"
                and ast.unparse(cur.body[0].value) in FORMAT_DISPATCH):
            raise TranslationError(f"DiHypergraph.add_edges_from: dispatch of format {k} not understood")
        table.append(FORMAT_DISPATCH[ast.unparse(cur.body[0].value)])
        if k < 4:
            if len(cur.orelse) != 1:
                raise TranslationError("DiHypergraph.add_edges_from: dispatch chain not understood")
            cur = cur.orelse[0]
        elif cur.orelse:
            raise TranslationError("DiHypergraph.add_edges_from: dispatch chain not understood")
    if ast.unparse(nxt) != NEXT_ITEM:
        raise TranslationError("DiHypergraph.add_edges_from: fetch of the next item not understood")
    if not (isinstance(item, ast.If) and len(item.body) == 1 and isinstance(item.body[0], ast.Expr) and isinstance(item.body[0].value, ast.Call)
            and isinstance(item.body[0].value.func, ast.Name) and item.body[0].value.func.id == "warn" and item.orelse):
        raise TranslationError("DiHypergraph.add_edges_from: item not understood")
    m = M([], [], fns[0].args.kwarg.arg, idx="idx", tail="tail", head="head")
    m.item_mode, m.eattr, m.edgevar, m.decodes = True, "eattr", "edge", (DECODE_ITEM,)
    explicit = [f"format{k + 1}" for k, (ex, _) in enumerate(table) if ex]
    m.flag_exprs = {" or ".join(explicit): 0}
    g0 = f"({m.cond(item.test)}, GWarnReturn)"
    gs, rest = m.guards(item.orelse)
    tab = "; ".join(f"({str(ex).lower()}, {str(ea).lower()})" for ex, ea in table)
    return [f"Definition dsrc_bulk_formats : list (bool * bool) :=\n  [{tab}].\n",
            f"Definition dsrc_bulk_item_guards : list (dbexp * guard_action) :=\n  [{'; '.join([g0] + gs)}].\n",
            f"Definition dsrc_bulk_item : list dstmt :=\n  {m.block(rest)}.\n"]


def translate_remove_nodes_from(cls):
    """remove_nodes_from(self, nodes, strong=False, remove_empty=True): for n in nodes: <guards>; self.remove_node(n, ...)"""
    fns = [n for n in cls.body if isinstance(n, ast.FunctionDef) and n.name == "remove_nodes_from"]
    if len(fns) != 1 or [a.arg for a in fns[0].args.args] != ["self", "nodes", "strong", "remove_empty"]:
        raise TranslationError("DiHypergraph.remove_nodes_from not found or unexpected parameters")
    body = [s for s in fns[0].body if not (isinstance(s, ast.Expr) and isinstance(s.value, ast.Constant))]
    if not (len(body) == 1 and isinstance(body[0], ast.For) and isinstance(body[0].target, ast.Name) and ast.unparse(body[0].iter) == "nodes"
            and not body[0].orelse):
        raise TranslationError("DiHypergraph.remove_nodes_from: expected one loop over `nodes`")
    var = body[0].target.id
    m = M([], ["strong", "remove_empty"], None)
    m.item_mode = True
    m.loops = [var]
    gs, rest = m.guards(body[0].body)
    if len(rest) != 1 or ast.unparse(rest[0]) != f"self.remove_node({var}, strong=strong, remove_empty=remove_empty)":
        raise TranslationError("DiHypergraph.remove_nodes_from: expected the call of remove_node with the same options")
    return [f"Definition dsrc_remove_nodes_from_guards : list (dbexp * guard_action) :=\n  [{'; '.join(gs)}].\n"]


DECODE_NODE_ITEM = ("try:\n    newnode = n not in self._node\n    newdict = attr\nexcept TypeError:\n    n, ndict = n\n"
                    "    newnode = n not in self._node\n    newdict = attr.copy()\n    newdict.update(ndict)")


def translate_add_nodes_from(cls):
    """add_nodes_from(self, nodes_for_adding, **attr): for n in nodes_for_adding: <decoding>; <statements> - see translate_mutators.py"""
    fns = [n for n in cls.body if isinstance(n, ast.FunctionDef) and n.name == "add_nodes_from"]
    if len(fns) != 1 or [a.arg for a in fns[0].args.args] != ["self", "nodes_for_adding"] or fns[0].args.kwarg is None \
            or fns[0].args.kwarg.arg != "attr":
        raise TranslationError("DiHypergraph.add_nodes_from not found or unexpected parameters")
    body = [s for s in fns[0].body if not (isinstance(s, ast.Expr) and isinstance(s.value, ast.Constant))]
    if not (len(body) == 1 and isinstance(body[0], ast.For) and isinstance(body[0].target, ast.Name) and body[0].target.id == "n"
            and ast.unparse(body[0].iter) == "nodes_for_adding" and not body[0].orelse and body[0].body
            and ast.unparse(body[0].body[0]) == DECODE_NODE_ITEM):
        raise TranslationError("DiHypergraph.add_nodes_from: loop or decoding of the item not understood")
    m = M([], [], "newdict")
    m.loops = ["n"]
    m.abbrev = {"newnode": ast.parse("n not in self._node", mode="eval").body}
    return [f"Definition dsrc_add_nodes_from_item : list dstmt :=\n  {m.block(body[0].body[1:])}.\n"]


def translate_add_edge(cls):
    """add_edge(self, members, idx=None, **attr): the decoding of `members`, guards, the uid binding, guards, statements"""
    fns = [n for n in cls.body if isinstance(n, ast.FunctionDef) and n.name == "add_edge"]
    if len(fns) != 1:
        raise TranslationError("DiHypergraph.add_edge not found")
    f = fns[0]
    if [a.arg for a in f.args.args] != ["self", "members", "idx"] or len(f.args.defaults) != 1 \
            or ast.unparse(f.args.defaults[0]) != "None" or f.args.kwarg is None or f.args.vararg or f.args.kwonlyargs:
        raise TranslationError("DiHypergraph.add_edge: unexpected parameters")
    body = [s for s in f.body if not (isinstance(s, ast.Expr) and isinstance(s.value, ast.Constant))]
    want = ("if isinstance(members, (tuple, list)):\n    tail = list(members[0])\n    head = list(members[1])\nelse:\n"
            "    raise XGIError('Directed edge must be a list or tuple!')")
    if not body or ast.unparse(body[0]) != want:
        raise TranslationError("DiHypergraph.add_edge: expected the decoding of `members` into tail and head first")
    m = M([], [], f.args.kwarg.arg, idx="idx", tail="tail", head="head")
    gs1, rest = m.guards(body[1:])
    if not rest or ast.unparse(rest[0]) != "uid = next(self._edge_uid) if idx is None else idx":
        raise TranslationError("DiHypergraph.add_edge: expected the uid binding after the first guards")
    m.uid = "uid"
    gs2, rest = m.guards(rest[1:])
    return [f"Definition dsrc_add_edge_guards1 : list (dbexp * guard_action) :=\n  [{'; '.join(gs1)}].\n",
            f"Definition dsrc_add_edge_guards2 : list (dbexp * guard_action) :=\n  [{'; '.join(gs2)}].\n",
            f"Definition dsrc_add_edge : list dstmt :=\n  {m.block(rest)}.\n"]


def regenerate():
    defs = translate()
    os.makedirs(GEN, exist_ok=True)
    text = ("(* GENERATED by harness/translate_dimutators.py from xgi/core/dihypergraph.py (add_node, add_node_to_edge, remove_edge, "
            "remove_edges_from, remove_node_from_edge, clear, add_edge, remove_node, the items of add_edges_from and remove_nodes_from) - do not edit. *)\n"
            "From Coq Require Import List.\nFrom XV Require Import Base.Outcome Model.PyIR Model.PyIRD.\nImport ListNotations.\n\n" + "\n".join(defs))
    p = os.path.join(GEN, "DiMutators.v")
    if not os.path.exists(p) or open(p).read() != text:
        open(p, "w").write(text)
    return defs
