(* C05 for simplicial complexes: add_simplex adds exactly the simplex and its faces of two or more nodes. *)
From Coq Require Import String ZArith List Bool Lia.
From XV Require Import Base.Label Base.LSet Base.ODict Base.Attr Base.Outcome Model.Hypergraph Model.SimplicialComplex
     Proofs.HgViews Proofs.HgInv Proofs.HgInvOps Proofs.ScTables Proofs.Combs Proofs.ScInv.
Import ListNotations.
Open Scope Z_scope.

Lemma add_face_Inv nh s g : Inv s -> Inv (add_face nh s g).
Proof.
  intro I. unfold add_face. destruct g as [|x g']; [exact I|]. destruct (has_simplex s (x :: g')); [exact I|].
  apply Inv_insert_auto. exact I.
Qed.

(* one face: nothing but (a set equal to) that face is added *)
Lemma add_face_only nh s g x : Inv s -> HasS (add_face nh s g) x -> HasS s x \/ seteq x g.
Proof.
  intros I H. unfold add_face in H. destruct g as [|y g']; [left; exact H|]. set (g := y :: g') in *.
  destruct (has_simplex s g); [left; exact H|].
  set (e := LInt (h_uid s)) in *. set (s0 := with_uid s (h_uid s + 1)) in *.
  assert (Hne : ~ In e (ekeys s0)) by (apply auto_id_fresh_aux; exact I).
  destruct (insert_edge_Ext e (order_by nh g) [] s0 Hne) as (M & HM & _ & X).
  assert (X' : Ext s (insert_edge e (order_by nh g) [] s0) e M) by exact X.
  destruct H as (e' & m & Hx & Sq). apply (Ext_Sx s _ e M e' m X') in Hx. destruct Hx as [[_ ->]|[_ Hx]].
  - right. eapply seteq_trans; [exact Sq|]. eapply seteq_trans; [exact HM|apply order_by_seteq].
  - left. exists e', m. split; assumption.
Qed.

Lemma add_faces_fold_only nh : forall L s x, Inv s -> HasS (fold_left (add_face nh) L s) x -> HasS s x \/ exists l, In l L /\ seteq x l.
Proof.
  induction L as [|g L IH]; intros s x I H; cbn [fold_left] in H; [left; exact H|].
  destruct (IH (add_face nh s g) x (add_face_Inv nh s g I) H) as [H1|(l & Hl & Sq)].
  - destruct (add_face_only nh s g x I H1) as [A|B]; [left; exact A|right; exists g; split; [left; reflexivity|exact B]].
  - right. exists l. split; [right; exact Hl|exact Sq].
Qed.

(* the state after the main simplex has been stored and its sub-faces added *)
Lemma main_then_faces_exact s s1 e M ms hint :
  Work s [] -> Ext s s1 e M -> seteq M ms -> NoDup M -> NoDup ms -> ms <> [] -> ~ HasS s ms -> Inv s1 ->
  let t := add_faces (subfaces ms) hint s1 in
  SInv t /\ forall x, HasS t x <-> HasS s x \/ seteq x ms \/ exists g, seteq x g /\ Face g ms.
Proof.
  intros (I & U & N & P) X HM NDM NDms Hne Hn I1. cbv zeta.
  destruct (main_added s s1 e M ms [] X HM NDM U N P Hne Hn) as (U1 & N1 & P1 & Mono1). cbn [app] in P1.
  destruct (add_faces_closed (subfaces ms) hint s1 I1 U1 N1 P1) as [SI Mono2]. cbv zeta in SI, Mono2.
  split; [exact SI|]. intro x. split.
  - intro H. unfold add_faces in H.
    destruct (add_faces_fold_only (snd hint) (order_faces (subfaces ms) (fst hint)) s1 x I1 H) as [H1|(l & Hl & Sq)].
    + destruct H1 as (e' & m & Hx & Sq). apply (Ext_Sx s s1 e M e' m X) in Hx. destruct Hx as [[_ ->]|[_ Hx]].
      * right. left. eapply seteq_trans; [exact Sq|exact HM].
      * left. exists e', m. split; assumption.
    + right. right. destruct (order_faces_sound _ _ l Hl) as (g & Hg & Sg). exists g. split; [eapply seteq_trans; eassumption|].
      destruct (subfaces_sound ms g Hg) as [Sub Len]. split; [|split; [exact Sub|lia]].
      unfold subfaces in Hg. apply in_flat_map in Hg. destruct Hg as (k & _ & Hc). apply (combs_NoDup ms NDms k g Hc).
  - assert (Main : HasS (add_faces (subfaces ms) hint s1) ms).
    { apply Mono2. apply (Ext_HasS_new s s1 e M ms X). apply seteq_sym. exact HM. }
    intros [H|[H|(g & Sq & Hf)]].
    + apply Mono2. apply Mono1. exact H.
    + apply (HasS_seteq _ x ms H Main).
    + apply (HasS_seteq _ x g Sq). destruct Main as (e' & m & Hx & Sm). destruct SI as (_ & C & _).
      apply (C e' m g Hx). apply (Face_seteq g ms m); [intros y Hy; apply Sm; exact Hy|exact Hf].
Qed.

(* THE EFFECT of add_simplex when the simplex is new, its members are not None and the id (if given) is free:
   afterwards the complex holds exactly what it held before, the simplex, and the sub-faces of the simplex with
   two or more nodes - nothing else; and it still satisfies the class invariant *)
Theorem add_simplex_exact ms idx a hint s : SInv s ->
  existsb is_none (mkset ms) = false -> mkset ms <> [] -> ~ HasS s (mkset ms) ->
  (forall i, idx = Some i -> has i (h_edge s) = false) ->
  let t := st_of (add_simplex ms idx a hint s) in
  SInv t /\ forall x, HasS t x <-> HasS s x \/ seteq x (mkset ms) \/ exists g, seteq x g /\ Face g (mkset ms).
Proof.
  intros SI Hnn Hne Hn Hid. cbv zeta. pose proof (SInv_Work s SI) as W. pose proof W as (I & U & N & P).
  pose proof I as (_ & (_ & _ & _ & K4) & _).
  assert (Hh : has_simplex s (mkset ms) = false).
  { destruct (has_simplex s (mkset ms)) eqn:E; [|reflexivity]. exfalso. apply Hn. apply (has_simplex_spec s _ K4). exact E. }
  unfold add_simplex. cbv zeta. rewrite Hnn, Hh.
  assert (Em : (match mkset ms with [] => true | _ :: _ => false end) = false) by (destruct (mkset ms); [congruence|reflexivity]).
  rewrite Em. cbn [orb].
  assert (Auto : forall s0 e, s0 = with_uid s (h_uid s + 1) -> e = LInt (h_uid s) ->
            let t := add_faces (subfaces (mkset ms)) hint (bump_uid e (insert_edge e (mkset ms) a s0)) in
            SInv t /\ forall x, HasS t x <-> HasS s x \/ seteq x (mkset ms) \/ exists g, seteq x g /\ Face g (mkset ms)).
  { intros s0 e -> ->. set (e := LInt (h_uid s)). set (s0 := with_uid s (h_uid s + 1)).
    assert (Hne' : ~ In e (ekeys s0)) by (apply auto_id_fresh_aux; exact I).
    destruct (insert_edge_Ext e (mkset ms) a s0 Hne') as (M & HM & NDM & X).
    assert (X' : Ext s (bump_uid e (insert_edge e (mkset ms) a s0)) e M).
    { apply (Ext_same_edges s (insert_edge e (mkset ms) a s0)); [exact X|apply bump_uid_edge]. }
    apply (main_then_faces_exact s _ e M (mkset ms) hint W X' HM NDM (NoDup_mkset ms) Hne Hn).
    apply Inv_bump. apply Inv_insert_auto. exact I. }
  destruct idx as [i|].
  - rewrite (Hid i eq_refl). rewrite st_of_ok. destruct (falsy i).
    + apply (Auto _ _ eq_refl eq_refl).
    + assert (Hne' : ~ In i (ekeys s)) by (apply has_false_nin; apply Hid; reflexivity).
      destruct (insert_edge_Ext i (mkset ms) a s Hne') as (M & HM & NDM & X).
      assert (X' : Ext s (bump_uid i (insert_edge i (mkset ms) a s)) i M).
      { apply (Ext_same_edges s (insert_edge i (mkset ms) a s)); [exact X|apply bump_uid_edge]. }
      apply (main_then_faces_exact s _ i M (mkset ms) hint W X' HM NDM (NoDup_mkset ms) Hne Hn).
      apply Inv_insert_explicit; assumption.
  - rewrite st_of_ok. apply (Auto _ _ eq_refl eq_refl).
Qed.
