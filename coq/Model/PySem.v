(* The meaning, on the model's label universe, of the Python expressions the source translators emit
   (harness/translate_uid.py). *)
From Coq Require Import ZArith Bool.
From XV Require Import Base.Label.
Open Scope Z_scope.

Definition is_str (x : lbl) : bool := match x with LStr _ => true | _ => false end.
Definition is_tup (x : lbl) : bool := match x with LTup _ => true | _ => false end.
(* float(x).is_integer(): ids that are integers (whole floats and numpy integers are the same dict keys) *)
Definition float_is_integer (x : lbl) : bool := match x with LInt _ => true | _ => false end.
(* x in a numeric position, int(x) *)
Definition num (x : lbl) : Z := match x with LInt z => z | _ => 0 end.

(* optional arguments (None / given), as read by harness/translate_stats.py *)
From Coq Require Import String.
Definition given {A} (o : option A) : bool := match o with Some _ => true | None => false end.
Definition zval (o : option Z) : Z := match o with Some z => z | None => 0 end.
Definition sval (o : option string) : string := match o with Some x => x | None => EmptyString end.
(* a condition summed as a number *)
Definition pyb2z (b : bool) : Z := if b then 1 else 0.
