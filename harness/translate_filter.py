"""Fail-closed translator of the comparison modes of IDView.filterby / IDView.filterby_attr (xgi/core/views.py)
into Gallina (coq/Gen/FilterModes.v).  `Props/C06.v` proves that the model's `fcmp` is this function for every mode.

Accepted shape, for each of the two methods: an `if mode == "<name>": ... elif ...` chain whose branches are
    bunch = [<i> for <i> in self if <cond>]
with <cond> ::= <cond> and <cond> | values[<i>] is not None | <e> (<|<=|>|>=|==|!=) <e> [ (<|<=|...) <e> ]
     <e>    ::= values[<i>] | val | val[0] | val[1]
followed by an optional `elif callable(mode)` branch (a user function: outside the model) and a final `else: raise`.
`values[i]` is the statistic / attribute value x, `val` (or `val[0]`) the comparison value v, `val[1]` the upper bound
of 'between'; `values[i] is not None` is true of the integer values the model's `fcmp` is applied to."""
import ast, os
from . import common as C

GEN = os.path.join(C.COQ, "Gen")
_CMP = {ast.LtE: "Z.leb", ast.Lt: "Z.ltb", ast.GtE: "Z.geb", ast.Gt: "Z.gtb", ast.Eq: "Z.eqb"}


class TranslationError(Exception):
    pass


def _e(e, var):
    if isinstance(e, ast.Subscript) and isinstance(e.value, ast.Name) and e.value.id == "values" \
            and isinstance(e.slice, ast.Name) and e.slice.id == var:
        return "x"
    if isinstance(e, ast.Name) and e.id == "val":
        return "v"
    if isinstance(e, ast.Subscript) and isinstance(e.value, ast.Name) and e.value.id == "val" \
            and isinstance(e.slice, ast.Constant) and e.slice.value in (0, 1):
        return "v" if e.slice.value == 0 else "hi"
    raise TranslationError(f"operand not understood: {ast.unparse(e)}")


def _cond(c, var):
    if isinstance(c, ast.BoolOp) and isinstance(c.op, ast.And):
        parts = [_cond(v, var) for v in c.values]
        out = parts[-1]
        for p in reversed(parts[:-1]):
            out = f"(andb {p} {out})"
        return out
    if isinstance(c, ast.Compare):
        if len(c.ops) == 1 and isinstance(c.ops[0], ast.IsNot) and isinstance(c.comparators[0], ast.Constant) \
                and c.comparators[0].value is None and _e(c.left, var) == "x":
            return "true"
        terms, left = [], c.left
        for op, right in zip(c.ops, c.comparators):
            a, b = _e(left, var), _e(right, var)
            if isinstance(op, ast.NotEq):
                terms.append(f"(negb (Z.eqb {a} {b}))")
            elif type(op) in _CMP:
                terms.append(f"({_CMP[type(op)]} {a} {b})")
            else:
                raise TranslationError(f"comparison not understood: {ast.unparse(c)}")
            left = right
        out = terms[-1]
        for p in reversed(terms[:-1]):
            out = f"(andb {p} {out})"
        return out
    raise TranslationError(f"condition not understood: {ast.unparse(c)}")


def _branch(body):
    if len(body) != 1 or not isinstance(body[0], ast.Assign) or ast.unparse(body[0].targets[0]) != "bunch":
        raise TranslationError("branch is not a single `bunch = [...]`")
    lc = body[0].value
    if not (isinstance(lc, ast.ListComp) and len(lc.generators) == 1):
        raise TranslationError("branch is not a list comprehension")
    g = lc.generators[0]
    if not (isinstance(g.target, ast.Name) and isinstance(lc.elt, ast.Name) and lc.elt.id == g.target.id
            and isinstance(g.iter, ast.Name) and g.iter.id == "self" and len(g.ifs) == 1):
        raise TranslationError(f"comprehension not understood: {ast.unparse(lc)}")
    return g.target.id, g.ifs[0]


def _chain(fn):
    chain = [s for s in fn.body if isinstance(s, ast.If) and isinstance(s.test, ast.Compare)
             and ast.unparse(s.test.left) == "mode"]
    if len(chain) != 1:
        raise TranslationError(f"{fn.name}: no single `if mode == ...` chain")
    node, out = chain[0], []
    while True:
        t = node.test
        if isinstance(t, ast.Compare) and ast.unparse(t.left) == "mode" and len(t.ops) == 1 and isinstance(t.ops[0], ast.Eq) \
                and isinstance(t.comparators[0], ast.Constant) and isinstance(t.comparators[0].value, str):
            var, cond = _branch(node.body)
            out.append((t.comparators[0].value, _cond(cond, var)))
        elif ast.unparse(t) == "callable(mode)":
            pass
        else:
            raise TranslationError(f"{fn.name}: test not understood: {ast.unparse(t)}")
        if len(node.orelse) == 1 and isinstance(node.orelse[0], ast.If):
            node = node.orelse[0]
        elif len(node.orelse) == 1 and isinstance(node.orelse[0], ast.Raise):
            break
        else:
            raise TranslationError(f"{fn.name}: the chain does not end in `else: raise`")
    return out


def translate():
    tree = ast.parse(open(os.path.join(C.REPO, "xgi", "core", "views.py")).read())
    cls = [n for n in tree.body if isinstance(n, ast.ClassDef) and n.name == "IDView"]
    if len(cls) != 1:
        raise TranslationError("class IDView not found")
    out = {}
    for name in ("filterby", "filterby_attr"):
        fns = [n for n in cls[0].body if isinstance(n, ast.FunctionDef) and n.name == name]
        if len(fns) != 1:
            raise TranslationError(f"IDView.{name} not found")
        out[name] = _chain(fns[0])
    return out


def regenerate():
    t = translate()
    os.makedirs(GEN, exist_ok=True)
    def defn(name, chain):
        term = "None"
        for mode, cond in reversed(chain):
            term = f'if String.eqb mode "{mode}" then Some {cond}\n  else {term}'
        return f"Definition {name} (mode : string) (x v hi : Z) : option bool :=\n  {term}.\n"
    text = ("(* GENERATED by harness/translate_filter.py from xgi/core/views.py (IDView.filterby, IDView.filterby_attr) - do not edit. *)\n"
            "From Coq Require Import String ZArith Bool.\nOpen Scope Z_scope.\nOpen Scope string_scope.\n\n"
            + defn("src_filterby", t["filterby"]) + "\n" + defn("src_filterby_attr", t["filterby_attr"]))
    p = os.path.join(GEN, "FilterModes.v")
    if not os.path.exists(p) or open(p).read() != text:
        open(p, "w").write(text)
    return t
