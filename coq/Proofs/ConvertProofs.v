(* C10: what the from_* constructions build, for every representation handed to them, and the
   round trips from_X (to_X s) for every state satisfying Inv without None labels. *)
From Coq Require Import String ZArith List Bool Lia.
From XV Require Import Base.Label Base.LSet Base.ODict Base.Attr Base.Outcome Model.Hypergraph Model.HgCheck
     Model.Hodge Model.Matrix Model.Graph Model.Copy Model.DiHypergraph Model.Convert
     Proofs.HgViews Proofs.HgInv Proofs.HgInvOps Proofs.HgStep Proofs.HgKeys Proofs.HgErrors Proofs.ScTables
     Proofs.Build Proofs.DerivedProofs.
Import ListNotations.
Open Scope Z_scope.


(* ---------- one automatically numbered edge ---------- *)
Lemma bulk_auto_effect a s m :
  Inv s -> existsb is_none (mkset m) = false ->
  let i := LInt (h_uid s) in
  let r := bulk_item false a (with_uid s (h_uid s + 1)) m i [] in
  let t := st_of r in
  r = (t, Ok, O) /\ Inv t /\ ekeys t = ekeys s ++ [i] /\ h_uid t = h_uid s + 1 /\
  (exists M, seteq M m /\ NoDup M /\
             forall e', get e' (h_edge t) = if lbl_eqb e' i then Some M else get e' (h_edge s)) /\
  (forall x, In x (nkeys t) <-> In x m \/ In x (nkeys s)).
Proof.
  intros I Hn. cbv zeta.
  pose proof (Inv_bulk_auto a s m [] I) as It.
  pose proof I as (Hw & Hk & Hv & Hu).
  set (s0 := with_uid s (h_uid s + 1)).
  assert (Hne : ~ In (LInt (h_uid s)) (ekeys s0)).
  { intro Hi. specialize (Hu (LInt (h_uid s)) (h_uid s) Hi eq_refl). lia. }
  assert (Hhas : has (LInt (h_uid s)) (h_edge s0) = false) by (apply has_nIn; exact Hne).
  revert It. unfold bulk_item. fold s0. rewrite Hhas, Hn. cbn [is_none]. cbv iota. intro It.
  rewrite st_of_ok in It |- *.
  assert (Hw0 : W1 s0) by exact Hw. assert (Hk0 : KWF s0) by exact Hk. assert (Hv0 : VND s0) by exact Hv.
  destruct (insert_edge_spec (LInt (h_uid s)) m (aupdate a []) s0 Hne Hw0 Hk0 Hv0) as (_ & _ & _ & Ek & Eu & _).
  destruct (insert_edge_get (LInt (h_uid s)) m (aupdate a []) s0) as (M & HM & NDM & GM).
  split; [reflexivity|]. split; [exact It|]. split; [exact Ek|]. split; [exact Eu|]. split.
  - exists M. split; [exact HM|]. split; [exact NDM|exact GM].
  - intro x. exact (insert_edge_nkeys (LInt (h_uid s)) m (aupdate a []) s0 x).
Qed.

Definition auto_step (a : attrs) (s : hg) (members : list lbl) : res :=
  bulk_item false a (with_uid s (h_uid s + 1)) members (LInt (h_uid s)) [].

Lemma auto_loop_effect a : forall l s,
  Inv s -> (forall m, In m l -> existsb is_none (mkset m) = false) ->
  let r := loop (auto_step a) l s in
  let t := st_of r in
  out_of r = Ok /\ Inv t /\
  ekeys t = ekeys s ++ map (fun j => LInt (h_uid s + Z.of_nat j)) (seq 0 (length l)) /\
  h_uid t = h_uid s + Z.of_nat (length l) /\
  (forall j, (j < length l)%nat -> seteq (mems t (LInt (h_uid s + Z.of_nat j))) (nth j l [])) /\
  (forall e, In e (ekeys s) -> get e (h_edge t) = get e (h_edge s)) /\
  (forall x, In x (nkeys t) <-> In x (nkeys s) \/ exists m, In m l /\ In x m).
Proof.
  induction l as [|m l IH]; intros s I Hn; cbv zeta.
  - cbn [loop length seq map]. rewrite st_of_ok, app_nil_r. unfold out_of, ok. cbn [fst snd].
    split; [reflexivity|]. split; [exact I|]. split; [reflexivity|]. split; [lia|].
    split; [intros j Hj; simpl in Hj; lia|]. split; [reflexivity|].
    intro x. split; [auto|]. intros [H|(m & [] & _)]. exact H.
  - destruct (bulk_auto_effect a s m I (Hn m (or_introl eq_refl))) as (Er & I1 & K1 & U1 & (M & HM & NDM & GM) & N1).
    set (s1 := st_of (bulk_item false a (with_uid s (h_uid s + 1)) m (LInt (h_uid s)) [])) in *.
    destruct (loop_cons_ok (auto_step a) m l s s1 O Er) as [Est Eout].
    rewrite Est, Eout.
    destruct (IH s1 I1 (fun m' Hm' => Hn m' (or_intror Hm'))) as (O2 & I2 & K2 & U2 & M2 & P2 & N2).
    split; [exact O2|]. split; [exact I2|].
    assert (Hi1 : In (LInt (h_uid s)) (ekeys s1)) by (rewrite K1; apply in_app_iff; right; left; reflexivity).
    split.
    { rewrite K2, K1, U1. cbn [length]. rewrite <- app_assoc. f_equal. cbn [seq map app]. f_equal.
      - f_equal. lia.
      - rewrite <- seq_shift, map_map. apply map_ext. intro j. f_equal. lia. }
    split; [rewrite U2, U1; cbn [length]; lia|].
    split.
    { intros [|j] Hj.
      - cbn [nth]. replace (h_uid s + Z.of_nat 0) with (h_uid s) by lia.
        unfold mems, getl. rewrite (P2 _ Hi1), GM, lbl_eqb_refl. exact HM.
      - cbn [nth length] in *. replace (h_uid s + Z.of_nat (S j)) with (h_uid s1 + Z.of_nat j) by (rewrite U1; lia).
        apply M2. lia. }
    split.
    { intros e He. rewrite P2 by (rewrite K1; apply in_app_iff; left; exact He).
      rewrite GM. destruct (lbl_eqb_spec e (LInt (h_uid s))) as [->|N]; [|reflexivity].
      exfalso. destruct I as (_ & _ & _ & Hu). specialize (Hu (LInt (h_uid s)) (h_uid s) He eq_refl). lia. }
    intro x. rewrite N2, N1. split.
    + intros [[H|H]|(m' & Hm' & Hx)]; [right; exists m; split; [left; reflexivity|exact H]|left; exact H|].
      right. exists m'. split; [right; exact Hm'|exact Hx].
    + intros [H|(m' & [<-|Hm'] & Hx)]; [left; right; exact H|left; left; exact Hx|].
      right. exists m'. split; assumption.
Qed.

Lemma Inv_members_no_none s kv : Inv s -> NoNone s -> In kv (h_edge s) -> existsb is_none (mkset (snd kv)) = false.
Proof.
  intros I [NN _] Hin. apply no_none_members. intro Hx.
  apply NN. destruct kv as [e ms]. cbn [snd] in Hx.
  assert (Em : mems s e = ms).
  { destruct I as (_ & (_ & _ & _ & Ke) & _). unfold mems, getl. rewrite (In_get _ _ _ Ke Hin). reflexivity. }
  apply (members_are_nodes s e LNone I). rewrite Em. exact Hx.
Qed.

(* from_hyperedge_list(to_hyperedge_list(H)): the same member sets in the same order, under ids 0, 1, ... *)
Theorem hyperedge_list_roundtrip s : Inv s -> NoNone s ->
  let r := from_hyperedge_list (to_hyperedge_list s) in
  let t := st_of r in
  out_of r = Ok /\ Inv t /\
  ekeys t = map (fun j => LInt (Z.of_nat j)) (seq 0 (length (h_edge s))) /\
  (forall j, (j < length (h_edge s))%nat -> seteq (mems t (LInt (Z.of_nat j))) (snd (nth j (h_edge s) (LNone, [])))) /\
  (forall x, In x (nkeys t) <-> exists e, In x (mems s e)).
Proof.
  intros I NN. cbv zeta. unfold from_hyperedge_list, to_hyperedge_list. cbn [add_edges_from].
  change (loop _ (map snd (h_edge s)) hg_empty) with (loop (auto_step []) (map snd (h_edge s)) hg_empty).
  destruct (auto_loop_effect [] (map snd (h_edge s)) hg_empty Inv_empty) as (O1 & I1 & K1 & _ & M1 & _ & N1).
  { intros m Hm. apply in_map_iff in Hm. destruct Hm as (kv & <- & Hkv). apply (Inv_members_no_none s kv I NN Hkv). }
  rewrite map_length in *. cbn [h_uid hg_empty ekeys h_edge keys map app] in K1.
  split; [exact O1|]. split; [exact I1|]. split; [exact K1|]. split.
  - intros j Hj. specialize (M1 j Hj). cbn [h_uid hg_empty] in M1.
    replace (0 + Z.of_nat j) with (Z.of_nat j) in M1 by lia.
    rewrite (nth_indep _ [] (snd (LNone, @nil lbl))) in M1 by (rewrite map_length; exact Hj).
    rewrite map_nth in M1. exact M1.
  - intro x. rewrite N1. cbn [nkeys hg_empty h_node keys map]. split.
    + intros [[]|(m & Hm & Hx)]. apply in_map_iff in Hm. destruct Hm as ([e ms] & <- & Hkv). exists e.
      destruct I as (_ & (_ & _ & _ & Ke) & _). unfold mems, getl. rewrite (In_get _ _ _ Ke Hkv). exact Hx.
    + intros (e & Hx). right. unfold mems, getl in Hx. destruct (get e (h_edge s)) as [ms|] eqn:G; [|destruct Hx].
      exists ms. split; [|exact Hx]. apply in_map_iff. exists (e, ms). split; [reflexivity|apply get_In; exact G].
Qed.

(* ---------- hyperedge dict ---------- *)
Lemma loop_map {A B} (f : hg -> B -> res) (g : A -> B) l : forall s, loop f (map g l) s = loop (fun s x => f s (g x)) l s.
Proof.
  induction l as [|x l IH]; intro s; [reflexivity|]. cbn [map loop].
  destruct (f s (g x)) as [[s1 o] w]. destruct o; [rewrite IH; reflexivity|reflexivity].
Qed.

Lemma loop_ext {A} (f g : hg -> A -> res) l : (forall s x, f s x = g s x) -> forall s, loop f l s = loop g l s.
Proof.
  intro H. induction l as [|x l IH]; intro s; [reflexivity|]. cbn [loop]. rewrite H.
  destruct (g s x) as [[s1 o] w]. destruct o; [rewrite IH; reflexivity|reflexivity].
Qed.

Lemma eb2_as_eb4 (l : list (list lbl * lbl)) a s :
  add_edges_from (EB2 l) a s = add_edges_from (EB4 (map (fun mi => (fst mi, snd mi, [])) l)) a s.
Proof.
  cbn [add_edges_from]. rewrite loop_map. apply loop_ext. intros s' [m i]. reflexivity.
Qed.

(* from_hyperedge_dict(to_hyperedge_dict(H)): the same edge labels in the same order with the same members *)
Theorem hyperedge_dict_roundtrip s : Inv s -> NoNone s ->
  let r := from_hyperedge_dict (to_hyperedge_dict s) in
  let t := st_of r in
  out_of r = Ok /\ Inv t /\ ekeys t = ekeys s /\
  (forall e, In e (ekeys s) -> seteq (mems t e) (mems s e)) /\
  (forall x, In x (nkeys t) <-> exists e, In x (mems s e)).
Proof.
  intros I NN. cbv zeta. unfold from_hyperedge_dict, to_hyperedge_dict. rewrite eb2_as_eb4, map_map.
  set (L := map (fun x : lbl * list lbl => (fst (snd x, fst x), snd (snd x, fst x), @nil (string * aval))) (h_edge s)).
  assert (Hid : map item_id L = ekeys s).
  { unfold L. rewrite map_map. reflexivity. }
  pose proof I as (_ & (_ & _ & _ & Ke) & _).
  destruct (build_edges_effect L [] hg_empty Inv_empty) as (O1 & _ & I1 & K1 & E1 & _ & N1 & _).
  { split; [rewrite Hid; exact Ke|]. intros it Hit. unfold L in Hit. apply in_map_iff in Hit.
    destruct Hit as ([e ms] & <- & Hkv). cbn [fst snd item_id item_ms].
    split; [intros []|]. split.
    - apply is_none_false. intro N. subst e. destruct NN as [_ NE]. apply NE.
      unfold ekeys, keys. apply in_map_iff. exists (LNone, ms). split; [reflexivity|exact Hkv].
    - apply (Inv_members_no_none s (e, ms) I NN Hkv). }
  split; [exact O1|]. split; [exact I1|]. split; [rewrite K1, Hid; reflexivity|]. split.
  - intros e He. unfold ekeys, keys in He. apply in_map_iff in He. destruct He as ([e' ms] & <- & Hkv).
    destruct (E1 (ms, e', [])) as [(M & GM & SM & _) _].
    { unfold L. apply in_map_iff. exists (e', ms). split; [reflexivity|exact Hkv]. }
    cbn [item_id item_ms fst snd] in *. unfold mems, getl. rewrite GM, (In_get _ _ _ Ke Hkv). exact SM.
  - intro x. rewrite N1. cbn [nkeys hg_empty h_node keys map]. split.
    + intros [[]|(it & Hit & Hx)]. unfold L in Hit. apply in_map_iff in Hit. destruct Hit as ([e ms] & <- & Hkv).
      cbn [item_ms fst snd] in Hx. exists e. unfold mems, getl. rewrite (In_get _ _ _ Ke Hkv). exact Hx.
    + intros (e & Hx). right. unfold mems, getl in Hx. destruct (get e (h_edge s)) as [ms|] eqn:G; [|destruct Hx].
      exists (ms, e, []). split; [|exact Hx]. unfold L. apply in_map_iff. exists (e, ms). split; [reflexivity|apply get_In; exact G].
Qed.

(* ---------- (node, edge) pairs ---------- *)
Lemma add_node_to_edge_mems e n s : e <> LNone -> n <> LNone ->
  let r := add_node_to_edge e n s in
  let t := st_of r in
  r = (t, Ok, O) /\ forall y x, In x (mems t y) <-> (y = e /\ x = n) \/ In x (mems s y).
Proof.
  intros He Hn. cbv zeta. unfold add_node_to_edge.
  rewrite (is_none_false e He), (is_none_false n Hn), !andb_false_r.
  rewrite st_of_ok. split; [reflexivity|].
  set (s1 := if has e (h_edge s) then s else _).
  assert (E1 : forall y, mems s1 y = mems s y).
  { intro y. unfold s1. destruct (has e (h_edge s)) eqn:E; [reflexivity|].
    destruct (bump_uid_tables e (with_eattr (with_edge s (set e [] (h_edge s))) (set e [] (h_eattr s)))) as (_ & _ & T & _).
    unfold mems. rewrite T. cbn [h_edge with_eattr with_edge]. rewrite getl_set.
    destruct (lbl_eqb_spec y e) as [->|N]; [|reflexivity].
    symmetry. apply has_false_getl. exact E. }
  intros y x.
  change (mems (node_add n e (edge_add e n (ensure_node n s1))) y) with (mems (edge_add e n (ensure_node n s1)) y).
  rewrite edge_add_mems. unfold mems at 1 2. rewrite ensure_node_edge. fold (mems s1 e). fold (mems s1 y). rewrite !E1.
  destruct (lbl_eqb_spec y e) as [->|N].
  - rewrite In_sadd. split; [intros [->|H]; [left; split; reflexivity|right; exact H]|].
    intros [[_ ->]|H]; [left; reflexivity|right; exact H].
  - split; [intro H; right; exact H|]. intros [[E _]|H]; [contradiction|exact H].
Qed.

Lemma add_pairs_effect : forall l s,
  (forall p, In p l -> fst p <> LNone /\ snd p <> LNone) ->
  let r := add_pairs l s in
  let t := st_of r in
  out_of r = Ok /\ forall y x, In x (mems t y) <-> In (x, y) l \/ In x (mems s y).
Proof.
  induction l as [|[n e] l IH]; intros s Hp; cbv zeta; unfold add_pairs.
  - cbn [loop]. rewrite st_of_ok. split; [reflexivity|]. intros y x. split; [auto|]. intros [[]|H]. exact H.
  - destruct (Hp (n, e) (or_introl eq_refl)) as [Hn He]. cbn [fst snd] in Hn, He.
    destruct (add_node_to_edge_mems e n s He Hn) as [Er M1].
    set (s1 := st_of (add_node_to_edge e n s)) in *.
    destruct (loop_cons_ok (fun s ne => add_node_to_edge (snd ne) (fst ne) s) (n, e) l s s1 O Er) as [Est Eout].
    rewrite Est, Eout.
    destruct (IH s1 (fun p Hp' => Hp p (or_intror Hp'))) as [O2 M2]. unfold add_pairs in O2, M2.
    split; [exact O2|]. intros y x. rewrite M2, M1. split.
    + intros [H|[[-> ->]|H]]; [left; right; exact H|left; left; reflexivity|right; exact H].
    + intros [[E|H]|H]; [inversion E; subst; right; left; split; reflexivity|left; exact H|right; right; exact H].
Qed.

Lemma In_bipartite_edgelist s n e : NoDup (ekeys s) ->
  (In (n, e) (to_bipartite_edgelist s) <-> In n (mems s e)).
Proof.
  intro Ke. unfold to_bipartite_edgelist. rewrite in_flat_map. split.
  - intros ([e' ms] & Hkv & H). apply in_map_iff in H. destruct H as (x & E & Hx). inversion E; subst.
    cbn [snd] in Hx. unfold mems, getl. rewrite (In_get _ _ _ Ke Hkv). exact Hx.
  - intro H. unfold mems, getl in H. destruct (get e (h_edge s)) as [ms|] eqn:G; [|destruct H].
    exists (e, ms). split; [apply get_In; exact G|]. apply in_map_iff. exists n. split; [reflexivity|exact H].
Qed.

(* from_bipartite_edgelist(to_bipartite_edgelist(H)) has exactly the incidences of H, under the same labels *)
Theorem bipartite_edgelist_roundtrip s : Inv s -> NoNone s -> to_bipartite_edgelist s <> [] ->
  let r := from_bipartite_edgelist (to_bipartite_edgelist s) in
  let t := st_of r in
  out_of r = Ok /\ forall n e, In n (mems t e) <-> In n (mems s e).
Proof.
  intros I NN Hne. cbv zeta. unfold from_bipartite_edgelist.
  destruct (to_bipartite_edgelist s) as [|p l] eqn:El; [congruence|]. rewrite <- El.
  pose proof I as (_ & (_ & _ & _ & Ke) & _).
  destruct (add_pairs_effect (to_bipartite_edgelist s) hg_empty) as [O1 M1].
  { intros [n e] Hp. apply (In_bipartite_edgelist s n e Ke) in Hp. cbn [fst snd]. destruct NN as [NNn NNe]. split.
    - intro N. subst n. apply NNn. apply (members_are_nodes s e LNone I Hp).
    - intro N. subst e. apply NNe. unfold mems, getl in Hp. destruct (get LNone (h_edge s)) eqn:G; [|destruct Hp].
      apply get_Some_In in G. exact G. }
  split; [exact O1|]. intros n e. rewrite M1. rewrite (In_bipartite_edgelist s n e Ke).
  split; [intros [H|[]]; exact H|auto].
Qed.

(* the two-column dataframe lists the same incidences, node-major *)
Theorem dataframe_lists_incidences s n e : W1 s -> NoDup (nkeys s) ->
  (In (n, e) (to_dataframe s) <-> In n (mems s e)).
Proof.
  intros HW Kn. unfold to_dataframe. rewrite in_flat_map. split.
  - intros ([n' es] & Hkv & H). apply in_map_iff in H. destruct H as (x & E & Hx). inversion E; subst.
    cbn [snd] in Hx. apply HW. unfold mships, getl. rewrite (In_get _ _ _ Kn Hkv). exact Hx.
  - intro H. apply HW in H. unfold mships, getl in H. destruct (get n (h_node s)) as [es|] eqn:G; [|destruct H].
    exists (n, es). split; [apply get_In; exact G|]. apply in_map_iff. exists e. split; [reflexivity|exact H].
Qed.

Theorem dataframe_roundtrip s : Inv s -> NoNone s ->
  let r := from_dataframe (to_dataframe s) in
  let t := st_of r in
  out_of r = Ok /\ forall n e, In n (mems t e) <-> In n (mems s e).
Proof.
  intros I NN. cbv zeta. unfold from_dataframe.
  pose proof I as (HW & (_ & _ & Kn & Ke) & _).
  destruct (add_pairs_effect (to_dataframe s) hg_empty) as [O1 M1].
  { intros [n e] Hp. apply (dataframe_lists_incidences s n e HW Kn) in Hp. cbn [fst snd]. destruct NN as [NNn NNe]. split.
    - intro N. subst n. apply NNn. apply (members_are_nodes s e LNone I Hp).
    - intro N. subst e. apply NNe. unfold mems, getl in Hp. destruct (get LNone (h_edge s)) eqn:G; [|destruct Hp].
      apply get_Some_In in G. exact G. }
  split; [exact O1|]. intros n e. rewrite M1. rewrite (dataframe_lists_incidences s n e HW Kn).
  split; [intros [H|[]]; exact H|auto].
Qed.
