(* C05 / C03: close() changes nothing on a complex that satisfies the class invariant (it is already closed). *)
From Coq Require Import String ZArith List Bool Lia.
From XV Require Import Base.Label Base.LSet Base.ODict Base.Attr Base.Outcome Model.Hypergraph Model.SimplicialComplex
     Proofs.HgViews Proofs.HgInv Proofs.HgInvOps Proofs.ScTables Proofs.Combs Proofs.ScInv Proofs.HgErrors Proofs.DerivedProofs Proofs.EditDistance Proofs.CleanupProofs.
Import ListNotations.
Open Scope Z_scope.

Lemma sloop_all_present (s : hg) a : forall fs faces w,
  (forall f, In f fs -> existsb is_none f = false /\ has_simplex s f = true) ->
  sloop (fun s ms => bulk_simplex true None a s ms LNone []) fs s faces w = (s, faces, Ok, w).
Proof.
  induction fs as [|f fs IH]; intros faces w H; cbn [sloop]; [reflexivity|].
  destruct (H f (or_introl eq_refl)) as [H1 H2]. unfold bulk_simplex at 1. rewrite H1, H2, orb_true_r.
  rewrite IH by (intros g Hg; apply H; right; exact Hg). rewrite app_nil_r, Nat.add_0_r. reflexivity.
Qed.

Lemma order_faces_nil hint : order_faces [] hint = [].
Proof.
  unfold order_faces. cbn [dedup_sets filter app]. rewrite app_nil_r.
  induction (dedup_sets hint) as [|h l IH]; [reflexivity|]. cbn [filter]. exact IH.
Qed.

Lemma no_none_sub (f : list lbl) : ~ In LNone f -> existsb is_none f = false.
Proof.
  intro H. destruct (existsb is_none f) eqn:E; [|reflexivity]. exfalso. apply existsb_exists in E. destruct E as (x & Hx & Nx).
  destruct x; try discriminate Nx. contradiction.
Qed.

Theorem close_noop hint s : SInv s -> NoNone s -> close hint s = ok s.
Proof.
  intros (I & C & U & N) (NMn & _). unfold close.
  pose proof I as (_ & (_ & _ & _ & K4) & (_ & Vm) & _).
  assert (G : forall l, (forall ms, In ms l -> In ms (vals (h_edge s))) ->
     loop (fun s ms => match ms with [] => ok s | _ => match subfaces ms with [] => ok s | fs => add_simplices_from (EB1 fs) None [] hint s end end) l s = ok s).
  { induction l as [|ms l IH]; intro Hl; [reflexivity|]. cbn [loop].
    assert (Step : match ms with [] => ok s | _ => match subfaces ms with [] => ok s | fs => add_simplices_from (EB1 fs) None [] hint s end end = ok s).
    { destruct ms as [|x ms']; [reflexivity|]. set (m := x :: ms') in *.
      destruct (subfaces m) as [|f0 fs0] eqn:Ef; [reflexivity|]. rewrite <- Ef.
      assert (Hm : In m (vals (h_edge s))) by (apply Hl; left; reflexivity).
      unfold vals in Hm. apply in_map_iff in Hm. destruct Hm as ([e m'] & Em & Hin). cbn [snd] in Em. subst m'.
      assert (Sxm : Sx s e m) by (apply (get_In_NoDup e m (h_edge s) K4 Hin)).
      assert (NDm : NoDup m) by (rewrite <- (mems_get s e m Sxm); apply Vm).
      assert (All : forall f, In f (subfaces m) -> existsb is_none f = false /\ has_simplex s f = true).
      { intros f Hf. destruct (subfaces_sound m f Hf) as [Sub Len]. split.
        - apply no_none_sub. intro Hn. apply NMn. apply (members_are_nodes s e LNone I). rewrite (mems_get s e m Sxm). apply Sub. exact Hn.
        - apply (has_simplex_spec s f K4). apply (C e m f Sxm). split; [|split; [exact Sub|lia]].
          unfold subfaces in Hf. apply in_flat_map in Hf. destruct Hf as (k & _ & Hc). apply (combs_NoDup m NDm k f Hc). }
      unfold add_simplices_from.
      assert (Hd : match subfaces m with [] :: _ => False | _ => True end).
      { rewrite Ef. destruct f0; [|exact Logic.I]. assert (H0 : In [] (subfaces m)) by (rewrite Ef; left; reflexivity).
        destruct (subfaces_sound m [] H0) as [_ L]. cbn [length] in L. lia. }
      destruct (subfaces m) as [|[|y f1] r] eqn:E2; [discriminate Ef|destruct Hd|].
      rewrite <- E2 in *. rewrite (sloop_all_present s [] (subfaces m) [] O All). unfold finish, add_faces. cbn [fst snd]. rewrite order_faces_nil. reflexivity. }
    rewrite Step. unfold ok at 1. rewrite IH by (intros m Hm; apply Hl; right; exact Hm). reflexivity. }
  apply G. auto.
Qed.
