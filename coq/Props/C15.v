(* C15 - simpliciality measures. *)
From Coq Require Import String ZArith QArith List Bool.
From XV Require Import Base.Label Base.LSet Base.ODict Base.Attr Base.Outcome Model.Hypergraph Model.Hodge
  Model.Simpliciality Proofs.TrieProofs Proofs.SimplicialityMore.
Import ListNotations.

(* the prefix tree answers exactly: is the (sorted) word one of the (sorted) inserted words *)
Theorem C15_trie_search : forall ws w,
  tsearch (build_trie ws) w = existsb (fun w' => lbls_eqb (sort_simplex w) (sort_simplex w')) ws.
Proof. exact trie_search. Qed.
Print Assumptions C15_trie_search.

(* an edge counts as a simplex exactly when each of its subsets of at least min_size nodes is one of
   the edges (compared as sorted words), so the simplicial fraction is the share of eligible edges
   all of whose eligible subsets are edges ... *)
Theorem C15_is_simplex_spec : forall ws e k,
  is_simplex (build_trie ws) e k = true <->
  forall f, In f (subsets_between e k (length e)) -> exists w, In w ws /\ sort_simplex f = sort_simplex w.
Proof. exact is_simplex_spec. Qed.
Print Assumptions C15_is_simplex_spec.

(* ... and lies in [0, 1] whenever it is defined *)
Theorem C15_simplicial_fraction_range : forall k excl s q,
  simplicial_fraction k excl s = Some q -> (0 <= q /\ q <= 1)%Q.
Proof. exact simplicial_fraction_range. Qed.
Print Assumptions C15_simplicial_fraction_range.

Example C15_nonvacuous :
  let s := run [OAddEdgesFrom (EB1 [[LInt 1; LInt 2; LInt 3]; [LInt 1; LInt 2]; [LInt 3; LInt 4]]) []] hg_empty in
  simplicial_edit_distance 2 true false s = Some (2 # 1)%Q /\
  simplicial_fraction 2 true s = Some (0 # 1)%Q /\
  oq_eqb (mean_face_edit_distance 2 true true s) (Some (2 # 3)%Q) = true.
Proof. vm_compute. repeat split. Qed.
Print Assumptions C15_nonvacuous.
