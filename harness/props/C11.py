"""C11 - what is written to disk reads back as the same network."""
import json, os, random, shutil, tempfile, warnings
from .. import common as C, histcheck as HC, gallina as G, hgsim, disim, scsim
from . import base
from .C10 import snap, incid, observe_result, gpairs, ghif

PROP = "C11"
IMPORTS = ("Base.Label Base.Attr Base.Outcome Model.Hypergraph Model.HgCheck Model.DiHypergraph Model.Hodge "
           "Model.Matrix Model.Graph Model.Convert")


def json_label(x):
    return isinstance(x, (int, str)) and not isinstance(x, bool)


def json_value(v):
    return v is None or isinstance(v, (int, str, bool))


def representable(H):
    if not all(json_label(x) for x in list(H.nodes) + list(H.edges)):
        return False
    for view in (H.nodes, H.edges):
        for i in view:
            if not all(isinstance(k, str) and json_value(v) for k, v in view[i].items()):
                return False
    return all(isinstance(k, str) and json_value(v) for k, v in H._net_attr.items())


def homog(H):
    ls = list(H.nodes) + list(H.edges)
    for typ in (int, str):
        if all(type(x) is typ for x in ls):
            return typ
    return None


def text_safe(H, delim):
    labels = [str(x) for x in list(H.nodes) + list(H.edges)]
    if any(l == "" or "#" in l or any(c.isspace() for c in l) for l in labels):
        return False
    return delim is None or not any(delim in l for l in labels)


DELIMS = (None, ",", ";", "|", "\t")


def oracle(H, tmp):
    """write, read back, compare with the network that was written"""
    import xgi
    s = snap(H); kind = s["kind"]
    di = kind == "DiHypergraph"; sc = kind == "SimplicialComplex"
    if not representable(H):
        return None
    p = os.path.join(tmp, "a.json")
    xgi.write_hif(H, p)
    H2 = xgi.read_hif(p)
    s2 = snap(H2)
    if s2 != s:
        return f"write_hif/read_hif of a {kind} changes " + ", ".join(k for k in s if s[k] != s2[k])
    typ = homog(H)
    if typ is int:
        if snap(xgi.read_hif(p, nodetype=int, edgetype=int)) != s:
            return "write_hif/read_hif with int casts changes the network"
        H3 = xgi.read_hif(p, nodetype=int, edgetype=int)
        if not di and not sc:
            new = H3.add_edge([0])
            if H3.num_edges != H.num_edges + 1:
                return "an automatic id collides with an id read from a HIF file"
    # a cast requested on reading applies to every id of the file - nodes in edges, isolated nodes, edges, empty edges alike
    for cast in ((str, float) if typ is int else (str,)):
        if len({cast(x) for x in s["nodes"]}) != len(s["nodes"]) or len({cast(x) for x in s["edges"]}) != len(s["edges"]):
            continue
        m = lambda ms: frozenset(cast(x) for x in ms)   # noqa: E731
        want = dict(kind=kind, nodes={cast(n) for n in s["nodes"]}, nattr={cast(n): a for n, a in s["nattr"].items()},
                    edges={cast(e): ((m(v[0]), m(v[1])) if di else m(v)) for e, v in s["edges"].items()},
                    eattr={cast(e): a for e, a in s["eattr"].items()}, net=s["net"])
        Hc = xgi.read_hif(p, nodetype=cast, edgetype=cast)
        if snap(Hc) != want:
            return f"write_hif/read_hif(nodetype={cast.__name__}, edgetype={cast.__name__}) is not the written {kind} under that cast"
        bad = [x for x in list(Hc.nodes) + list(Hc.edges) if type(x) is not cast]
        if bad:
            return f"read_hif(nodetype={cast.__name__}, edgetype={cast.__name__}) leaves the ids {bad[:4]} uncast"
    for coll in ([H, H], {"x": H, "y": H}):
        d = os.path.join(tmp, "coll"); os.makedirs(d, exist_ok=True)
        try:
            xgi.write_hif_collection(coll, d, "c")
            back = xgi.read_hif_collection(os.path.join(d, "c_collection_information.json"))
            names = [str(i) for i in range(len(coll))] if isinstance(coll, list) else list(coll)
            if list(back) != names or any(snap(back[k]) != s for k in back):
                return "write_hif_collection/read_hif_collection changes a network or the names"
        finally:
            shutil.rmtree(d, ignore_errors=True)
    if kind == "Hypergraph" and typ is not None:
        cast = None if typ is str else int
        xgi.write_json(H, p)
        s2 = snap(xgi.read_json(p, nodetype=cast, edgetype=cast))
        if s2 != s:
            return "write_json/read_json changes " + ", ".join(k for k in s if s[k] != s2[k])
        d = os.path.join(tmp, "coll"); os.makedirs(d, exist_ok=True)
        try:
            xgi.write_json([H, H], d, "c")
            back = xgi.read_json(os.path.join(d, "c_collection_information.json"), nodetype=cast, edgetype=cast)
            if list(back) != ["0", "1"] or any(snap(back[k]) != s for k in back):
                return "write_json/read_json of a collection changes a network"
        finally:
            shutil.rmtree(d, ignore_errors=True)
    if not di and typ is not None:
        cast = None if typ is str else int
        for delim in DELIMS:
            if not text_safe(H, delim):
                continue
            wd = " " if delim is None else delim
            xgi.write_edgelist(H, p, delimiter=wd)
            H2 = xgi.read_edgelist(p, delimiter=delim, nodetype=cast, create_using=xgi.SimplicialComplex if sc else None)
            if not sc:
                if [frozenset(H2.edges.members(e)) for e in H2.edges] != [s["edges"][e] for e in H.edges]:
                    return f"write_edgelist/read_edgelist (delimiter {delim!r}) changes the member sets"
            elif {frozenset(H2.edges.members(e)) for e in H2.edges} != set(s["edges"].values()):
                return f"write_edgelist/read_edgelist of a simplicial complex (delimiter {delim!r}) changes the simplices"
            xgi.write_bipartite_edgelist(H, p, delimiter=wd)
            if incid(H):
                H2 = xgi.read_bipartite_edgelist(p, delimiter=delim, nodetype=cast, edgetype=cast)
                if incid(H2) != incid(H):
                    return f"write/read_bipartite_edgelist (delimiter {delim!r}) changes the incidences"
                if not sc:
                    before = H2.num_edges
                    H2.add_edge([next(iter(H2.nodes))])
                    if H2.num_edges != before + 1:
                        return "an automatic id collides with an id read from a bipartite edge list"
            xgi.write_incidence_matrix(H, p, delimiter=wd)
            I = xgi.incidence_matrix(H, sparse=False)
            if I.shape != (0, 0):
                try:
                    H2 = xgi.read_incidence_matrix(p, delimiter=delim)
                except Exception as e:  # noqa: BLE001
                    return f"read_incidence_matrix raised {type(e).__name__} on a {I.shape[0]} x {I.shape[1]} matrix"
                nodes = list(H.nodes); edges = list(H.edges)
                if {(nodes[n], edges[e]) for n, e in incid(H2)} != incid(H):
                    return "write/read_incidence_matrix changes the incidences"
    return None


def cases_for(H, tmp, rng):
    """file contents parsed independently of xgi, and the networks xgi reads back"""
    import xgi
    cs = []
    p = os.path.join(tmp, "c.json")
    xgi.write_hif(H, p)
    hd = json.load(open(p))
    hd.setdefault("nodes", []); hd.setdefault("edges", []); hd.setdefault("metadata", {})
    cs.append(f"(CTo ToHif (RpHif {ghif(hd)}))")
    cs.append(f"(CFrom (FromHif {ghif(hd)}) {observe_result(lambda: xgi.read_hif(p))})")
    typ = homog(H)
    if typ is not None:
        cast = (lambda x: x) if typ is str else int
        xcast = None if typ is str else int
        delim = rng.choice([d for d in DELIMS if text_safe(H, d)] or [None])
        if text_safe(H, delim):
            wd = " " if delim is None else delim
            xgi.write_edgelist(H, p, delimiter=wd)
            lines = []
            for line in open(p, encoding="utf-8").read().split("\n")[:-1]:
                toks = [t for t in (line.split(wd) if line.strip() else [])]
                lines.append([cast(t) for t in toks])
            gl = G.glist([G.lbls(m) for m in lines])
            cs.append(f"(CTo ToList (RpList {gl}))")
            # add_edge turns each line into set(members) and visits the nodes in the iteration order of that
            # set: the model is given the members in that order (same process, same hash seed)
            gl_iter = G.glist([G.lbls(list(set(m))) for m in lines])
            cs.append(f"(CFrom (FromEdgeLines {gl_iter}) {observe_result(lambda: xgi.read_edgelist(p, delimiter=delim, nodetype=xcast))})")
            xgi.write_bipartite_edgelist(H, p, delimiter=wd)
            pairs = []
            for line in open(p, encoding="utf-8").read().split("\n")[:-1]:
                a, b = line.split(wd)
                pairs.append((cast(a), cast(b)))
            cs.append(f"(CTo ToBip (RpPairs {gpairs(pairs)}))")
            cs.append(f"(CFrom (FromFrame {gpairs(pairs)}) "
                      f"{observe_result(lambda: xgi.read_bipartite_edgelist(p, delimiter=delim, nodetype=xcast, edgetype=xcast))})")
            I = xgi.incidence_matrix(H, sparse=False)
            if I.shape != (0, 0):
                xgi.write_incidence_matrix(H, p, delimiter=wd)
                rows = [[int(float(t)) for t in line.split(wd)] for line in open(p).read().split("\n")[:-1]]
                gm = "[" + "; ".join("[" + "; ".join(G.gZ(x) for x in r) + "]" for r in rows) + "]"
                cs.append(f"(CTo ToMatrix (RpMatrix {gm} {G.lbls(list(H.nodes))} {G.lbls(list(H.edges))}))")
                cs.append(f"(CFrom (FromMatrix {gm} None) {observe_result(lambda: xgi.read_incidence_matrix(p, delimiter=delim))})")
    return cs


def run(v):
    proof = base.proof_stage(v, PROP)
    thorough = C.tier() == "thorough"
    rng = random.Random(C.seed() * 171 + 11)
    n = 800 if thorough else 100
    failures, reports, errors, terms = [], [], [], []
    ncases = 0
    all_recs = []
    kinds = {}
    tmp = tempfile.mkdtemp(prefix="xgi_c11_")
    try:
        for sim, name in ((hgsim, "Hypergraph"), (disim, "DiHypergraph"), (scsim, "SimplicialComplex")):
            recs = HC.gen_histories(sim, n, 9, C.seed() + 110 + len(name), malformed_share=0.0)
            kinds[name] = 0
            for r in recs:
                H = r["net"]
                if r["obs"] and r["obs"][-1].get("broken"):
                    continue
                if not representable(H):
                    continue
                kinds[name] += 1
                all_recs.append(r)
                try:
                    with warnings.catch_warnings():
                        warnings.simplefilter("ignore")
                        d = oracle(H, tmp)
                except Exception as e:  # noqa: BLE001
                    d = f"oracle raised {type(e).__name__}: {e}"
                if d:
                    failures.append((f"{PROP}:{d[:70]}", {"what": d, "class": name, "history": HC.jsonable(r["ops"])}))
                    continue
                if sim is hgsim:
                    try:
                        with warnings.catch_warnings():
                            warnings.simplefilter("ignore")
                            cs = cases_for(H, tmp, rng)
                        opsg = G.glist([hgsim.op_to_gallina(op, ex) for op, ex in zip(r["ops"], r["extras"])])
                        terms.append((len(all_recs) - 1, G.gpair(opsg, G.glist(cs))))
                        ncases += len(cs)
                    except G.Unsupported:
                        pass
    finally:
        shutil.rmtree(tmp, ignore_errors=True)
    cdir = C.cases_dir(PROP)
    files = {}
    for k in range(0, len(terms), 40):
        chunk = terms[k:k + 40]
        path = os.path.join(cdir, f"cases_{PROP}_{k // 40}.v")
        with open(path, "w") as f:
            f.write("From Coq Require Import String ZArith List Bool.\nFrom XV Require Import " + IMPORTS +
                    ".\nImport ListNotations.\nOpen Scope Z_scope.\nDefinition cases : list (list op * list ccase) := [\n" +
                    ";\n".join(t for _, t in chunk) + "\n].\nEval vm_compute in (convert_bad cases).\n")
        files[path] = [i for i, _ in chunk]
    res = C.run_coq_files(files.keys())
    for path, idxs in files.items():
        rc, out = res[path]
        pairs = C.parse_pairs(out) if rc == 0 else None
        if pairs is None:
            errors.append({"file": os.path.basename(path), "rc": rc, "output": out[-1500:]})
            continue
        for ci, qi in pairs[:4]:
            reports.append({"correspondence": "Model.Convert.convert_bad (files)", "case_index": qi,
                            "history": HC.jsonable(all_recs[idxs[ci]]["ops"])})
    C.clean_cases(cdir)
    st = HC.stats(all_recs)
    v.coverage.update({
        "evaluations": ncases,
        "distinct_nontrivial": st.pop("distinct_nontrivial"),
        "rule": "networks of the three classes with JSON-representable labels and attribute values, built by generated "
                "histories; oracle: write_hif/read_hif (with and without int casts, collections as list and dict), "
                "write_json/read_json (+ collection), edge list / bipartite edge list / incidence matrix files for "
                "delimiters ' ' , ; | TAB that occur in no label, in a temporary directory; correspondence (Hypergraph): "
                "the written files, parsed without xgi, equal the model's representations, and the networks read back "
                "equal what the model builds from the file contents; non-trivial = history changes the tables",
        "samples": [HC.jsonable(all_recs[0]["ops"][:3])] if all_recs else [],
        "oracle_evaluations": len(all_recs),
        "per_class": kinds,
        "exhaustive": False,
        **st,
    })
    base.conclude(v, proof, reports, failures, errors)


def replay(payload):
    d = payload.get("detail", payload)
    ops = HC.unjson(d["history"])
    sim = {"Hypergraph": hgsim, "DiHypergraph": disim, "SimplicialComplex": scsim}[d.get("class", "Hypergraph")]
    r = sim.run_history(ops)
    tmp = tempfile.mkdtemp(prefix="xgi_c11_")
    try:
        dsc = oracle(r["net"], tmp)
    finally:
        shutil.rmtree(tmp, ignore_errors=True)
    print("oracle:", dsc or "holds")
    return 1 if dsc else 0
