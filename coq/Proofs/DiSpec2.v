(* C05 / C04 for the directed class: explicit ids and refusals of add_edge. *)
From Coq Require Import String ZArith List Bool Lia.
From XV Require Import Base.Label Base.LSet Base.ODict Base.Attr Base.Outcome Model.Hypergraph Model.DiHypergraph
     Proofs.HgViews Proofs.HgInv Proofs.ScTables Proofs.DiSpec.
Import ListNotations.
Open Scope Z_scope.

(* an explicit id that is already present: a warning, and the network is unchanged *)
Theorem d_add_edge_dup_refused tl hd i a d : has_none tl = false -> has_none hd = false ->
  has i (h_edge (ts d)) = true -> d_add_edge tl hd (Some i) a d = dwarn1 d.
Proof. intros N1 N2 Hi. unfold d_add_edge. rewrite N1, N2, Hi. reflexivity. Qed.

(* None among the members: the library's error, and the network is unchanged *)
Theorem d_add_edge_none_refused tl hd idx a d : has_none tl || has_none hd = true ->
  d_add_edge tl hd idx a d = draise d XGIError.
Proof. intro H. unfold d_add_edge. rewrite H. reflexivity. Qed.

Lemma bump_uid_edge' e s : h_edge (bump_uid e s) = h_edge s.
Proof. unfold bump_uid. destruct (as_int e) as [z|]; [destruct (h_uid s <=? z)|]; reflexivity. Qed.

(* a free explicit id: the edge is stored under it with the given tail and head; other edges are untouched *)
Theorem d_add_edge_explicit_effect tl hd i a d : has_none tl = false -> has_none hd = false ->
  has i (h_edge (ts d)) = false ->
  let r := d_add_edge tl hd (Some i) a d in
  let d' := dst_of r in
  snd (fst r) = Ok /\
  exists T H, (forall x, In x T <-> In x tl) /\ (forall x, In x H <-> In x hd) /\ NoDup T /\ NoDup H /\
    forall e', get e' (h_edge (ts d')) = (if lbl_eqb e' i then Some T else get e' (h_edge (ts d))) /\
               get e' (h_edge (hs d')) = (if lbl_eqb e' i then Some H else get e' (h_edge (hs d))).
Proof.
  intros N1 N2 Hi. cbv zeta. unfold d_add_edge. rewrite N1, N2, Hi. cbn [orb]. split; [reflexivity|].
  unfold dst_of, dok. cbn [fst]. unfold d_insert_edge. cbn [ts hs].
  destruct (insert_edge_get i tl a (ts d)) as (T & T1 & T2 & T3).
  destruct (insert_edge_get i hd [] (ensure_nodes tl (hs d))) as (H & H1 & H2 & H3).
  exists T, H. split; [exact T1|]. split; [exact H1|]. split; [exact T2|]. split; [exact H2|].
  intro e'. rewrite ensure_nodes_edge, !bump_uid_edge'. split; [apply T3|]. rewrite H3, ensure_nodes_edge. reflexivity.
Qed.
