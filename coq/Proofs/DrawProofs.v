(* C20: what the drawing plan contains. *)
From Coq Require Import String ZArith QArith Qabs List Bool Lia Lqa.
From XV Require Import Base.Label Base.LSet Base.ODict Base.Attr Base.Outcome Model.Hypergraph Model.Stats Model.Graph
     Model.SimplicialComplex Model.Draw.
Import ListNotations.

(* one marker per node, at its position, in node order *)
Theorem markers_spec p s :
  length (markers p s) = length (h_node s) /\
  forall i, (i < length (h_node s))%nat -> nth i (markers p s) (0, 0)%Q = pos_of p (nth i (keys (h_node s)) LNone).
Proof.
  unfold markers. split; [rewrite map_length; unfold keys; apply map_length|].
  intros i Hi. rewrite (nth_indep _ (0, 0)%Q (pos_of p LNone)) by (rewrite map_length; unfold keys; rewrite map_length; exact Hi).
  apply map_nth.
Qed.

(* one line per two-node edge, joining its two members *)
Theorem lines_spec p s seg :
  In seg (lines p s) <-> exists e ms, In (e, ms) (h_edge s) /\ length ms = 2%nat /\ seg = map (pos_of p) ms.
Proof.
  unfold lines, dyads. rewrite in_map_iff. split.
  - intros ([e ms] & <- & H). apply filter_In in H. destruct H as [H1 H2]. apply Nat.eqb_eq in H2.
    exists e, ms. cbn [snd] in *. auto.
  - intros (e & ms & H1 & H2 & ->). exists (e, ms). split; [reflexivity|]. apply filter_In. split; [exact H1|].
    apply Nat.eqb_eq. exact H2.
Qed.

Theorem lines_count p s : length (lines p s) = length (filter (fun kv => Nat.eqb (length (snd kv)) 2) (h_edge s)).
Proof. unfold lines, dyads. apply map_length. Qed.

(* one polygon per edge of 3 .. max_order + 1 nodes, whose vertices are its members' positions *)
Theorem polygons_spec p mo s poly :
  In poly (polygons p mo s) <->
  exists e ms, In (e, ms) (h_edge s) /\ (3 <= length ms <= S mo)%nat /\ poly = map (pos_of p) ms.
Proof.
  unfold polygons, larger. rewrite in_map_iff. split.
  - intros ([e ms] & <- & H). apply filter_In in H. destruct H as [H1 H2]. apply andb_true_iff in H2.
    destruct H2 as [A B]. apply Nat.leb_le in A. apply Nat.leb_le in B. exists e, ms. cbn [snd] in *. auto.
  - intros (e & ms & H1 & [A B] & ->). exists (e, ms). split; [reflexivity|]. apply filter_In. split; [exact H1|].
    cbn [snd]. apply andb_true_iff. split; apply Nat.leb_le; assumption.
Qed.

Theorem polygons_count p mo s :
  length (polygons p mo s) = length (filter (fun kv => Nat.leb 3 (length (snd kv)) && Nat.leb (length (snd kv)) (S mo)) (h_edge s)).
Proof. unfold polygons, larger. apply map_length. Qed.

(* simplicial complexes: polygons are the maximal faces of three or more nodes *)
Theorem sc_polygons_spec p mo s poly :
  In poly (sc_polygons p mo s) <->
  exists ms, In ms (sc_faces mo s) /\ (3 <= length ms)%nat /\
             (forall f, In f (sc_faces mo s) -> ~ ((forall x, In x ms -> In x f) /\ (length ms < length f)%nat)) /\
             poly = map (pos_of p) ms.
Proof.
  unfold sc_polygons. rewrite in_map_iff. split.
  - intros (ms & <- & H). apply filter_In in H. destruct H as [H1 H2]. apply andb_true_iff in H2.
    destruct H2 as [A B]. apply Nat.leb_le in A. apply negb_true_iff in B.
    exists ms. split; [exact H1|]. split; [exact A|]. split; [|reflexivity].
    intros f Hf [S1 S2]. assert (E : existsb (strictly_inside ms) (sc_faces mo s) = true).
    { apply existsb_exists. exists f. split; [exact Hf|]. unfold strictly_inside. apply andb_true_iff.
      split; [apply ssubset_spec; exact S1|apply Nat.ltb_lt; exact S2]. }
    congruence.
  - intros (ms & H1 & A & Hmax & ->). exists ms. split; [reflexivity|]. apply filter_In. split; [exact H1|].
    apply andb_true_iff. split; [apply Nat.leb_le; exact A|]. apply negb_true_iff.
    destruct (existsb (strictly_inside ms) (sc_faces mo s)) eqn:E; [|reflexivity].
    exfalso. apply existsb_exists in E. destruct E as (f & Hf & Hs). unfold strictly_inside in Hs.
    apply andb_true_iff in Hs. destruct Hs as [S1 S2]. apply (Hmax f Hf). split; [apply ssubset_spec; exact S1|apply Nat.ltb_lt; exact S2].
Qed.

Theorem sc_lines_spec p mo s seg :
  In seg (sc_lines p mo s) <-> exists ms, In ms (sc_faces mo s) /\ length ms = 2%nat /\ seg = map (pos_of p) ms.
Proof.
  unfold sc_lines. rewrite in_map_iff. split.
  - intros (ms & <- & H). apply filter_In in H. destruct H as [H1 H2]. apply Nat.eqb_eq in H2. exists ms. auto.
  - intros (ms & H1 & H2 & ->). exists ms. split; [reflexivity|]. apply filter_In. split; [exact H1|apply Nat.eqb_eq; exact H2].
Qed.

(* the barycenter is the mean: k times it is the sum, and it lies between the extreme coordinates *)
Lemma qsum_bounds (l : list Q) lo hi : (forall x, In x l -> lo <= x /\ x <= hi)%Q ->
  ((Z.of_nat (length l) # 1) * lo <= qsum l /\ qsum l <= (Z.of_nat (length l) # 1) * hi)%Q.
Proof.
  induction l as [|x l IH]; intro H.
  - cbn [length qsum fold_right Z.of_nat]. change (0 # 1) with 0%Q. split; lra.
  - destruct (H x (or_introl eq_refl)) as [A B]. destruct (IH (fun y Hy => H y (or_intror Hy))) as [C D].
    cbn [qsum fold_right length]. fold (qsum l).
    assert (E : ((Z.of_nat (S (length l)) # 1) == 1 + (Z.of_nat (length l) # 1))%Q).
    { rewrite Nat2Z.inj_succ. unfold Qeq, Qplus. cbn [Qnum Qden]. lia. }
    rewrite E. split; lra.
Qed.

Theorem barycenter_is_mean p ms : ms <> [] ->
  ((Z.of_nat (length ms) # 1) * fst (barycenter p ms) == qsum (map (fun n => fst (pos_of p n)) ms) /\
   (Z.of_nat (length ms) # 1) * snd (barycenter p ms) == qsum (map (fun n => snd (pos_of p n)) ms))%Q.
Proof.
  intro Hne. unfold barycenter. cbn [fst snd].
  assert (K : ~ ((Z.of_nat (length ms) # 1) == 0)%Q).
  { destruct ms; [congruence|]. unfold Qeq. cbn [length]. rewrite Nat2Z.inj_succ. cbn. lia. }
  split; field; exact K.
Qed.

Theorem barycenter_in_box p ms lo hi : ms <> [] ->
  (forall n, In n ms -> lo <= fst (pos_of p n) /\ fst (pos_of p n) <= hi)%Q ->
  (lo <= fst (barycenter p ms) /\ fst (barycenter p ms) <= hi)%Q.
Proof.
  intros Hne Hb. destruct (barycenter_is_mean p ms Hne) as [E _].
  destruct (qsum_bounds (map (fun n => fst (pos_of p n)) ms) lo hi) as [A B].
  { intros x Hx. apply in_map_iff in Hx. destruct Hx as (n & <- & Hn). apply Hb. exact Hn. }
  rewrite map_length in A, B. rewrite <- E in A, B.
  assert (K : (0 < (Z.of_nat (length ms) # 1))%Q).
  { destruct ms; [congruence|]. unfold Qlt. cbn [length]. rewrite Nat2Z.inj_succ. cbn. lia. }
  split; nra.
Qed.
