(* C04 - automatic edge ids are always fresh; adding never overwrites (Hypergraph part). *)
From Coq Require Import String ZArith List Bool.
From XV Require Import Base.Label Base.LSet Base.ODict Base.Attr Base.Outcome Model.Hypergraph
  Model.DiHypergraph Model.SimplicialComplex
  Proofs.HgViews Proofs.HgInv Proofs.HgInvOps Proofs.HgStep Proofs.DiInv Proofs.ScInv Model.PySem Gen.UidCounter Proofs.UidSource.
Import ListNotations.
Open Scope Z_scope.

(* after every history the counter is above every integer-like id present *)
Theorem C04_history_uid_hg : forall ops, admissible_history hg_empty ops -> UidInv (run ops hg_empty).
Proof. intros ops A. destruct (run_Inv ops hg_empty A Inv_empty) as (_ & _ & _ & U). exact U. Qed.
Print Assumptions C04_history_uid_hg.

(* the same for directed hypergraphs (both sides share the counter) and simplicial complexes,
   for every history of their own alphabets *)
Theorem C04_history_uid_di : forall ops,
  UidInv (ts (drun ops dhg_empty)) /\ h_uid (ts (drun ops dhg_empty)) = h_uid (hs (drun ops dhg_empty)).
Proof.
  intro ops. destruct (drun_DInv ops dhg_empty DInv_empty) as ((_ & _ & _ & U) & _ & (_ & _ & A)).
  split; assumption.
Qed.
Print Assumptions C04_history_uid_di.

Theorem C04_history_uid_sc : forall ops, UidInv (srun ops hg_empty).
Proof. intro ops. destruct (srun_SInv ops hg_empty SInv_empty) as ((_ & _ & _ & U) & _). exact U. Qed.
Print Assumptions C04_history_uid_sc.

(* hence the id an automatic addition will use is not present *)
Theorem C04_auto_fresh : forall s, Inv s -> ~ In (LInt (h_uid s)) (ekeys s).
Proof. exact auto_id_fresh. Qed.
Print Assumptions C04_auto_fresh.

(* adding (single, any idx) keeps every old edge: same position, members, attributes; old
   memberships are kept and only ids that were not present can be added to them *)
Theorem C04_add_frame : forall ms idx a s, Inv s -> Frame s (st_of (add_edge ms idx a s)).
Proof. exact add_edge_frame. Qed.
Print Assumptions C04_add_frame.

(* the same for all five bulk formats *)
Theorem C04_bulk_add_frame : forall eb a s, Inv s -> Frame s (st_of (add_edges_from eb a s)).
Proof. exact add_edges_from_frame. Qed.
Print Assumptions C04_bulk_add_frame.

(* an explicit id that exists is refused: state unchanged, exactly one warning *)
Theorem C04_explicit_dup_refused : forall ms i a s,
  has i (h_edge s) = true -> existsb is_none (mkset ms) = false ->
  add_edge ms (Some i) a s = (s, Ok, 1%nat).
Proof. exact explicit_dup_refused. Qed.
Print Assumptions C04_explicit_dup_refused.

Theorem C04_bulk_explicit_dup_refused : forall a s ms i ea,
  has i (h_edge s) = true -> bulk_item true a s ms i ea = (s, Ok, 1%nat).
Proof. exact bulk_explicit_dup_refused. Qed.
Print Assumptions C04_bulk_explicit_dup_refused.

(* non-vacuity: explicit id 0, a decreasing explicit id, then automatic ids *)
Example C04_nonvacuous :
  let s := run [OAddEdge [LInt 1; LInt 2] (Some (LInt 0)) [];
                OAddEdgesFrom (EB2 [([LInt 1; LInt 2], LInt 5); ([LInt 2; LInt 3], LInt 3)]) [];
                OAddEdge [LInt 3; LInt 4] None []; OAddEdge [LInt 7] None []] hg_empty in
  keys (h_edge s) = [LInt 0; LInt 5; LInt 3; LInt 6; LInt 7] /\ h_uid s = 8.
Proof. vm_compute. split; reflexivity. Qed.
Print Assumptions C04_nonvacuous.

(* THE SOURCE TIE for the counter: Gen/UidCounter.v is regenerated on every run from
   xgi/utils/utilities.py::update_uid_counter (harness/translate_uid.py, fail-closed); the model's bump_uid, about
   which all the theorems above speak, computes exactly the function the source defines, and touches nothing else *)
Theorem C04_source_counter_is_model : forall idx s, idx <> LNone ->
  h_uid (bump_uid idx s) = src_uid idx (h_uid s).
Proof. exact bump_uid_is_source. Qed.
Print Assumptions C04_source_counter_is_model.

Theorem C04_counter_update_frame : forall idx s,
  h_node (bump_uid idx s) = h_node s /\ h_edge (bump_uid idx s) = h_edge s /\
  h_nattr (bump_uid idx s) = h_nattr s /\ h_eattr (bump_uid idx s) = h_eattr s /\ h_net (bump_uid idx s) = h_net s.
Proof. exact bump_uid_frame. Qed.
Print Assumptions C04_counter_update_frame.
