(* Functional "views" of the Hypergraph tables and how each primitive changes them. *)
From Coq Require Import String ZArith List Bool Lia.
From XV Require Import Base.Label Base.LSet Base.ODict Base.Attr Base.Outcome Model.Hypergraph.
Import ListNotations.
Open Scope Z_scope.

Definition mships (s : hg) (n : lbl) : list lbl := getl n (h_node s).
Definition mems (s : hg) (e : lbl) : list lbl := getl e (h_edge s).
Definition nkeys (s : hg) := keys (h_node s).
Definition ekeys (s : hg) := keys (h_edge s).

Lemma getl_set k k' v (d : odict (list lbl)) :
  getl k (set k' v d) = if lbl_eqb k k' then v else getl k d.
Proof. unfold getl. rewrite get_set. destruct (lbl_eqb k k'); reflexivity. Qed.

Lemma getl_del k k' (d : odict (list lbl)) :
  getl k (del k' d) = if lbl_eqb k k' then [] else getl k d.
Proof. unfold getl. rewrite get_del. destruct (lbl_eqb k k'); reflexivity. Qed.

Lemma getl_absent k (d : odict (list lbl)) : ~ In k (keys d) -> getl k d = [].
Proof. intro H. unfold getl. apply get_None in H. rewrite H. reflexivity. Qed.

Lemma getl_nonempty_key k (d : odict (list lbl)) x : In x (getl k d) -> In k (keys d).
Proof.
  unfold getl. destruct (get k d) eqn:E; [|intros []]. intros _. eapply get_Some_In; eauto.
Qed.

Lemma has_false_getl k (d : odict (list lbl)) : has k d = false -> getl k d = [].
Proof. intro H. apply getl_absent. apply has_nIn. exact H. Qed.

(* ---- ensure_node ---- *)
Lemma ensure_node_mships n s x : mships (ensure_node n s) x = mships s x.
Proof.
  unfold ensure_node, mships. destruct (has n (h_node s)) eqn:E; [reflexivity|]. simpl.
  rewrite getl_set. destruct (lbl_eqb_spec x n) as [->|N]; [|reflexivity].
  symmetry. apply has_false_getl. exact E.
Qed.
Lemma ensure_node_edge n s : h_edge (ensure_node n s) = h_edge s.
Proof. unfold ensure_node. destruct (has n (h_node s)); reflexivity. Qed.
Lemma ensure_node_eattr n s : h_eattr (ensure_node n s) = h_eattr s.
Proof. unfold ensure_node. destruct (has n (h_node s)); reflexivity. Qed.
Lemma ensure_node_uid n s : h_uid (ensure_node n s) = h_uid s.
Proof. unfold ensure_node. destruct (has n (h_node s)); reflexivity. Qed.
Lemma ensure_node_net n s : h_net (ensure_node n s) = h_net s.
Proof. unfold ensure_node. destruct (has n (h_node s)); reflexivity. Qed.
Lemma ensure_node_has n s : has n (h_node (ensure_node n s)) = true.
Proof.
  unfold ensure_node. destruct (has n (h_node s)) eqn:E; [exact E|]. simpl.
  apply has_In. apply In_keys_set. left; reflexivity.
Qed.
Lemma ensure_node_nkeys n s :
  nkeys (ensure_node n s) = if has n (h_node s) then nkeys s else nkeys s ++ [n].
Proof.
  unfold ensure_node, nkeys. destruct (has n (h_node s)) eqn:E; [reflexivity|]. simpl.
  apply keys_set_nin. apply has_nIn. exact E.
Qed.
Lemma ensure_node_nakeys n s :
  keys (h_nattr s) = keys (h_node s) ->
  keys (h_nattr (ensure_node n s)) = keys (h_node (ensure_node n s)).
Proof.
  intro H. unfold ensure_node. destruct (has n (h_node s)) eqn:E; [exact H|]. simpl.
  apply has_nIn in E. rewrite !keys_set_nin; [rewrite H; reflexivity|exact E|rewrite H; exact E].
Qed.

(* ---- node_add / node_rem / edge_add / edge_rem ---- *)
Lemma node_add_mships n e s x :
  mships (node_add n e s) x = if lbl_eqb x n then sadd e (mships s n) else mships s x.
Proof. unfold node_add, mships. simpl. apply getl_set. Qed.
Lemma node_rem_mships n e s x :
  mships (node_rem n e s) x = if lbl_eqb x n then sremove e (mships s n) else mships s x.
Proof.
  unfold node_rem, mships. destruct (has n (h_node s)) eqn:E; simpl.
  - apply getl_set.
  - destruct (lbl_eqb_spec x n) as [->|N]; [|reflexivity].
    rewrite (has_false_getl _ _ E). reflexivity.
Qed.
Lemma edge_add_mems e n s y :
  mems (edge_add e n s) y = if lbl_eqb y e then sadd n (mems s e) else mems s y.
Proof. unfold edge_add, mems. simpl. apply getl_set. Qed.
Lemma edge_rem_mems e n s y :
  mems (edge_rem e n s) y = if lbl_eqb y e then sremove n (mems s e) else mems s y.
Proof.
  unfold edge_rem, mems. destruct (has e (h_edge s)) eqn:E; simpl.
  - apply getl_set.
  - destruct (lbl_eqb_spec y e) as [->|N]; [|reflexivity].
    rewrite (has_false_getl _ _ E). reflexivity.
Qed.
Lemma node_add_nkeys n e s : has n (h_node s) = true -> nkeys (node_add n e s) = nkeys s.
Proof. intro H. unfold node_add, nkeys. simpl. apply keys_set_in. apply has_In. exact H. Qed.
Lemma node_rem_nkeys n e s : nkeys (node_rem n e s) = nkeys s.
Proof.
  unfold node_rem, nkeys. destruct (has n (h_node s)) eqn:E; [|reflexivity]. simpl.
  apply keys_set_in. apply has_In. exact E.
Qed.
Lemma edge_add_ekeys e n s : has e (h_edge s) = true -> ekeys (edge_add e n s) = ekeys s.
Proof. intro H. unfold edge_add, ekeys. simpl. apply keys_set_in. apply has_In. exact H. Qed.
Lemma edge_rem_ekeys e n s : ekeys (edge_rem e n s) = ekeys s.
Proof.
  unfold edge_rem, ekeys. destruct (has e (h_edge s)) eqn:E; [|reflexivity]. simpl.
  apply keys_set_in. apply has_In. exact E.
Qed.

(* ---- drop_edge / drop_node ---- *)
Lemma drop_edge_mems e s y : mems (drop_edge e s) y = if lbl_eqb y e then [] else mems s y.
Proof. unfold drop_edge, mems. simpl. apply getl_del. Qed.
Lemma drop_node_mships n s x : mships (drop_node n s) x = if lbl_eqb x n then [] else mships s x.
Proof. unfold drop_node, mships. simpl. apply getl_del. Qed.
