(* xgi/generators/simple.py::sunflower (C16): l petals of m nodes sharing a core of c nodes. *)
From Coq Require Import List Arith Lia Bool.
From XV Require Import Model.Decoders.
Import ListNotations.

Definition sunflower_edges (l c m : nat) : list (list nat) :=
  map (fun p => seq 0 c ++ seq (c + p * (m - c)) (m - c)) (seq 0 l).

Definition sunflower_bad (cases : list (nat * nat * nat * list (list nat))) :=
  bad_index (fun '(l, c, m, obs) => lists_eqb (sunflower_edges l c m) obs) cases O.
