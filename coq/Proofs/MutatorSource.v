(* C01 / C04: for nine core mutators the hand-written model IS what the source does: running the programs that
   harness/translate_mutators.py regenerates from xgi/core/hypergraph.py on every run (Gen/Mutators.v), under the
   semantics of Model/PyIR.v, gives exactly the model's result - state, outcome and warnings. *)
From Coq Require Import String ZArith List Bool Lia.
From XV Require Import Base.Label Base.LSet Base.ODict Base.Attr Base.Outcome Model.Hypergraph Model.PyIR Gen.Mutators
     Proofs.HgViews Proofs.HgInv Proofs.HgInvOps Proofs.HgErrors.
Import ListNotations.
Open Scope Z_scope.

(* ---------- unfolding lemmas for the interpreter ---------- *)
Lemma exec_if c th el en s :
  exec (SIf c th el) en s =
  match beval c en s with
  | inr e => (s, Raised e)
  | inl true => exec_list th en s
  | inl false => exec_list el en s
  end.
Proof.
  cbn [exec]. destruct (beval c en s) as [[|]|e]; [| |reflexivity].
  - generalize s. induction th as [|q r IH]; intro s0; [reflexivity|]. cbn [exec_list]. destruct (exec q en s0) as [s' [|x]]; [apply IH|reflexivity].
  - generalize s. induction el as [|q r IH]; intro s0; [reflexivity|]. cbn [exec_list]. destruct (exec q en s0) as [s' [|x]]; [apply IH|reflexivity].
Qed.

Fixpoint iter_list (body : list stmt) (en : env) (xs : list lbl) (s : hg) : hg * outcome :=
  match xs with
  | [] => (s, Ok)
  | x :: r => match exec_list body (with_loop en x) s with (s', Ok) => iter_list body en r s' | y => y end
  end.

Lemma exec_for t k body en s :
  exec (SForCopy t k body) en s =
  match get (veval k en) (tab t s) with
  | None => (s, Raised IDNotFound)
  | Some m => iter_list body en m s
  end.
Proof.
  cbn [exec]. destruct (get (veval k en) (tab t s)) as [m|]; [|reflexivity].
  generalize s. induction m as [|x r IH]; intro s0; [reflexivity|]. cbn [iter_list].
  assert (E : forall l s1, (fix go (l : list stmt) (s : hg) : hg * outcome :=
               match l with [] => (s, Ok)
               | q :: r' => match exec q (with_loop en x) s with (s', Ok) => go r' s' | y => y end end) l s1
             = exec_list l (with_loop en x) s1).
  { induction l as [|q r' IHl]; intro s1; [reflexivity|]. cbn [exec_list]. destruct (exec q _ s1) as [s' [|y]]; [apply IHl|reflexivity]. }
  rewrite E. destruct (exec_list body _ s0) as [s' [|y]]; [apply IH|reflexivity].
Qed.

Lemma exec_newset t k en s : exec (SNewSet t k) en s =
  if is_none (veval k en) then (s, Raised XGIError) else (set_tab t s (set (veval k en) [] (tab t s)), Ok).
Proof. reflexivity. Qed.
Lemma exec_newattr t k en s : exec (SNewAttr t k) en s =
  if is_none (veval k en) then (s, Raised XGIError) else (set_atab t s (set (veval k en) [] (atab t s)), Ok).
Proof. reflexivity. Qed.
Lemma exec_add t k x en s : exec (SAdd t k x) en s =
  match get (veval k en) (tab t s) with
  | Some m => (set_tab t s (set (veval k en) (sadd (veval x en) m) (tab t s)), Ok)
  | None => (s, Raised IDNotFound)
  end.
Proof. reflexivity. Qed.
Lemma exec_remove t k x en s : exec (SRemove t k x) en s =
  match get (veval k en) (tab t s) with
  | Some m => if mem (veval x en) m then (set_tab t s (set (veval k en) (sremove (veval x en) m) (tab t s)), Ok) else (s, Raised KeyError)
  | None => (s, Raised IDNotFound)
  end.
Proof. reflexivity. Qed.
Lemma exec_del t k en s : exec (SDel t k) en s =
  if has (veval k en) (tab t s) then (set_tab t s (del (veval k en) (tab t s)), Ok) else (s, Raised IDNotFound).
Proof. reflexivity. Qed.
Lemma exec_delattr t k en s : exec (SDelAttr t k) en s =
  if has (veval k en) (atab t s) then (set_atab t s (del (veval k en) (atab t s)), Ok) else (s, Raised IDNotFound).
Proof. reflexivity. Qed.
Lemma exec_uid k en s : exec (SUid k) en s = (bump_uid (veval k en) s, Ok).
Proof. reflexivity. Qed.
Lemma exec_raise e en s : exec (SRaise e) en s = (s, Raised e).
Proof. reflexivity. Qed.
Lemma exec_list_cons q r en s : exec_list (q :: r) en s = match exec q en s with (s', Ok) => exec_list r en s' | x => x end.
Proof. reflexivity. Qed.
Lemma exec_list_nil en s : exec_list [] en s = (s, Ok).
Proof. reflexivity. Qed.

Ltac hgs := unfold with_loop, with_local, with_uid_var; cbn [h_node h_nattr h_edge h_eattr h_net h_uid with_node with_nattr with_edge with_eattr with_uid
                 tab set_tab atab set_atab veval e_args e_flags e_loop e_attr e_loop1 e_locals e_members e_idx e_uid with_loop with_local with_uid_var nth].
Ltac step := rewrite ?exec_list_cons, ?exec_list_nil, ?exec_if, ?exec_newset, ?exec_newattr, ?exec_add, ?exec_remove, ?exec_del,
                     ?exec_delattr, ?exec_uid, ?exec_raise; cbn [beval]; hgs; cbn [negb andb];
             repeat match goal with H : is_none _ = false |- _ => rewrite H end.

Lemma bump_uid_tables e s : h_node (bump_uid e s) = h_node s /\ h_edge (bump_uid e s) = h_edge s /\
  h_nattr (bump_uid e s) = h_nattr s /\ h_eattr (bump_uid e s) = h_eattr s.
Proof. unfold bump_uid. destruct (as_int e) as [z|]; [destruct (h_uid s <=? z)|]; repeat split. Qed.

(* ---------- add_node_to_edge: for every state, whatever its shape ---------- *)
Definition antE_tail : list stmt :=
  [SIf (BNot (BIn (VArg 1) TNode)) [SNewSet TNode (VArg 1); SNewAttr TNode (VArg 1)] [];
   SAdd TEdge (VArg 0) (VArg 1); SAdd TNode (VArg 1) (VArg 0)].

Lemma antE_tail_ok e n s1 m : get e (h_edge s1) = Some m ->
  (let (s', o) := exec_list antE_tail (mkEnv [e; n] [] LNone [] LNone [] [] None LNone) s1 in (s', o, O)) =
  (if negb (has n (h_node s1)) && is_none n then raise s1 XGIError
   else ok (node_add n e (edge_add e n (ensure_node n s1)))).
Proof.
  intro Ge. unfold antE_tail. step.
  destruct (has n (h_node s1)) eqn:Hn; cbn [negb andb]; repeat step.
  - unfold has in Hn. destruct (get n (h_node s1)) as [l|] eqn:Gn; [|discriminate Hn].
    rewrite Ge. repeat step. rewrite Gn. repeat step.
    unfold ok, node_add, edge_add, ensure_node, has, getl. rewrite Gn, Ge. hgs. rewrite Gn. reflexivity.
  - destruct (is_none n) eqn:Nn; [reflexivity|]. repeat step. rewrite Ge. repeat step.
    rewrite get_set_same. repeat step.
    unfold ok, node_add, edge_add, ensure_node, getl. rewrite Hn. hgs. rewrite Ge, get_set_same. reflexivity.
Qed.

Theorem add_node_to_edge_is_source e n s :
  run_method src_add_node_to_edge [e; n] [] s = add_node_to_edge e n s.
Proof.
  unfold run_method, run_method_a, src_add_node_to_edge, add_node_to_edge. rewrite exec_list_cons, exec_if. cbn [beval]. hgs.
  destruct (has e (h_edge s)) eqn:He; cbn [negb andb].
  - rewrite exec_list_nil. unfold has in He. destruct (get e (h_edge s)) as [m|] eqn:Ge; [|discriminate He].
    apply (antE_tail_ok e n s m Ge).
  - repeat step. destruct (is_none e) eqn:Ne; [reflexivity|]. repeat step.
    set (s0 := with_eattr (with_edge s (set e [] (h_edge s))) (set e [] (h_eattr s))).
    apply (antE_tail_ok e n (bump_uid e s0) []).
    destruct (bump_uid_tables e s0) as (_ & B2 & _). rewrite B2. unfold s0. hgs. apply get_set_same.
Qed.

(* ---------- remove_edge: on every state satisfying the class invariant ---------- *)
Lemma fold_node_rem_tables e : forall xs s,
  h_edge (fold_left (fun s n => node_rem n e s) xs s) = h_edge s /\
  h_eattr (fold_left (fun s n => node_rem n e s) xs s) = h_eattr s.
Proof.
  induction xs as [|x xs IH]; intro s; cbn [fold_left]; [split; reflexivity|].
  destruct (IH (node_rem x e s)) as [A B]. rewrite A, B. unfold node_rem. destruct (has x (h_node s)); split; reflexivity.
Qed.

Lemma iter_remove_ok e l0 l1 ms ix u : forall xs s, NoDup xs ->
  (forall x, In x xs -> exists l, get x (h_node s) = Some l /\ mem e l = true) ->
  iter_list [SRemove TNode VLoop (VArg 0)] (mkEnv [e] [] l0 [] l1 [] ms ix u) xs s = (fold_left (fun s n => node_rem n e s) xs s, Ok).
Proof.
  induction xs as [|x xs IH]; intros s ND H; [reflexivity|]. cbn [iter_list fold_left].
  inversion ND as [|? ? Hx ND']; subst. destruct (H x (or_introl eq_refl)) as (l & Gl & Ml).
  rewrite exec_list_cons, exec_remove. hgs. rewrite Gl, Ml. rewrite exec_list_nil.
  assert (E : with_node s (set x (sremove e l) (h_node s)) = node_rem x e s).
  { unfold node_rem, has, getl. rewrite Gl. reflexivity. }
  rewrite E. apply IH; [exact ND'|].
  intros y Hy. destruct (H y (or_intror Hy)) as (ly & Gy & My). exists ly. split; [|exact My].
  rewrite <- E. hgs. rewrite get_set_other; [exact Gy|]. intro; subst. contradiction.
Qed.

Theorem remove_edge_is_source e s : Inv s ->
  run_method src_remove_edge [e] [] s = remove_edge1 e s.
Proof.
  intros (W & (_ & Kea & _ & _) & (_ & Vm) & _). unfold run_method, run_method_a, src_remove_edge, remove_edge1.
  rewrite exec_list_cons, exec_for. hgs. destruct (get e (h_edge s)) as [m|] eqn:Ge; [|reflexivity].
  assert (Hm : mems s e = m) by (unfold mems, getl; rewrite Ge; reflexivity).
  rewrite (iter_remove_ok e LNone LNone [] None LNone m s).
  2:{ rewrite <- Hm. apply Vm. }
  2:{ intros x Hx. assert (Hi : In e (mships s x)) by (apply W; rewrite Hm; exact Hx).
      unfold mships, getl in Hi. destruct (get x (h_node s)) as [l|]; [|destruct Hi]. exists l. split; [reflexivity|apply mem_In; exact Hi]. }
  set (s' := fold_left (fun s n => node_rem n e s) m s). destruct (fold_node_rem_tables e m s) as [A B]. fold s' in A, B.
  repeat step. rewrite A.
  assert (He : has e (h_edge s) = true) by (unfold has; rewrite Ge; reflexivity). rewrite He. repeat step.
  rewrite B. assert (Hea : has e (h_eattr s) = true).
  { apply has_In. rewrite Kea. apply has_In. exact He. }
  rewrite Hea. unfold ok, drop_edge. rewrite A, B. reflexivity.
Qed.

(* ---------- remove_node_from_edge: on every state satisfying the class invariant ---------- *)
Theorem remove_node_from_edge_is_source e n re s : Inv s ->
  run_method src_remove_node_from_edge [e; n] [re] s = remove_node_from_edge e n re s.
Proof.
  intros (W & (_ & Kea & _ & _) & _ & _). unfold run_method, run_method_a, src_remove_node_from_edge, remove_node_from_edge.
  rewrite exec_list_cons, exec_if. cbn [beval]. hgs.
  destruct (has e (h_edge s)) eqn:He; cbn [negb]; [|repeat step; reflexivity].
  rewrite exec_list_cons, exec_if. cbn [beval]. hgs.
  destruct (has n (h_node s)) eqn:Hn; cbn [negb]; [|repeat step; reflexivity].
  rewrite exec_list_cons, exec_if. cbn [beval]. hgs.
  unfold has in He. destruct (get e (h_edge s)) as [m|] eqn:Ge; [|discriminate He].
  assert (Gl : getl e (h_edge s) = m) by (unfold getl; rewrite Ge; reflexivity). rewrite Gl.
  destruct (mem n m) eqn:Mn; cbn [negb]; [|repeat step; reflexivity].
  repeat step. rewrite Ge, Mn. repeat step.
  unfold has in Hn. destruct (get n (h_node s)) as [l|] eqn:Gn; [|discriminate Hn].
  assert (Me : mem e l = true).
  { apply mem_In. assert (Hi : In e (mships s n)) by (apply W; unfold mems; rewrite Gl; apply mem_In; exact Mn).
    unfold mships, getl in Hi. rewrite Gn in Hi. exact Hi. }
  rewrite Me. repeat step. rewrite get_set_same.
  assert (E1 : with_edge s (set e (sremove n m) (h_edge s)) = edge_rem e n s).
  { unfold edge_rem, has. rewrite Ge, Gl. reflexivity. }
  assert (E2 : with_node (edge_rem e n s) (set n (sremove e l) (h_node s)) = node_rem n e (edge_rem e n s)).
  { unfold node_rem, has, getl. rewrite <- E1. hgs. rewrite Gn. reflexivity. }
  rewrite E1. rewrite E2. set (s1 := node_rem n e (edge_rem e n s)).
  assert (H1e : h_edge s1 = set e (sremove n m) (h_edge s)) by (unfold s1; rewrite <- E2, <- E1; reflexivity).
  assert (H1a : h_eattr s1 = h_eattr s) by (unfold s1; rewrite <- E2, <- E1; reflexivity).
  assert (Gl1 : getl e (h_edge s1) = sremove n m) by (unfold getl; rewrite H1e, get_set_same; reflexivity).
  rewrite Gl1. destruct (sremove n m) as [|y r] eqn:Es; cbn [andb].
  - destruct re; cbn [andb]; repeat step; [|reflexivity].
    assert (Hh : has e (set e [] (h_edge s)) = true) by (unfold has; rewrite get_set_same; reflexivity).
    rewrite Hh. repeat step. rewrite H1a.
    assert (Hea : has e (h_eattr s) = true) by (apply has_In; rewrite Kea; apply (get_Some_In e (h_edge s) m Ge)).
    rewrite Hea. unfold ok, drop_edge. rewrite H1a, H1e. reflexivity.
  - repeat step. reflexivity.
Qed.

(* ---------- add_node(node, **attr): whenever the attribute table has the keys of the node table (KWF) ---------- *)
Lemma exec_attrupdate t k en s : exec (SAttrUpdate t k) en s =
  match get (veval k en) (atab t s) with
  | Some d => (set_atab t s (set (veval k en) (aupdate d (e_attr en)) (atab t s)), Ok)
  | None => (s, Raised IDNotFound)
  end.
Proof. reflexivity. Qed.

Theorem add_node_is_source n a s : keys (h_nattr s) = keys (h_node s) ->
  run_method_a src_add_node [n] [] a s = add_node n a s.
Proof.
  intro K. unfold run_method_a, src_add_node, add_node. rewrite exec_list_cons, exec_if. cbn [beval]. hgs.
  destruct (has n (h_node s)) eqn:Hn; cbn [negb].
  - rewrite exec_list_nil, exec_list_cons, exec_attrupdate. hgs.
    assert (Ha : has n (h_nattr s) = true) by (apply has_In; rewrite K; apply has_In; exact Hn).
    unfold has in Ha. destruct (get n (h_nattr s)) as [d|] eqn:Gd; [|discriminate Ha].
    rewrite exec_list_nil. unfold ok, nattr_update, geta. rewrite Gd. reflexivity.
  - repeat step. destruct (is_none n) eqn:Nn; [reflexivity|]. repeat step. rewrite exec_attrupdate. hgs.
    rewrite get_set_same. repeat step.
    unfold ok, nattr_update, ensure_node, geta. rewrite Hn. hgs. rewrite get_set_same. reflexivity.
Qed.

(* ---------- remove_node(n, strong, remove_empty): on every state satisfying the class invariant ---------- *)
Lemma exec_bind t k body en s :
  exec (SBindIn t k body) en s =
  match get (veval k en) (tab t s) with
  | None => (s, Raised IDNotFound)
  | Some m => exec_list body (with_local en m) s
  end.
Proof.
  cbn [exec]. destruct (get (veval k en) (tab t s)) as [m|]; [|reflexivity].
  generalize s. induction body as [|q r IH]; intro s0; [reflexivity|]. cbn [exec_list].
  destruct (exec q _ s0) as [s' [|y]]; [apply IH|reflexivity].
Qed.

Lemma exec_forlocal i minus body en s :
  exec (SForLocal i minus body) en s =
  iter_list body en
            (match minus with Some v => sremove (veval v en) (nth i (e_locals en) []) | None => nth i (e_locals en) [] end) s.
Proof.
  cbn [exec]. generalize (match minus with Some v => sremove (veval v en) (nth i (e_locals en) []) | None => nth i (e_locals en) [] end).
  intro xs. generalize s. induction xs as [|x r IH]; intro s0; [reflexivity|]. cbn [iter_list].
  assert (E : forall l s1, (fix go (l : list stmt) (s : hg) : hg * outcome :=
               match l with [] => (s, Ok)
               | q :: r' => match exec q (with_loop en x) s with (s', Ok) => go r' s' | y => y end end) l s1
             = exec_list l (with_loop en x) s1).
  { induction l as [|q r' IHl]; intro s1; [reflexivity|]. cbn [exec_list]. destruct (exec q _ s1) as [s' [|y]]; [apply IHl|reflexivity]. }
  rewrite E. destruct (exec_list body _ s0) as [s' [|y]]; [apply IH|reflexivity].
Qed.

(* the inner loop of the strong branch: remove e from the membership sets of the listed nodes *)
Lemma iter_remove_e_ok args flags locs e l1 ms ix u : forall xs s, NoDup xs ->
  (forall x, In x xs -> exists l, get x (h_node s) = Some l /\ mem e l = true) ->
  iter_list [SRemove TNode VLoop VLoop1] (mkEnv args flags e [] l1 locs ms ix u) xs s = (fold_left (fun s m => node_rem m e s) xs s, Ok).
Proof.
  induction xs as [|x xs IH]; intros s ND H; [reflexivity|]. cbn [iter_list fold_left].
  inversion ND as [|? ? Hx ND']; subst. destruct (H x (or_introl eq_refl)) as (l & Gl & Ml).
  rewrite exec_list_cons, exec_remove. hgs. rewrite Gl, Ml. rewrite exec_list_nil.
  assert (E : with_node s (set x (sremove e l) (h_node s)) = node_rem x e s).
  { unfold node_rem, has, getl. rewrite Gl. reflexivity. }
  rewrite E. apply IH; [exact ND'|].
  intros y Hy. destruct (H y (or_intror Hy)) as (ly & Gy & My). exists ly. split; [|exact My].
  rewrite <- E. hgs. rewrite get_set_other; [exact Gy|]. intro; subst. contradiction.
Qed.

(* what the strong loop needs of the edges still to be processed *)
Definition StrongQ (n : lbl) (s0 s : hg) (es : list lbl) : Prop :=
  forall e, In e es -> exists m, get e (h_edge s) = Some m /\ get e (h_edge s0) = Some m /\ NoDup m /\
                                 has e (h_eattr s) = true /\
                                 forall x, In x m -> x <> n -> exists l, get x (h_node s) = Some l /\ mem e l = true.

Lemma strong_loop_ok n flags locs s0 lp0 lp1 ms ix u : forall es s, NoDup es -> StrongQ n s0 s es ->
  iter_list [SBindIn TEdge VLoop [SDel TEdge VLoop; SDelAttr TEdge VLoop; SForLocal 0 (Some (VArg 0)) [SRemove TNode VLoop VLoop1]]]
            (mkEnv [n] flags lp0 [] lp1 locs ms ix u) es s =
  (fold_left (fun s e => let nbrs := getl e (h_edge s) in let s' := drop_edge e s in
                         fold_left (fun s m => node_rem m e s) (sremove n nbrs) s') es s, Ok).
Proof.
  induction es as [|e es IH]; intros s ND Q; [reflexivity|]. cbn [iter_list fold_left].
  inversion ND as [|? ? He ND']; subst.
  destruct (Q e (or_introl eq_refl)) as (m & Gm & _ & NDm & Ha & Hn).
  rewrite exec_list_cons, exec_bind. hgs. rewrite Gm. rewrite exec_list_cons, exec_del. hgs.
  assert (Hh : has e (h_edge s) = true) by (unfold has; rewrite Gm; reflexivity). rewrite Hh.
  rewrite exec_list_cons, exec_delattr. hgs. rewrite Ha.
  rewrite exec_list_cons, exec_forlocal. hgs.
  set (s' := with_eattr (with_edge s (del e (h_edge s))) (del e (h_eattr s))).
  assert (Ed : s' = drop_edge e s) by reflexivity.
  rewrite (iter_remove_e_ok [n] flags (m :: locs) e lp0 ms ix u (sremove n m) s').
  2:{ apply NoDup_sremove. exact NDm. }
  2:{ intros x Hx. apply In_sremove in Hx. destruct Hx as [Nx Hx]. destruct (Hn x Hx Nx) as (l & Gl & Ml). exists l. split; [exact Gl|exact Ml]. }
  rewrite !exec_list_nil.
  assert (Egl : getl e (h_edge s) = m) by (unfold getl; rewrite Gm; reflexivity). rewrite Egl. rewrite <- Ed.
  set (s2 := fold_left (fun s m0 => node_rem m0 e s) (sremove n m) s').
  apply IH; [exact ND'|].
  (* the invariant for the remaining edges *)
  intros e' He'. assert (Ne : e' <> e) by (intro; subst; contradiction).
  destruct (Q e' (or_intror He')) as (m' & Gm' & G0' & NDm' & Ha' & Hn').
  destruct (fold_node_rem_tables e (sremove n m) s') as [T1 T2]. fold s2 in T1, T2.
  exists m'. split; [rewrite T1; unfold s'; hgs; rewrite get_del_other by exact Ne; exact Gm'|].
  split; [exact G0'|]. split; [exact NDm'|].
  split; [rewrite T2; unfold s', has; hgs; rewrite get_del_other by exact Ne; exact Ha'|].
  intros x Hx Nx. destruct (Hn' x Hx Nx) as (l & Gl & Ml).
  (* node x after removing e from the listed nodes: its set is l or l minus e, and e' stays *)
  assert (G : forall ys t, (exists l0, get x (h_node t) = Some l0 /\ mem e' l0 = true) ->
              exists l0, get x (h_node (fold_left (fun s m0 => node_rem m0 e s) ys t)) = Some l0 /\ mem e' l0 = true).
  { induction ys as [|y ys IHy]; intros t Ht; [exact Ht|]. cbn [fold_left]. apply IHy.
    destruct Ht as (l0 & G0 & M0). unfold node_rem. destruct (has y (h_node t)) eqn:Hy; [|exists l0; auto]. hgs.
    destruct (lbl_eqb_spec x y) as [->|Nxy].
    - rewrite get_set_same. exists (sremove e (getl y (h_node t))). split; [reflexivity|].
      unfold getl. rewrite G0. apply mem_In. apply In_sremove. split; [exact Ne|apply mem_In; exact M0].
    - rewrite get_set_other by exact Nxy. exists l0. auto. }
  apply G. exists l. split; [unfold s'; hgs; exact Gl|exact Ml].
Qed.

Definition WeakQ (n : lbl) (s : hg) (es : list lbl) : Prop :=
  forall e, In e es -> exists m, get e (h_edge s) = Some m /\ mem n m = true /\ has e (h_eattr s) = true.

Lemma weak_loop_ok n strong re locs l0 l1 ms ix u : forall es s, NoDup es -> WeakQ n s es ->
  iter_list [SRemove TEdge VLoop (VArg 0); SIf (BAnd (BEmptySet VLoop TEdge) (BFlag 1)) [SDel TEdge VLoop; SDelAttr TEdge VLoop] []]
            (mkEnv [n] [strong; re] l0 [] l1 locs ms ix u) es s =
  (fold_left (fun s e => let s' := edge_rem e n s in
                         if (match getl e (h_edge s') with [] => true | _ => false end) && re && has e (h_edge s')
                         then drop_edge e s' else s') es s, Ok).
Proof.
  induction es as [|e es IH]; intros s ND Q; [reflexivity|]. cbn [iter_list fold_left].
  inversion ND as [|? ? He ND']; subst.
  destruct (Q e (or_introl eq_refl)) as (m & Gm & Mn & Ha).
  rewrite exec_list_cons, exec_remove. hgs. rewrite Gm, Mn.
  assert (E1 : with_edge s (set e (sremove n m) (h_edge s)) = edge_rem e n s).
  { unfold edge_rem, has, getl. rewrite Gm. reflexivity. }
  rewrite E1. set (s' := edge_rem e n s).
  assert (Ge' : get e (h_edge s') = Some (sremove n m)) by (unfold s'; rewrite <- E1; hgs; apply get_set_same).
  assert (Ha' : h_eattr s' = h_eattr s) by (unfold s'; rewrite <- E1; reflexivity).
  assert (Hh' : has e (h_edge s') = true) by (unfold has; rewrite Ge'; reflexivity).
  assert (Gl' : getl e (h_edge s') = sremove n m) by (unfold getl; rewrite Ge'; reflexivity).
  rewrite exec_list_cons, exec_if. cbn [beval]. hgs. rewrite Ge'. cbv zeta. rewrite Gl', Hh'.
  assert (Rest : forall t, (h_eattr t = del e (h_eattr s) \/ h_eattr t = h_eattr s) ->
                           (forall e', e' <> e -> get e' (h_edge t) = get e' (h_edge s)) -> WeakQ n t es).
  { intros t Hat Het e' He'. assert (Ne : e' <> e) by (intro; subst; contradiction).
    destruct (Q e' (or_intror He')) as (m' & Gm' & Mn' & Ha2). exists m'. split; [rewrite Het by exact Ne; exact Gm'|].
    split; [exact Mn'|]. destruct Hat as [Hat|Hat]; rewrite Hat; [unfold has; rewrite get_del_other by exact Ne; exact Ha2|exact Ha2]. }
  assert (Oth : forall e', e' <> e -> get e' (h_edge s') = get e' (h_edge s)).
  { intros e' Ne. unfold s'. rewrite <- E1. hgs. apply get_set_other. exact Ne. }
  destruct (sremove n m) as [|y r] eqn:Es; cbn [andb].
  - destruct re; cbn [nth andb].
    + rewrite exec_list_cons, exec_del. hgs. rewrite Hh'. rewrite exec_list_cons, exec_delattr. hgs. rewrite Ha', Ha. rewrite !exec_list_nil.
      assert (Ed : with_eattr (with_edge s' (del e (h_edge s'))) (del e (h_eattr s)) = drop_edge e s') by (unfold drop_edge; rewrite Ha'; reflexivity).
      rewrite Ed. apply IH; [exact ND'|]. apply Rest.
      * left. unfold drop_edge. hgs. rewrite Ha'. reflexivity.
      * intros e' Ne. unfold drop_edge. hgs. rewrite get_del_other by exact Ne. apply Oth. exact Ne.
    + rewrite !exec_list_nil. apply IH; [exact ND'|]. apply Rest; [right; exact Ha'|exact Oth].
  - rewrite !exec_list_nil. apply IH; [exact ND'|]. apply Rest; [right; exact Ha'|exact Oth].
Qed.

Theorem remove_node_is_source n strong re s : Inv s ->
  run_method src_remove_node [n] [strong; re] s = remove_node n strong re s.
Proof.
  intros (W & (Kna & Kea & _ & _) & (Vn & Vm) & _). unfold run_method, run_method_a, src_remove_node, remove_node.
  rewrite exec_list_cons, exec_bind. hgs. destruct (get n (h_node s)) as [es|] eqn:Gn; [|reflexivity].
  assert (Hes : mships s n = es) by (unfold mships, getl; rewrite Gn; reflexivity).
  assert (Hn : has n (h_node s) = true) by (unfold has; rewrite Gn; reflexivity).
  rewrite exec_list_cons, exec_del. hgs. rewrite Hn. rewrite exec_list_cons, exec_delattr. hgs.
  assert (Hna : has n (h_nattr s) = true) by (apply has_In; rewrite Kna; apply has_In; exact Hn). rewrite Hna.
  set (s1 := with_nattr (with_node s (del n (h_node s))) (del n (h_nattr s))).
  assert (E1 : s1 = drop_node n s) by reflexivity.
  assert (NDes : NoDup es) by (rewrite <- Hes; apply Vn).
  assert (Edge : forall e, In e es -> exists m, get e (h_edge s) = Some m /\ In n m).
  { intros e He. rewrite <- Hes in He. apply W in He. unfold mems, getl in He.
    destruct (get e (h_edge s)) as [m|]; [|destruct He]. exists m. split; [reflexivity|exact He]. }
  assert (Eattr : forall e m, get e (h_edge s) = Some m -> has e (h_eattr s) = true).
  { intros e m G. apply has_In. rewrite Kea. apply (get_Some_In e (h_edge s) m G). }
  rewrite exec_list_cons, exec_if. cbn [beval]. hgs. destruct strong; cbn [nth].
  - rewrite exec_list_cons, exec_forlocal. hgs.
    rewrite (strong_loop_ok n [true; re] [es] s LNone LNone [] None LNone es s1 NDes).
    + rewrite !exec_list_nil. rewrite E1. reflexivity.
    + intros e He. destruct (Edge e He) as (m & Gm & Hnm). exists m. split; [unfold s1; hgs; exact Gm|]. split; [exact Gm|].
      split; [pose proof (Vm e) as V; unfold mems, getl in V; rewrite Gm in V; exact V|].
      split; [unfold s1; hgs; apply (Eattr e m Gm)|].
      intros x Hx Nx. assert (Hi : In e (mships s x)) by (apply W; unfold mems, getl; rewrite Gm; exact Hx).
      unfold mships, getl in Hi. destruct (get x (h_node s)) as [l|] eqn:Gx; [|destruct Hi].
      exists l. split; [unfold s1; hgs; rewrite get_del_other by exact Nx; exact Gx|apply mem_In; exact Hi].
  - rewrite exec_list_cons, exec_forlocal. hgs.
    rewrite (weak_loop_ok n false re [es] LNone LNone [] None LNone es s1 NDes).
    + rewrite !exec_list_nil. rewrite E1. reflexivity.
    + intros e He. destruct (Edge e He) as (m & Gm & Hnm). exists m. split; [unfold s1; hgs; exact Gm|].
      split; [apply mem_In; exact Hnm|unfold s1; hgs; apply (Eattr e m Gm)].
Qed.


(* ---------- add_edge(members, idx=None, **attr) ---------- *)
Lemma exec_binduid body en s :
  exec (SBindUid body) en s =
  exec_list body (with_uid_var en (match e_idx en with Some i => i | None => LInt (h_uid s) end))
            (match e_idx en with Some _ => s | None => with_uid s (h_uid s + 1) end).
Proof.
  cbn [exec]. generalize (match e_idx en with Some _ => s | None => with_uid s (h_uid s + 1) end).
  induction body as [|q r IH]; intro s0; [reflexivity|]. cbn [exec_list].
  destruct (exec q _ s0) as [s' [|y]]; [apply IH|reflexivity].
Qed.

Lemma exec_formembers body en s : exec (SForMembers body) en s = iter_list body en (e_members en) s.
Proof.
  cbn [exec]. generalize (e_members en). intro xs. generalize s. induction xs as [|x r IH]; intro s0; [reflexivity|]. cbn [iter_list].
  assert (E : forall l s1, (fix go (l : list stmt) (s : hg) : hg * outcome :=
               match l with [] => (s, Ok)
               | q :: r' => match exec q (with_loop en x) s with (s', Ok) => go r' s' | y => y end end) l s1
             = exec_list l (with_loop en x) s1).
  { induction l as [|q r' IHl]; intro s1; [reflexivity|]. cbn [exec_list]. destruct (exec q _ s1) as [s' [|y]]; [apply IHl|reflexivity]. }
  rewrite E. destruct (exec_list body _ s0) as [s' [|y]]; [apply IH|reflexivity].
Qed.

Lemma set_set_same {V} k (v1 v2 : V) d : set k v2 (set k v1 d) = set k v2 d.
Proof.
  induction d as [|[k' v'] r IH]; cbn [set].
  - rewrite lbl_eqb_refl. reflexivity.
  - destruct (lbl_eqb k k') eqn:E; cbn [set]; rewrite E; [reflexivity|]. rewrite IH. reflexivity.
Qed.

Lemma attach_has_edge e n s : has e (h_edge (attach e s n)) = true.
Proof. unfold attach, edge_add, has. hgs. rewrite get_set_same. reflexivity. Qed.

(* the member loop: for each node, create it if new, then record the membership on both sides *)
Lemma member_loop_ok e a l0 l1 ms ix : forall xs s,
  (forall x, In x xs -> is_none x = false) -> has e (h_edge s) = true ->
  iter_list [SIf (BNot (BIn VLoop TNode)) [SNewSet TNode VLoop; SNewAttr TNode VLoop] []; SAdd TNode VLoop VUid; SAdd TEdge VUid VLoop]
            (mkEnv [] [] l0 a l1 [] ms ix e) xs s = (fold_left (attach e) xs s, Ok).
Proof.
  induction xs as [|x xs IH]; intros s Hn He; [reflexivity|]. cbn [iter_list fold_left].
  assert (Nx : is_none x = false) by (apply Hn; left; reflexivity).
  assert (Goal1 : exec_list [SIf (BNot (BIn VLoop TNode)) [SNewSet TNode VLoop; SNewAttr TNode VLoop] []; SAdd TNode VLoop VUid; SAdd TEdge VUid VLoop]
                    (with_loop (mkEnv [] [] l0 a l1 [] ms ix e) x) s = (attach e s x, Ok)).
  { rewrite exec_list_cons, exec_if. cbn [beval]. hgs.
    unfold attach, ensure_node.
    destruct (has x (h_node s)) eqn:Hx; cbn [negb].
    - rewrite exec_list_nil. unfold has in Hx. destruct (get x (h_node s)) as [l|] eqn:Gx; [|discriminate Hx].
      rewrite exec_list_cons, exec_add. hgs. rewrite Gx. rewrite exec_list_cons, exec_add. hgs.
      unfold has in He. destruct (get e (h_edge s)) as [m|] eqn:Ge; [|discriminate He]. rewrite exec_list_nil.
      unfold node_add, edge_add, getl. hgs. rewrite Gx, Ge. reflexivity.
    - rewrite exec_list_cons, exec_newset. hgs. rewrite Nx. rewrite exec_list_cons, exec_newattr. hgs. rewrite Nx. rewrite exec_list_nil.
      rewrite exec_list_cons, exec_add. hgs. rewrite get_set_same. rewrite exec_list_cons, exec_add. hgs.
      unfold has in He. destruct (get e (h_edge s)) as [m|] eqn:Ge; [|discriminate He]. rewrite exec_list_nil.
      unfold node_add, edge_add, getl. hgs. rewrite get_set_same, Ge. reflexivity. }
  rewrite Goal1. apply IH; [intros y Hy; apply Hn; right; exact Hy|apply attach_has_edge].
Qed.

Lemma fold_attach_has_edge e : forall xs s, has e (h_edge s) = true -> has e (h_edge (fold_left (attach e) xs s)) = true.
Proof. induction xs as [|x xs IH]; intros s H; [exact H|]. cbn [fold_left]. apply IH. apply attach_has_edge. Qed.

Lemma fold_attach_eattr e : forall xs s, h_eattr (fold_left (attach e) xs s) = h_eattr s.
Proof. induction xs as [|x xs IH]; intro s; [reflexivity|]. cbn [fold_left]. rewrite IH. unfold attach, edge_add, node_add, ensure_node. destruct (has x (h_node s)); reflexivity. Qed.

(* the statements after the guards, once the id is known *)
Lemma add_edge_body_ok a ms ix u s0 rest :
  is_none u = false -> (forall x, In x ms -> is_none x = false) ->
  exec_list [SNewSet TEdge VUid;
             SForMembers [SIf (BNot (BIn VLoop TNode)) [SNewSet TNode VLoop; SNewAttr TNode VLoop] []; SAdd TNode VLoop VUid; SAdd TEdge VUid VLoop];
             SNewAttr TEdge VUid; SAttrUpdate TEdge VUid; rest]
            (mkEnv [] [] LNone a LNone [] ms ix u) s0 =
  exec_list [rest] (mkEnv [] [] LNone a LNone [] ms ix u) (insert_edge u ms a s0).
Proof.
  intros Nu Hms. rewrite exec_list_cons, exec_newset. hgs. rewrite Nu.
  rewrite exec_list_cons, exec_formembers. hgs.
  set (s1 := with_edge s0 (set u [] (h_edge s0))).
  assert (H1 : has u (h_edge s1) = true) by (unfold s1, has; hgs; rewrite get_set_same; reflexivity).
  rewrite (member_loop_ok u a LNone LNone ms ix ms s1 Hms H1).
  set (s2 := fold_left (attach u) ms s1).
  rewrite exec_list_cons, exec_newattr. hgs. rewrite Nu.
  rewrite exec_list_cons, exec_attrupdate. hgs. rewrite get_set_same. rewrite set_set_same.
  unfold insert_edge. fold s1. fold s2. reflexivity.
Qed.

Theorem add_edge_is_source members idx a s :
  idx <> Some LNone -> has LNone (h_edge s) = false ->
  run_method_m src_add_edge_guards src_add_edge members idx a s = add_edge members idx a s.
Proof.
  intros Hi Hnone. unfold run_method_m, run_guarded, src_add_edge_guards, src_add_edge, add_edge. cbn [run_guards beval]. hgs.
  destruct (existsb is_none (mkset members)) eqn:En; [reflexivity|].
  assert (Hms : forall x, In x (mkset members) -> is_none x = false).
  { intros x Hx. destruct (is_none x) eqn:E; [|reflexivity]. exfalso.
    assert (existsb is_none (mkset members) = true) by (apply existsb_exists; exists x; split; assumption). congruence. }
  destruct idx as [i|].
  - destruct (has i (h_edge s)) eqn:Hh; [reflexivity|].
    assert (Ni : is_none i = false) by (destruct i; try reflexivity; exfalso; apply Hi; reflexivity).
    rewrite exec_list_cons, exec_binduid. hgs.
    rewrite (add_edge_body_ok a (mkset members) (Some i) i s _ Ni Hms).
    rewrite exec_list_cons, exec_if. cbn [beval]. hgs. cbn [negb]. rewrite exec_list_cons, exec_uid. hgs. rewrite !exec_list_nil. reflexivity.
  - rewrite Hnone.
    rewrite exec_list_cons, exec_binduid. hgs.
    rewrite (add_edge_body_ok a (mkset members) None (LInt (h_uid s)) (with_uid s (h_uid s + 1)) _ eq_refl Hms).
    rewrite exec_list_cons, exec_if. cbn [beval]. hgs. cbn [negb]. rewrite !exec_list_nil. reflexivity.
Qed.


(* ---------- clear(remove_net_attr) : on every state ---------- *)
Lemma exec_clear t en s : exec (SClear t) en s = (set_tab t s [], Ok).
Proof. reflexivity. Qed.
Lemma exec_clearattr t en s : exec (SClearAttr t) en s = (set_atab t s [], Ok).
Proof. reflexivity. Qed.
Lemma exec_clearnet en s : exec SClearNet en s = (mkHG (h_node s) (h_nattr s) (h_edge s) (h_eattr s) [] (h_uid s), Ok).
Proof. reflexivity. Qed.

Theorem clear_is_source b s : run_method_l src_clear [] [b] s = clear b s.
Proof.
  unfold run_method_l, src_clear, clear.
  rewrite exec_list_cons, exec_clear, exec_list_cons, exec_clearattr, exec_list_cons, exec_clear, exec_list_cons, exec_clearattr.
  rewrite exec_list_cons, exec_if. cbn [beval]. hgs. destruct b.
  - rewrite exec_list_cons, exec_clearnet, !exec_list_nil. reflexivity.
  - rewrite !exec_list_nil. unfold ok. hgs. reflexivity.
Qed.

(* ---------- clear_edges() : whenever the node table has distinct keys, none of them None ---------- *)
Lemma exec_forkeys t body en s : exec (SForKeys t body) en s = iter_list body en (keys (tab t s)) s.
Proof.
  cbn [exec]. generalize (keys (tab t s)). intro xs. generalize s. induction xs as [|x r IH]; intro s0; [reflexivity|]. cbn [iter_list].
  assert (E : forall l s1, (fix go (l : list stmt) (s : hg) : hg * outcome :=
               match l with [] => (s, Ok)
               | q :: r' => match exec q (with_loop en x) s with (s', Ok) => go r' s' | y => y end end) l s1
             = exec_list l (with_loop en x) s1).
  { induction l as [|q r' IHl]; intro s1; [reflexivity|]. cbn [exec_list]. destruct (exec q _ s1) as [s' [|y]]; [apply IHl|reflexivity]. }
  rewrite E. destruct (exec_list body _ s0) as [s' [|y]]; [apply IH|reflexivity].
Qed.

Lemma reset_loop_ok en : forall xs s, (forall x, In x xs -> is_none x = false) ->
  iter_list [SNewSet TNode VLoop] en xs s = (with_node s (fold_left (fun d x => set x [] d) xs (h_node s)), Ok).
Proof.
  induction xs as [|x xs IH]; intros s H; [destruct s; reflexivity|]. cbn [iter_list fold_left].
  rewrite exec_list_cons, exec_newset. hgs. rewrite (H x (or_introl eq_refl)). rewrite exec_list_nil.
  rewrite IH by (intros y Hy; apply H; right; exact Hy). reflexivity.
Qed.

Lemma set_app_notin {V} k (v : V) d1 d2 : ~ In k (keys d1) -> set k v (d1 ++ d2) = d1 ++ set k v d2.
Proof.
  induction d1 as [|[k' v'] r IH]; intro H; [reflexivity|]. cbn [app set].
  destruct (lbl_eqb_spec k k') as [->|N]; [exfalso; apply H; left; reflexivity|].
  rewrite IH; [reflexivity|]. intro Hi. apply H. right. exact Hi.
Qed.

Lemma reset_all (d2 : odict (list lbl)) : forall d1, NoDup (keys (d1 ++ d2)) ->
  fold_left (fun d x => set x [] d) (keys d2) (d1 ++ d2) = d1 ++ map (fun kv => (fst kv, [])) d2.
Proof.
  induction d2 as [|[k v] r IH]; intros d1 ND; [reflexivity|]. cbn [keys map fold_left fst].
  assert (Hk : ~ In k (keys d1)).
  { unfold keys in ND. rewrite map_app in ND. cbn [map fst] in ND. apply NoDup_remove_2 in ND.
    intro Hi. apply ND. apply in_or_app. left. exact Hi. }
  rewrite set_app_notin by exact Hk. cbn [set]. rewrite lbl_eqb_refl.
  change (d1 ++ (k, []) :: r) with (d1 ++ [(k, @nil lbl)] ++ r). rewrite app_assoc.
  change (map fst r) with (keys r). rewrite IH.
  - rewrite <- app_assoc. reflexivity.
  - rewrite <- app_assoc. unfold keys in *. rewrite map_app in *. cbn [map fst app] in *. exact ND.
Qed.

Theorem clear_edges_is_source s : NoDup (keys (h_node s)) -> ~ In LNone (keys (h_node s)) ->
  run_method_l src_clear_edges [] [] s = clear_edges s.
Proof.
  intros ND NN. unfold run_method_l, src_clear_edges, clear_edges.
  rewrite exec_list_cons, exec_forkeys. hgs. rewrite reset_loop_ok.
  2:{ intros x Hx. destruct x; try reflexivity. contradiction. }
  rewrite exec_list_cons, exec_clear, exec_list_cons, exec_clearattr, exec_list_nil.
  pose proof (reset_all (h_node s) [] ND) as R. cbn [app] in R. rewrite R. reflexivity.
Qed.

(* ---------- remove_edges_from(ebunch) : on every state satisfying the class invariant ---------- *)
Lemma remove_one_ok e args flags l1 locs ms ix u s : Inv s ->
  exec_list [SForCopy TEdge VLoop [SRemove TNode VLoop VLoop1]; SDel TEdge VLoop; SDelAttr TEdge VLoop]
            (mkEnv args flags e [] l1 locs ms ix u) s =
  (st_of (remove_edge1 e s), out_of (remove_edge1 e s)).
Proof.
  intros (W & (_ & Kea & _ & _) & (_ & Vm) & _). unfold remove_edge1.
  rewrite exec_list_cons, exec_for. hgs. destruct (get e (h_edge s)) as [m|] eqn:Ge; [|reflexivity].
  assert (Hm : mems s e = m) by (unfold mems, getl; rewrite Ge; reflexivity).
  rewrite (iter_remove_e_ok args flags locs e l1 ms ix u m s).
  2:{ rewrite <- Hm. apply Vm. }
  2:{ intros x Hx. assert (Hi : In e (mships s x)) by (apply W; rewrite Hm; exact Hx).
      unfold mships, getl in Hi. destruct (get x (h_node s)) as [l|]; [|destruct Hi]. exists l. split; [reflexivity|apply mem_In; exact Hi]. }
  set (s' := fold_left (fun s n => node_rem n e s) m s). destruct (fold_node_rem_tables e m s) as [A B]. fold s' in A, B.
  rewrite exec_list_cons, exec_del. hgs. rewrite A.
  assert (He : has e (h_edge s) = true) by (unfold has; rewrite Ge; reflexivity). rewrite He.
  rewrite exec_list_cons, exec_delattr. hgs. rewrite B.
  assert (Hea : has e (h_eattr s) = true) by (apply has_In; rewrite Kea; apply has_In; exact He).
  rewrite Hea, exec_list_nil. unfold ok, drop_edge, st_of, out_of. cbn [fst snd]. rewrite A, B. reflexivity.
Qed.

Lemma remove_edge1_no_warn e s : snd (remove_edge1 e s) = O.
Proof. unfold remove_edge1. destruct (get e (h_edge s)); reflexivity. Qed.

Lemma remove_loop_ok args flags l0 l1 locs ms ix u : forall es s, Inv s ->
  (let (s', o) := iter_list [SForCopy TEdge VLoop [SRemove TNode VLoop VLoop1]; SDel TEdge VLoop; SDelAttr TEdge VLoop]
                            (mkEnv args flags l0 [] l1 locs ms ix u) es s in (s', o, O)) = remove_edges_from es s.
Proof.
  induction es as [|e es IH]; intros s I; [reflexivity|]. unfold remove_edges_from. cbn [iter_list loop]. hgs.
  rewrite (remove_one_ok e args flags l0 locs ms ix u s I).
  pose proof (Inv_remove_edge1 e s I) as I'. pose proof (remove_edge1_no_warn e s) as Wn.
  destruct (remove_edge1 e s) as [[s1 o1] w1]. cbn [st_of out_of fst snd] in *. subst w1.
  destruct o1 as [|x]; [|reflexivity].
  specialize (IH s1 I'). unfold remove_edges_from in IH. rewrite <- IH.
  destruct (iter_list _ _ es s1) as [s2 o2]. reflexivity.
Qed.

Theorem remove_edges_from_is_source es s : Inv s ->
  run_method_l src_remove_edges_from es [] s = remove_edges_from es s.
Proof.
  intro I. unfold run_method_l, src_remove_edges_from. rewrite exec_list_cons, exec_formembers. hgs.
  rewrite <- (remove_loop_ok [] [] LNone LNone [] es None LNone es s I).
  destruct (iter_list _ _ es s) as [s' [|x]]; [rewrite exec_list_nil|]; reflexivity.
Qed.
