"""C18 - frozen networks cannot be structurally modified."""
import inspect, random, warnings
from .. import common as C, histcheck as HC, gallina as G, hgsim, disim, scsim
from . import base, C01, C02, C03

PROP = "C18"
PROJ = "(mkProj true true false true)"      # the id counter is not structure (DESIGN section 7)
IMPORTS = ("Base.Label Base.Attr Base.Outcome Model.Hypergraph Model.HgCheck Model.DiHypergraph Model.DiCheck "
           "Model.SimplicialComplex Model.ScCheck Model.Freeze Model.FreezeCheck Gen.FreezeLists")
CLASSES = {
    "Hypergraph": (hgsim, "fmismatches_hg frozen_hg"),
    "DiHypergraph": (disim, "fmismatches_di frozen_di"),
    "SimplicialComplex": (scsim, "fmismatches_sc frozen_sc"),
}


def structure(ob):
    return (ob.get("nodes"), ob.get("edges"))


def gen_two_phase(sim, klass, n_cases, seed):
    """histories with freeze() called before step k; returns records with 'freeze_at'"""
    rng = random.Random(seed)
    recs = []
    for _ in range(n_cases):
        style = rng.choice(sim.STYLES)
        k = rng.randint(1, 8)
        m = rng.randint(2, 8)
        r = sim.run_history(None, length=k + m, rng=random.Random(rng.randrange(2 ** 62)), style=style,
                            malformed=rng.random() < 0.1, freeze_at=k)
        r["freeze_at"] = k
        r["style"] = style
        recs.append(r)
    return recs


def two_phase_term(sim, rec):
    k = rec["freeze_at"]
    items = []
    try:
        for op, extra, ob, exc, nwarn in zip(rec["ops"], rec["extras"], rec["obs"], rec["excs"], rec["warns"]):
            if ob["broken"]:
                return None
            items.append(G.gpair(sim.op_to_gallina(op, extra), sim.obs_to_gallina(ob, exc, nwarn)))
    except G.Unsupported:
        return None
    return G.gpair(G.glist(items[:k]), G.glist(items[k:]))


def eval_two_phase(klass, sim, fn, recs):
    import copy, os
    cdir = C.cases_dir(PROP + klass)
    terms, mism, errors = [], [], []
    for i, r in enumerate(recs):
        t = two_phase_term(sim, r)
        if t is None:
            mism.append((i, len(r["ops"]) - 1))
        else:
            terms.append((i, t))
    # canary
    can = copy.deepcopy(recs[terms[0][0]]) if terms else None
    if can is not None:
        sim.corrupt(can)
        ct = two_phase_term(sim, can)
        if ct is not None:
            terms.insert(0, (-1, ct))
    files = {}
    shard = 200
    for k in range(0, len(terms), shard):
        chunk = terms[k:k + shard]
        path = os.path.join(cdir, f"cases_{PROP}_{klass}_{k // shard}.v")
        C.write_case_file(path, [IMPORTS], "Definition cases := [\n" + ";\n".join(t for _, t in chunk) + "\n].\n" +
                          f"Eval vm_compute in ({fn} {PROJ} cases).\n")
        files[path] = [i for i, _ in chunk]
    res = C.run_coq_files(files.keys())
    for path, idxs in files.items():
        rc, out = res[path]
        pairs = C.parse_pairs(out) if rc == 0 else None
        if pairs is None:
            errors.append({"file": os.path.basename(path), "rc": rc, "output": out[-1500:]})
            continue
        for ci, si in pairs:
            mism.append((idxs[ci], si))
    if can is not None and not errors and not any(ci == -1 for ci, _ in mism):
        errors.append({"file": "canary", "rc": 0, "output": "planted divergence was not reported"})
    C.clean_cases(cdir)
    return sorted(m for m in mism if m[0] != -1), errors


def frozen_oracle(sim, klass, rec):
    """Replays the history; after freeze(), every op that changes the structure of an unfrozen copy
    must raise the library's error on the frozen network and leave it as it was."""
    import xgi
    H = getattr(xgi, klass)()
    k = rec["freeze_at"]
    for i, op in enumerate(rec["ops"]):
        if i == k:
            H.freeze()
            if not H.is_frozen:
                return i, "is_frozen is False after freeze()"
        if i < k:
            sim.apply_op(H, op)
            continue
        before = sim.observe(H)
        cp = H.copy()
        if cp.is_frozen:
            return i, "copy() of a frozen network is frozen"
        if structure(sim.observe(cp)) != structure(before) or sim.observe(cp).get("nattr") != before.get("nattr") \
                or sim.observe(cp).get("eattr") != before.get("eattr"):
            return i, "copy() of a frozen network is not equal to it"
        random_state = random.getstate()
        _, exc_cp, _ = sim.apply_op(cp, op)
        changes = structure(sim.observe(cp)) != structure(before)
        random.setstate(random_state)
        _, exc, _ = sim.apply_op(H, op)
        after = sim.observe(H)
        if structure(after) != structure(before):
            return i, f"{op[0]} modified a frozen {klass}"
        if changes and exc != "XGIError":
            return i, f"{op[0]} changes an unfrozen {klass} but on the frozen one it ended with {exc or 'no exception'}"
    return None


# ---------------------------------------------------------------------------------------------
# probing the public method surface

RECIPES = {
    # parameter name -> argument for an (unfrozen or frozen) small network
    "node": 1, "n": 1, "nodes_for_adding": [7, 8], "nodes": [1, 2], "n_id1": 1, "n_id2": 3,
    "e_id1": 0, "e_id2": 1, "idx": None, "members": [7, 8, 9], "edge": 0, "ebunch": [0],
    "ebunch_to_add": [[7, 8], [8, 9, 10]], "values": {1: {"a": 1}}, "name": None, "weight": "weight",
    "strong": False, "remove_empty": True, "remove_net_attr": True, "attr": "x", "val": 1,
    "rename": "first", "merge_rule": "first", "multiplicity": None, "isolates": False, "singletons": False,
    "multiedges": False, "connected": True, "relabel": True, "in_place": True, "max_order": None,
    "simplex": [1, 2], "H2": None, "edges": [[7, 8]], "direction": "in",
}


def build(klass):
    import xgi
    if klass == "DiHypergraph":
        return xgi.DiHypergraph([([1, 2], [3]), ([3], [4, 5]), ([1], [2]), ([1], [2])])
    if klass == "SimplicialComplex":
        return xgi.SimplicialComplex([[1, 2, 3], [3, 4], [5, 6]])
    return xgi.Hypergraph([[1, 2, 3], [3, 4], [1, 2, 3], [5], [6, 7]])


def call_args(klass, name, fn):
    sig = inspect.signature(fn)
    args, kwargs = [], {}
    for p in list(sig.parameters.values()):
        if p.name == "self" or p.kind in (p.VAR_POSITIONAL, p.VAR_KEYWORD):
            continue
        val = RECIPES.get(p.name, inspect._empty)
        if name == "add_node" and p.name == "node":
            val = 99
        if name == "add_node_to_edge" and p.name == "node":
            val = 99
        if name == "double_edge_swap":
            val = {"n_id1": 1, "n_id2": 4, "e_id1": 0, "e_id2": 1}.get(p.name, val)
        if klass == "SimplicialComplex" and name == "add_edge" and p.name == "edge":
            val = [7, 8]
        if klass == "DiHypergraph":
            if p.name == "members":
                val = ([7, 8], [9])
            elif p.name == "ebunch_to_add":
                val = [([7], [8]), ([8, 9], [10])]
        if name in ("remove_simplex_id", "remove_edge") and p.name == "idx":
            val = 0
        if name.startswith("add_weighted") and p.name in ("ebunch", "ebunch_to_add"):
            val = [(7, 8, 2.0), (8, 9, 3.0)]
        if name in ("remove_edges_from", "remove_simplex_ids_from") and p.name == "ebunch":
            val = [0]
        if name == "update":
            kwargs = {"edges": [[7, 8]], "nodes": [11]}
            return [], kwargs
        if p.default is not inspect._empty and val is inspect._empty:
            continue
        if val is inspect._empty:
            return None
        if p.kind == p.KEYWORD_ONLY:
            kwargs[p.name] = val
        else:
            args.append(val)
    return args, kwargs


def snapshot(net, klass):
    if klass == "DiHypergraph":
        return (list(net.nodes), {n: tuple(map(frozenset, net.nodes.dimemberships(n))) for n in net.nodes},
                list(net.edges), {e: tuple(map(frozenset, net.edges.dimembers(e))) for e in net.edges})
    return (list(net.nodes), {n: frozenset(net.nodes.memberships(n)) for n in net.nodes},
            list(net.edges), {e: frozenset(net.edges.members(e)) for e in net.edges})


KNOWN = {
    "Hypergraph": set("add_node add_nodes_from remove_node remove_nodes_from add_edge add_edges_from "
                      "add_weighted_edges_from remove_edge remove_edges_from add_node_to_edge remove_node_from_edge "
                      "clear clear_edges double_edge_swap random_edge_shuffle update merge_duplicate_edges cleanup".split()),
    "DiHypergraph": set("add_node add_nodes_from remove_node remove_nodes_from add_edge add_edges_from remove_edge "
                        "remove_edges_from add_node_to_edge remove_node_from_edge clear cleanup".split()),
    "SimplicialComplex": set("add_node add_nodes_from remove_node remove_nodes_from add_simplex add_simplices_from "
                             "add_weighted_simplices_from remove_simplex_id remove_simplex_ids_from clear clear_edges "
                             "random_edge_shuffle close cleanup add_edge add_edges_from add_weighted_edges_from "
                             "remove_edge remove_edges_from update merge_duplicate_edges".split()),
}


def probe_surface(klass):
    """returns (structural methods found, failures, unknown structural methods, methods without recipe)"""
    import xgi
    from xgi.exception import XGIError
    cls = getattr(xgi, klass)
    failures, structural, norecipe = [], set(), []
    names = [n for n in dir(cls) if not n.startswith("_") and callable(getattr(cls, n, None))
             and not isinstance(inspect.getattr_static(cls, n), property)]
    for name in names:
        fn = getattr(cls, name)
        ca = call_args(klass, name, fn)
        if ca is None:
            norecipe.append(name)
            continue
        args, kwargs = ca
        net = build(klass)
        before = snapshot(net, klass)
        random.seed(1)
        try:
            with warnings.catch_warnings():
                warnings.simplefilter("ignore")
                getattr(net, name)(*args, **kwargs)
        except Exception:  # noqa: BLE001
            pass
        if snapshot(net, klass) == before:
            continue
        structural.add(name)
        fz = build(klass)
        fz.freeze()
        before = snapshot(fz, klass)
        random.seed(1)
        exc = None
        try:
            with warnings.catch_warnings():
                warnings.simplefilter("ignore")
                getattr(fz, name)(*args, **kwargs)
        except Exception as e:  # noqa: BLE001
            exc = e
        if snapshot(fz, klass) != before:
            failures.append((f"{PROP}:{klass}.{name}:modifies-frozen",
                             {"what": f"{klass}.{name}{tuple(args)}{kwargs or ''} modifies a frozen network",
                              "class": klass, "method": name}))
        elif not isinstance(exc, XGIError):
            failures.append((f"{PROP}:{klass}.{name}:no-library-error",
                             {"what": f"{klass}.{name} on a frozen network ended with {type(exc).__name__ if exc else 'no exception'} instead of XGIError",
                              "class": klass, "method": name}))
    unknown = sorted(structural - KNOWN[klass])
    return structural, failures, unknown, norecipe


def helper_probe():
    """in-place library helpers and subhypergraph / copy on frozen networks"""
    import xgi
    from xgi.exception import XGIError
    failures = []
    for klass in CLASSES:
        for hname, call in (("convert_labels_to_integers", lambda n: xgi.convert_labels_to_integers(n, in_place=True)),
                            ("largest_connected_hypergraph", lambda n: xgi.largest_connected_hypergraph(n, in_place=True))):
            if klass == "DiHypergraph" and hname == "largest_connected_hypergraph":
                continue
            net = build(klass); net.freeze()
            before = snapshot(net, klass)
            exc = None
            try:
                call(net)
            except Exception as e:  # noqa: BLE001
                exc = e
            if snapshot(net, klass) != before:
                failures.append((f"{PROP}:{klass}.{hname}:modifies-frozen",
                                 {"what": f"{hname}(in_place=True) modifies a frozen {klass}", "class": klass}))
            elif not isinstance(exc, XGIError):
                failures.append((f"{PROP}:{klass}.{hname}:no-library-error",
                                 {"what": f"{hname}(in_place=True) on a frozen {klass} ended with {type(exc).__name__ if exc else 'no exception'}", "class": klass}))
        net = build(klass); net.freeze()
        cp = net.copy()
        if cp.is_frozen or snapshot(cp, klass) != snapshot(net, klass):
            failures.append((f"{PROP}:{klass}.copy", {"what": f"copy() of a frozen {klass} is frozen or differs", "class": klass}))
        try:
            cp.add_node("new")
        except Exception as e:  # noqa: BLE001
            failures.append((f"{PROP}:{klass}.copy:not-editable", {"what": f"copy() of a frozen {klass} cannot be edited: {e}", "class": klass}))
        if build(klass).is_frozen:
            failures.append((f"{PROP}:{klass}.is_frozen", {"what": "a fresh network reports is_frozen", "class": klass}))
    # subhypergraph freezes its result, whatever is selected (everything, a part, nothing, ids that do not exist)
    import random as _random
    rr = _random.Random(18)
    for klass in ("Hypergraph", "SimplicialComplex"):
        H = build(klass)
        nodes, edges = list(H.nodes), list(H.edges)
        selections = [{}, {"nodes": [1, 2, 3]}, {"nodes": []}, {"nodes": ["no-such-node", 10 ** 6]}, {"edges": []},
                      {"edges": edges[:1]}, {"nodes": nodes[:2], "edges": edges[:2]}, {"nodes": [], "edges": edges[:1]},
                      {"nodes": nodes[:1], "keep_isolates": False}, {"nodes": [], "keep_isolates": False}]
        for _ in range(6):
            sel = {}
            if rr.random() < 0.8:
                sel["nodes"] = rr.sample(nodes, rr.randint(0, len(nodes)))
            if rr.random() < 0.5:
                sel["edges"] = rr.sample(edges, rr.randint(0, len(edges)))
            if rr.random() < 0.3:
                sel["keep_isolates"] = False
            selections.append(sel)
        for sel in selections:
            try:
                sub = xgi.subhypergraph(H, **sel)
            except Exception:  # noqa: BLE001 - a selection the function refuses is not a frozen-network question
                continue
            if not sub.is_frozen:
                failures.append((f"{PROP}:subhypergraph:not-frozen",
                                 {"what": f"subhypergraph({klass}, {sel}) is not frozen", "class": klass, "selection": repr(sel)}))
                continue
            before = snapshot(sub, klass)
            for name in sorted(KNOWN[klass] - {"update", "merge_duplicate_edges", "cleanup"}):
                ca = call_args(klass, name, getattr(getattr(xgi, klass), name))
                if ca is None:
                    continue
                exc = None
                try:
                    getattr(sub, name)(*ca[0], **ca[1])
                except Exception as e:  # noqa: BLE001
                    exc = e
                if snapshot(sub, klass) != before:
                    failures.append((f"{PROP}:subhypergraph.{name}:modifies",
                                     {"what": f"{name} modifies the result of subhypergraph({klass}, {sel})", "class": klass, "selection": repr(sel)}))
                    break
                # the library's error is owed only by a call that would change an editable copy
                cp = sub.copy()
                try:
                    getattr(cp, name)(*ca[0], **ca[1])
                except Exception:  # noqa: BLE001
                    pass
                would_change = snapshot(cp, klass) != before
                if would_change and not isinstance(exc, XGIError):
                    failures.append((f"{PROP}:subhypergraph.{name}:no-library-error",
                                     {"what": f"{name} on the result of subhypergraph({klass}, {sel}) ended with {type(exc).__name__ if exc else 'no exception'}",
                                      "class": klass, "selection": repr(sel)}))
                    break
    return failures


def run(v):
    proof = base.proof_stage(v, PROP)
    n = 1200 if C.tier() == "thorough" else 180
    failures, reports, errors, total, allrecs = [], [], [], 0, []
    for klass, (sim, fn) in CLASSES.items():
        recs = gen_two_phase(sim, klass, n, C.seed() + 18)
        total += len(recs); allrecs += recs
        for r in recs:
            f = frozen_oracle(sim, klass, r)
            if f:
                i, d = f
                failures.append((f"{PROP}:{klass}.{r['ops'][i][0]}:{'modifies' if 'modified' in d else 'outcome'}",
                                 {"what": d, "class": klass, "freeze_at": r["freeze_at"],
                                  "history": HC.jsonable(r["ops"][:i + 1]), "step": i}))
        mism, errs = eval_two_phase(klass, sim, fn, recs)
        errors += errs
        for ci, si in mism[:3]:
            r = recs[ci]
            reports.append({"correspondence": f"{fn} {PROJ}", "class": klass, "freeze_at": r["freeze_at"], "step": si,
                            "history": HC.jsonable(r["ops"][:si + 1]), "implementation_outcomes": r["excs"][:si + 1],
                            "implementation_last": HC.jsonable(r["obs"][si])})
    surface = {}
    for klass in CLASSES:
        structural, fs, unknown, norecipe = probe_surface(klass)
        failures += fs
        surface[klass] = {"structural_methods_found": sorted(structural), "without_recipe": norecipe}
        for m in unknown:
            reports.append({"correspondence": "method surface vs. model", "class": klass,
                            "detail": f"public method {m} changes structure on an unfrozen network and is unknown to the model"})
        missing = sorted(KNOWN[klass] - structural - {"add_node_to_edge"} if klass == "SimplicialComplex" else KNOWN[klass] - structural)
        surface[klass]["modelled_but_not_observed_structural"] = missing
    failures += helper_probe()
    st = HC.stats(allrecs)
    v.coverage.update({
        "evaluations": total,
        "distinct_nontrivial": st.pop("distinct_nontrivial"),
        "rule": "two-phase histories (edits, freeze(), more calls over the whole alphabet) for the three classes, "
                "compared with fstep/dfstep/sfstep over the regenerated freeze lists; oracle: an op that changes an "
                "unfrozen copy must raise XGIError and leave the frozen network unchanged; every public method found "
                "by introspection is probed unfrozen/frozen; non-trivial = the history changes the tables",
        "samples": [HC.jsonable({"freeze_at": r["freeze_at"], "ops": r["ops"][:6]}) for r in allrecs[:2]],
        "method_surface": surface,
        "oracle_evaluations": sum(len(r["ops"]) for r in allrecs),
        "exhaustive": False,
        **st,
    })
    base.conclude(v, proof, reports, failures, errors)


def replay(payload):
    klass = payload.get("class", "Hypergraph")
    d = payload.get("detail", payload)
    if "history" not in d:
        print(payload.get("what") or d)
        structural, fs, unknown, norecipe = probe_surface(klass)
        for sig, p in fs:
            print("FAILS:", p["what"])
        return 1 if fs else 0
    sim, fn = CLASSES[klass]
    ops = HC.unjson(d["history"])
    rec = sim.run_history(ops, freeze_at=d.get("freeze_at"))
    rec["freeze_at"] = d.get("freeze_at")
    for i, (op, exc, ob) in enumerate(zip(rec["ops"], rec["excs"], rec["obs"])):
        print(f"step {i}{' (frozen)' if i >= rec['freeze_at'] else ''}: {op} -> {exc or 'returns'}; edges={ob.get('edges')}")
    f = frozen_oracle(sim, klass, rec)
    print("oracle:", f"FAILS at step {f[0]}: {f[1]}" if f else "holds")
    m, errs = eval_two_phase(klass, sim, fn, [rec])
    print("correspondence:", f"differs at step {m[0][1]}" if m else "model agrees", errs or "")
    return 1 if (f or m) else 0
