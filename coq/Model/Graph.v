(* Graph-reducible algorithms (C14): xgi/algorithms/connected.py, shortest_path.py, clustering.py and
   the graph converters, on the Hypergraph tables.
   _plain_bfs is transcribed level by level (fuel = number of nodes + 2; the theorems show that this
   fuel always suffices).  Distances are the breadth-first levels (the array Dijkstra of the code
   with unit increments is compared with them by the correspondence).  Graphs are lists of vertices
   and links. *)
From Coq Require Import String ZArith List Bool Lia.
From XV Require Import Base.Label Base.LSet Base.ODict Base.Attr Base.Outcome Model.Hypergraph Model.Stats.
Import ListNotations.
Open Scope Z_scope.

Definition nbrs (s : hg) (v : lbl) : list lbl := neighbors SNode 1 s v.

(* ---------- _plain_bfs ---------- *)
Definition fresh (seen frontier : list lbl) : list lbl := filter (fun v => negb (mem v seen)) (dedup frontier).

Fixpoint bfs (fuel : nat) (s : hg) (frontier seen : list lbl) : list lbl :=
  match fuel with
  | O => seen
  | S f => match frontier with
           | [] => seen
           | _ => let new := fresh seen frontier in
                  bfs f s (flat_map (nbrs s) new) (seen ++ new)
           end
  end.

Definition bfs_fuel (s : hg) : nat := S (S (length (h_node s))).
Definition component (s : hg) (v : lbl) : list lbl := bfs (bfs_fuel s) s [v] [].

(* connected_components: in node order, each from the first node not seen yet *)
Fixpoint comps_from (s : hg) (vs seen : list lbl) : list (list lbl) :=
  match vs with
  | [] => []
  | v :: r => if mem v seen then comps_from s r seen
              else let c := component s v in c :: comps_from s r (seen ++ c)
  end.
Definition components (s : hg) : list (list lbl) := comps_from s (keys (h_node s)) [].

Definition is_connected (s : hg) : option bool :=
  match keys (h_node s) with
  | [] => None                              (* IndexError *)
  | v :: _ => Some (Nat.eqb (length (component s v)) (length (h_node s)))
  end.

(* max(..., key=len): the first of the largest *)
Definition largest (cs : list (list lbl)) : list lbl :=
  fold_left (fun best c => if Nat.ltb (length best) (length c) then c else best) (tl cs) (hd [] cs).

(* ---------- breadth-first distances ---------- *)
Fixpoint bfs_levels (fuel : nat) (s : hg) (frontier seen : list lbl) (d : Z) : list (lbl * Z) :=
  match fuel with
  | O => []
  | S f => match frontier with
           | [] => []
           | _ => let new := fresh seen frontier in
                  map (fun v => (v, d)) new ++ bfs_levels f s (flat_map (nbrs s) new) (seen ++ new) (d + 1)
           end
  end.
Definition levels (s : hg) (v : lbl) : list (lbl * Z) := bfs_levels (bfs_fuel s) s [v] [] 0.
(* distance from a to b; None = infinite *)
Definition dist (s : hg) (a b : lbl) : option Z := get b (levels s a).
Definition dist_row (s : hg) (a : lbl) : list (lbl * option Z) := map (fun b => (b, dist s a b)) (keys (h_node s)).

(* ---------- clustering coefficient of the pairwise projection ---------- *)
(* (closed walks of length 3 through v, k (k - 1)); the coefficient is their quotient, 0 when k < 2 *)
Definition clustering (s : hg) (v : lbl) : Z * Z :=
  let nb := nbrs s v in
  let k := Z.of_nat (length nb) in
  let t := fold_left (fun acc a => acc + Z.of_nat (length (filter (fun b => mem b (nbrs s a)) nb))) nb 0 in
  (t, k * (k - 1)).

(* ---------- converters ---------- *)
(* to_graph: vertices = nodes; links (a, b), both directions *)
Definition projection_links (s : hg) : list (lbl * lbl) :=
  flat_map (fun a => map (fun b => (a, b)) (nbrs s a)) (keys (h_node s)).

(* to_line_graph(H, s): links between edges e1 before e2 sharing at least sv nodes, with
   (|intersection|, min size) *)
Fixpoint line_links (sv : Z) (es : list (lbl * list lbl)) : list (lbl * lbl * (Z * Z)) :=
  match es with
  | [] => []
  | (e1, m1) :: r =>
      flat_map (fun kv => let k := zlen (sinter m1 (snd kv)) in
                          if sv <=? k then [(e1, fst kv, (k, Z.min (zlen m1) (zlen (snd kv))))] else []) r
      ++ line_links sv r
  end.

Fixpoint index_of (x : lbl) (l : list lbl) (i : nat) : nat :=
  match l with [] => i | y :: r => if lbl_eqb x y then i else index_of x r (S i) end.

(* to_bipartite_graph: node i <-> i, edge j <-> n + j; links (node index, edge index) *)
Definition bipartite_links (s : hg) : list (nat * nat) :=
  let ns := keys (h_node s) in
  let n := length ns in
  flat_map (fun je => map (fun v => (index_of v ns O, (n + fst je)%nat)) (snd (snd je)))
           (combine (seq 0 (length (h_edge s))) (h_edge s)).

(* to_encapsulation_dag *)
Inductive subset_types := StAll | StImmediate | StEmpirical.
Definition encapsulates (big small : list lbl) : bool :=
  negb (is_nil small) && ssubset small big && Nat.ltb (length small) (length big).
Definition all_links (s : hg) : list (lbl * lbl) :=
  flat_map (fun a => flat_map (fun b => if encapsulates (snd a) (snd b) then [(fst a, fst b)] else []) (h_edge s)) (h_edge s).
Definition esize (s : hg) (e : lbl) : nat := length (getl e (h_edge s)).
Definition dag_links (s : hg) (t : subset_types) : list (lbl * lbl) :=
  let al := all_links s in
  match t with
  | StAll => al
  | StImmediate => filter (fun ab => Nat.eqb (esize s (fst ab)) (S (esize s (snd ab)))) al
  | StEmpirical =>
      filter (fun ab =>
                let preds := filter (fun pq => lbl_eqb (snd pq) (snd ab)) al in
                let succs := filter (fun pq => lbl_eqb (fst pq) (fst ab)) al in
                forallb (fun pq => Nat.leb (esize s (fst ab)) (esize s (fst pq))) preds &&
                forallb (fun pq => Nat.leb (esize s (snd pq)) (esize s (snd ab))) succs) al
  end.

(* ---------- correspondence ---------- *)
Inductive gquery : Type :=
| GComponents
| GIsConnected
| GLargest
| GNodeComponent (v : lbl)
| GDistances (v : lbl)
| GClustering
| GProjection
| GLine (sv : Z)
| GBipartite
| GDag (t : subset_types).

Inductive ganswer : Type :=
| RSets (l : list (list lbl))                 (* sets, in order *)
| RBool (b : option bool)
| RSet (l : list lbl)
| RDist (l : list (lbl * option Z))            (* per node, in node order *)
| RQ (l : list (lbl * (Z * Z)))
| RLinks (l : list (lbl * lbl))                (* a set of ordered pairs *)
| RLine (l : list (lbl * lbl * (Z * Z)))       (* a set; weights compared as rationals *)
| RNat (l : list (nat * nat)).

Definition geval (q : gquery) (s : hg) : ganswer :=
  match q with
  | GComponents => RSets (components s)
  | GIsConnected => RBool (is_connected s)
  | GLargest => RSet (largest (components s))
  | GNodeComponent v => RSet (component s v)
  | GDistances v => RDist (dist_row s v)
  | GClustering => RQ (map (fun v => (v, clustering s v)) (keys (h_node s)))
  | GProjection => RLinks (projection_links s)
  | GLine sv => RLine (line_links sv (h_edge s))
  | GBipartite => RNat (bipartite_links s)
  | GDag t => RLinks (dag_links s t)
  end.

Definition set_eqb' (x y : list lbl) : bool := seteqb x y && Nat.eqb (length x) (length y).
Fixpoint sets_eqb (a b : list (list lbl)) : bool :=
  match a, b with [], [] => true | x :: a', y :: b' => set_eqb' x y && sets_eqb a' b' | _, _ => false end.
Definition oz_eqb (a b : option Z) : bool :=
  match a, b with None, None => true | Some x, Some y => x =? y | _, _ => false end.
Fixpoint dist_eqb (a b : list (lbl * option Z)) : bool :=
  match a, b with
  | [], [] => true
  | (i, x) :: a', (j, y) :: b' => lbl_eqb i j && oz_eqb x y && dist_eqb a' b'
  | _, _ => false
  end.
Definition qval_eqb (x y : Z * Z) : bool :=
  (* k < 2: the coefficient is 0 whatever the numerator *)
  let nx := if snd x =? 0 then (0, 1) else x in
  let ny := if snd y =? 0 then (0, 1) else y in
  fst nx * snd ny =? fst ny * snd nx.
Fixpoint rq_eqb (a b : list (lbl * (Z * Z))) : bool :=
  match a, b with
  | [], [] => true
  | (i, x) :: a', (j, y) :: b' => lbl_eqb i j && qval_eqb x y && rq_eqb a' b'
  | _, _ => false
  end.
Definition pair_eqb (x y : lbl * lbl) : bool := lbl_eqb (fst x) (fst y) && lbl_eqb (snd x) (snd y).
Definition links_sub (a b : list (lbl * lbl)) : bool := forallb (fun x => existsb (pair_eqb x) b) a.
Definition line_sub (a b : list (lbl * lbl * (Z * Z))) : bool :=
  forallb (fun x => existsb (fun y => pair_eqb (fst x) (fst y) && qval_eqb (snd x) (snd y)) b) a.
Definition nat_sub (a b : list (nat * nat)) : bool :=
  forallb (fun x => existsb (fun y => Nat.eqb (fst x) (fst y) && Nat.eqb (snd x) (snd y)) b) a.

Definition ganswer_eqb (a b : ganswer) : bool :=
  match a, b with
  | RSets x, RSets y => sets_eqb x y
  | RBool x, RBool y => match x, y with None, None => true | Some u, Some v => Bool.eqb u v | _, _ => false end
  | RSet x, RSet y => set_eqb' x y
  | RDist x, RDist y => dist_eqb x y
  | RQ x, RQ y => rq_eqb x y
  | RLinks x, RLinks y => links_sub x y && links_sub y x && Nat.eqb (length x) (length y)
  | RLine x, RLine y => line_sub x y && line_sub y x && Nat.eqb (length x) (length y)
  | RNat x, RNat y => nat_sub x y && nat_sub y x && Nat.eqb (length x) (length y)
  | _, _ => false
  end.

Fixpoint g_first_bad (s : hg) (qs : list (gquery * ganswer)) (j : nat) : option nat :=
  match qs with
  | [] => None
  | (q, a) :: r => if ganswer_eqb (geval q s) a then g_first_bad s r (S j) else Some j
  end.
Fixpoint graph_bad_from (cases : list (list op * list (gquery * ganswer))) (i : nat) : list (nat * nat) :=
  match cases with
  | [] => []
  | (ops, qs) :: r => match g_first_bad (run ops hg_empty) qs O with
                      | Some j => (i, j) :: graph_bad_from r (S i)
                      | None => graph_bad_from r (S i)
                      end
  end.
Definition graph_bad cases := graph_bad_from cases O.
