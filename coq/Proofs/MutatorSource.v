(* C01 / C04: for three core mutators the hand-written model IS what the source does: running the programs that
   harness/translate_mutators.py regenerates from xgi/core/hypergraph.py on every run (Gen/Mutators.v), under the
   semantics of Model/PyIR.v, gives exactly the model's result - state, outcome and warnings. *)
From Coq Require Import String ZArith List Bool Lia.
From XV Require Import Base.Label Base.LSet Base.ODict Base.Attr Base.Outcome Model.Hypergraph Model.PyIR Gen.Mutators
     Proofs.HgViews Proofs.HgInv.
Import ListNotations.
Open Scope Z_scope.

(* ---------- unfolding lemmas for the interpreter ---------- *)
Lemma exec_if c th el en s :
  exec (SIf c th el) en s =
  match beval c en s with
  | inr e => (s, Raised e)
  | inl true => exec_list th en s
  | inl false => exec_list el en s
  end.
Proof.
  cbn [exec]. destruct (beval c en s) as [[|]|e]; [| |reflexivity].
  - generalize s. induction th as [|q r IH]; intro s0; [reflexivity|]. cbn [exec_list]. destruct (exec q en s0) as [s' [|x]]; [apply IH|reflexivity].
  - generalize s. induction el as [|q r IH]; intro s0; [reflexivity|]. cbn [exec_list]. destruct (exec q en s0) as [s' [|x]]; [apply IH|reflexivity].
Qed.

Fixpoint iter_list (body : list stmt) (args : list lbl) (flags : list bool) (a : attrs) (xs : list lbl) (s : hg) : hg * outcome :=
  match xs with
  | [] => (s, Ok)
  | x :: r => match exec_list body (mkEnv args flags x a) s with (s', Ok) => iter_list body args flags a r s' | y => y end
  end.

Lemma exec_for t k body en s :
  exec (SForCopy t k body) en s =
  match get (veval k en) (tab t s) with
  | None => (s, Raised IDNotFound)
  | Some m => iter_list body (e_args en) (e_flags en) (e_attr en) m s
  end.
Proof.
  cbn [exec]. destruct (get (veval k en) (tab t s)) as [m|]; [|reflexivity].
  generalize s. induction m as [|x r IH]; intro s0; [reflexivity|]. cbn [iter_list].
  assert (E : forall l s1, (fix go (l : list stmt) (s : hg) : hg * outcome :=
               match l with [] => (s, Ok)
               | q :: r' => match exec q (mkEnv (e_args en) (e_flags en) x (e_attr en)) s with (s', Ok) => go r' s' | y => y end end) l s1
             = exec_list l (mkEnv (e_args en) (e_flags en) x (e_attr en)) s1).
  { induction l as [|q r' IHl]; intro s1; [reflexivity|]. cbn [exec_list]. destruct (exec q _ s1) as [s' [|y]]; [apply IHl|reflexivity]. }
  rewrite E. destruct (exec_list body _ s0) as [s' [|y]]; [apply IH|reflexivity].
Qed.

Lemma exec_newset t k en s : exec (SNewSet t k) en s =
  if is_none (veval k en) then (s, Raised XGIError) else (set_tab t s (set (veval k en) [] (tab t s)), Ok).
Proof. reflexivity. Qed.
Lemma exec_newattr t k en s : exec (SNewAttr t k) en s =
  if is_none (veval k en) then (s, Raised XGIError) else (set_atab t s (set (veval k en) [] (atab t s)), Ok).
Proof. reflexivity. Qed.
Lemma exec_add t k x en s : exec (SAdd t k x) en s =
  match get (veval k en) (tab t s) with
  | Some m => (set_tab t s (set (veval k en) (sadd (veval x en) m) (tab t s)), Ok)
  | None => (s, Raised IDNotFound)
  end.
Proof. reflexivity. Qed.
Lemma exec_remove t k x en s : exec (SRemove t k x) en s =
  match get (veval k en) (tab t s) with
  | Some m => if mem (veval x en) m then (set_tab t s (set (veval k en) (sremove (veval x en) m) (tab t s)), Ok) else (s, Raised KeyError)
  | None => (s, Raised IDNotFound)
  end.
Proof. reflexivity. Qed.
Lemma exec_del t k en s : exec (SDel t k) en s =
  if has (veval k en) (tab t s) then (set_tab t s (del (veval k en) (tab t s)), Ok) else (s, Raised IDNotFound).
Proof. reflexivity. Qed.
Lemma exec_delattr t k en s : exec (SDelAttr t k) en s =
  if has (veval k en) (atab t s) then (set_atab t s (del (veval k en) (atab t s)), Ok) else (s, Raised IDNotFound).
Proof. reflexivity. Qed.
Lemma exec_uid k en s : exec (SUid k) en s = (bump_uid (veval k en) s, Ok).
Proof. reflexivity. Qed.
Lemma exec_raise e en s : exec (SRaise e) en s = (s, Raised e).
Proof. reflexivity. Qed.
Lemma exec_list_cons q r en s : exec_list (q :: r) en s = match exec q en s with (s', Ok) => exec_list r en s' | x => x end.
Proof. reflexivity. Qed.
Lemma exec_list_nil en s : exec_list [] en s = (s, Ok).
Proof. reflexivity. Qed.

Ltac hgs := cbn [h_node h_nattr h_edge h_eattr h_net h_uid with_node with_nattr with_edge with_eattr with_uid
                 tab set_tab atab set_atab veval e_args e_flags e_loop e_attr nth].
Ltac step := rewrite ?exec_list_cons, ?exec_list_nil, ?exec_if, ?exec_newset, ?exec_newattr, ?exec_add, ?exec_remove, ?exec_del,
                     ?exec_delattr, ?exec_uid, ?exec_raise; cbn [beval]; hgs; cbn [negb andb];
             repeat match goal with H : is_none _ = false |- _ => rewrite H end.

Lemma bump_uid_tables e s : h_node (bump_uid e s) = h_node s /\ h_edge (bump_uid e s) = h_edge s /\
  h_nattr (bump_uid e s) = h_nattr s /\ h_eattr (bump_uid e s) = h_eattr s.
Proof. unfold bump_uid. destruct (as_int e) as [z|]; [destruct (h_uid s <=? z)|]; repeat split. Qed.

(* ---------- add_node_to_edge: for every state, whatever its shape ---------- *)
Definition antE_tail : list stmt :=
  [SIf (BNot (BIn (VArg 1) TNode)) [SNewSet TNode (VArg 1); SNewAttr TNode (VArg 1)] [];
   SAdd TEdge (VArg 0) (VArg 1); SAdd TNode (VArg 1) (VArg 0)].

Lemma antE_tail_ok e n s1 m : get e (h_edge s1) = Some m ->
  (let (s', o) := exec_list antE_tail (mkEnv [e; n] [] LNone []) s1 in (s', o, O)) =
  (if negb (has n (h_node s1)) && is_none n then raise s1 XGIError
   else ok (node_add n e (edge_add e n (ensure_node n s1)))).
Proof.
  intro Ge. unfold antE_tail. step.
  destruct (has n (h_node s1)) eqn:Hn; cbn [negb andb]; repeat step.
  - unfold has in Hn. destruct (get n (h_node s1)) as [l|] eqn:Gn; [|discriminate Hn].
    rewrite Ge. repeat step. rewrite Gn. repeat step.
    unfold ok, node_add, edge_add, ensure_node, has, getl. rewrite Gn, Ge. hgs. rewrite Gn. reflexivity.
  - destruct (is_none n) eqn:Nn; [reflexivity|]. repeat step. rewrite Ge. repeat step.
    rewrite get_set_same. repeat step.
    unfold ok, node_add, edge_add, ensure_node, getl. rewrite Hn. hgs. rewrite Ge, get_set_same. reflexivity.
Qed.

Theorem add_node_to_edge_is_source e n s :
  run_method src_add_node_to_edge [e; n] [] s = add_node_to_edge e n s.
Proof.
  unfold run_method, run_method_a, src_add_node_to_edge, add_node_to_edge. rewrite exec_list_cons, exec_if. cbn [beval]. hgs.
  destruct (has e (h_edge s)) eqn:He; cbn [negb andb].
  - rewrite exec_list_nil. unfold has in He. destruct (get e (h_edge s)) as [m|] eqn:Ge; [|discriminate He].
    apply (antE_tail_ok e n s m Ge).
  - repeat step. destruct (is_none e) eqn:Ne; [reflexivity|]. repeat step.
    set (s0 := with_eattr (with_edge s (set e [] (h_edge s))) (set e [] (h_eattr s))).
    apply (antE_tail_ok e n (bump_uid e s0) []).
    destruct (bump_uid_tables e s0) as (_ & B2 & _). rewrite B2. unfold s0. hgs. apply get_set_same.
Qed.

(* ---------- remove_edge: on every state satisfying the class invariant ---------- *)
Lemma fold_node_rem_tables e : forall xs s,
  h_edge (fold_left (fun s n => node_rem n e s) xs s) = h_edge s /\
  h_eattr (fold_left (fun s n => node_rem n e s) xs s) = h_eattr s.
Proof.
  induction xs as [|x xs IH]; intro s; cbn [fold_left]; [split; reflexivity|].
  destruct (IH (node_rem x e s)) as [A B]. rewrite A, B. unfold node_rem. destruct (has x (h_node s)); split; reflexivity.
Qed.

Lemma iter_remove_ok e : forall xs s, NoDup xs ->
  (forall x, In x xs -> exists l, get x (h_node s) = Some l /\ mem e l = true) ->
  iter_list [SRemove TNode VLoop (VArg 0)] [e] [] [] xs s = (fold_left (fun s n => node_rem n e s) xs s, Ok).
Proof.
  induction xs as [|x xs IH]; intros s ND H; [reflexivity|]. cbn [iter_list fold_left].
  inversion ND as [|? ? Hx ND']; subst. destruct (H x (or_introl eq_refl)) as (l & Gl & Ml).
  rewrite exec_list_cons, exec_remove. hgs. rewrite Gl, Ml. rewrite exec_list_nil.
  assert (E : with_node s (set x (sremove e l) (h_node s)) = node_rem x e s).
  { unfold node_rem, has, getl. rewrite Gl. reflexivity. }
  rewrite E. apply IH; [exact ND'|].
  intros y Hy. destruct (H y (or_intror Hy)) as (ly & Gy & My). exists ly. split; [|exact My].
  rewrite <- E. hgs. rewrite get_set_other; [exact Gy|]. intro; subst. contradiction.
Qed.

Theorem remove_edge_is_source e s : Inv s ->
  run_method src_remove_edge [e] [] s = remove_edge1 e s.
Proof.
  intros (W & (_ & Kea & _ & _) & (_ & Vm) & _). unfold run_method, run_method_a, src_remove_edge, remove_edge1.
  rewrite exec_list_cons, exec_for. hgs. destruct (get e (h_edge s)) as [m|] eqn:Ge; [|reflexivity].
  assert (Hm : mems s e = m) by (unfold mems, getl; rewrite Ge; reflexivity).
  rewrite (iter_remove_ok e m s).
  2:{ rewrite <- Hm. apply Vm. }
  2:{ intros x Hx. assert (Hi : In e (mships s x)) by (apply W; rewrite Hm; exact Hx).
      unfold mships, getl in Hi. destruct (get x (h_node s)) as [l|]; [|destruct Hi]. exists l. split; [reflexivity|apply mem_In; exact Hi]. }
  set (s' := fold_left (fun s n => node_rem n e s) m s). destruct (fold_node_rem_tables e m s) as [A B]. fold s' in A, B.
  repeat step. rewrite A.
  assert (He : has e (h_edge s) = true) by (unfold has; rewrite Ge; reflexivity). rewrite He. repeat step.
  rewrite B. assert (Hea : has e (h_eattr s) = true).
  { apply has_In. rewrite Kea. apply has_In. exact He. }
  rewrite Hea. unfold ok, drop_edge. rewrite A, B. reflexivity.
Qed.

(* ---------- remove_node_from_edge: on every state satisfying the class invariant ---------- *)
Theorem remove_node_from_edge_is_source e n re s : Inv s ->
  run_method src_remove_node_from_edge [e; n] [re] s = remove_node_from_edge e n re s.
Proof.
  intros (W & (_ & Kea & _ & _) & _ & _). unfold run_method, run_method_a, src_remove_node_from_edge, remove_node_from_edge.
  rewrite exec_list_cons, exec_if. cbn [beval]. hgs.
  destruct (has e (h_edge s)) eqn:He; cbn [negb]; [|repeat step; reflexivity].
  rewrite exec_list_cons, exec_if. cbn [beval]. hgs.
  destruct (has n (h_node s)) eqn:Hn; cbn [negb]; [|repeat step; reflexivity].
  rewrite exec_list_cons, exec_if. cbn [beval]. hgs.
  unfold has in He. destruct (get e (h_edge s)) as [m|] eqn:Ge; [|discriminate He].
  assert (Gl : getl e (h_edge s) = m) by (unfold getl; rewrite Ge; reflexivity). rewrite Gl.
  destruct (mem n m) eqn:Mn; cbn [negb]; [|repeat step; reflexivity].
  repeat step. rewrite Ge, Mn. repeat step.
  unfold has in Hn. destruct (get n (h_node s)) as [l|] eqn:Gn; [|discriminate Hn].
  assert (Me : mem e l = true).
  { apply mem_In. assert (Hi : In e (mships s n)) by (apply W; unfold mems; rewrite Gl; apply mem_In; exact Mn).
    unfold mships, getl in Hi. rewrite Gn in Hi. exact Hi. }
  rewrite Me. repeat step. rewrite get_set_same.
  assert (E1 : with_edge s (set e (sremove n m) (h_edge s)) = edge_rem e n s).
  { unfold edge_rem, has. rewrite Ge, Gl. reflexivity. }
  assert (E2 : with_node (edge_rem e n s) (set n (sremove e l) (h_node s)) = node_rem n e (edge_rem e n s)).
  { unfold node_rem, has, getl. rewrite <- E1. hgs. rewrite Gn. reflexivity. }
  rewrite E1. rewrite E2. set (s1 := node_rem n e (edge_rem e n s)).
  assert (H1e : h_edge s1 = set e (sremove n m) (h_edge s)) by (unfold s1; rewrite <- E2, <- E1; reflexivity).
  assert (H1a : h_eattr s1 = h_eattr s) by (unfold s1; rewrite <- E2, <- E1; reflexivity).
  assert (Gl1 : getl e (h_edge s1) = sremove n m) by (unfold getl; rewrite H1e, get_set_same; reflexivity).
  rewrite Gl1. destruct (sremove n m) as [|y r] eqn:Es; cbn [andb].
  - destruct re; cbn [andb]; repeat step; [|reflexivity].
    assert (Hh : has e (set e [] (h_edge s)) = true) by (unfold has; rewrite get_set_same; reflexivity).
    rewrite Hh. repeat step. rewrite H1a.
    assert (Hea : has e (h_eattr s) = true) by (apply has_In; rewrite Kea; apply (get_Some_In e (h_edge s) m Ge)).
    rewrite Hea. unfold ok, drop_edge. rewrite H1a, H1e. reflexivity.
  - repeat step. reflexivity.
Qed.

(* ---------- add_node(node, **attr): whenever the attribute table has the keys of the node table (KWF) ---------- *)
Lemma exec_attrupdate t k en s : exec (SAttrUpdate t k) en s =
  match get (veval k en) (atab t s) with
  | Some d => (set_atab t s (set (veval k en) (aupdate d (e_attr en)) (atab t s)), Ok)
  | None => (s, Raised IDNotFound)
  end.
Proof. reflexivity. Qed.

Theorem add_node_is_source n a s : keys (h_nattr s) = keys (h_node s) ->
  run_method_a src_add_node [n] [] a s = add_node n a s.
Proof.
  intro K. unfold run_method_a, src_add_node, add_node. rewrite exec_list_cons, exec_if. cbn [beval]. hgs.
  destruct (has n (h_node s)) eqn:Hn; cbn [negb].
  - rewrite exec_list_nil, exec_list_cons, exec_attrupdate. hgs.
    assert (Ha : has n (h_nattr s) = true) by (apply has_In; rewrite K; apply has_In; exact Hn).
    unfold has in Ha. destruct (get n (h_nattr s)) as [d|] eqn:Gd; [|discriminate Ha].
    rewrite exec_list_nil. unfold ok, nattr_update, geta. rewrite Gd. reflexivity.
  - repeat step. destruct (is_none n) eqn:Nn; [reflexivity|]. repeat step. rewrite exec_attrupdate. hgs.
    rewrite get_set_same. repeat step.
    unfold ok, nattr_update, ensure_node, geta. rewrite Hn. hgs. rewrite get_set_same. reflexivity.
Qed.
