(* Executable model of xgi.core.dihypergraph.DiHypergraph after the "fix:" commits.

   Representation.  The code keeps _node[n] = {"in": edges with n in the head, "out": edges with n
   in the tail} and _edge[e] = {"in": tail, "out": head}.  The model splits each of the two
   dict-of-pairs into its two components and groups them by incidence relation:

     ts ("tail side")  h_node = n -> out-memberships,  h_edge = e -> tail,  plus ALL attributes,
                       the network attributes and the id counter; its key order is THE order;
     hs ("head side")  h_node = n -> in-memberships,   h_edge = e -> head  (attribute tables are
                       kept only structurally, with empty records).

   Every method is transcribed as the pair of its effects on the two sides, using the primitives
   of Model/Hypergraph.v; node creation order (tail first, then head) is that of the code.  This
   makes each side an undirected incidence structure, so the invariant of C02 is the invariant
   of C01 on both sides plus agreement of the key sets. *)
From Coq Require Import String ZArith List Bool Lia.
From XV Require Import Base.Label Base.LSet Base.ODict Base.Attr Base.Outcome Model.Hypergraph.
Import ListNotations.
Open Scope Z_scope.

Record dhg : Type := mkD { ts : hg; hs : hg }.
Definition dhg_empty : dhg := mkD hg_empty hg_empty.

Definition dres : Type := dhg * outcome * nat.
Definition dok (d : dhg) : dres := (d, Ok, O).
Definition dwarn1 (d : dhg) : dres := (d, Ok, 1%nat).
Definition draise (d : dhg) (e : exc) : dres := (d, Raised e, O).
Definition dst_of (r : dres) : dhg := fst (fst r).

Fixpoint dloop {A} (f : dhg -> A -> dres) (l : list A) (d : dhg) : dres :=
  match l with
  | [] => dok d
  | x :: xs =>
      match f d x with
      | (d', Ok, w) => match dloop f xs d' with (d'', o, w') => (d'', o, (w + w')%nat) end
      | r => r
      end
  end.
Definition dbind (r : dres) (k : dhg -> dres) : dres :=
  match r with
  | (d, Ok, w) => match k d with (d', o, w') => (d', o, (w + w')%nat) end
  | _ => r
  end.

(* views *)
Definition out_mships (d : dhg) (n : lbl) := getl n (h_node (ts d)).
Definition in_mships (d : dhg) (n : lbl) := getl n (h_node (hs d)).
Definition tail (d : dhg) (e : lbl) := getl e (h_edge (ts d)).
Definition head (d : dhg) (e : lbl) := getl e (h_edge (hs d)).

Definition both (f : hg -> hg) (d : dhg) : dhg := mkD (f (ts d)) (f (hs d)).
Definition ensure_nodes (ns : list lbl) (s : hg) : hg := fold_left (fun s n => ensure_node n s) ns s.

(* ---------- nodes ---------- *)

Definition d_add_node_body (n : lbl) (a : attrs) (d : dhg) : dres :=
  if has n (h_node (ts d)) then dok (mkD (nattr_update n a (ts d)) (hs d))
  else if is_none n then draise d XGIError
  else dok (mkD (nattr_update n a (ensure_node n (ts d))) (ensure_node n (hs d))).

Definition d_add_node (n : lbl) (a : attrs) (d : dhg) : dres := d_add_node_body n a d.

Definition d_add_nodes_from (items : list (lbl * option attrs)) (a : attrs) (d : dhg) : dres :=
  dloop (fun d it =>
           let '(n, od) := it in
           d_add_node_body n (match od with None => a | Some x => aupdate a x end) d) items d.

(* del edge on both sides after unlinking its members (remove_edge, strong removal) *)
Definition d_remove_edge_raw (e : lbl) (d : dhg) : dhg :=
  mkD (st_of (remove_edge1 e (ts d))) (st_of (remove_edge1 e (hs d))).

Definition is_nil (l : list lbl) : bool := match l with [] => true | _ => false end.

(* delete an edge whose tail and head are both empty *)
Definition d_drop_if_empty (re : bool) (d : dhg) (e : lbl) : dhg :=
  if is_nil (tail d e) && is_nil (head d e) && re && has e (h_edge (ts d))
  then both (drop_edge e) d else d.

Definition d_remove_node (n : lbl) (strong remove_empty : bool) (d : dhg) : dres :=
  match get n (h_node (ts d)) with
  | None => draise d IDNotFound
  | Some outs =>
      let ins := in_mships d n in
      let edges := sunion ins outs in          (* edge_neighbors["in"].union(edge_neighbors["out"]) *)
      if strong then
        let d1 := fold_left (fun d e => d_remove_edge_raw e d) edges d in
        dok (both (drop_node n) d1)
      else
        let d1 := mkD (st_of (remove_node n false false (ts d))) (st_of (remove_node n false false (hs d))) in
        dok (fold_left (d_drop_if_empty remove_empty) edges d1)
  end.

Definition d_remove_nodes_from (ns : list lbl) (strong remove_empty : bool) (d : dhg) : dres :=
  dloop (fun d n => if has n (h_node (ts d)) then d_remove_node n strong remove_empty d else dwarn1 d) ns d.

(* attribute setters act on the tail side only *)
Definition lift_ts (f : hg -> res) (d : dhg) : dres :=
  match f (ts d) with (s', o, w) => (mkD s' (hs d), o, w) end.

(* ---------- edges ---------- *)

(* the body of an addition once the id is known to be new and no member is None:
   tail nodes are created first, then head nodes - on both sides, since the implementation has ONE node dict: the
   head side first receives the tail nodes (with no in-membership), then its own *)
(* explicit = the id was given by the caller, so the counter is advanced past it
   (update_uid_counter); the counter is not touched by the node creations that follow, so
   advancing it here or at the end of the method gives the same state *)
Definition d_insert_edge (explicit : bool) (e : lbl) (tl hd : list lbl) (a : attrs) (d : dhg) : dhg :=
  let fin := fun s => if explicit then bump_uid e s else s in
  mkD (ensure_nodes hd (fin (insert_edge e tl a (ts d))))
      (fin (insert_edge e hd [] (ensure_nodes tl (hs d)))).

Definition has_none (l : list lbl) : bool := existsb is_none l.

Definition d_add_edge (tl hd : list lbl) (idx : option lbl) (a : attrs) (d : dhg) : dres :=
  if has_none tl || has_none hd then draise d XGIError
  else match idx with
       | Some i =>
           if has i (h_edge (ts d)) then dwarn1 d
           else dok (d_insert_edge true i tl hd a d)
       | None =>
           let e := LInt (h_uid (ts d)) in
           let d0 := both (fun s => with_uid s (h_uid s + 1)) d in
           dok (d_insert_edge false e tl hd a d0)
       end.

Inductive debunch : Type :=
| DB1 (l : list (list lbl * list lbl))
| DB2 (l : list (list lbl * list lbl * lbl))
| DB3 (l : list (list lbl * list lbl * attrs))
| DB4 (l : list (list lbl * list lbl * lbl * attrs))
| DB5 (l : list (lbl * (list lbl * list lbl))).

Definition d_bulk_item (explicit : bool) (a : attrs) (d : dhg) (tl hd : list lbl) (idx : lbl)
           (ea : attrs) : dres :=
  if has idx (h_edge (ts d)) then dwarn1 d
  else if has_none tl || has_none hd then draise d XGIError
  else if is_none idx then draise d XGIError
  else dok (d_insert_edge explicit idx tl hd (aupdate a ea) d).

Definition d_next (d : dhg) : dhg := both (fun s => with_uid s (h_uid s + 1)) d.

Definition d_add_edges_from (eb : debunch) (a : attrs) (d : dhg) : dres :=
  match eb with
  | DB5 l =>
      dloop (fun d im =>
               let '(idx, (tl, hd)) := im in
               if has idx (h_edge (ts d)) then dwarn1 d
               else if has_none tl || has_none hd then draise d XGIError
               else if is_none idx then draise d XGIError
               else dok (d_insert_edge true idx tl hd [] d)) l d
  | DB1 l => dloop (fun d m => let '(tl, hd) := m in
                               d_bulk_item false a (d_next d) tl hd (LInt (h_uid (ts d))) []) l d
  | DB2 l => dloop (fun d m => let '(tl, hd, i) := m in d_bulk_item true a d tl hd i []) l d
  | DB3 l => dloop (fun d m => let '(tl, hd, ea) := m in
                               d_bulk_item false a (d_next d) tl hd (LInt (h_uid (ts d))) ea) l d
  | DB4 l => dloop (fun d m => let '(tl, hd, i, ea) := m in d_bulk_item true a d tl hd i ea) l d
  end.

Inductive direction := DirIn | DirOut | DirInvalid.   (* "in" = tail, "out" = head *)

Definition new_empty_edge (e : lbl) (s : hg) : hg :=
  bump_uid e (with_eattr (with_edge s (set e [] (h_edge s))) (set e [] (h_eattr s))).

Definition d_add_node_to_edge (e n : lbl) (dir : direction) (d : dhg) : dres :=
  match dir with
  | DirInvalid => draise d XGIError
  | _ =>
      if negb (has e (h_edge (ts d))) && is_none e then draise d XGIError
      else
        let d1 := if has e (h_edge (ts d)) then d else both (new_empty_edge e) d in
        if negb (has n (h_node (ts d1))) && is_none n then draise d1 XGIError
        else
          let d2 := both (ensure_node n) d1 in
          dok (match dir with
               | DirIn => mkD (attach e (ts d2) n) (hs d2)
               | _ => mkD (ts d2) (attach e (hs d2) n)
               end)
  end.

Definition d_remove_edge (e : lbl) (d : dhg) : dres :=
  if has e (h_edge (ts d)) then dok (d_remove_edge_raw e d) else draise d IDNotFound.

Definition d_remove_edges_from (es : list lbl) (d : dhg) : dres := dloop (fun d e => d_remove_edge e d) es d.

Definition unlink1 (e n : lbl) (s : hg) : hg := node_rem n e (edge_rem e n s).

Definition d_remove_node_from_edge (e n : lbl) (dir : direction) (re : bool) (d : dhg) : dres :=
  match dir with
  | DirInvalid => draise d XGIError
  | _ =>
      if negb (has e (h_edge (ts d))) then draise d XGIError
      else if negb (has n (h_node (ts d))) then draise d XGIError
      else
        let side_has := match dir with DirIn => mem n (tail d e) | _ => mem n (head d e) end in
        if negb side_has then draise d XGIError
        else
          let d1 := match dir with
                    | DirIn => mkD (unlink1 e n (ts d)) (hs d)
                    | _ => mkD (ts d) (unlink1 e n (hs d))
                    end in
          dok (d_drop_if_empty re d1 e)
  end.

Definition d_clear (remove_net : bool) (d : dhg) : dres :=
  dok (mkD (st_of (clear remove_net (ts d))) (st_of (clear true (hs d)))).

(* ---------- convert_labels_to_integers(in_place=True), cleanup ---------- *)

Definition d_relabel (label_attr : string) (d : dhg) : dres :=
  let s := ts d in
  let ns := keys (h_node s) in
  let es := keys (h_edge s) in
  let nmap n := LInt (index_of n ns 0) in
  let emap e := LInt (index_of e es 0) in
  let d0 := mkD (mkHG [] [] [] [] (h_net s) (h_uid s)) (mkHG [] [] [] [] [] (h_uid (hs d))) in
  dbind (d_add_nodes_from (map (fun n => (nmap n, Some (geta n (h_nattr s)))) ns) [] d0)
  (fun d1 => dbind (lift_ts (set_node_attrs_dict (map (fun n => (nmap n, [(label_attr, aval_of_lbl n)])) ns)) d1)
  (fun d2 => dbind (d_add_edges_from
                      (DB4 (map (fun e => (map nmap (tail d e), map nmap (head d e), emap e, geta e (h_eattr s))) es))
                      [] d2)
  (fun d3 => lift_ts (set_edge_attrs_dict (map (fun e => (emap e, [(label_attr, aval_of_lbl e)])) es)) d3))).

(* DiNodeView.isolates(): total degree 0 *)
Definition d_isolates (d : dhg) : list lbl :=
  filter (fun n => is_nil (out_mships d n) && is_nil (in_mships d n)) (keys (h_node (ts d))).

Definition d_cleanup (iso relabel : bool) (d : dhg) : dres :=
  dbind (if iso then dok d else d_remove_nodes_from (d_isolates d) false true d)
        (fun d1 => if relabel then d_relabel "label" d1 else dok d1).

(* ---------- op alphabet ---------- *)

Inductive dop : Type :=
| DAddNode (n : lbl) (a : attrs)
| DAddNodesFrom (items : list (lbl * option attrs)) (a : attrs)
| DRemoveNode (n : lbl) (strong remove_empty : bool)
| DRemoveNodesFrom (ns : list lbl) (strong remove_empty : bool)
| DSetNodeAttrsNamed (vals : list (lbl * aval)) (name : string)
| DSetNodeAttrsScalar (v : aval) (name : string)
| DSetNodeAttrsDict (vals : list (lbl * attrs))
| DAddEdge (tl hd : list lbl) (idx : option lbl) (a : attrs)
| DAddEdgesFrom (eb : debunch) (a : attrs)
| DSetEdgeAttrsNamed (vals : list (lbl * aval)) (name : string)
| DSetEdgeAttrsScalar (v : aval) (name : string)
| DSetEdgeAttrsDict (vals : list (lbl * attrs))
| DAddNodeToEdge (e n : lbl) (dir : direction)
| DRemoveEdge (e : lbl)
| DRemoveEdgesFrom (es : list lbl)
| DRemoveNodeFromEdge (e n : lbl) (dir : direction) (re : bool)
| DClear (remove_net : bool)
| DCleanup (iso relabel : bool)
| DRelabel (label_attr : string)
| DSetNetAttr (k : string) (v : aval).

Definition dstep (d : dhg) (o : dop) : dres :=
  match o with
  | DAddNode n a => d_add_node n a d
  | DAddNodesFrom items a => d_add_nodes_from items a d
  | DRemoveNode n st re => d_remove_node n st re d
  | DRemoveNodesFrom ns st re => d_remove_nodes_from ns st re d
  | DSetNodeAttrsNamed vals name => lift_ts (set_node_attrs_named vals name) d
  | DSetNodeAttrsScalar v name => lift_ts (set_node_attrs_scalar v name) d
  | DSetNodeAttrsDict vals => lift_ts (set_node_attrs_dict vals) d
  | DAddEdge tl hd idx a => d_add_edge tl hd idx a d
  | DAddEdgesFrom eb a => d_add_edges_from eb a d
  | DSetEdgeAttrsNamed vals name => lift_ts (set_edge_attrs_named vals name) d
  | DSetEdgeAttrsScalar v name => lift_ts (set_edge_attrs_scalar v name) d
  | DSetEdgeAttrsDict vals => lift_ts (set_edge_attrs_dict vals) d
  | DAddNodeToEdge e n dir => d_add_node_to_edge e n dir d
  | DRemoveEdge e => d_remove_edge e d
  | DRemoveEdgesFrom es => d_remove_edges_from es d
  | DRemoveNodeFromEdge e n dir re => d_remove_node_from_edge e n dir re d
  | DClear rn => d_clear rn d
  | DCleanup iso rl => d_cleanup iso rl d
  | DRelabel la => d_relabel la d
  | DSetNetAttr k v => dok (mkD (with_net (ts d) (aset k v (h_net (ts d)))) (hs d))
  end.

Definition drun (ops : list dop) (d : dhg) : dhg := fold_left (fun d o => dst_of (dstep d o)) ops d.
