(* C14 - graph-reducible algorithms.
   Reach s a b : b can be reached from a by steps between nodes sharing an edge; Walk s a b n : in n
   steps.  The breadth-first search of the model (the transcription of _plain_bfs, with the fuel the
   model gives it) returns exactly the reachability class; connected_components lists every node
   exactly once and each listed set is a class; the breadth-first levels are the exact shortest walk
   lengths, hence symmetric, zero on the diagonal only, and infinite exactly across components.
   All of it at every state reachable by an admissible history.  The agreement of the
   implementation's array Dijkstra, clustering and converters with the model is the correspondence. *)
From Coq Require Import String ZArith List Bool.
From XV Require Import Base.Label Base.LSet Base.ODict Base.Attr Base.Outcome Model.Hypergraph Model.Stats Model.Graph
  Proofs.HgViews Proofs.HgInv Proofs.HgStep Proofs.GraphProofs Proofs.LineGraphProofs Proofs.BipartiteRoundTrip Proofs.LccProofs.
Import ListNotations.

Lemma reachable_W1 ops : admissible_history hg_empty ops -> W1 (run ops hg_empty) /\ NoDup (ekeys (run ops hg_empty)).
Proof.
  intro A. pose proof (run_Inv ops hg_empty A Inv_empty) as (HW & (_ & _ & _ & Ke) & _). split; assumption.
Qed.

Theorem C14_component_is_reachability_class : forall ops v x,
  admissible_history hg_empty ops -> let s := run ops hg_empty in
  In v (nkeys s) -> (In x (component s v) <-> Reach s v x).
Proof. intros ops v x A s Hv. apply component_spec; [apply (reachable_W1 ops A)|exact Hv]. Qed.
Print Assumptions C14_component_is_reachability_class.

Theorem C14_components_partition : forall ops,
  admissible_history hg_empty ops -> let s := run ops hg_empty in
  NoDup (concat (components s)) /\
  (forall x, In x (concat (components s)) <-> In x (nkeys s)) /\
  (forall c, In c (components s) -> exists v, In v (nkeys s) /\ forall x, In x c <-> Reach s v x).
Proof. intros ops A s. apply components_partition. apply (reachable_W1 ops A). Qed.
Print Assumptions C14_components_partition.

Theorem C14_reachability_symmetric : forall ops a b,
  admissible_history hg_empty ops -> let s := run ops hg_empty in Reach s a b -> Reach s b a.
Proof. intros ops a b A s. apply Reach_sym. apply (reachable_W1 ops A). Qed.
Print Assumptions C14_reachability_symmetric.

Theorem C14_is_connected : forall ops v r,
  admissible_history hg_empty ops -> let s := run ops hg_empty in
  nkeys s = v :: r -> (is_connected s = Some true <-> forall x, In x (nkeys s) -> Reach s v x).
Proof.
  intros ops v r A s E. pose proof (run_Inv ops hg_empty A Inv_empty) as (HW & (_ & _ & Kn & _) & _).
  apply (is_connected_spec s v r HW Kn E).
Qed.
Print Assumptions C14_is_connected.

Theorem C14_distance_is_shortest_walk : forall ops a b j,
  admissible_history hg_empty ops -> let s := run ops hg_empty in
  In a (nkeys s) ->
  (dist s a b = Some (Z.of_nat j) <-> (Walk s a b j /\ forall n, Walk s a b n -> (j <= n)%nat)).
Proof. intros ops a b j A s Ha. apply dist_spec; [apply (reachable_W1 ops A)|exact Ha]. Qed.
Print Assumptions C14_distance_is_shortest_walk.

Theorem C14_distance_infinite_across_components : forall ops a b,
  admissible_history hg_empty ops -> let s := run ops hg_empty in
  In a (nkeys s) -> (dist s a b = None <-> ~ In b (component s a)).
Proof.
  intros ops a b A s Ha. pose proof (reachable_W1 ops A) as [HW _].
  rewrite (component_spec s a b HW Ha). apply dist_none; assumption.
Qed.
Print Assumptions C14_distance_infinite_across_components.

Theorem C14_distance_symmetric : forall ops a b,
  admissible_history hg_empty ops -> let s := run ops hg_empty in
  In a (nkeys s) -> In b (nkeys s) -> dist s a b = dist s b a.
Proof. intros ops a b A s. apply dist_sym. apply (reachable_W1 ops A). Qed.
Print Assumptions C14_distance_symmetric.

Theorem C14_distance_zero_diagonal : forall ops a b,
  admissible_history hg_empty ops -> let s := run ops hg_empty in
  In a (nkeys s) -> (dist s a b = Some 0%Z <-> a = b).
Proof. intros ops a b A s. apply dist_diag. apply (reachable_W1 ops A). Qed.
Print Assumptions C14_distance_zero_diagonal.

Theorem C14_projection_links : forall s a b,
  In (a, b) (projection_links s) <->
  In a (nkeys s) /\ b <> a /\ exists e, In e (mships s a) /\ In b (mems s e).
Proof. intros s a b. rewrite projection_links_spec, nbrs_spec. tauto. Qed.
Print Assumptions C14_projection_links.

Theorem C14_encapsulation_links : forall s a b,
  In (a, b) (dag_links s StAll) <->
  exists ma mb, In (a, ma) (h_edge s) /\ In (b, mb) (h_edge s) /\
                mb <> [] /\ (forall x, In x mb -> In x ma) /\ (length mb < length ma)%nat.
Proof. exact all_links_spec. Qed.
Print Assumptions C14_encapsulation_links.

Theorem C14_encapsulation_acyclic : forall ops t a b,
  admissible_history hg_empty ops -> let s := run ops hg_empty in
  In (a, b) (dag_links s t) -> (esize s b < esize s a)%nat.
Proof. intros ops t a b A s. apply dag_links_decrease. apply (reachable_W1 ops A). Qed.
Print Assumptions C14_encapsulation_acyclic.

(* s-line graph: exactly the pairs of edges (in edge order) sharing at least s nodes, weighted by the
   size of the intersection and, for the normalised weight, the smaller of the two sizes *)
Theorem C14_line_graph_sound : forall sv es e1 e2 w, In (e1, e2, w) (line_links sv es) ->
  exists i j m1 m2, (i < j < length es)%nat /\ nth i es (LNone, []) = (e1, m1) /\ nth j es (LNone, []) = (e2, m2) /\
                    (sv <= inter_size m1 m2)%Z /\ w = (inter_size m1 m2, Z.min (zlen m1) (zlen m2)).
Proof. exact line_links_sound. Qed.
Print Assumptions C14_line_graph_sound.

Theorem C14_line_graph_complete : forall sv es i j e1 e2 m1 m2,
  (i < j < length es)%nat -> nth i es (LNone, []) = (e1, m1) -> nth j es (LNone, []) = (e2, m2) ->
  (sv <= inter_size m1 m2)%Z ->
  In (e1, e2, (inter_size m1 m2, Z.min (zlen m1) (zlen m2))) (line_links sv es).
Proof. exact line_links_complete. Qed.
Print Assumptions C14_line_graph_complete.

(* bipartite graph: a link (i, n + j) exactly when the i-th node is a member of the j-th edge *)
Theorem C14_bipartite_links : forall s i k, Inv s ->
  (In (i, k) (bipartite_links s) <->
   exists j, (j < length (h_edge s))%nat /\ k = (length (keys (h_node s)) + j)%nat /\ (i < length (keys (h_node s)))%nat /\
             In (nth i (keys (h_node s)) LNone) (snd (nth j (h_edge s) (LNone, [])))).
Proof. exact In_bipartite_links. Qed.
Print Assumptions C14_bipartite_links.

(* the search used inside the mutating methods (cleanup, largest component in place) computes the
   same reachability class *)
Theorem C14_inplace_component_agrees : forall s v x, W1 s -> In v (nkeys s) ->
  (In x (Hypergraph.component s v) <-> In x (Graph.component s v)).
Proof. exact old_component_agrees. Qed.
Print Assumptions C14_inplace_component_agrees.

Open Scope Z_scope.
Example C14_nonvacuous :
  let s := run [OAddEdgesFrom (EB1 [[LInt 1; LInt 2; LInt 3]; [LInt 3; LInt 4]; [LInt 5; LInt 6]; [LInt 1; LInt 2]]) []; OAddNode (LInt 9) []] hg_empty in
  components s = [[LInt 1; LInt 2; LInt 3; LInt 4]; [LInt 5; LInt 6]; [LInt 9]] /\
  dist s (LInt 1) (LInt 4) = Some 2 /\ dist s (LInt 1) (LInt 5) = None /\
  dag_links s StAll = [(LInt 0, LInt 3)].
Proof. vm_compute. repeat split. Qed.
Print Assumptions C14_nonvacuous.
