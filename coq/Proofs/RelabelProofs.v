(* C19: convert_labels_to_integers (in place) is an isomorphism onto the labels 0..n-1 / 0..m-1:
   node i of the old order becomes i, edge j becomes j, members are mapped through the node map. *)
From Coq Require Import String ZArith List Bool Lia FinFun.
From XV Require Import Base.Label Base.LSet Base.ODict Base.Attr Base.Outcome Model.Hypergraph
     Proofs.HgViews Proofs.HgInv Proofs.HgInvOps Proofs.HgStep Proofs.HgKeys Proofs.HgErrors Proofs.ScTables
     Proofs.Build Proofs.DerivedProofs.
Import ListNotations.
Open Scope Z_scope.

(* the position map of a duplicate-free list *)
Lemma index_of_nth l : NoDup l -> forall i a, (i < length l)%nat ->
  Hypergraph.index_of (nth i l LNone) l a = a + Z.of_nat i.
Proof.
  induction 1 as [|x l Hx Hl IH]; intros i a Hi; [simpl in Hi; lia|].
  destruct i as [|i]; cbn [nth Hypergraph.index_of length] in *.
  - rewrite lbl_eqb_refl. lia.
  - destruct (lbl_eqb_spec (nth i l LNone) x) as [E|_].
    + exfalso. apply Hx. rewrite <- E. apply nth_In. lia.
    + rewrite IH by lia. lia.
Qed.

Lemma index_of_In l x a : In x l -> exists i, (i < length l)%nat /\ Hypergraph.index_of x l a = a + Z.of_nat i /\ nth i l LNone = x.
Proof.
  revert a. induction l as [|y l IH]; intros a H; [destruct H|]. cbn [Hypergraph.index_of length].
  destruct (lbl_eqb_spec x y) as [->|N].
  - exists O. split; [lia|]. split; [lia|reflexivity].
  - destruct H as [H|H]; [congruence|]. destruct (IH (a + 1) H) as (i & Hi & E & En).
    exists (S i). split; [lia|]. split; [lia|exact En].
Qed.

Lemma index_of_inj l x y a : NoDup l -> In x l -> In y l -> Hypergraph.index_of x l a = Hypergraph.index_of y l a -> x = y.
Proof.
  intros ND Hx Hy E. destruct (index_of_In l x a Hx) as (i & Hi & Ei & Ni). destruct (index_of_In l y a Hy) as (j & Hj & Ej & Nj).
  assert (i = j) by lia. subst j. congruence.
Qed.

Lemma nth_map' {A B} (f : A -> B) l i d d' : (i < length l)%nat -> nth i (map f l) d' = f (nth i l d).
Proof. intro H. rewrite (nth_indep _ d' (f d)) by (rewrite map_length; exact H). apply map_nth. Qed.

Lemma map_index_positions l : NoDup l ->
  map (fun x => LInt (Hypergraph.index_of x l 0)) l = map (fun i => LInt (Z.of_nat i)) (seq 0 (length l)).
Proof.
  intro ND. apply (nth_ext _ _ LNone LNone); [rewrite !map_length, seq_length; reflexivity|].
  intros i Hi. rewrite map_length in Hi.
  rewrite (nth_map' (fun x => LInt (Hypergraph.index_of x l 0)) l i LNone LNone Hi), (index_of_nth l ND i 0 Hi).
  rewrite (nth_map' (fun k => LInt (Z.of_nat k)) (seq 0 (length l)) i O LNone) by (rewrite seq_length; exact Hi).
  rewrite seq_nth by exact Hi. reflexivity.
Qed.

Lemma loop_out_ok {A} (f : hg -> A -> res) l : (forall s x, out_of (f s x) = Ok) -> forall s, out_of (loop f l s) = Ok.
Proof. intro H. apply (loop_out (fun o => o = Ok)); [reflexivity|exact H]. Qed.

(* ---------- the label attribute ---------- *)
Lemma has_set_keep {V} k k0 (v : V) d : has k d = true -> has k (set k0 v d) = true.
Proof.
  unfold has. rewrite get_set. destruct (lbl_eqb k k0); [reflexivity|auto].
Qed.

Lemma set_node_attrs_dict_get vals : forall s, NoDup (map fst vals) ->
  (forall nd, In nd vals -> has (fst nd) (h_nattr s) = true) ->
  (forall n, get n (h_nattr (st_of (set_node_attrs_dict vals s))) =
             match get n vals with Some d => Some (aupdate (geta n (h_nattr s)) d) | None => get n (h_nattr s) end) /\
  h_eattr (st_of (set_node_attrs_dict vals s)) = h_eattr s.
Proof.
  unfold set_node_attrs_dict. induction vals as [|[n0 d0] vals IH]; intros s ND Hh.
  - cbn [loop]. rewrite st_of_ok. split; [intro n; reflexivity|reflexivity].
  - inversion ND as [|? ? Hn ND']; subst.
    assert (H0 : has n0 (h_nattr s) = true) by (apply (Hh (n0, d0)); left; reflexivity).
    set (f := fun s nd => let '(n, d) := nd in if has n (h_nattr s) then ok (nattr_update n d s) else warn1 s) in *.
    assert (F : f s (n0, d0) = (nattr_update n0 d0 s, Ok, O)) by (unfold f; rewrite H0; reflexivity).
    destruct (loop_cons_ok f (n0, d0) vals s _ O F) as [E1 _]. rewrite E1.
    destruct (IH (nattr_update n0 d0 s) ND') as [G1 G2].
    { intros nd Hnd. unfold nattr_update. cbn [h_nattr with_nattr]. apply has_set_keep. apply Hh. right. exact Hnd. }
    split; [|rewrite G2; reflexivity].
    intro n. rewrite G1. cbn [get]. unfold nattr_update. cbn [h_nattr with_nattr].
    destruct (lbl_eqb_spec n n0) as [->|N].
    + assert (Gn : get n0 vals = None).
      { apply get_None. exact Hn. }
      rewrite Gn, get_set_same. reflexivity.
    + unfold geta. rewrite (get_set_other n0 n _ _ N). reflexivity.
Qed.

Lemma set_edge_attrs_dict_get vals : forall s, NoDup (map fst vals) ->
  (forall nd, In nd vals -> has (fst nd) (h_eattr s) = true) ->
  (forall n, get n (h_eattr (st_of (set_edge_attrs_dict vals s))) =
             match get n vals with Some d => Some (aupdate (geta n (h_eattr s)) d) | None => get n (h_eattr s) end) /\
  h_nattr (st_of (set_edge_attrs_dict vals s)) = h_nattr s.
Proof.
  unfold set_edge_attrs_dict. induction vals as [|[n0 d0] vals IH]; intros s ND Hh.
  - cbn [loop]. rewrite st_of_ok. split; [intro n; reflexivity|reflexivity].
  - inversion ND as [|? ? Hn ND']; subst.
    assert (H0 : has n0 (h_eattr s) = true) by (apply (Hh (n0, d0)); left; reflexivity).
    set (f := fun s nd => let '(n, d) := nd in if has n (h_eattr s) then ok (eattr_update n d s) else warn1 s) in *.
    assert (F : f s (n0, d0) = (eattr_update n0 d0 s, Ok, O)) by (unfold f; rewrite H0; reflexivity).
    destruct (loop_cons_ok f (n0, d0) vals s _ O F) as [E1 _]. rewrite E1.
    destruct (IH (eattr_update n0 d0 s) ND') as [G1 G2].
    { intros nd Hnd. unfold eattr_update. cbn [h_eattr with_eattr]. apply has_set_keep. apply Hh. right. exact Hnd. }
    split; [|rewrite G2; reflexivity].
    intro n. rewrite G1. cbn [get]. unfold eattr_update. cbn [h_eattr with_eattr].
    destruct (lbl_eqb_spec n n0) as [->|N].
    + assert (Gn : get n0 vals = None).
      { apply get_None. exact Hn. }
      rewrite Gn, get_set_same. reflexivity.
    + unfold geta. rewrite (get_set_other n0 n _ _ N). reflexivity.
Qed.

Lemma get_map_inj {V} (f : lbl -> lbl) (g : lbl -> V) l n : In n l ->
  (forall x y, In x l -> In y l -> f x = f y -> x = y) -> get (f n) (map (fun x => (f x, g x)) l) = Some (g n).
Proof.
  induction l as [|a l IH]; intros Hn Hinj; [destruct Hn|]. cbn [map get].
  destruct (lbl_eqb_spec (f n) (f a)) as [E|N].
  - rewrite (Hinj n a Hn (or_introl eq_refl) E). reflexivity.
  - destruct Hn as [->|Hn]; [congruence|]. apply IH; [exact Hn|]. intros x y Hx Hy. apply Hinj; right; assumption.
Qed.

Theorem relabel_spec la s : Inv s ->
  let r := relabel_inplace la s in
  let t := st_of r in
  let nmap := fun n => LInt (Hypergraph.index_of n (nkeys s) 0) in
  let emap := fun e => LInt (Hypergraph.index_of e (ekeys s) 0) in
  out_of r = Ok /\ Inv t /\
  nkeys t = map (fun i => LInt (Z.of_nat i)) (seq 0 (length (nkeys s))) /\
  ekeys t = map (fun j => LInt (Z.of_nat j)) (seq 0 (length (ekeys s))) /\
  (forall e, In e (ekeys s) -> seteq (mems t (emap e)) (map nmap (mems s e))) /\
  (forall x y, In x (nkeys s) -> In y (nkeys s) -> nmap x = nmap y -> x = y) /\
  (forall x y, In x (ekeys s) -> In y (ekeys s) -> emap x = emap y -> x = y) /\
  h_net t = h_net s /\
  (* the old labels are recorded: attributes are carried over and the label attribute is set last *)
  (forall n, In n (nkeys s) ->
     get (nmap n) (h_nattr t) = Some (aupdate (aupdate [] (aupdate [] (geta n (h_nattr s)))) [(la, aval_of_lbl n)])) /\
  (forall e, In e (ekeys s) ->
     get (emap e) (h_eattr t) = Some (aupdate (aupdate [] (aupdate [] (geta e (h_eattr s)))) [(la, aval_of_lbl e)])).
Proof.
  intros I. cbv zeta. unfold relabel_inplace. cbv zeta.
  pose proof I as (W & (_ & _ & Kn & Ke) & _).
  fold (nkeys s). fold (ekeys s).
  set (nmap := fun n => LInt (Hypergraph.index_of n (nkeys s) 0)).
  set (emap := fun e => LInt (Hypergraph.index_of e (ekeys s) 0)).
  set (s0 := mkHG [] [] [] [] (h_net s) (h_uid s)).
  assert (I0 : Inv s0) by apply Inv_cleared.
  set (nitems := map (fun n => (LInt (Hypergraph.index_of n (nkeys s) 0), Some (geta n (h_nattr s)))) (nkeys s)).
  assert (Fn : map fst nitems = map nmap (nkeys s)) by (unfold nitems; rewrite map_map; reflexivity).
  assert (NDn : NoDup (map nmap (nkeys s))).
  { unfold nmap. rewrite (map_index_positions (nkeys s) Kn).
    apply FinFun.Injective_map_NoDup; [intros a b E; injection E as E; apply Nat2Z.inj; exact E|apply seq_NoDup]. }
  destruct (build_nodes_effect nitems [] s0 I0) as (O1 & I1 & K1 & E1 & EA1 & NT1 & U1 & New1 & _).
  { rewrite Fn. exact NDn. }
  { intros it Hit. unfold nitems in Hit. apply in_map_iff in Hit. destruct Hit as (n & <- & _). cbn [fst]. split; [reflexivity|intros []]. }
  set (r1 := add_nodes_from nitems [] s0) in *. set (s1 := st_of r1) in *.
  match goal with |- context [bind r1 ?k] => destruct (bind_ok_st r1 k O1) as [Est Eout] end. rewrite Est, Eout. clear Est Eout. cbv beta. fold s1.
  (* the label attribute of the nodes *)
  set (nlab := map (fun n => (LInt (Hypergraph.index_of n (nkeys s) 0), [(la, aval_of_lbl n)])) (nkeys s)).
  assert (O2 : out_of (set_node_attrs_dict nlab s1) = Ok).
  { unfold set_node_attrs_dict. apply loop_out_ok. intros s' [n d]. destruct (has n (h_nattr s')); reflexivity. }
  destruct (set_node_attrs_dict_same nlab s1) as (S2n & S2e & S2u).
  pose proof (Inv_set_node_attrs_dict nlab s1 I1) as I2.
  set (r2 := set_node_attrs_dict nlab s1) in *. set (s2 := st_of r2) in *.
  match goal with |- context [bind r2 ?k] => destruct (bind_ok_st r2 k O2) as [Est Eout] end. rewrite Est, Eout. clear Est Eout. cbv beta. fold s2.
  assert (Net2 : h_net s2 = h_net s).
  { unfold s2, r2, set_node_attrs_dict. apply (loop_inv (fun t => h_net t = h_net s)); [|exact NT1].
    intros s' [n d] H. destruct (has n (h_nattr s')); [rewrite st_of_ok|]; exact H. }
  assert (InjN : forall x y, In x (nkeys s) -> In y (nkeys s) -> nmap x = nmap y -> x = y).
  { intros x y Hx Hy E. unfold nmap in E. injection E as E. apply (index_of_inj (nkeys s) x y 0 Kn Hx Hy E). }
  assert (InjE : forall x y, In x (ekeys s) -> In y (ekeys s) -> emap x = emap y -> x = y).
  { intros x y Hx Hy E. unfold emap in E. injection E as E. apply (index_of_inj (ekeys s) x y 0 Ke Hx Hy E). }
  assert (NA1 : forall n, In n (nkeys s) -> get (nmap n) (h_nattr s1) = Some (aupdate [] (aupdate [] (geta n (h_nattr s))))).
  { intros n Hn. destruct (New1 (nmap n, Some (geta n (h_nattr s)))) as [G _].
    { unfold nitems. apply in_map_iff. exists n. split; [reflexivity|exact Hn]. }
    exact G. }
  assert (NA2 : forall n, In n (nkeys s) ->
            get (nmap n) (h_nattr s2) = Some (aupdate (aupdate [] (aupdate [] (geta n (h_nattr s)))) [(la, aval_of_lbl n)])).
  { intros n Hn. destruct (set_node_attrs_dict_get nlab s1) as [G _].
    { unfold nlab. rewrite map_map. exact NDn. }
    { intros nd Hnd. unfold nlab in Hnd. apply in_map_iff in Hnd. destruct Hnd as (m & <- & Hm). cbn [fst].
      unfold has. fold (nmap m). rewrite (NA1 m Hm). reflexivity. }
    fold r2 in G. fold s2 in G. rewrite G.
    change (get (nmap n) nlab) with (get (nmap n) (map (fun x => (nmap x, [(la, aval_of_lbl x)])) (nkeys s))).
    rewrite (get_map_inj nmap (fun n => [(la, aval_of_lbl n)]) (nkeys s) n Hn InjN).
    unfold geta. rewrite (NA1 n Hn). reflexivity. }
  (* the edges *)
  set (eitems := map (fun e => (map nmap (getl e (h_edge s)), LInt (Hypergraph.index_of e (ekeys s) 0), geta e (h_eattr s))) (ekeys s)).
  assert (Fe : map item_id eitems = map emap (ekeys s)) by (unfold eitems; rewrite map_map; reflexivity).
  assert (NDe : NoDup (map emap (ekeys s))).
  { unfold emap. rewrite (map_index_positions (ekeys s) Ke).
    apply FinFun.Injective_map_NoDup; [intros a b E; injection E as E; apply Nat2Z.inj; exact E|apply seq_NoDup]. }
  assert (Ek2 : ekeys s2 = []) by (unfold ekeys; rewrite S2e, E1; reflexivity).
  assert (Er3 : (match ekeys s with [] => ok s2 | _ :: _ => add_edges_from (EB4 eitems) [] s2 end) = add_edges_from (EB4 eitems) [] s2).
  { unfold eitems. destruct (ekeys s); reflexivity. }
  rewrite Er3. clear Er3.
  assert (Res3 : exists r3, r3 = add_edges_from (EB4 eitems) [] s2 /\
            out_of r3 = Ok /\ Inv (st_of r3) /\ ekeys (st_of r3) = map emap (ekeys s) /\
            nkeys (st_of r3) = nkeys s2 /\ h_net (st_of r3) = h_net s /\
            (forall e, In e (ekeys s) -> seteq (mems (st_of r3) (emap e)) (map nmap (mems s e))) /\
            (forall n, In n (nkeys s2) -> get n (h_nattr (st_of r3)) = get n (h_nattr s2)) /\
            (forall e, In e (ekeys s) -> get (emap e) (h_eattr (st_of r3)) = Some (aupdate [] (aupdate [] (geta e (h_eattr s)))))).
  { eexists. split; [reflexivity|].
      destruct (build_edges_effect eitems [] s2 I2) as (O3 & _ & I3 & E3 & Items & _ & NK3 & (l & NP3) & NAold & NT3).
      { split; [rewrite Fe; exact NDe|]. intros it Hit. unfold eitems in Hit. apply in_map_iff in Hit.
        destruct Hit as (e & <- & He). cbn [item_id item_ms fst snd]. split; [rewrite Ek2; intros []|]. split; [reflexivity|].
        apply no_none_members. intro Hm. apply in_map_iff in Hm. destruct Hm as (x & E & _). discriminate E. }
      split; [exact O3|]. split; [exact I3|]. split; [rewrite E3, Ek2, Fe; reflexivity|].
      split.
      { assert (Hl : l = []).
        { apply (NoDup_app_absorb (nkeys s2) l).
          - rewrite <- NP3. destruct I3 as (_ & (_ & _ & K3' & _) & _). exact K3'.
          - intros x Hx. assert (Hin : In x (nkeys (st_of (add_edges_from (EB4 eitems) [] s2)))) by (rewrite NP3; apply in_app_iff; right; exact Hx).
            apply NK3 in Hin. destruct Hin as [H|(it & Hit & Hm)]; [exact H|].
            unfold eitems in Hit. apply in_map_iff in Hit. destruct Hit as (e & <- & He). cbn [item_ms fst snd] in Hm.
            apply in_map_iff in Hm. destruct Hm as (y & <- & Hy).
            unfold nkeys at 1. rewrite S2n. fold (nkeys s1). rewrite K1. cbn [nkeys s0 h_node keys map app]. rewrite Fn.
            apply in_map. apply (members_are_nodes s e y I). exact Hy. }
        rewrite NP3, Hl, app_nil_r. reflexivity. }
      split; [rewrite NT3; exact Net2|].
      split.
      { intros e He. destruct (Items (map nmap (getl e (h_edge s)), emap e, geta e (h_eattr s))) as [(M & GM & SM & _) _].
        { unfold eitems. apply in_map_iff. exists e. split; [reflexivity|exact He]. }
        cbn [item_id item_ms fst snd] in GM, SM. unfold mems at 1, getl. rewrite GM. exact SM. }
      split; [exact NAold|].
      intros e He. destruct (Items (map nmap (getl e (h_edge s)), emap e, geta e (h_eattr s))) as [_ GA].
      { unfold eitems. apply in_map_iff. exists e. split; [reflexivity|exact He]. }
      cbn [item_id item_attr fst snd] in GA. exact GA. }
  destruct Res3 as (r3 & Er3 & O3 & I3 & K3 & N3 & Net3 & M3 & NA3 & EA3). rewrite <- Er3.
  match goal with |- context [bind r3 ?k] => destruct (bind_ok_st r3 k O3) as [Est Eout] end. rewrite Est, Eout. clear Est Eout. cbv beta.
  set (s3 := st_of r3) in *.
  set (elab := map (fun e => (LInt (Hypergraph.index_of e (ekeys s) 0), [(la, aval_of_lbl e)])) (ekeys s)).
  assert (O4 : out_of (set_edge_attrs_dict elab s3) = Ok).
  { unfold set_edge_attrs_dict. apply loop_out_ok. intros s' [e d]. destruct (has e (h_eattr s')); reflexivity. }
  destruct (set_edge_attrs_dict_same elab s3) as (S4n & S4e & S4u).
  pose proof (Inv_set_edge_attrs_dict elab s3 I3) as I4.
  split; [exact O4|]. split; [exact I4|].
  split.
  { unfold nkeys at 1. rewrite S4n. fold (nkeys s3). rewrite N3. unfold nkeys at 1. rewrite S2n. fold (nkeys s1).
    rewrite K1. cbn [nkeys s0 h_node keys map app]. rewrite Fn. apply (map_index_positions (nkeys s) Kn). }
  split.
  { unfold ekeys at 1. rewrite S4e. fold (ekeys s3). rewrite K3. apply (map_index_positions (ekeys s) Ke). }
  split.
  { intros e He. unfold mems at 1. rewrite S4e. fold (mems s3 (emap e)). apply M3. exact He. }
  split; [exact InjN|]. split; [exact InjE|].
  split.
  { unfold set_edge_attrs_dict. apply (loop_inv (fun t => h_net t = h_net s)); [|exact Net3].
    intros s' [e d] H. destruct (has e (h_eattr s')); [rewrite st_of_ok|]; exact H. }
  destruct (set_edge_attrs_dict_get elab s3) as [G4 N4].
  { unfold elab. rewrite map_map. exact NDe. }
  { intros nd Hnd. unfold elab in Hnd. apply in_map_iff in Hnd. destruct Hnd as (m & <- & Hm). cbn [fst].
    unfold has. fold (emap m). rewrite (EA3 m Hm). reflexivity. }
  split.
  { intros n Hn. rewrite N4. fold s3. rewrite NA3; [apply NA2; exact Hn|].
    unfold nkeys. rewrite S2n. fold (nkeys s1). rewrite K1. cbn [nkeys s0 h_node keys map app]. rewrite Fn.
    apply (in_map nmap (nkeys s) n Hn). }
  intros e He.
  assert (Ge : @get attrs (emap e) elab = Some [(la, aval_of_lbl e)]) by (exact (get_map_inj emap (fun e => [(la, aval_of_lbl e)]) (ekeys s) e He InjE)).
  specialize (G4 (emap e)). rewrite Ge in G4. eapply eq_trans; [exact G4|].
  unfold geta. fold s3 in EA3. rewrite (EA3 e He). reflexivity.
Qed.
