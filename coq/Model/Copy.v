(* copy(), the same-class constructor and pickling for the three classes (C07), transcribed:
   a new empty network is filled through add_nodes_from / add_edges_from (format 4), the network
   attributes are deep-copied and - for copy() only - the id counter is copied. *)
From Coq Require Import String ZArith List Bool Lia.
From XV Require Import Base.Label Base.LSet Base.ODict Base.Attr Base.Outcome Model.Hypergraph
  Model.HgCheck Model.DiHypergraph Model.DiCheck Model.SimplicialComplex Model.ScCheck.
Import ListNotations.
Open Scope Z_scope.

Definition node_items (s : hg) : list (lbl * option attrs) :=
  map (fun n => (n, Some (geta n (h_nattr s)))) (keys (h_node s)).
Definition edge_items (s : hg) : list (list lbl * lbl * attrs) :=
  map (fun e => (getl e (h_edge s), e, geta e (h_eattr s))) (keys (h_edge s)).

(* route: true = copy() (counter copied), false = Class(net) (counter as left by the additions) *)
Definition hg_dup (copy_uid : bool) (s : hg) : res :=
  bind (add_nodes_from (node_items s) [] hg_empty)
  (fun s1 => bind (add_edges_from (EB4 (edge_items s)) [] s1)
  (fun s2 => let s3 := with_net s2 (h_net s) in
             ok (if copy_uid then with_uid s3 (h_uid s) else s3))).

Definition sc_dup (copy_uid : bool) (s : hg) : res :=
  bind (add_nodes_from (node_items s) [] hg_empty)
  (fun s1 => bind (add_simplices_from (EB4 (edge_items s)) None [] ([], []) s1)
  (fun s2 => let s3 := with_net s2 (h_net s) in
             ok (if copy_uid then with_uid s3 (h_uid s) else s3))).

Definition di_edge_items (d : dhg) : list (list lbl * list lbl * lbl * attrs) :=
  map (fun e => (tail d e, head d e, e, geta e (h_eattr (ts d)))) (keys (h_edge (ts d))).

Definition di_dup (copy_uid : bool) (d : dhg) : dres :=
  dbind (d_add_nodes_from (node_items (ts d)) [] dhg_empty)
  (fun d1 => dbind (d_add_edges_from (DB4 (di_edge_items d)) [] d1)
  (fun d2 => let t := with_net (ts d2) (h_net (ts d)) in
             dok (if copy_uid then mkD (with_uid t (h_uid (ts d))) (with_uid (hs d2) (h_uid (ts d)))
                  else mkD t (hs d2)))).

(* pickling stores and restores the six tables *)
Definition pickle_roundtrip (s : hg) : hg := s.

(* ---- correspondence: (history, copy route, observation of the duplicate) ---- *)

Definition dup_mismatch_hg (p : proj) (c : list op * bool * obs) : bool :=
  let '(ops, route, ob) := c in negb (obs_match p (hg_dup route (run ops hg_empty)) ob).
Definition dup_mismatch_sc (p : proj) (c : list sop * bool * obs) : bool :=
  let '(ops, route, ob) := c in negb (obs_match p (sc_dup route (srun ops hg_empty)) ob).
Definition dup_mismatch_di (p : proj) (c : list dop * bool * dobs) : bool :=
  let '(ops, route, ob) := c in negb (dobs_match p (di_dup route (drun ops dhg_empty)) ob).

Fixpoint where_true {C} (f : C -> bool) (l : list C) (i : nat) : list (nat * nat) :=
  match l with
  | [] => []
  | c :: r => if f c then (i, O) :: where_true f r (S i) else where_true f r (S i)
  end.
Definition dup_mismatches_hg p l := where_true (dup_mismatch_hg p) l O.
Definition dup_mismatches_sc p l := where_true (dup_mismatch_sc p) l O.
Definition dup_mismatches_di p l := where_true (dup_mismatch_di p) l O.
