(* C19 - derived networks (theorems are added from Proofs/DerivedProofs.v). *)
From Coq Require Import String ZArith List Bool.
From XV Require Import Base.Label Base.LSet Base.ODict Base.Attr Base.Outcome Model.Hypergraph
  Model.HgCheck Model.Copy Model.Derived Proofs.HgViews Proofs.HgInv Proofs.Build Proofs.DerivedProofs.
Import ListNotations.
Open Scope Z_scope.

(* subhypergraph keeps precisely the requested edges that lie inside the requested nodes, with
   their members and attributes, over exactly the requested nodes (keep_isolates = True) *)
Theorem C19_subhypergraph_exact : forall nodes edges s, Inv s -> NoNone s ->
  let r := subhypergraph nodes edges true s in
  let t := st_of r in
  let nset := sub_nset nodes s in
  let kept := filter (fun e => ssubset (mems s e) nset) (sub_eset edges s) in
  Proofs.HgErrors.out_of r = Ok /\ Inv t /\
  nkeys t = nset /\ ekeys t = kept /\
  (forall e, In e kept -> (exists M, get e (h_edge t) = Some M /\ seteq M (mems s e)) /\
                          get e (h_eattr t) = Some (aupdate [] (aupdate [] (geta e (h_eattr s))))) /\
  (forall n, In n nset -> get n (h_nattr t) = Some (aupdate [] (aupdate [] (geta n (h_nattr s))))) /\
  h_net t = h_net s.
Proof. exact subhypergraph_exact. Qed.
Print Assumptions C19_subhypergraph_exact.

(* the lemma the characterisations rest on: filling a network through add_edges_from (format 4)
   with distinct new ids yields exactly the listed edges, members, attributes and nodes *)
Theorem C19_build_edges : forall L a s, Inv s -> fresh_items s L ->
  let r := add_edges_from (EB4 L) a s in
  let t := st_of r in
  Proofs.HgErrors.out_of r = Ok /\ snd r = O /\ Inv t /\ ekeys t = ekeys s ++ map item_id L /\
  (forall it, In it L -> (exists M, get (item_id it) (h_edge t) = Some M /\ seteq M (item_ms it) /\ NoDup M) /\
                         get (item_id it) (h_eattr t) = Some (aupdate [] (aupdate a (item_attr it)))) /\
  (forall e, In e (ekeys s) -> get e (h_edge t) = get e (h_edge s) /\ get e (h_eattr t) = get e (h_eattr s)) /\
  (forall x, In x (nkeys t) <-> In x (nkeys s) \/ exists it, In it L /\ In x (item_ms it)) /\
  (exists l, nkeys t = nkeys s ++ l) /\
  (forall n, In n (nkeys s) -> get n (h_nattr t) = get n (h_nattr s)) /\
  h_net t = h_net s.
Proof. exact build_edges_effect. Qed.
Print Assumptions C19_build_edges.

Example C19_nonvacuous :
  let s := run [OAddEdgesFrom (EB1 [[LInt 1; LInt 2; LInt 3]; [LInt 3; LInt 4]; [LInt 5]]) []; OAddNode (LInt 9) []] hg_empty in
  keys (h_edge (st_of (subhypergraph (Some [LInt 1; LInt 2; LInt 3; LInt 4]) None true s))) = [LInt 0; LInt 1] /\
  keys (h_edge (st_of (dual [] s))) = [LInt 1; LInt 2; LInt 3; LInt 4; LInt 5; LInt 9] /\
  keys (h_node (st_of (cleanup_copy false false false true true s))) = [LInt 0; LInt 1; LInt 2; LInt 3].
Proof. vm_compute. repeat split. Qed.
Print Assumptions C19_nonvacuous.
