"""Ways of obtaining a network (C04, C07, C08): constructors, converters, readers, generators,
copies, pickles, relabellings.  Each provenance is a function rng -> network (any class)."""
import os, pickle, random, tempfile, warnings


def base_edges(rng, labels="int", n_edges=None, explicit=False):
    pool = {"int": list(range(8)), "str": list("abcdefg"), "gap": [2, 5, 9, 11, 20, 31]}[labels]
    m = rng.randint(1, 5) if n_edges is None else n_edges
    return [rng.sample(pool, rng.randint(1, 4)) for _ in range(m)]


def base_hypergraph(rng):
    import xgi
    style = rng.choice(["list", "dict-int", "dict-str", "explicit0", "decreasing", "isolated", "empty-edge"])
    H = xgi.Hypergraph()
    if style == "list":
        H.add_edges_from(base_edges(rng, rng.choice(["int", "str", "gap"])))
    elif style == "dict-int":
        ids = rng.sample(range(0, 12), rng.randint(1, 4))
        H.add_edges_from({i: rng.sample(range(6), rng.randint(1, 3)) for i in ids})
    elif style == "dict-str":
        H.add_edges_from({s: rng.sample(range(6), rng.randint(1, 3)) for s in rng.sample(["x", "y", "z", "w"], 3)})
    elif style == "explicit0":
        H.add_edge([1, 2], idx=0)
        H.add_edge([2, 3], idx=rng.choice([1, 3, 7]))
    elif style == "decreasing":
        H.add_edges_from([([1, 2], 5), ([2, 3], 3), ([3, 4], 1)])
    elif style == "isolated":
        H.add_nodes_from([10, 11])
        H.add_edges_from(base_edges(rng))
    else:
        H.add_edges_from(base_edges(rng))
        H.add_edge([], idx=rng.choice([None, 9]))
    if rng.random() < 0.4 and H.num_edges:
        H.remove_edge(rng.choice(list(H.edges)))
    if rng.random() < 0.3:
        H.set_edge_attributes({e: {"w": i} for i, e in enumerate(H.edges)})
        H["name"] = "net"
    return H


def base_dihypergraph(rng):
    import xgi
    DH = xgi.DiHypergraph()
    style = rng.choice(["list", "dict", "explicit0", "decreasing"])
    def de():
        return (rng.sample(range(6), rng.randint(0, 2)), rng.sample(range(6), rng.randint(1, 2)))
    if style == "list":
        DH.add_edges_from([de() for _ in range(rng.randint(1, 4))])
    elif style == "dict":
        DH.add_edges_from({i: de() for i in rng.sample(range(10), 3)})
    elif style == "explicit0":
        DH.add_edge(de(), idx=0)
        DH.add_edge(de(), idx=rng.choice([1, 4]))
    else:
        DH.add_edges_from([(de(), 5), (de(), 3), (de(), 1)])
    if rng.random() < 0.3:
        DH.add_node("iso")
    return DH


def base_simplicial(rng):
    import xgi
    S = xgi.SimplicialComplex()
    style = rng.choice(["list", "dict", "explicit", "single"])
    if style == "list":
        S.add_simplices_from([rng.sample(range(6), rng.randint(1, 3)) for _ in range(rng.randint(1, 3))])
    elif style == "dict":
        S.add_simplices_from({i: rng.sample(range(6), rng.randint(2, 3)) for i in rng.sample(range(3, 12), 2)})
    elif style == "explicit":
        S.add_simplex([1, 2, 3], idx=rng.choice([4, 7, "s"]))
        S.add_simplex([3, 4])
    else:
        S.add_simplex(rng.sample(range(6), rng.randint(2, 4)))
    return S


def _tmpfile(suffix):
    fd, p = tempfile.mkstemp(suffix=suffix, prefix="xgiverif_")
    os.close(fd)
    return p


def provenances():
    """name -> function(rng) returning a network.  Generic over classes where the API allows."""
    import xgi, numpy as np, networkx as nx, pandas as pd
    P = {}
    P["Hypergraph(list)"] = lambda r: xgi.Hypergraph(base_edges(r, r.choice(["int", "str", "gap"])))
    P["Hypergraph(dict)"] = lambda r: xgi.Hypergraph({i: r.sample(range(6), 2) for i in r.sample(range(9), 3)})
    P["Hypergraph(DataFrame)"] = lambda r: xgi.Hypergraph(pd.DataFrame(
        [[n, e] for e in r.sample(range(6), 3) for n in r.sample(range(5), 2)]))
    P["Hypergraph(ndarray)"] = lambda r: xgi.Hypergraph(np.array(
        [[r.randint(0, 1) for _ in range(3)] for _ in range(4)]))
    P["Hypergraph(Hypergraph)"] = lambda r: xgi.Hypergraph(base_hypergraph(r))
    P["Hypergraph(SimplicialComplex)"] = lambda r: xgi.Hypergraph(base_simplicial(r))
    P["Hypergraph(DiHypergraph)"] = lambda r: xgi.Hypergraph(base_dihypergraph(r))
    P["DiHypergraph(list)"] = lambda r: xgi.DiHypergraph([(r.sample(range(5), 2), r.sample(range(5), 1)) for _ in range(3)])
    P["DiHypergraph(dict)"] = lambda r: xgi.DiHypergraph({i: (r.sample(range(5), 2), r.sample(range(5), 1)) for i in r.sample(range(8), 3)})
    P["DiHypergraph(DiHypergraph)"] = lambda r: xgi.DiHypergraph(base_dihypergraph(r))
    P["SimplicialComplex(list)"] = lambda r: xgi.SimplicialComplex([r.sample(range(6), r.randint(1, 3)) for _ in range(3)])
    P["SimplicialComplex(dict)"] = lambda r: xgi.SimplicialComplex({i: r.sample(range(6), 2) for i in r.sample(range(2, 9), 2)})
    P["SimplicialComplex(SimplicialComplex)"] = lambda r: xgi.SimplicialComplex(base_simplicial(r))
    P["SimplicialComplex(Hypergraph)"] = lambda r: xgi.SimplicialComplex(base_hypergraph(r))
    P["from_hyperedge_list"] = lambda r: xgi.from_hyperedge_list(base_edges(r))
    P["from_hyperedge_dict"] = lambda r: xgi.from_hyperedge_dict({i: r.sample(range(6), 2) for i in r.sample(range(9), 3)})
    P["from_bipartite_edgelist"] = lambda r: xgi.from_bipartite_edgelist(
        [(n, e) for e in r.sample(range(6), 3) for n in r.sample(range(5), 2)])
    P["from_incidence_matrix"] = lambda r: xgi.from_incidence_matrix(np.array(
        [[r.randint(0, 1) for _ in range(3)] for _ in range(4)]))
    def bip(r):
        G = nx.Graph()
        es = r.sample(range(5), 3)
        for e in es:
            for n in r.sample(range(5), 2):
                G.add_node(n, bipartite=0); G.add_node(("e", e) if r.random() < 0 else e + 100, bipartite=1)
                G.add_edge(n, e + 100)
        return G
    P["from_bipartite_graph"] = lambda r: xgi.from_bipartite_graph(bip(r))
    def bip_int(r):
        G = nx.Graph()
        nodes = ["a", "b", "c", "d"]
        for e in r.sample(range(4), 3):
            G.add_node(e, bipartite=1)
            for n in r.sample(nodes, 2):
                G.add_node(n, bipartite=0)
                G.add_edge(n, e)
        return G
    P["from_bipartite_graph(int edges)"] = lambda r: xgi.from_bipartite_graph(bip_int(r))
    P["from_bipartite_pandas_dataframe"] = lambda r: xgi.from_bipartite_pandas_dataframe(pd.DataFrame(
        [[n, e] for e in r.sample(range(6), 3) for n in r.sample(range(5), 2)], columns=["n", "e"]), node_column="n", edge_column="e")
    P["from_hif_dict(to_hif_dict(H))"] = lambda r: xgi.from_hif_dict(xgi.to_hif_dict(base_hypergraph(r)))
    P["from_hif_dict(to_hif_dict(DH))"] = lambda r: xgi.from_hif_dict(xgi.to_hif_dict(base_dihypergraph(r)))
    P["from_hif_dict(to_hif_dict(S))"] = lambda r: xgi.from_hif_dict(xgi.to_hif_dict(base_simplicial(r)))
    P["from_hypergraph_dict(to_hypergraph_dict(H))"] = lambda r: xgi.from_hypergraph_dict(
        xgi.to_hypergraph_dict(xgi.Hypergraph(base_edges(r))))
    def via_file(writer, reader, suffix, make, **kw):
        def f(r):
            p = _tmpfile(suffix)
            try:
                writer(make(r), p)
                return reader(p, **kw)
            finally:
                os.unlink(p)
        return f
    P["read_edgelist"] = via_file(xgi.write_edgelist, xgi.read_edgelist, ".txt", lambda r: xgi.Hypergraph(base_edges(r)), nodetype=int)
    P["read_bipartite_edgelist"] = via_file(xgi.write_bipartite_edgelist, xgi.read_bipartite_edgelist, ".txt",
                                            lambda r: xgi.Hypergraph(base_edges(r)), nodetype=int, edgetype=int)
    P["read_incidence_matrix"] = via_file(xgi.write_incidence_matrix, xgi.read_incidence_matrix, ".txt",
                                          lambda r: xgi.Hypergraph(base_edges(r, n_edges=3) + [[0, 1]]))
    P["read_hif(H)"] = via_file(xgi.write_hif, xgi.read_hif, ".json", base_hypergraph)
    P["read_hif(DH)"] = via_file(xgi.write_hif, xgi.read_hif, ".json", base_dihypergraph)
    P["read_hif(S)"] = via_file(xgi.write_hif, xgi.read_hif, ".json", base_simplicial)
    P["read_json"] = via_file(xgi.write_json, xgi.read_json, ".json", lambda r: xgi.Hypergraph(base_edges(r)))
    # generators
    s = lambda r: r.randrange(10 ** 6)
    P["random_hypergraph"] = lambda r: xgi.random_hypergraph(6, [0.3, 0.2], seed=s(r))
    P["fast_random_hypergraph"] = lambda r: xgi.fast_random_hypergraph(6, [0.3, 0.2], seed=s(r))
    P["uniform_erdos_renyi_hypergraph"] = lambda r: xgi.uniform_erdos_renyi_hypergraph(6, 3, 0.3, seed=s(r))
    P["uniform_hypergraph_configuration_model"] = lambda r: xgi.uniform_hypergraph_configuration_model(
        {0: 2, 1: 2, 2: 1, 3: 1}, 3, seed=s(r))
    P["chung_lu_hypergraph"] = lambda r: xgi.chung_lu_hypergraph({0: 2, 1: 2, 2: 2}, {10: 2, 11: 2, 12: 2}, seed=s(r))
    P["watts_strogatz_hypergraph"] = lambda r: xgi.watts_strogatz_hypergraph(8, 3, 2, 2, 0.2, seed=s(r))
    P["complete_hypergraph"] = lambda r: xgi.complete_hypergraph(4, max_order=2)
    P["ring_lattice"] = lambda r: xgi.ring_lattice(6, 3, 2, 1)
    P["star_clique"] = lambda r: xgi.star_clique(4, 3, 2)
    P["sunflower"] = lambda r: xgi.sunflower(3, 1, 3)
    P["trivial_hypergraph"] = lambda r: xgi.trivial_hypergraph(3)
    P["empty_hypergraph"] = lambda r: xgi.empty_hypergraph()
    P["random_simplicial_complex"] = lambda r: xgi.random_simplicial_complex(6, [0.4, 0.2], seed=s(r))
    P["flag_complex"] = lambda r: xgi.flag_complex(nx.cycle_graph(4), max_order=2)
    P["random_flag_complex_d2"] = lambda r: xgi.random_flag_complex_d2(6, 0.5, seed=s(r))
    P["complement"] = lambda r: xgi.complement(xgi.Hypergraph([[0, 1], [1, 2, 3]]))
    P["shuffle_hyperedges"] = lambda r: xgi.shuffle_hyperedges(xgi.Hypergraph(base_edges(r) + [[0, 1, 2]]), 2, 0.5)
    P["node_swap"] = lambda r: xgi.node_swap(xgi.Hypergraph([[0, 1], [1, 2, 3], [3, 4]]), 0, 4)
    # copies and derived
    P["copy(H)"] = lambda r: base_hypergraph(r).copy()
    P["copy(DH)"] = lambda r: base_dihypergraph(r).copy()
    P["copy(S)"] = lambda r: base_simplicial(r).copy()
    def pk(make):
        def f(r):
            with warnings.catch_warnings():
                warnings.simplefilter("ignore")
                return pickle.loads(pickle.dumps(make(r)))
        return f
    P["pickle(H)"] = pk(base_hypergraph)
    P["pickle(DH)"] = pk(base_dihypergraph)
    P["pickle(S)"] = pk(base_simplicial)
    P["convert_labels_to_integers(H)"] = lambda r: xgi.convert_labels_to_integers(base_hypergraph(r))
    P["convert_labels_to_integers(DH)"] = lambda r: xgi.convert_labels_to_integers(base_dihypergraph(r))
    P["convert_labels_to_integers(S)"] = lambda r: xgi.convert_labels_to_integers(base_simplicial(r))
    def merged(r):
        H = xgi.Hypergraph([[1, 2], [1, 2], [2, 3], [2, 3], [4]])
        H.merge_duplicate_edges(rename=r.choice(["new", "first", "tuple"]))
        return H
    P["merge_duplicate_edges"] = merged
    P["cleanup(H)"] = lambda r: xgi.Hypergraph(base_edges(r) + [[0, 1], [1, 2]]).cleanup(in_place=False)
    P["dual"] = lambda r: xgi.Hypergraph(base_edges(r)).dual()
    P["lshift"] = lambda r: base_hypergraph(r) << base_hypergraph(r)
    P["subhypergraph.copy"] = lambda r: xgi.subhypergraph(xgi.Hypergraph(base_edges(r) + [[0, 1]]), nodes=[0, 1, 2, 3]).copy()
    P["cut_to_order"] = lambda r: xgi.cut_to_order(xgi.Hypergraph([[0, 1], [1, 2, 3], [3, 4, 5, 6]]), 2)
    P["largest_connected_hypergraph"] = lambda r: xgi.largest_connected_hypergraph(xgi.Hypergraph([[0, 1], [1, 2, 3], [7, 8]]))
    P["k_skeleton"] = lambda r: xgi.k_skeleton(base_simplicial(r), 1)
    P["from_max_simplices"] = lambda r: xgi.from_max_simplices(base_simplicial(r))
    P["base_hypergraph"] = base_hypergraph
    P["base_dihypergraph"] = base_dihypergraph
    P["base_simplicial"] = base_simplicial
    return P


def kind(net):
    import xgi
    if isinstance(net, xgi.SimplicialComplex):
        return "SimplicialComplex"
    if isinstance(net, xgi.DiHypergraph):
        return "DiHypergraph"
    return "Hypergraph"


def edge_snapshot(net):
    """id -> (members or (tail, head), attrs) in edge order, through the public API"""
    out = []
    k = kind(net)
    for e in net.edges:
        if k == "DiHypergraph":
            t, h = net.edges.dimembers(e)
            m = (frozenset(t), frozenset(h))
        else:
            m = frozenset(net.edges.members(e))
        out.append((e, m, dict(net.edges[e])))
    return out
