(* C06: the model's degree, edge size and edge order are the functions the source defines
   (Gen/BasicStats.v, regenerated from xgi/stats/nodestats.py and edgestats.py on every run). *)
From Coq Require Import String ZArith List Bool Lia.
From XV Require Import Base.Label Base.ODict Base.Attr Model.Hypergraph Model.Stats Model.PySem Gen.BasicStats.
Import ListNotations.
Open Scope Z_scope.

(* summing a condition counts the elements that satisfy it *)
Lemma count_as_sum (p : lbl -> bool) (l : list lbl) : forall acc,
  fold_left (fun acc x => acc + pyb2z (p x)) l acc = acc + zlen (filter p l).
Proof.
  unfold zlen. induction l as [|x l IH]; intro acc; cbn [fold_left filter length]; [cbn; lia|].
  rewrite IH. destruct (p x); cbn [pyb2z length]; [rewrite Nat2Z.inj_succ|]; lia.
Qed.

Theorem degree_is_source order weight s n : degree order weight s n = src_degree order weight s n.
Proof. unfold degree, src_degree. destruct order, weight; cbn [given zval sval negb andb]; reflexivity. Qed.

Theorem edge_size_is_source deg s e : edge_size deg s e = src_size deg s e.
Proof.
  unfold edge_size, src_size. destruct deg as [d|]; cbn [given zval negb]; [|reflexivity].
  rewrite (count_as_sum (fun n => Z.eqb (zlen (getl n (h_node s))) d)). lia.
Qed.

Theorem edge_order_is_source deg s e : edge_order deg s e = src_order deg s e.
Proof.
  unfold edge_order, edge_size, src_order. destruct deg as [d|]; cbn [given zval negb]; [|reflexivity].
  rewrite (count_as_sum (fun n => Z.eqb (zlen (getl n (h_node s))) d)). lia.
Qed.
