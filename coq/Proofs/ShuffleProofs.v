(* C05: random_edge_shuffle keeps every node degree, every edge size, all ids and all attributes, and
   only redistributes the nodes that are in exactly one of the two edges. *)
From Coq Require Import String ZArith List Bool Lia Permutation.
From XV Require Import Base.Label Base.LSet Base.ODict Base.Attr Base.Outcome Model.Hypergraph
  Proofs.HgViews Proofs.HgInv Proofs.HgInvOps Proofs.HgStep Proofs.HgKeys.
Import ListNotations.

(* what random.sample(list(nodes), len(e1)) returns: distinct elements of the symmetric difference,
   as many as e1 had outside the intersection *)
Definition sample_ok (s : hg) (e1 e2 : lbl) (sample : list lbl) : Prop :=
  NoDup sample /\ shuffle_admissible s e1 e2 sample /\
  length sample = length (sdiff (mems s e1) (sinter (mems s e1) (mems s e2))).

(* ---------- counting on duplicate-free lists ---------- *)
Lemma same_elems_length (a b : list lbl) : NoDup a -> NoDup b -> (forall x, In x a <-> In x b) -> length a = length b.
Proof. intros Ha Hb H. apply Permutation_length. apply NoDup_Permutation; assumption. Qed.

Lemma fold_sadd_disjoint l : forall acc, NoDup (acc ++ l) -> fold_left (fun a x => sadd x a) l acc = acc ++ l.
Proof.
  induction l as [|x l IH]; intros acc H; cbn [fold_left]; [rewrite app_nil_r; reflexivity|].
  assert (Hx : ~ In x acc).
  { intro Hi. apply NoDup_remove_2 in H. apply H. apply in_app_iff. left; exact Hi. }
  unfold sadd at 2. apply mem_nIn in Hx. rewrite Hx.
  rewrite IH; rewrite <- app_assoc; [reflexivity|exact H].
Qed.

Lemma NoDup_app_disj (a b : list lbl) : NoDup a -> NoDup b -> (forall x, In x a -> ~ In x b) -> NoDup (a ++ b).
Proof.
  induction 1 as [|x a Hx Ha IH]; intros Hb Hd; simpl; [exact Hb|]. constructor.
  - rewrite in_app_iff. intros [H|H]; [contradiction|]. apply (Hd x); [left; reflexivity|exact H].
  - apply IH; [exact Hb|]. intros y Hy. apply Hd. right; exact Hy.
Qed.

Lemma sunion_disjoint_length a b : NoDup a -> NoDup b -> (forall x, In x a -> ~ In x b) ->
  length (sunion a b) = (length a + length b)%nat.
Proof.
  intros Ha Hb Hd. unfold sunion. rewrite fold_sadd_disjoint by (apply NoDup_app_disj; assumption). apply app_length.
Qed.

Lemma mkset_nodup l : NoDup l -> mkset l = l.
Proof. intro H. unfold mkset. rewrite fold_sadd_disjoint; [reflexivity|exact H]. Qed.

Lemma filter_split_length {A} (p : A -> bool) l :
  length l = (length (filter p l) + length (filter (fun x => negb (p x)) l))%nat.
Proof. induction l as [|x l IH]; [reflexivity|]. cbn [filter]. destruct (p x); cbn [negb length]; lia. Qed.

Lemma sdiff_length a b : NoDup a -> NoDup b -> (forall x, In x a -> In x b) ->
  (length (sdiff b a) + length a = length b)%nat.
Proof.
  intros Ha Hb Hi. unfold sdiff. rewrite (filter_split_length (fun x => mem x a) b).
  assert (E : length (filter (fun x => mem x a) b) = length a).
  { apply same_elems_length; [apply NoDup_filter; exact Hb|exact Ha|].
    intro x. rewrite filter_In, mem_In. split; [tauto|]. intro H. split; [apply Hi; exact H|exact H]. }
  rewrite E. lia.
Qed.

Lemma split_by_inter m1 m2 : NoDup m1 ->
  length m1 = (length (sdiff m1 (sinter m1 m2)) + length (sinter m1 m2))%nat.
Proof.
  intro H. pose proof (sdiff_length (sinter m1 m2) m1) as K. rewrite <- K; [lia| |exact H|].
  - unfold sinter. apply NoDup_filter. exact H.
  - intros x Hx. apply In_sinter in Hx. apply Hx.
Qed.

Section Shuffle.
  Variables (s : hg) (e1 e2 : lbl) (sample m1 m2 : list lbl).
  Hypothesis I : Inv s.
  Hypothesis Ne : e1 <> e2.
  Hypothesis G1 : get e1 (h_edge s) = Some m1.
  Hypothesis G2 : get e2 (h_edge s) = Some m2.
  Hypothesis Hs : sample_ok s e1 e2 sample.
  Hypothesis Two : (length (h_edge s) <? 2)%nat = false.

  Let both := sinter m1 m2.
  Let r1 := sdiff m1 both.
  Let r2 := sdiff m2 both.
  Let e1n := mkset sample.
  Let e2n := sdiff (sunion r1 r2) e1n.
  Let A := sinter e1n r2.
  Let B := sinter e2n r1.
  Let sA := moveL e1 e2 A s.
  Let sB := moveL e2 e1 B sA.
  Let t := with_edge (with_edge sB (set e1 (sunion e1n both) (h_edge sB)))
                     (set e2 (sunion e2n both) (h_edge (with_edge sB (set e1 (sunion e1n both) (h_edge sB))))).

  Lemma shuffle_result : st_of (random_edge_shuffle e1 e2 sample s) = t.
  Proof.
    unfold random_edge_shuffle. rewrite Two, G1, G2.
    destruct (lbl_eqb_spec e1 e2) as [E|_]; [contradiction|]. rewrite st_of_ok. reflexivity.
  Qed.

  Lemma E1 : mems s e1 = m1. Proof. unfold mems, getl. rewrite G1. reflexivity. Qed.
  Lemma E2 : mems s e2 = m2. Proof. unfold mems, getl. rewrite G2. reflexivity. Qed.
  Lemma ND1 : NoDup m1. Proof. rewrite <- E1. destruct I as (_ & _ & (_ & V) & _). apply V. Qed.
  Lemma ND2 : NoDup m2. Proof. rewrite <- E2. destruct I as (_ & _ & (_ & V) & _). apply V. Qed.

  Lemma R1 x : In x r1 <-> In x m1 /\ ~ In x m2.
  Proof. unfold r1, both. rewrite In_sdiff, In_sinter. tauto. Qed.
  Lemma R2 x : In x r2 <-> In x m2 /\ ~ In x m1.
  Proof. unfold r2, both. rewrite In_sdiff, In_sinter. tauto. Qed.
  Lemma NDr1 : NoDup r1. Proof. unfold r1, sdiff. apply NoDup_filter. apply ND1. Qed.
  Lemma NDr2 : NoDup r2. Proof. unfold r2, sdiff. apply NoDup_filter. apply ND2. Qed.
  Lemma NDboth : NoDup both. Proof. unfold both, sinter. apply NoDup_filter. apply ND1. Qed.
  Lemma e1n_eq : e1n = sample. Proof. apply mkset_nodup. apply Hs. Qed.
  Lemma sample_in x : In x sample -> In x r1 \/ In x r2.
  Proof.
    intro H. destruct Hs as (_ & Adm & _). specialize (Adm x H). rewrite E1, E2 in Adm.
    destruct Adm as [K|K]; [left; apply R1|right; apply R2]; exact K.
  Qed.
  Lemma len_sample : length sample = length r1.
  Proof. destruct Hs as (_ & _ & L). rewrite E1, E2 in L. exact L. Qed.

  Lemma nodes_nodup : NoDup (sunion r1 r2).
  Proof. apply NoDup_sunion. apply NDr1. Qed.
  Lemma nodes_len : length (sunion r1 r2) = (length r1 + length r2)%nat.
  Proof. apply sunion_disjoint_length; [apply NDr1|apply NDr2|]. intros x H1 H2. apply R1 in H1. apply R2 in H2. tauto. Qed.

  Lemma len_e2n : length e2n = length r2.
  Proof.
    unfold e2n. pose proof (sdiff_length e1n (sunion r1 r2)) as K.
    rewrite e1n_eq in *. rewrite nodes_len, len_sample in K.
    assert (length (sdiff (sunion r1 r2) sample) + length r1 = length r1 + length r2)%nat.
    { apply K; [apply Hs|apply nodes_nodup|]. intros x Hx. apply In_sunion. apply sample_in. exact Hx. }
    lia.
  Qed.

  (* sizes of the two edges *)
  Lemma size_e1 : length (sunion e1n both) = length m1.
  Proof.
    rewrite sunion_disjoint_length.
    - rewrite e1n_eq, len_sample. rewrite (split_by_inter m1 m2 ND1). reflexivity.
    - rewrite e1n_eq. apply Hs.
    - apply NDboth.
    - intros x H1 H2. rewrite e1n_eq in H1. apply sample_in in H1. unfold both in H2. apply In_sinter in H2.
      destruct H1 as [H1|H1]; [apply R1 in H1|apply R2 in H1]; tauto.
  Qed.

  Lemma split_m2 : length m2 = (length r2 + length both)%nat.
  Proof.
    unfold r2. pose proof (sdiff_length both m2) as K. rewrite <- K; [lia|apply NDboth|apply ND2|].
    intros x Hx. unfold both in Hx. apply In_sinter in Hx. apply Hx.
  Qed.

  Lemma size_e2 : length (sunion e2n both) = length m2.
  Proof.
    rewrite sunion_disjoint_length.
    - rewrite len_e2n. symmetry. apply split_m2.
    - unfold e2n, sdiff. apply NoDup_filter. apply nodes_nodup.
    - apply NDboth.
    - intros x H1 H2. unfold e2n in H1. apply In_sdiff in H1. destruct H1 as [H1 _]. apply In_sunion in H1.
      unfold both in H2. apply In_sinter in H2. destruct H1 as [H1|H1]; [apply R1 in H1|apply R2 in H1]; tauto.
  Qed.

  (* the moves on the membership side *)
  Lemma KA n : In n A -> In n (nkeys s).
  Proof.
    intro Hn. unfold A in Hn. apply In_sinter in Hn. destruct Hn as [_ Hn]. apply R2 in Hn. destruct Hn as [Hn _].
    rewrite <- E2 in Hn. destruct I as (W & _). apply W in Hn. eapply getl_nonempty_key. exact Hn.
  Qed.

  Lemma views_A :
    (forall x y, In y (mships sA x) <-> if mem x A then y = e1 \/ (y <> e2 /\ In y (mships s x)) else In y (mships s x)) /\
    (forall x, NoDup (mships sA x)) /\
    h_edge sA = h_edge s /\ h_eattr sA = h_eattr s /\ h_nattr sA = h_nattr s /\ h_uid sA = h_uid s /\
    nkeys sA = nkeys s /\ h_net sA = h_net s.
  Proof.
    destruct (moveL_views e1 e2 A s KA) as (M & N & T1 & T2 & T3 & T4 & T5 & T6).
    split; [exact M|]. split; [apply N; destruct I as (_ & _ & (V & _) & _); exact V|]. repeat split; assumption.
  Qed.

  Lemma KB n : In n B -> In n (nkeys sA).
  Proof.
    intro Hn. destruct views_A as (_ & _ & _ & _ & _ & _ & T5 & _). rewrite T5.
    unfold B in Hn. apply In_sinter in Hn. destruct Hn as [_ Hn]. apply R1 in Hn. destruct Hn as [Hn _].
    rewrite <- E1 in Hn. destruct I as (W & _). apply W in Hn. eapply getl_nonempty_key. exact Hn.
  Qed.

  Lemma views_B :
    (forall x y, In y (mships sB x) <-> if mem x B then y = e2 \/ (y <> e1 /\ In y (mships sA x)) else In y (mships sA x)) /\
    (forall x, NoDup (mships sB x)) /\
    h_edge sB = h_edge s /\ h_eattr sB = h_eattr s /\ h_nattr sB = h_nattr s /\ h_uid sB = h_uid s /\
    nkeys sB = nkeys s /\ h_net sB = h_net s.
  Proof.
    destruct views_A as (MA & NA & TA1 & TA2 & TA3 & TA4 & TA5 & TA6).
    destruct (moveL_views e2 e1 B sA KB) as (M & N & T1 & T2 & T3 & T4 & T5 & T6).
    split; [exact M|]. split; [apply N; exact NA|].
    split; [exact (eq_trans T1 TA1)|]. split; [exact (eq_trans T2 TA2)|]. split; [exact (eq_trans T3 TA3)|].
    split; [exact (eq_trans T4 TA4)|]. split; [exact (eq_trans T5 TA5)|exact (eq_trans T6 TA6)].
  Qed.

  Lemma A_B_disjoint x : In x A -> In x B -> False.
  Proof.
    unfold A, B. rewrite !In_sinter. intros [_ H2] [_ H1]. apply R1 in H1. apply R2 in H2. tauto.
  Qed.

  (* every node keeps its degree *)
  Lemma degree_kept x : length (mships t x) = length (mships s x).
  Proof.
    destruct views_A as (MA & NA & _). destruct views_B as (MB & NB & _).
    change (mships t x) with (mships sB x).
    destruct I as (W & _ & (V & _) & _).
    destruct (mem x B) eqn:EB.
    - (* moved from e1 to e2 *)
      apply mem_In in EB. assert (EA : mem x A = false) by (apply mem_nIn; intro H; exact (A_B_disjoint x H EB)).
      assert (Hx1 : In x m1 /\ ~ In x m2) by (unfold B in EB; apply In_sinter in EB; apply R1; apply EB).
      assert (H1 : In e1 (mships s x)) by (apply W; rewrite E1; apply Hx1).
      assert (H2 : ~ In e2 (mships s x)) by (intro H; apply W in H; rewrite E2 in H; apply Hx1; exact H).
      rewrite <- (length_sremove e1 (mships s x) (V x) H1).
      apply (same_elems_length (mships sB x) (e2 :: sremove e1 (mships s x))); [apply NB| |].
      + constructor; [rewrite In_sremove; tauto|apply NoDup_sremove; apply V].
      + intro y. rewrite (MB x y). apply mem_In in EB. rewrite EB. rewrite (MA x y), EA. cbn [In]. rewrite In_sremove.
        split; [intros [->|[K1 K2]]; [left; reflexivity|right; split; assumption]|].
        intros [<-|[K1 K2]]; [left; reflexivity|right; split; assumption].
    - destruct (mem x A) eqn:EA.
      + (* moved from e2 to e1 *)
        apply mem_In in EA.
        assert (Hx2 : In x m2 /\ ~ In x m1) by (unfold A in EA; apply In_sinter in EA; apply R2; apply EA).
        assert (H2 : In e2 (mships s x)) by (apply W; rewrite E2; apply Hx2).
        assert (H1 : ~ In e1 (mships s x)) by (intro H; apply W in H; rewrite E1 in H; apply Hx2; exact H).
        rewrite <- (length_sremove e2 (mships s x) (V x) H2).
        apply (same_elems_length (mships sB x) (e1 :: sremove e2 (mships s x))); [apply NB| |].
        * constructor; [rewrite In_sremove; tauto|apply NoDup_sremove; apply V].
        * intro y. rewrite (MB x y), EB, (MA x y). apply mem_In in EA. rewrite EA. cbn [In]. rewrite In_sremove.
          split; [intros [->|[K1 K2]]; [left; reflexivity|right; split; assumption]|].
          intros [<-|[K1 K2]]; [left; reflexivity|right; split; assumption].
      + apply same_elems_length; [apply NB|apply V|]. intro y. rewrite (MB x y), EB, (MA x y), EA. reflexivity.
  Qed.

  Lemma mems_t y : mems t y = if lbl_eqb y e2 then sunion e2n both else if lbl_eqb y e1 then sunion e1n both else mems s y.
  Proof.
    destruct views_B as (_ & _ & TB1 & _). unfold t, mems. cbn [h_edge with_edge]. rewrite !getl_set, TB1. reflexivity.
  Qed.

  (* the statement of C05 for the shuffle *)
  Theorem shuffle_preserves :
    let t' := st_of (random_edge_shuffle e1 e2 sample s) in
    nkeys t' = nkeys s /\ ekeys t' = ekeys s /\ h_nattr t' = h_nattr s /\ h_eattr t' = h_eattr s /\
    h_net t' = h_net s /\ h_uid t' = h_uid s /\
    (forall n, length (mships t' n) = length (mships s n)) /\
    (forall e, length (mems t' e) = length (mems s e)) /\
    (forall e, e <> e1 -> e <> e2 -> mems t' e = mems s e) /\
    (forall x, In x (mems t' e1) \/ In x (mems t' e2) <-> In x (mems s e1) \/ In x (mems s e2)) /\
    (forall x, In x (mems s e1) -> In x (mems s e2) -> In x (mems t' e1) /\ In x (mems t' e2)).
  Proof.
    cbv zeta. rewrite shuffle_result.
    destruct views_B as (_ & _ & TB1 & TB2 & TB3 & TB4 & TB5 & TB6).
    assert (Ke1 : In e1 (keys (h_edge s))) by (eapply get_Some_In; exact G1).
    assert (Ke2 : In e2 (keys (h_edge s))) by (eapply get_Some_In; exact G2).
    split; [exact TB5|]. split.
    { unfold ekeys, t. cbn [h_edge with_edge]. rewrite TB1.
      rewrite keys_set_in; [apply keys_set_in; exact Ke1|]. rewrite keys_set_in by exact Ke1. exact Ke2. }
    split; [exact TB3|]. split; [exact TB2|]. split; [exact TB6|]. split; [exact TB4|].
    split; [exact degree_kept|].
    split.
    { intro e. rewrite mems_t. destruct (lbl_eqb_spec e e2) as [->|N2]; [rewrite size_e2, E2; reflexivity|].
      destruct (lbl_eqb_spec e e1) as [->|N1]; [rewrite size_e1, E1; reflexivity|reflexivity]. }
    split.
    { intros e N1 N2. rewrite mems_t. destruct (lbl_eqb_spec e e2); [contradiction|]. destruct (lbl_eqb_spec e e1); [contradiction|reflexivity]. }
    assert (M1 : mems t e1 = sunion e1n both).
    { rewrite mems_t. destruct (lbl_eqb_spec e1 e2); [contradiction|]. rewrite lbl_eqb_refl. reflexivity. }
    assert (M2 : mems t e2 = sunion e2n both) by (rewrite mems_t, lbl_eqb_refl; reflexivity).
    assert (Hb : forall x, In x both <-> In x m1 /\ In x m2) by (intro x; unfold both; apply In_sinter).
    assert (He2n : forall x, In x e2n <-> (In x r1 \/ In x r2) /\ ~ In x sample).
    { intro x. unfold e2n. rewrite In_sdiff, In_sunion, e1n_eq. reflexivity. }
    split.
    - intro x. rewrite M1, M2, !In_sunion, e1n_eq, He2n, Hb, E1, E2.
      pose proof (sample_in x) as Si. pose proof (R1 x) as R1x. pose proof (R2 x) as R2x.
      destruct (in_dec lbl_eq_dec x sample) as [Hi|Hn]; destruct (in_dec lbl_eq_dec x m1); destruct (in_dec lbl_eq_dec x m2); tauto.
    - intros x H1 H2. rewrite E1 in H1. rewrite E2 in H2. rewrite M1, M2, !In_sunion, Hb. tauto.
  Qed.
End Shuffle.
