(* itertools.combinations as `combs`: soundness and completeness (shared by C03, C13, C15, C16, C19). *)
From Coq Require Import List Bool Arith Lia.
From XV Require Import Base.Label Base.LSet.
Import ListNotations.

Lemma combs_0 {A} (l : list A) : combs l 0 = [[]].
Proof. destruct l; reflexivity. Qed.

Lemma combs_sound {A} (l : list A) : forall k c, In c (combs l k) ->
  length c = k /\ (forall x, In x c -> In x l).
Proof.
  induction l as [|a l IH]; intros k c H; destruct k as [|k]; simpl in H.
  - destruct H as [<-|[]]. split; [reflexivity|intros x []].
  - destruct H.
  - destruct H as [<-|[]]. split; [reflexivity|intros x []].
  - apply in_app_iff in H. destruct H as [H|H].
    + apply in_map_iff in H. destruct H as (c' & <- & Hc'). destruct (IH k c' Hc') as [L S].
      split; [simpl; lia|]. intros x [->|Hx]; [left; reflexivity|right; apply S; exact Hx].
    + destruct (IH (S k) c H) as [L S]. split; [exact L|]. intros x Hx. right. apply S. exact Hx.
Qed.

Lemma combs_NoDup {A} (l : list A) : NoDup l -> forall k c, In c (combs l k) -> NoDup c.
Proof.
  induction 1 as [|a l Ha Hl IH]; intros k c H; destruct k as [|k]; simpl in H.
  - destruct H as [<-|[]]. constructor.
  - destruct H.
  - destruct H as [<-|[]]. constructor.
  - apply in_app_iff in H. destruct H as [H|H].
    + apply in_map_iff in H. destruct H as (c' & <- & Hc'). constructor.
      * intro Hi. apply Ha. apply (proj2 (combs_sound l k c' Hc')). exact Hi.
      * apply (IH k). exact Hc'.
    + apply (IH (S k)). exact H.
Qed.

(* every duplicate-free list f drawn from l is, as a set, one of the |f|-combinations of l
   (l may contain repetitions) *)
Lemma combs_complete (l : list lbl) : forall f,
  NoDup f -> (forall x, In x f -> In x l) ->
  exists c, In c (combs l (length f)) /\ seteq c f.
Proof.
  induction l as [|a l IH]; intros f ND Hs.
  - destruct f as [|x f]; [exists []; simpl; split; [left; reflexivity|intro; tauto]|].
    exfalso. apply (Hs x). left; reflexivity.
  - destruct (mem a f) eqn:M.
    + apply mem_In in M.
      assert (ND' : NoDup (sremove a f)) by (apply NoDup_sremove; exact ND).
      assert (Hs' : forall x, In x (sremove a f) -> In x l).
      { intros x Hx. apply In_sremove in Hx. destruct Hx as [N Hx].
        destruct (Hs x Hx) as [E|E]; [congruence|exact E]. }
      destruct (IH (sremove a f) ND' Hs') as (c & Hc & Sc).
      pose proof (length_sremove a f ND M) as L.
      exists (a :: c). split.
      * rewrite <- L. simpl. apply in_app_iff. left. apply in_map. exact Hc.
      * intro x. simpl. rewrite (Sc x), In_sremove.
        destruct (lbl_eqb_spec x a) as [->|N]; [tauto|]. split; [intros [E|[_ H]]; [congruence|exact H]|].
        intro H. right. split; [exact N|exact H].
    + apply mem_nIn in M.
      assert (Hs' : forall x, In x f -> In x l).
      { intros x Hx. destruct (Hs x Hx) as [E|E]; [subst; contradiction|exact E]. }
      destruct (IH f ND Hs') as (c & Hc & Sc).
      exists c. split; [|exact Sc].
      destruct f as [|y f']; [rewrite combs_0 in *; exact Hc|].
      simpl length in *. simpl. apply in_app_iff. right. exact Hc.
Qed.
