(* C15: on downward-closed hypergraphs the mean face edit distance is 0 and the simplicial fraction is 1
   (the edit distance itself is EditDistance.sed_closed_zero). *)
From Coq Require Import String ZArith QArith List Bool Lia.
From XV Require Import Base.Label Base.LSet Base.ODict Base.Attr Base.Outcome Model.Hypergraph Model.Stats Model.Hodge
  Model.Simpliciality Proofs.Combs Proofs.SortProofs Proofs.HodgeProofs Proofs.TrieProofs Proofs.QuotCount
  Proofs.HgViews Proofs.HgInv Proofs.EditDistance.
Import ListNotations.

Lemma filter_all_id {A} (p : A -> bool) l : (forall x, In x l -> p x = true) -> filter p l = l.
Proof.
  induction l as [|a l IH]; intro H; [reflexivity|]. cbn [filter]. rewrite (H a (or_introl eq_refl)). f_equal.
  apply IH. intros x Hx. apply H. right. exact Hx.
Qed.

Lemma zero_div p x : ((0 # p) / x == 0)%Q.
Proof. unfold Qdiv, Qmult, Qeq. cbn [Qnum Qden]. lia. Qed.

(* every node set of at least k nodes inside an edge of at least k' nodes is an edge *)
Definition closed_above (s : hg) (k k' : nat) : Prop :=
  forall i e x, In (i, e) (h_edge s) -> (k' <= length e)%nat -> NoDup x -> (forall a, In a x -> In a e) -> (k <= length x)%nat ->
                exists j w, In (j, w) (h_edge s) /\ seteq x w.

Section Closed.
  Variable s : hg.
  Variable k : nat.
  Variable excl : bool.
  Hypothesis I : Inv s.
  Hypothesis Ord : labels_orderable s.
  Hypothesis Cl : closed_above s k (k + b2n excl).

  Lemma vals_NoDup w : In w (vals (h_edge s)) -> NoDup w.
  Proof.
    unfold vals. intro H. apply in_map_iff in H. destruct H as ([i w'] & <- & H). apply (edge_members_NoDup s i w' I H).
  Qed.

  (* every candidate edge is a simplex *)
  Lemma closed_is_simplex i e : In (i, e) (h_edge s) -> (k + b2n excl <= length e)%nat ->
    is_simplex (build_trie (vals (h_edge s))) e k = true.
  Proof.
    intros He Le. unfold is_simplex. apply forallb_forall. intros x Hx.
    apply In_subsets_between in Hx. destruct Hx as (r & Hr & Hc).
    pose proof (edge_members_NoDup s i e I He) as Ne.
    destruct (combs_sound e r x Hc) as [Lx Sx].
    assert (Nx : NoDup x) by (apply (combs_NoDup e Ne r x Hc)).
    assert (Ox : orderable_all x) by (intros a Ha; apply (Ord i e He); apply Sx; exact Ha).
    rewrite (tsearch_set (vals (h_edge s)) x Nx Ox vals_NoDup). apply existsb_exists.
    destruct (Cl i e x He Le Nx Sx ltac:(lia)) as (j & w & Hw & Eq).
    exists w. split; [|apply seteqb_spec; exact Eq]. unfold vals. apply in_map_iff. exists (j, w). split; [reflexivity|exact Hw].
  Qed.

  Theorem fraction_closed_one q : simplicial_fraction k excl s = Some q -> (q == 1)%Q.
  Proof.
    unfold simplicial_fraction. set (t := build_trie (vals (h_edge s))).
    set (cand := map snd (edges_geq s (k + b2n excl))).
    assert (All : filter (fun e => is_simplex t e k) cand = cand).
    { apply filter_all_id. intros e He. unfold cand, edges_geq in He.
      apply in_map_iff in He. destruct He as ([i e'] & <- & He). apply filter_In in He. destruct He as [H1 H2].
      apply Nat.leb_le in H2. apply (closed_is_simplex i e' H1 H2). }
    rewrite All. destruct cand as [|c0 cs] eqn:E; [discriminate|]. intro H.
    assert (Eq := f_equal (fun o => match o with Some x => x | None => 0%Q end) H). cbv beta iota in Eq. rewrite <- Eq.
    unfold Qeq. cbn [Qnum Qden]. set (n := length (c0 :: cs)). assert (Hn : (0 < n)%nat) by (unfold n; cbn [length]; lia).
    rewrite <- (positive_nat_Z (Pos.of_nat n)), Nat2Pos.id by lia. lia.
  Qed.
End Closed.

Section ClosedMax.
  Variable s : hg.
  Variable k : nat.
  Variable excl : bool.
  Hypothesis k_pos : (1 <= k)%nat.
  Hypothesis I : Inv s.
  Hypothesis Ord : labels_orderable s.
  Let ws := map snd (edges_geq s k).
  Let mx := map snd (max_edges s (k + b2n excl)).
  (* closure below the maximal edges, as in sed_closed_zero *)
  Hypothesis Cl : forall e x, In e mx -> NoDup x -> (forall a, In a x -> In a e) -> (k <= length x)%nat ->
                              exists i w, In (i, w) (h_edge s) /\ seteq x w.

  Lemma closed_no_missing e : In e mx -> missing_subfaces (build_trie ws) e k = [].
  Proof.
    intro He. destruct (missing_subfaces (build_trie ws) e k) as [|x r] eqn:E; [reflexivity|]. exfalso.
    destruct (mx_good s k excl k_pos I Ord e He) as (Ne & Oe & Te).
    assert (Hx : In x (missing_subfaces (build_trie ws) e k)) by (rewrite E; left; reflexivity).
    assert (Nx : NoDup x) by (apply (M_elems_NoDup ws k e x Ne Hx)).
    assert (Mx : memR (list lbl) seteqb x (flat_map (fun e => missing_subfaces (build_trie ws) e k) mx) = true).
    { apply memR_spec. exists x. split; [apply in_flat_map; exists e; split; assumption|apply seteqb_refl]. }
    apply (missing_set_spec s k excl k_pos I Ord x Nx) in Mx. destruct Mx as (e' & He' & Sx & L & Hno).
    apply Hno. apply (Cl e' x He' Nx Sx L).
  Qed.

  Theorem mfed_closed_zero nm q : mean_face_edit_distance k excl nm s = Some q -> (q == 0)%Q.
  Proof.
    unfold mean_face_edit_distance. fold ws. fold mx. intro H.
    assert (Eq := f_equal (fun o => match o with Some x => x | None => 0%Q end) H). cbv beta iota in Eq. rewrite <- Eq. clear H Eq.
    assert (G : forall l acc, (forall e, In e l -> In e mx) -> (acc == 0)%Q ->
      (fold_left (fun acc e =>
         if (k <=? length e)%nat then
           (acc + (if nm && negb (max_number_of_subfaces k (length e) =? 0)%Z
                   then Z.of_nat (length (missing_subfaces (build_trie ws) e k)) # Z.to_pos (max_number_of_subfaces k (length e))
                   else Z.of_nat (length (missing_subfaces (build_trie ws) e k)) # 1) / (Z.of_nat (length mx) # 1))%Q
         else acc) l acc == 0)%Q).
    { induction l as [|e l IH]; intros acc Hl Ha; cbn [fold_left]; [exact Ha|]. apply IH; [intros e' He'; apply Hl; right; exact He'|].
      destruct (k <=? length e)%nat; [|exact Ha]. rewrite (closed_no_missing e (Hl e (or_introl eq_refl))). cbn [length Z.of_nat].
      destruct (nm && negb (max_number_of_subfaces k (length e) =? 0)%Z); rewrite zero_div, Ha; reflexivity. }
    apply G; [auto|reflexivity].
  Qed.
End ClosedMax.
