(* Converters of xgi/convert (C10) and the dict layer of xgi/readwrite (C11) on the Hypergraph tables.
   to_* read the tables; from_* are the calls the implementation makes on an empty hypergraph. *)
From Coq Require Import String ZArith List Bool Lia.
From XV Require Import Base.Label Base.LSet Base.ODict Base.Attr Base.Outcome Model.Hypergraph Model.HgCheck
     Model.Hodge Model.Matrix Model.Graph Model.Copy Model.DiHypergraph.
Import ListNotations.
Open Scope Z_scope.

(* ---------- hyperedge list / dict ---------- *)
Definition to_hyperedge_list (s : hg) : list (list lbl) := map snd (h_edge s).
Definition to_hyperedge_dict (s : hg) : list (lbl * list lbl) := h_edge s.
Definition from_hyperedge_list (l : list (list lbl)) : res := add_edges_from (EB1 l) [] hg_empty.
(* add_edges_from((members, uid) for uid, members in d.items()) *)
Definition from_hyperedge_dict (d : list (lbl * list lbl)) : res :=
  add_edges_from (EB2 (map (fun kv => (snd kv, fst kv)) d)) [] hg_empty.

(* ---------- bipartite edge list / two-column dataframe: (node, edge) pairs ---------- *)
Definition to_bipartite_edgelist (s : hg) : list (lbl * lbl) :=
  flat_map (fun kv => map (fun n => (n, fst kv)) (snd kv)) (h_edge s).
Definition to_dataframe (s : hg) : list (lbl * lbl) :=
  flat_map (fun kv => map (fun e => (fst kv, e)) (snd kv)) (h_node s).
Definition add_pairs (l : list (lbl * lbl)) (s : hg) : res :=
  loop (fun s ne => add_node_to_edge (snd ne) (fst ne) s) l s.
Definition from_bipartite_edgelist (l : list (lbl * lbl)) : res :=
  match l with
  | [] => raise hg_empty IndexError            (* edges[0] *)
  | _ => add_pairs l hg_empty
  end.
Definition from_dataframe (l : list (lbl * lbl)) : res := add_pairs l hg_empty.

(* ---------- incidence matrix ---------- *)
(* positions of the ones, row-major, translated by the label lists *)
Definition matrix_pairs (Im : list (list Z)) (nl el : list lbl) : list (lbl * lbl) :=
  flat_map (fun ir => flat_map (fun jx => if snd jx =? 0 then [] else [(nth (fst ir) nl LNone, nth (fst jx) el LNone)])
                               (combine (seq 0 (length (snd ir))) (snd ir)))
           (combine (seq 0 (length Im)) Im).
Definition int_labels (n : nat) : list lbl := map (fun i => LInt (Z.of_nat i)) (seq 0 n).
Definition from_incidence_matrix (Im : list (list Z)) (labels : option (list lbl * list lbl)) : res :=
  let n := length Im in
  let m := ncols Im in
  match labels with
  | Some (nl, el) =>
      if negb (Nat.eqb (length nl) n) || negb (Nat.eqb (length el) m) then raise hg_empty XGIError
      else add_pairs (matrix_pairs Im nl el) hg_empty
  | None => add_pairs (matrix_pairs Im (int_labels n) (int_labels m)) hg_empty
  end.

(* ---------- bipartite graph: node i <-> i, edge j <-> n + j ---------- *)
(* from_bipartite_graph(to_bipartite_graph(H)): the vertices 0..n-1 become nodes, every link
   (i, n + j) an incidence *)
Definition from_bipartite_graph (n : nat) (links : list (nat * nat)) : res :=
  bind (add_nodes_from (map (fun x => (x, None)) (int_labels n)) [] hg_empty)
       (add_pairs (map (fun ij => (LInt (Z.of_nat (fst ij)), LInt (Z.of_nat (snd ij)))) links)).

(* ---------- HIF dict ---------- *)
Record hif : Type := mkHif {
  hf_net : attrs;
  hf_nodes : list (lbl * attrs);       (* records for isolated nodes and nodes with attributes *)
  hf_edges : list (lbl * attrs);       (* records for empty edges and edges with attributes *)
  hf_inc : list (lbl * lbl) }.         (* (node, edge) *)

Definition is_nil_attrs (a : attrs) : bool := match a with [] => true | _ => false end.
Definition to_hif (s : hg) : hif :=
  mkHif (h_net s)
        (flat_map (fun kv => let a := geta (fst kv) (h_nattr s) in
                             match snd kv, is_nil_attrs a with
                             | _ :: _, true => []
                             | _, _ => [(fst kv, a)]
                             end) (h_node s))
        (flat_map (fun kv => let a := geta (fst kv) (h_eattr s) in
                             match snd kv, is_nil_attrs a with
                             | _ :: _, true => []
                             | _, _ => [(fst kv, a)]
                             end) (h_edge s))
        (to_bipartite_edgelist s).

Definition from_hif (h : hif) : res :=
  bind (add_pairs (hf_inc h) (with_net hg_empty (hf_net h)))
  (fun s1 => bind (loop (fun s na => if has (fst na) (h_node s) then set_node_attrs_dict [na] s
                                     else add_node (fst na) (snd na) s) (hf_nodes h) s1)
  (fun s2 => loop (fun s ea => if has (fst ea) (h_edge s) then set_edge_attrs_dict [ea] s
                               else add_edge [] (Some (fst ea)) (snd ea) s) (hf_edges h) s2)).

(* ---------- class to class ---------- *)
(* Hypergraph(D): nodes with attributes, every edge with the union of tail and head, attributes, net *)
Definition di_members (d : dhg) (e : lbl) : list lbl := sunion (tail d e) (head d e).
Definition hg_of_di (d : dhg) : res :=
  bind (add_nodes_from (node_items (ts d)) [] hg_empty)
  (fun s1 => bind (add_edges_from (EB4 (map (fun e => (di_members d e, e, geta e (h_eattr (ts d)))) (keys (h_edge (ts d))))) [] s1)
  (fun s2 => ok (with_net s2 (h_net (ts d))))).

(* ---------- correspondence ---------- *)
Inductive crepr : Type :=
| RpList (l : list (list lbl))
| RpDict (d : list (lbl * list lbl))
| RpPairs (l : list (lbl * lbl))
| RpMatrix (m : list (list Z)) (nl el : list lbl)
| RpHif (h : hif).

Inductive cto := ToList | ToDict | ToBip | ToFrame | ToMatrix | ToHif.
Definition to_repr (k : cto) (s : hg) : crepr :=
  match k with
  | ToList => RpList (to_hyperedge_list s)
  | ToDict => RpDict (to_hyperedge_dict s)
  | ToBip => RpPairs (to_bipartite_edgelist s)
  | ToFrame => RpPairs (to_dataframe s)
  | ToMatrix => RpMatrix (incidence s None) (keys (h_node s)) (keys (h_edge s))
  | ToHif => RpHif (to_hif s)
  end.

Inductive cfrom : Type :=
| FromList (l : list (list lbl))
| FromDict (d : list (lbl * list lbl))
| FromBip (l : list (lbl * lbl))
| FromFrame (l : list (lbl * lbl))
| FromMatrix (m : list (list Z)) (labels : option (list lbl * list lbl))
| FromBipGraph (n : nat) (links : list (nat * nat))
| FromHif (h : hif)
| FromEdgeLines (l : list (list lbl)).      (* parse_edgelist: one add_edge per line *)
Definition from_edge_lines (l : list (list lbl)) : res := loop (fun s m => add_edge m None [] s) l hg_empty.
Definition from_repr (f : cfrom) : res :=
  match f with
  | FromList l => from_hyperedge_list l
  | FromDict d => from_hyperedge_dict d
  | FromBip l => from_bipartite_edgelist l
  | FromFrame l => from_dataframe l
  | FromMatrix m lb => from_incidence_matrix m lb
  | FromBipGraph n links => from_bipartite_graph n links
  | FromHif h => from_hif h
  | FromEdgeLines l => from_edge_lines l
  end.

(* representation equality: member sets as sets, record lists as sets, pairs in order for the
   ordered representations *)
Fixpoint lists_seteq (a b : list (list lbl)) : bool :=
  match a, b with [], [] => true | x :: a', y :: b' => set_eqb' x y && lists_seteq a' b' | _, _ => false end.
Fixpoint pairs_eqb (a b : list (lbl * lbl)) : bool :=
  match a, b with
  | [], [] => true
  | x :: a', y :: b' => pair_eqb x y && pairs_eqb a' b'
  | _, _ => false
  end.
Definition rec_sub (a b : list (lbl * attrs)) : bool :=
  forallb (fun x => existsb (fun y => lbl_eqb (fst x) (fst y) && attrs_eqb (snd x) (snd y)) b) a.
Definition crepr_eqb (a b : crepr) : bool :=
  match a, b with
  | RpList x, RpList y => lists_seteq x y
  | RpDict x, RpDict y => table_match x y
  | RpPairs x, RpPairs y => links_sub x y && links_sub y x && Nat.eqb (length x) (length y)
  | RpMatrix m nl el, RpMatrix m' nl' el' => mat_eqb m m' && lbls_eqb nl nl' && lbls_eqb el el'
  | RpHif h, RpHif h' =>
      attrs_eqb (hf_net h) (hf_net h') &&
      rec_sub (hf_nodes h) (hf_nodes h') && rec_sub (hf_nodes h') (hf_nodes h) && Nat.eqb (length (hf_nodes h)) (length (hf_nodes h')) &&
      rec_sub (hf_edges h) (hf_edges h') && rec_sub (hf_edges h') (hf_edges h) && Nat.eqb (length (hf_edges h)) (length (hf_edges h')) &&
      links_sub (hf_inc h) (hf_inc h') && links_sub (hf_inc h') (hf_inc h) && Nat.eqb (length (hf_inc h)) (length (hf_inc h'))
  | _, _ => false
  end.

Definition full_proj : proj := mkProj true true true false.

Inductive ccase : Type :=
| CTo (k : cto) (r : crepr)
| CFrom (f : cfrom) (o : obs)
| CClassDi (dops : list dop) (o : obs).        (* Hypergraph(D) for the directed history *)

Definition ccase_ok (s : hg) (c : ccase) : bool :=
  match c with
  | CTo k r => crepr_eqb (to_repr k s) r
  | CFrom f o => obs_match full_proj (from_repr f) o
  | CClassDi dops o => obs_match (mkProj true true false false) (hg_of_di (drun dops dhg_empty)) o
  end.

Fixpoint c_first_bad (s : hg) (cs : list ccase) (j : nat) : option nat :=
  match cs with
  | [] => None
  | c :: r => if ccase_ok s c then c_first_bad s r (S j) else Some j
  end.
Fixpoint convert_bad_from (cases : list (list op * list ccase)) (i : nat) : list (nat * nat) :=
  match cases with
  | [] => []
  | (ops, cs) :: r => match c_first_bad (run ops hg_empty) cs O with
                      | Some j => (i, j) :: convert_bad_from r (S i)
                      | None => convert_bad_from r (S i)
                      end
  end.
Definition convert_bad cases := convert_bad_from cases O.
