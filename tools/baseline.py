#!/usr/bin/env python3
"""Run /repo's pinned test suite (guard off) and compare with BASELINE.json's stable_pass list."""
import json, os, subprocess, sys, tempfile, xml.etree.ElementTree as ET
base = json.load(open('/root/.vp/BASELINE.json'))
fd, junit = tempfile.mkstemp(suffix='.xml'); os.close(fd)
env = dict(os.environ); env.pop('XGI_VERIF', None)
cmd = base['cmd'].replace('<file>', junit)
subprocess.run(cmd, shell=True, env=env, stdout=subprocess.DEVNULL, stderr=subprocess.DEVNULL)
passed = set()
for tc in ET.parse(junit).getroot().iter('testcase'):
    ok = not any(ch.tag in ('failure', 'error', 'skipped') for ch in tc)
    if ok:
        passed.add(f"{tc.get('classname')}::{tc.get('name')}")
os.unlink(junit)
missing = [t for t in base['stable_pass'] if t not in passed]
print(f"stable_pass={len(base['stable_pass'])} passed_now={len(passed)} missing={len(missing)}")
for t in missing[:40]:
    print("  MISSING", t)
sys.exit(1 if missing else 0)
