"""Fail-closed translator of xgi/utils/utilities.py::update_uid_counter into Gallina (coq/Gen/UidCounter.v).

The function decides where the automatic edge ids resume after a caller-supplied id (C04's central
mechanism).  It is regenerated from the working tree on every run and `Props/C04.v` proves that the model's
`bump_uid` computes exactly this function, so the C04 theorems speak about what the source says now.

Accepted shape (anything else fails the translation, and with it the C04 proof stage):

    def update_uid_counter(H, idx):
        [docstring]
        uid = next(H._edge_uid)
        if <cond>: start = <int-expr>      # comments are ignored by the parser
        else:      start = <int-expr>
        H._edge_uid = count(start=start)          (or count(start))

  <cond>     ::= <cond> and <cond> | <cond> or <cond> | not <cond> | isinstance(idx, str|tuple|(str, tuple))
               | float(idx).is_integer() | <int-expr> (<=|<|>=|>|==|!=) <int-expr>
  <int-expr> ::= uid | idx | int(idx) | <integer literal> | <int-expr> (+|-) <int-expr>

Semantics given to the label universe of the model: `idx` in a numeric position and `int(idx)` are the integer of
an `LInt` (0 for the other kinds, which the isinstance tests exclude first), `float(idx).is_integer()` is true of
an `LInt` (ids that are whole floats / numpy integers are the same dict keys, see hgsim.PRESENT)."""
import ast, os
from . import common as C

GEN = os.path.join(C.COQ, "Gen")


class TranslationError(Exception):
    pass


def _int_expr(e):
    if isinstance(e, ast.Name) and e.id == "uid":
        return "uid"
    if isinstance(e, ast.Name) and e.id == "idx":
        return "(num idx)"
    if isinstance(e, ast.Call) and isinstance(e.func, ast.Name) and e.func.id == "int" and len(e.args) == 1 \
            and isinstance(e.args[0], ast.Name) and e.args[0].id == "idx" and not e.keywords:
        return "(num idx)"
    if isinstance(e, ast.Constant) and isinstance(e.value, int) and not isinstance(e.value, bool):
        return f"({e.value})" if e.value < 0 else f"{e.value}"
    if isinstance(e, ast.BinOp) and isinstance(e.op, (ast.Add, ast.Sub)):
        return f"({_int_expr(e.left)} {'+' if isinstance(e.op, ast.Add) else '-'} {_int_expr(e.right)})"
    raise TranslationError(f"integer expression not understood: {ast.unparse(e)}")


_CMP = {ast.LtE: "Z.leb", ast.Lt: "Z.ltb", ast.GtE: "Z.geb", ast.Gt: "Z.gtb", ast.Eq: "Z.eqb"}


def _cond(e):
    if isinstance(e, ast.BoolOp):
        op = "andb" if isinstance(e.op, ast.And) else "orb"
        parts = [_cond(v) for v in e.values]
        out = parts[-1]
        for p in reversed(parts[:-1]):
            out = f"({op} {p} {out})"
        return out
    if isinstance(e, ast.UnaryOp) and isinstance(e.op, ast.Not):
        return f"(negb {_cond(e.operand)})"
    if isinstance(e, ast.Call) and isinstance(e.func, ast.Name) and e.func.id == "isinstance" and len(e.args) == 2 \
            and isinstance(e.args[0], ast.Name) and e.args[0].id == "idx":
        t = e.args[1]
        kinds = [t] if isinstance(t, ast.Name) else list(t.elts) if isinstance(t, ast.Tuple) else None
        if kinds is None or not all(isinstance(k, ast.Name) and k.id in ("str", "tuple") for k in kinds):
            raise TranslationError(f"isinstance test not understood: {ast.unparse(e)}")
        tests = [{"str": "(is_str idx)", "tuple": "(is_tup idx)"}[k.id] for k in kinds]
        out = tests[-1]
        for p in reversed(tests[:-1]):
            out = f"(orb {p} {out})"
        return out
    if isinstance(e, ast.Call) and isinstance(e.func, ast.Attribute) and e.func.attr == "is_integer" and not e.args \
            and isinstance(e.func.value, ast.Call) and isinstance(e.func.value.func, ast.Name) and e.func.value.func.id == "float" \
            and len(e.func.value.args) == 1 and isinstance(e.func.value.args[0], ast.Name) and e.func.value.args[0].id == "idx":
        return "(float_is_integer idx)"
    if isinstance(e, ast.Compare) and len(e.ops) == 1:
        a, b = _int_expr(e.left), _int_expr(e.comparators[0])
        if isinstance(e.ops[0], ast.NotEq):
            return f"(negb (Z.eqb {a} {b}))"
        if type(e.ops[0]) in _CMP:
            return f"({_CMP[type(e.ops[0])]} {a} {b})"
    raise TranslationError(f"condition not understood: {ast.unparse(e)}")


def _assign_start(stmts):
    body = [s for s in stmts if not (isinstance(s, ast.Expr) and isinstance(s.value, ast.Constant))]
    if len(body) == 1 and isinstance(body[0], ast.Assign) and len(body[0].targets) == 1 \
            and isinstance(body[0].targets[0], ast.Name) and body[0].targets[0].id == "start":
        return _int_expr(body[0].value)
    raise TranslationError("branch is not a single `start = <int-expr>`")


def translate():
    path = os.path.join(C.REPO, "xgi", "utils", "utilities.py")
    tree = ast.parse(open(path).read())
    fns = [n for n in tree.body if isinstance(n, ast.FunctionDef) and n.name == "update_uid_counter"]
    if len(fns) != 1:
        raise TranslationError("update_uid_counter not found")
    fn = fns[0]
    if [a.arg for a in fn.args.args] != ["H", "idx"]:
        raise TranslationError("unexpected parameters")
    body = [s for s in fn.body if not (isinstance(s, ast.Expr) and isinstance(s.value, ast.Constant))]
    if len(body) != 3:
        raise TranslationError(f"expected three statements, found {len(body)}")
    s0, s1, s2 = body
    if ast.unparse(s0) != "uid = next(H._edge_uid)":
        raise TranslationError(f"first statement not understood: {ast.unparse(s0)}")
    if ast.unparse(s2) not in ("H._edge_uid = count(start=start)", "H._edge_uid = count(start)"):
        raise TranslationError(f"last statement not understood: {ast.unparse(s2)}")
    if isinstance(s1, ast.If):
        term = f"if {_cond(s1.test)} then {_assign_start(s1.body)} else {_assign_start(s1.orelse)}"
    elif isinstance(s1, ast.Assign) and ast.unparse(s1.targets[0]) == "start" and isinstance(s1.value, ast.IfExp):
        term = f"if {_cond(s1.value.test)} then {_int_expr(s1.value.body)} else {_int_expr(s1.value.orelse)}"
    else:
        raise TranslationError(f"middle statement not understood: {ast.unparse(s1)[:80]}")
    return term


def regenerate():
    term = translate()
    os.makedirs(GEN, exist_ok=True)
    text = ("(* GENERATED by harness/translate_uid.py from xgi/utils/utilities.py::update_uid_counter - do not edit. *)\n"
            "From Coq Require Import ZArith Bool.\n"
            "From XV Require Import Base.Label Model.PySem.\n"
            "Open Scope Z_scope.\n\n"
            "(* the value at which the automatic ids resume, given the caller-supplied id and the current counter *)\n"
            f"Definition src_uid (idx : lbl) (uid : Z) : Z :=\n  {term}.\n")
    p = os.path.join(GEN, "UidCounter.v")
    if not os.path.exists(p) or open(p).read() != text:
        open(p, "w").write(text)
    return term
