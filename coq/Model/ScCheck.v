(* Correspondence support for the SimplicialComplex model (observations are those of HgCheck). *)
From Coq Require Import String ZArith List Bool Lia.
From XV Require Import Base.Label Base.LSet Base.ODict Base.Attr Base.Outcome Model.Hypergraph
  Model.HgCheck Model.SimplicialComplex.
Import ListNotations.
Open Scope Z_scope.

Fixpoint sfirst_mismatch (p : proj) (s : hg) (h : list (sop * obs)) (i : nat) : option nat :=
  match h with
  | [] => None
  | (o, ob) :: h' =>
      let r := sstep s o in
      if obs_match p r ob then sfirst_mismatch p (st_of r) h' (S i) else Some i
  end.

Fixpoint smismatches_from (p : proj) (cases : list (list (sop * obs))) (i : nat) : list (nat * nat) :=
  match cases with
  | [] => []
  | h :: r => match sfirst_mismatch p hg_empty h O with
              | Some j => (i, j) :: smismatches_from p r (S i)
              | None => smismatches_from p r (S i)
              end
  end.
Definition mismatches (p : proj) (cases : list (list (sop * obs))) : list (nat * nat) :=
  smismatches_from p cases O.

Fixpoint strace_from (s : hg) (ops : list sop) : list res :=
  match ops with
  | [] => []
  | o :: r => let x := sstep s o in x :: strace_from (st_of x) r
  end.
Definition trace (ops : list sop) : list res := strace_from hg_empty ops.

(* executable closure / uniqueness / non-emptiness test *)
Definition closed_b (s : hg) : bool :=
  forallb (fun kv => forallb (fun f => has_simplex s f) (subfaces (snd kv))) (h_edge s).
Fixpoint unique_sets (l : list (list lbl)) : bool :=
  match l with [] => true | f :: r => negb (mem_set f r) && unique_sets r end.
Definition sinv_b (s : hg) : bool :=
  wf_b s && closed_b s && unique_sets (vals (h_edge s))
  && forallb (fun kv => match snd kv with [] => false | _ => true end) (h_edge s).
