"""Histories of mutating calls on xgi.Hypergraph: generation, execution on the implementation from
the working tree, observation through the public API, serialisation as Gallina terms."""
import copy, random, warnings
from . import gallina as G
from . import common as C

# ---------------------------------------------------------------------------------------------
# label pools

def make_pool(rng, style):
    if style == "int":
        nodes = list(range(0, 7))
        eids = [0, 1, 2, 3, 5, 8, -1]
    elif style == "str":
        nodes = ["a", "b", "c", "d", "e", "f"]
        eids = ["e0", "e1", "x", "y", "z"]
    elif style == "mixed":
        nodes = [1, 2, 3, "a", "b", 10]
        eids = [0, 2, "e", "f", 7, 4]
    else:  # tuple-heavy ids
        nodes = [0, 1, 2, 3, 4]
        eids = [0, 1, (0, 1), (2,), 3, 6]
    return nodes, eids

ITER_OK = True     # member collections may be presented as tuples / one-shot iterators (common.members)
INTLIKE_OK = True  # explicit integer ids may be presented as numpy integers / whole floats (PRESENT)
STYLES = ["int", "int", "int", "str", "mixed", "tuple"]
ATTR_KEYS = ["color", "w", "name"]
ATTR_VALS = [1, 2, "red", "blue", None, 7]

def rattr(rng, p=0.4):
    if rng.random() > p:
        return {}
    return {k: rng.choice(ATTR_VALS) for k in rng.sample(ATTR_KEYS, rng.randint(1, 2))}

def rmembers(rng, nodes, malformed, lo=0, hi=4):
    k = rng.randint(lo, hi)
    ms = [rng.choice(nodes) for _ in range(k)]
    if malformed and rng.random() < 0.25:
        ms.insert(rng.randrange(len(ms) + 1), None)
    return ms

def fix_first_edge(ms, nodes, allow_empty):
    """The first edge of a format-1 bunch decides the format: keep it clear of the documented
    ambiguity (a str/tuple first element with non-str companions is read as another format)."""
    if ms and isinstance(ms[0], (str, tuple)) and not all(isinstance(x, str) for x in ms):
        ms = [x for x in ms if isinstance(x, str)]
    return ms   # an empty first edge is a plain edge (since the fix recorded under C10)

def has_unhashable_attr(H):
    return any(isinstance(v, (set, list, dict)) for e in H.edges for v in H.edges[e].values())

# ---------------------------------------------------------------------------------------------
# op generation (ops are plain tuples; the first component is the name)

def gen_op(rng, H, nodes, eids, malformed):
    cur_nodes = list(H.nodes)
    cur_edges = list(H.edges)
    def some_node(p_missing=0.15):
        if cur_nodes and rng.random() > p_missing:
            return rng.choice(cur_nodes)
        return rng.choice(nodes + ([None] if malformed else []))
    def some_edge(p_missing=0.15):
        if cur_edges and rng.random() > p_missing:
            return rng.choice(cur_edges)
        return rng.choice(eids + [99])
    r = rng.random()
    kinds = [
        (10, "add_edge"), (9, "add_edges_from"), (3, "add_node"), (3, "add_nodes_from"),
        (4, "remove_node"), (3, "remove_nodes_from"), (4, "remove_edge"), (3, "remove_edges_from"),
        (4, "add_node_to_edge"), (4, "remove_node_from_edge"), (3, "double_edge_swap"),
        (3, "random_edge_shuffle"), (2, "set_node_attrs"), (2, "set_edge_attrs"),
        (4, "merge_duplicate_edges"), (1, "clear"), (1, "clear_edges"), (2, "update"),
        (2, "cleanup"), (1, "relabel"), (1, "lcc"), (2, "add_weighted_edges_from"), (1, "set_net"),
    ]
    tot = sum(w for w, _ in kinds)
    x = rng.random() * tot
    for w, kind in kinds:
        x -= w
        if x <= 0:
            break
    if len(cur_edges) < 3 and rng.random() < 0.5:
        kind = rng.choice(["add_edge", "add_edges_from"])
    def members():
        # duplicates of existing edges are what merge_duplicate_edges / cleanup act on
        if cur_edges and rng.random() < 0.25:
            return list(H.edges.members(rng.choice(cur_edges)))
        return rmembers(rng, nodes, malformed)
    if kind == "add_edge":
        ms = members()
        idx = None
        if rng.random() < 0.45:
            idx = some_edge(0.7) if rng.random() < 0.8 else rng.choice(eids)
        return ("add_edge", ms, idx, rattr(rng))
    if kind == "add_edges_from":
        fmt = rng.choice([1, 1, 2, 3, 4, 5])
        n = rng.randint(0, 3)
        items = []
        for i in range(n):
            ms = members() if rng.random() < 0.3 else rmembers(rng, nodes, malformed and rng.random() < 0.5)
            if fmt == 1:
                if i == 0:
                    ms = fix_first_edge(ms, nodes, malformed)
                items.append(ms)
            elif fmt == 2:
                items.append((ms, some_edge(0.8)))
            elif fmt == 3:
                items.append((ms, rattr(rng, 0.8)))
            elif fmt == 4:
                items.append((ms, some_edge(0.8), rattr(rng, 0.8)))
            else:
                items.append((some_edge(0.8), ms))
        if fmt == 5:
            d = {}
            for k, v in items:
                d[k] = v
            items = list(d.items())
        return ("add_edges_from", fmt, items, rattr(rng, 0.3))
    if kind == "add_weighted_edges_from":
        items = [(rmembers(rng, nodes, False, 1, 3), rng.choice([1, 2, 5])) for _ in range(rng.randint(0, 2))]
        return ("add_weighted_edges_from", items, rng.choice(["weight", "w"]), rattr(rng, 0.2))
    if kind == "add_node":
        return ("add_node", some_node(0.7), rattr(rng))
    if kind == "add_nodes_from":
        items = []
        for _ in range(rng.randint(0, 3)):
            n = some_node(0.7)
            items.append((n, rattr(rng, 0.9)) if rng.random() < 0.4 else (n, None))
        return ("add_nodes_from", items, rattr(rng, 0.3))
    if kind == "remove_node":
        return ("remove_node", some_node(), rng.random() < 0.4, rng.random() < 0.7)
    if kind == "remove_nodes_from":
        return ("remove_nodes_from", [some_node(0.3) for _ in range(rng.randint(0, 3))],
                rng.random() < 0.4, rng.random() < 0.7)
    if kind == "remove_edge":
        return ("remove_edge", some_edge())
    if kind == "remove_edges_from":
        es = [some_edge(0.1) for _ in range(rng.randint(0, 3))]
        return ("remove_edges_from", es)
    if kind == "add_node_to_edge":
        return ("add_node_to_edge", some_edge(0.3), some_node(0.4))
    if kind == "remove_node_from_edge":
        e = some_edge()
        n = some_node()
        if e in H.edges and rng.random() < 0.8:
            ms = list(H.edges.members(e))
            if ms:
                n = rng.choice(ms)
        return ("remove_node_from_edge", e, n, rng.random() < 0.6)
    if kind == "double_edge_swap":
        if len(cur_edges) >= 1 and rng.random() < 0.85:
            e1 = rng.choice(cur_edges); e2 = rng.choice(cur_edges)
            m1 = list(H.edges.members(e1)); m2 = list(H.edges.members(e2))
            if rng.random() < 0.7:
                m1 = [x for x in m1 if x not in m2] or m1
                m2 = [x for x in m2 if x not in H.edges.members(e1)] or m2
            n1 = rng.choice(m1) if m1 and rng.random() < 0.9 else some_node()
            n2 = rng.choice(m2) if m2 and rng.random() < 0.9 else some_node()
            return ("double_edge_swap", n1, n2, e1, e2)
        return ("double_edge_swap", some_node(), some_node(), some_edge(), some_edge())
    if kind == "random_edge_shuffle":
        if len(cur_edges) >= 2 and rng.random() < 0.9:
            e1, e2 = rng.sample(cur_edges, 2) if rng.random() < 0.9 else (cur_edges[0], cur_edges[0])
        else:
            e1, e2 = some_edge(), some_edge()
        return ("random_edge_shuffle", e1, e2, rng.randrange(10 ** 6))
    if kind == "set_node_attrs":
        shape = rng.choice(["named", "scalar", "dict"])
        name = rng.choice(ATTR_KEYS)
        if shape == "named":
            return ("set_node_attrs_named", [(some_node(0.3), rng.choice(ATTR_VALS)) for _ in range(rng.randint(0, 3))], name)
        if shape == "scalar":
            return ("set_node_attrs_scalar", rng.choice([1, "red", 3]), name)
        return ("set_node_attrs_dict", [(some_node(0.3), rattr(rng, 1.0)) for _ in range(rng.randint(0, 3))])
    if kind == "set_edge_attrs":
        shape = rng.choice(["named", "scalar", "dict"])
        name = rng.choice(ATTR_KEYS)
        if shape == "named":
            return ("set_edge_attrs_named", [(some_edge(0.3), rng.choice(ATTR_VALS)) for _ in range(rng.randint(0, 3))], name)
        if shape == "scalar":
            return ("set_edge_attrs_scalar", rng.choice([1, "red", 3]), name)
        return ("set_edge_attrs_dict", [(some_edge(0.3), rattr(rng, 1.0)) for _ in range(rng.randint(0, 3))])
    if kind == "merge_duplicate_edges":
        rn = rng.choice(["first", "first", "tuple", "new"] + (["bogus"] if malformed else []))
        mr = rng.choice(["first", "first", "union", "intersection"] + (["bogus"] if malformed else []))
        if mr in ("union", "intersection") and has_unhashable_attr(H):
            mr = "first"
        mult = rng.choice([None, None, "multiplicity", "m"])
        return ("merge_duplicate_edges", rn, mr, mult)
    if kind == "clear":
        return ("clear", rng.random() < 0.5)
    if kind == "clear_edges":
        return ("clear_edges",)
    if kind == "update":
        fmt = rng.choice([1, 2])
        es = []
        for i in range(rng.randint(0, 2)):
            ms = [m for m in rmembers(rng, nodes, False, 1, 3)]
            if fmt == 1:
                if i == 0:
                    ms = fix_first_edge(ms, nodes, False)
                es.append(ms)
            else:
                es.append((ms, some_edge(0.8)))
        ns = [(some_node(0.7), None) for _ in range(rng.randint(0, 2))]
        return ("update", (fmt, es) if rng.random() < 0.8 else None, ns)
    if kind == "cleanup":
        return ("cleanup",) + tuple(rng.random() < 0.5 for _ in range(5))
    if kind == "relabel":
        return ("relabel", rng.choice(["label", "old"]))
    if kind == "lcc":
        return ("lcc",)
    if kind == "set_net":
        return ("set_net", rng.choice(["name", "k"]), rng.choice([1, "x", None]))
    raise AssertionError(kind)

# ---------------------------------------------------------------------------------------------
# execution on the implementation

class SampleRecorder:
    def __init__(self):
        self.samples = []
    def __enter__(self):
        self.orig = random.sample
        rec = self
        def sample(population, k, **kw):
            r = rec.orig(population, k, **kw)
            rec.samples.append(list(r))
            return r
        random.sample = sample
        return self
    def __exit__(self, *a):
        random.sample = self.orig

# Presentation of explicit integer edge ids.  A numpy integer or a whole float is, as a dict key, the
# same id as the Python int (equal and equal hash), so the model's LInt stands for all of them; when
# PRESENT is a random.Random the implementation is handed the id in one of these types and the
# observation is normalised back, so the correspondence also covers the counter's treatment of
# "integer-like" ids (update_uid_counter).
PRESENT = None

def _pres(i):
    if PRESENT is None or not isinstance(i, int) or isinstance(i, bool):
        return i
    r = PRESENT.random()
    if r < 0.4:
        return i
    import numpy as np
    return np.int64(i) if r < 0.75 else float(i)

def _norm(x):
    if PRESENT is None:
        return x
    import numpy as np
    if isinstance(x, bool):
        return x
    if isinstance(x, np.integer):
        return int(x)
    if isinstance(x, (float, np.floating)) and float(x).is_integer():
        return int(x)
    if isinstance(x, tuple):
        return tuple(_norm(y) for y in x)
    if isinstance(x, list):
        return [_norm(y) for y in x]
    if isinstance(x, (set, frozenset)):
        return type(x)(_norm(y) for y in x)
    if isinstance(x, dict):
        return {k: _norm(v) for k, v in x.items()}
    return x

def bunch_arg(fmt, items):
    if fmt == 1:
        return [C.members(ms) for ms in items]
    if fmt == 2:
        return [(C.members(ms), _pres(i)) for ms, i in items]
    if fmt == 3:
        return [(C.members(ms), dict(a)) for ms, a in items]
    if fmt == 4:
        return [(C.members(ms), _pres(i), dict(a)) for ms, i, a in items]
    return {_pres(i): C.members(ms) for i, ms in items}

def apply_op(H, op):
    """Run one op on the implementation.  Returns (extra, exception name or None, #warnings);
    extra carries what only the run can tell (set iteration order, recorded random sample)."""
    import xgi
    name = op[0]
    extra = None
    exc = None
    with warnings.catch_warnings(record=True) as wl:
        warnings.simplefilter("always")
        try:
            if name == "add_edge":
                _, ms, idx, a = op
                extra = list(set(ms))
                H.add_edge(C.members(ms), idx=_pres(idx), **a) if idx is not None else H.add_edge(C.members(ms), **a)
            elif name == "add_edges_from":
                _, fmt, items, a = op
                H.add_edges_from(bunch_arg(fmt, items), **a)
            elif name == "add_weighted_edges_from":
                _, items, weight, a = op
                H.add_weighted_edges_from([list(ms) + [w] for ms, w in items], weight=weight, **a)
            elif name == "add_node":
                H.add_node(op[1], **op[2])
            elif name == "add_nodes_from":
                _, items, a = op
                H.add_nodes_from([n if d is None else (n, dict(d)) for n, d in items], **a)
            elif name == "remove_node":
                H.remove_node(op[1], strong=op[2], remove_empty=op[3])
            elif name == "remove_nodes_from":
                H.remove_nodes_from(list(op[1]), strong=op[2], remove_empty=op[3])
            elif name == "remove_edge":
                H.remove_edge(op[1])
            elif name == "remove_edges_from":
                H.remove_edges_from(list(op[1]))
            elif name == "add_node_to_edge":
                H.add_node_to_edge(op[1], op[2])
            elif name == "remove_node_from_edge":
                H.remove_node_from_edge(op[1], op[2], remove_empty=op[3])
            elif name == "double_edge_swap":
                H.double_edge_swap(op[1], op[2], op[3], op[4])
            elif name == "random_edge_shuffle":
                random.seed(op[3])
                with SampleRecorder() as rec:
                    try:
                        H.random_edge_shuffle(op[1], op[2])
                    finally:
                        extra = rec.samples[-1] if rec.samples else []
            elif name == "set_node_attrs_named":
                H.set_node_attributes(dict(op[1]), name=op[2])
            elif name == "set_node_attrs_scalar":
                H.set_node_attributes(op[1], name=op[2])
            elif name == "set_node_attrs_dict":
                H.set_node_attributes({k: dict(v) for k, v in op[1]})
            elif name == "set_edge_attrs_named":
                H.set_edge_attributes(dict(op[1]), name=op[2])
            elif name == "set_edge_attrs_scalar":
                H.set_edge_attributes(op[1], name=op[2])
            elif name == "set_edge_attrs_dict":
                H.set_edge_attributes({k: dict(v) for k, v in op[1]})
            elif name == "merge_duplicate_edges":
                H.merge_duplicate_edges(rename=op[1], merge_rule=op[2], multiplicity=op[3])
            elif name == "clear":
                H.clear(remove_net_attr=op[1])
            elif name == "clear_edges":
                H.clear_edges()
            elif name == "update":
                _, eb, ns = op
                H.update(edges=None if eb is None else bunch_arg(eb[0], eb[1]), nodes=[n for n, _ in ns])
            elif name == "cleanup":
                H.cleanup(isolates=op[1], singletons=op[2], multiedges=op[3], connected=op[4],
                          relabel=op[5], in_place=True)
            elif name == "relabel":
                xgi.convert_labels_to_integers(H, label_attribute=op[1], in_place=True)
            elif name == "lcc":
                xgi.largest_connected_hypergraph(H, in_place=True)
            elif name == "set_net":
                H[op[1]] = op[2]
            else:
                raise AssertionError(name)
        except Exception as e:  # noqa: BLE001 - every exception class is an observation
            exc = G.classify_exception(e)
            if PRESENT is not None and exc == "ValueError" and "truth value of an array" in str(e):
                # numpy's way of refusing to order a numpy integer against a tuple (sorted() of mixed ids):
                # the same refusal as Python's TypeError for the plain int the model stands for
                exc = "TypeError"
    nwarn = sum(1 for w in wl if not issubclass(w.category, DeprecationWarning))
    return extra, exc, nwarn

def dedup_named(pairs):
    """dict(pairs) semantics for a list of (key, value): last value wins, first position kept"""
    d = {}
    for k, v in pairs:
        d[k] = v
    return list(d.items())

def op_to_gallina(op, extra):
    name = op[0]
    oattr = lambda d: G.gopt(d, G.attrs)
    def bunch(fmt, items):
        if fmt == 1:
            return "(EB1 " + G.glist([G.lbls(ms) for ms in items]) + ")"
        if fmt == 2:
            return "(EB2 " + G.glist([G.gpair(G.lbls(ms), G.lbl(i)) for ms, i in items]) + ")"
        if fmt == 3:
            return "(EB3 " + G.glist([G.gpair(G.lbls(ms), G.attrs(a)) for ms, a in items]) + ")"
        if fmt == 4:
            return "(EB4 " + G.glist([G.gpair(G.lbls(ms), G.lbl(i), G.attrs(a)) for ms, i, a in items]) + ")"
        return "(EB5 " + G.glist([G.gpair(G.lbl(i), G.lbls(ms)) for i, ms in items]) + ")"
    if name == "add_edge":
        return f"OAddEdge {G.lbls(extra)} {G.gopt(op[2], G.lbl)} {G.attrs(op[3])}"
    if name == "add_edges_from":
        return f"OAddEdgesFrom {bunch(op[1], op[2])} {G.attrs(op[3])}"
    if name == "add_weighted_edges_from":
        items = G.glist([G.gpair(G.lbls(ms), G.aval(w)) for ms, w in op[1]])
        return f"OAddWeightedEdgesFrom {items} {G.gstr(op[2])} {G.attrs(op[3])}"
    if name == "add_node":
        return f"OAddNode {G.lbl(op[1])} {G.attrs(op[2])}"
    if name == "add_nodes_from":
        items = G.glist([G.gpair(G.lbl(n), oattr(d)) for n, d in op[1]])
        return f"OAddNodesFrom {items} {G.attrs(op[2])}"
    if name == "remove_node":
        return f"ORemoveNode {G.lbl(op[1])} {G.gbool(op[2])} {G.gbool(op[3])}"
    if name == "remove_nodes_from":
        return f"ORemoveNodesFrom {G.lbls(op[1])} {G.gbool(op[2])} {G.gbool(op[3])}"
    if name == "remove_edge":
        return f"ORemoveEdge {G.lbl(op[1])}"
    if name == "remove_edges_from":
        return f"ORemoveEdgesFrom {G.lbls(op[1])}"
    if name == "add_node_to_edge":
        return f"OAddNodeToEdge {G.lbl(op[1])} {G.lbl(op[2])}"
    if name == "remove_node_from_edge":
        return f"ORemoveNodeFromEdge {G.lbl(op[1])} {G.lbl(op[2])} {G.gbool(op[3])}"
    if name == "double_edge_swap":
        return "ODoubleEdgeSwap " + " ".join(G.lbl(x) for x in op[1:5])
    if name == "random_edge_shuffle":
        return f"ORandomEdgeShuffle {G.lbl(op[1])} {G.lbl(op[2])} {G.lbls(extra or [])}"
    if name in ("set_node_attrs_named", "set_edge_attrs_named"):
        c = "OSetNodeAttrsNamed" if name.startswith("set_node") else "OSetEdgeAttrsNamed"
        return f"{c} {G.glist([G.gpair(G.lbl(k), G.aval(v)) for k, v in dedup_named(op[1])])} {G.gstr(op[2])}"
    if name in ("set_node_attrs_scalar", "set_edge_attrs_scalar"):
        c = "OSetNodeAttrsScalar" if name.startswith("set_node") else "OSetEdgeAttrsScalar"
        return f"{c} {G.aval(op[1])} {G.gstr(op[2])}"
    if name in ("set_node_attrs_dict", "set_edge_attrs_dict"):
        c = "OSetNodeAttrsDict" if name.startswith("set_node") else "OSetEdgeAttrsDict"
        return f"{c} {G.glist([G.gpair(G.lbl(k), G.attrs(v)) for k, v in dedup_named(op[1])])}"
    if name == "merge_duplicate_edges":
        rn = {"first": "RnFirst", "tuple": "RnTuple", "new": "RnNew"}.get(op[1], "RnInvalid")
        mr = {"first": "MrFirst", "union": "MrUnion", "intersection": "MrIntersection"}.get(op[2], "MrInvalid")
        return f"OMergeDuplicateEdges {rn} {mr} {G.gopt(op[3], G.gstr)}"
    if name == "clear":
        return f"OClear {G.gbool(op[1])}"
    if name == "clear_edges":
        return "OClearEdges"
    if name == "update":
        eb = "None" if op[1] is None else f"(Some {bunch(op[1][0], op[1][1])})"
        ns = G.glist([G.gpair(G.lbl(n), "None") for n, _ in op[2]])
        return f"OUpdate {eb} {ns}"
    if name == "cleanup":
        return "OCleanup " + " ".join(G.gbool(b) for b in op[1:6])
    if name == "relabel":
        return f"ORelabel {G.gstr(op[1])}"
    if name == "lcc":
        return "OLargestCC"
    if name == "set_net":
        return f"OSetNetAttr {G.gstr(op[1])} {G.aval(op[2])}"
    raise AssertionError(name)

# ---------------------------------------------------------------------------------------------
# observation through the public API

def peek_uid(H):
    with warnings.catch_warnings():
        warnings.simplefilter("ignore")
        return next(copy.copy(H._edge_uid))

def observe(H):
    """What the implementation reports.  Any exception while observing is itself an observation
    (a corrupt network) and is recorded under 'broken'."""
    from xgi.exception import IDNotFound
    ob = {"broken": None}
    try:
        nodes = list(H.nodes)
        memb = H.nodes.memberships()
        ob["nodes"] = [(n, _norm(set(memb[n]))) for n in nodes]
        na = []
        for n in nodes:
            try:
                na.append(_norm(dict(H.nodes[n])))
            except IDNotFound:
                na.append(None)
        ob["nattr"] = na
        edges = list(H.edges)
        mem = H.edges.members(dtype=dict)
        ob["edges"] = [(_norm(e), set(mem[e])) for e in edges]
        ea = []
        for e in edges:
            try:
                ea.append(_norm(dict(H.edges[e])))
            except IDNotFound:
                ea.append(None)
        ob["eattr"] = ea
        ob["net"] = _norm(dict(H._net_attr))
        ob["uid"] = peek_uid(H)
        ob["extra_attr_records"] = (sorted(map(repr, set(H._node_attr) - set(H._node))),
                                    sorted(map(repr, set(H._edge_attr) - set(H._edge))))
    except Exception as e:  # noqa: BLE001
        ob["broken"] = f"{type(e).__name__}: {e}"
    return ob

def obs_to_gallina(ob, exc, nwarn):
    oattr = lambda d: G.gopt(d, G.attrs)
    return ("(mkObs " +
            G.glist([G.gpair(G.lbl(n), G.lblset(ms)) for n, ms in ob["nodes"]]) + " " +
            G.glist([oattr(a) for a in ob["nattr"]]) + " " +
            G.glist([G.gpair(G.lbl(e), G.lblset(ms)) for e, ms in ob["edges"]]) + " " +
            G.glist([oattr(a) for a in ob["eattr"]]) + " " +
            G.attrs(ob["net"]) + " " + G.gZ(ob["uid"]) + " " + G.outcome(exc) + " " + G.gnat(nwarn) + ")")

# ---------------------------------------------------------------------------------------------
# one history

def gen_scenario(rng, nodes, eids):
    """A scripted opening for a share of the generated histories: interactions that independent random choices
    meet too rarely.  Duplicate groups under explicit ids are merged, the same ids are used again for a new group
    and merged again - with rename="tuple" the merged id then already exists, with "first" / "new" it may."""
    ids = rng.sample(eids, min(len(eids), rng.randint(2, 3)))
    def group():
        ms = [rng.choice(nodes) for _ in range(rng.randint(1, 3))]
        extra = [(rng.choice(eids + [99]), [rng.choice(nodes) for _ in range(rng.randint(1, 3))])] if rng.random() < 0.4 else []
        d = {}
        for k, v in [(i, list(ms)) for i in ids] + extra:
            d.setdefault(k, v)
        return ("add_edges_from", 5, list(d.items()), {})
    def merge():
        return ("merge_duplicate_edges", rng.choice(["tuple", "tuple", "first", "new"]),
                rng.choice(["first", "union", "intersection"]), rng.choice([None, "multiplicity"]))
    ops = [group(), merge(), group(), merge()]
    if rng.random() < 0.3:
        ops += [group(), merge()]
    return ops

SCENARIO_SHARE = 0.08


def run_history(ops_or_gen, length=None, rng=None, style=None, malformed=False, freeze_at=None):
    """Execute a history.  ops_or_gen is either a list of ops (replay) or None (generate `length`
    ops with rng).  Returns dict(ops, extras, obs, excs, warns, gallina or None, unsupported)."""
    import xgi
    H = xgi.Hypergraph()
    if ops_or_gen is None:
        nodes, eids = make_pool(rng, style)
    rec = {"ops": [], "extras": [], "obs": [], "excs": [], "warns": [], "unsupported": None}
    n = length if ops_or_gen is None else len(ops_or_gen)
    script = []
    if ops_or_gen is None and PRESENT is None and freeze_at is None and rng.random() < SCENARIO_SHARE:
        script = gen_scenario(rng, nodes, eids)
        n = max(n, len(script) + 2)
    for i in range(n):
        if freeze_at is not None and i == freeze_at:
            H.freeze()
        if i < len(script):
            op = script[i]
        else:
            op = _norm(gen_op(rng, H, nodes, eids, malformed)) if ops_or_gen is None else ops_or_gen[i]
        if ops_or_gen is None and PRESENT is not None:
            # sorted() over ids of mixed kinds is where a numpy integer legitimately behaves unlike an int
            # (numpy compares it elementwise with a tuple instead of raising TypeError): the presentation batch,
            # which is about the id counter, leaves the duplicate merge out
            if op[0] == "merge_duplicate_edges":
                op = ("clear_edges",)
            elif op[0] == "cleanup":
                op = (op[0], op[1], op[2], True) + tuple(op[4:])
        extra, exc, nwarn = apply_op(H, op)
        ob = observe(H)
        rec["ops"].append(op); rec["extras"].append(extra); rec["obs"].append(ob)
        rec["excs"].append(exc); rec["warns"].append(nwarn)
        if ob["broken"]:
            break
    rec["net"] = H
    return rec

def history_to_gallina(rec):
    """Gallina term for the history, or None when some observation could not be taken/serialised
    (the caller treats that as a mismatch by itself)."""
    items = []
    try:
        for op, extra, ob, exc, nwarn in zip(rec["ops"], rec["extras"], rec["obs"], rec["excs"], rec["warns"]):
            if ob["broken"]:
                return None
            items.append(G.gpair(op_to_gallina(op, extra), obs_to_gallina(ob, exc, nwarn)))
    except G.Unsupported as e:
        rec["unsupported"] = str(e)
        return None
    return G.glist(items)


def corrupt(rec):
    """Plant a divergence in the last observation (used as the canary of the evaluation)."""
    ob = rec["obs"][-1]
    ob["uid"] += 1
    ob["nodes"] = ob["nodes"] + [("canary", set())]
    ob["nattr"] = ob["nattr"] + [{}]
    return rec
