(* A small imperative language for the bodies of the simplest mutators of xgi/core/hypergraph.py, and its
   semantics on the model state.  harness/translate_mutators.py regenerates the programs (Gen/Mutators.v) from the
   source on every run; Proofs/MutatorSource.v proves that running them is what the hand-written model does.

   The semantics is that of the Python objects involved:
     self._T[k]            IDDict.__getitem__: a missing key raises IDNotFound
     self._T[k] = set()    IDDict.__setitem__: the key None raises XGIError("None cannot be a node or edge")
     del self._T[k]        IDDict.__delitem__: a missing key raises IDNotFound
     s.add(x) / s.remove(x)  on the stored set; remove of a missing element raises KeyError
     for x in self._T[k].copy()   iterates a snapshot of the set
     update_uid_counter(self, k)  Hypergraph.bump_uid (tied to the source by C04_source_counter_is_model) *)
From Coq Require Import String ZArith List Bool.
From XV Require Import Base.Label Base.LSet Base.ODict Base.Attr Base.Outcome Model.Hypergraph.
Import ListNotations.

(* `not idx` for an id: 0, the empty string, the empty tuple and None are falsy *)
Definition py_falsy (i : lbl) : bool :=
  match i with
  | LInt 0 => true
  | LStr EmptyString => true
  | LTup [] => true
  | LNone => true
  | _ => false
  end.

Inductive table := TNode | TEdge.                    (* _node / _edge (sets) ; their attribute dicts go along *)
Inductive vexp := VArg (i : nat) | VLoop | VLoop1 | VUid | VIdx.  (* the i-th label parameter, the innermost loop variable, the enclosing one *)
Inductive bexp :=
| BIn (k : vexp) (t : table)                         (* k in self._T *)
| BMember (x k : vexp) (t : table)                   (* x in self._T[k] *)
| BEmptySet (k : vexp) (t : table)                   (* not self._T[k] *)
| BFlag (i : nat)                                    (* the i-th boolean parameter *)
| BNoneInMembers                                      (* None in members *)
| BIdxNone                                            (* idx is None *)
| BIdxIn (t : table)                                  (* idx in self._T   (Python's None is the label LNone) *)
| BIsNone (v : vexp)                                  (* v is None *)
| BMembersEmpty                                       (* not members *)
| BHasSimplexMembers                                  (* self.has_simplex(members): frozenset(members) in self._edge.values() *)
| BOr (a b : bexp)
| BInLocal (i : nat) (k : vexp)                        (* k in <the i-th bound collection> *)
| BNot (b : bexp) | BAnd (a b : bexp).
Inductive stmt :=
| SIf (c : bexp) (th el : list stmt)
| SRaise (e : exc)
| SNewSet (t : table) (k : vexp)                     (* self._T[k] = set() *)
| SNewAttr (t : table) (k : vexp)                    (* self._T_attr[k] = {} *)
| SAdd (t : table) (k x : vexp)                      (* self._T[k].add(x) *)
| SRemove (t : table) (k x : vexp)                   (* self._T[k].remove(x) *)
| SDel (t : table) (k : vexp)                        (* del self._T[k] *)
| SDelAttr (t : table) (k : vexp)                    (* del self._T_attr[k] *)
| SUid (k : vexp)                                    (* update_uid_counter(self, k) *)
| SAttrUpdate (t : table) (k : vexp)                 (* self._T_attr[k].update(attr), attr = the **attr of the call *)
| SForCopy (t : table) (k : vexp) (body : list stmt)  (* for <loop> in self._T[k].copy(): body *)
| SBindIn (t : table) (k : vexp) (body : list stmt)   (* x = self._T[k] (a reference to the stored set, not mutated afterwards); body = the rest of the block *)
| SForLocal (i : nat) (minus : option vexp) (body : list stmt)
| SBindUid (body : list stmt)                         (* uid = next(self._edge_uid) if idx is None else idx ; body = rest of the block *)
| SForMembers (body : list stmt)                      (* for <loop> in members: body   (members = set(members)) *)
| SForKeys (t : table) (body : list stmt)             (* for <loop> in self.nodes / self.edges: body   (the body keeps the key set) *)
| SClear (t : table) | SClearAttr (t : table)         (* self._T.clear()   self._T_attr.clear() *)
| SClearNet                                            (* self._net_attr.clear() *)
| SSetMembers (t : table) (k : vexp)                  (* self._T[k] = members   /   = frozenset(members) *)
| SAttrUpdateItem (t : table) (k : vexp)              (* self._T_attr[k].update(eattr), eattr = the item's own attribute dict *)
| SRebindIdxFalsy (body : list stmt)                  (* idx = next(self._edge_uid) if not idx else idx ; body = the rest of the block *)
| SCall (body : list stmt)                            (* self.<another translated method>(<the same members, idx, attr>) *)
| SCallArg (body : list stmt) (k : vexp)              (* self.<another translated method with one label parameter>(k) *)
| SNop. (* for <loop> in <i-th bound set>[.difference({minus})]: body *)

Record env := mkEnv { e_args : list lbl; e_flags : list bool; e_loop : lbl; e_attr : attrs; e_loop1 : lbl; e_locals : list (list lbl);
                      e_members : list lbl; e_idx : option lbl; e_uid : lbl;
                      e_eattr : attrs }.   (* e_eattr: the attribute dict of the item being added by a bulk call *)
Definition with_loop (en : env) (x : lbl) : env :=
  mkEnv (e_args en) (e_flags en) x (e_attr en) (e_loop en) (e_locals en) (e_members en) (e_idx en) (e_uid en) (e_eattr en).
Definition with_local (en : env) (m : list lbl) : env :=
  mkEnv (e_args en) (e_flags en) (e_loop en) (e_attr en) (e_loop1 en) (m :: e_locals en) (e_members en) (e_idx en) (e_uid en) (e_eattr en).
Definition with_uid_var (en : env) (u : lbl) : env :=
  mkEnv (e_args en) (e_flags en) (e_loop en) (e_attr en) (e_loop1 en) (e_locals en) (e_members en) (e_idx en) u (e_eattr en).
Definition veval (v : vexp) (en : env) : lbl :=
  match v with VArg i => nth i (e_args en) LNone | VLoop => e_loop en | VLoop1 => e_loop1 en | VUid => e_uid en
  | VIdx => match e_idx en with Some i => i | None => LNone end end.
Definition tab (t : table) (s : hg) : odict (list lbl) := match t with TNode => h_node s | TEdge => h_edge s end.
Definition set_tab (t : table) (s : hg) (d : odict (list lbl)) : hg := match t with TNode => with_node s d | TEdge => with_edge s d end.
Definition atab (t : table) (s : hg) : odict attrs := match t with TNode => h_nattr s | TEdge => h_eattr s end.
Definition set_atab (t : table) (s : hg) (d : odict attrs) : hg := match t with TNode => with_nattr s d | TEdge => with_eattr s d end.

(* boolean expressions can raise (IDNotFound from a lookup) *)
Fixpoint beval (b : bexp) (en : env) (s : hg) : bool + exc :=
  match b with
  | BIn k t => inl (has (veval k en) (tab t s))
  | BMember x k t => match get (veval k en) (tab t s) with Some m => inl (mem (veval x en) m) | None => inr IDNotFound end
  | BEmptySet k t => match get (veval k en) (tab t s) with Some [] => inl true | Some _ => inl false | None => inr IDNotFound end
  | BFlag i => inl (nth i (e_flags en) false)
  | BNoneInMembers => inl (existsb is_none (e_members en))
  | BIdxNone => inl (match e_idx en with None => true | Some _ => false end)
  | BIsNone v => inl (is_none (veval v en))
  | BMembersEmpty => inl (match e_members en with [] => true | _ => false end)
  | BHasSimplexMembers => inl (existsb (fun kv => seteqb (e_members en) (snd kv)) (h_edge s))
  | BOr a b => match beval a en s with
               | inl true => inl true
               | inl false => beval b en s
               | inr e => inr e
               end
  | BIdxIn t => inl (has (match e_idx en with Some i => i | None => LNone end) (tab t s))
  | BInLocal i k => inl (mem (veval k en) (nth i (e_locals en) []))
  | BNot c => match beval c en s with inl v => inl (negb v) | inr e => inr e end
  | BAnd a c => match beval a en s with
                | inl false => inl false
                | inl true => beval c en s
                | inr e => inr e
                end
  end.

(* statements: state and outcome; fuel-free structural recursion through a mutual fixpoint on lists *)
Fixpoint exec (p : stmt) (en : env) (s : hg) {struct p} : hg * outcome :=
  match p with
  | SIf c th el =>
      match beval c en s with
      | inr e => (s, Raised e)
      | inl true => (fix go (l : list stmt) (s : hg) : hg * outcome :=
                       match l with [] => (s, Ok) | q :: r => match exec q en s with (s', Ok) => go r s' | x => x end end) th s
      | inl false => (fix go (l : list stmt) (s : hg) : hg * outcome :=
                       match l with [] => (s, Ok) | q :: r => match exec q en s with (s', Ok) => go r s' | x => x end end) el s
      end
  | SRaise e => (s, Raised e)
  | SNewSet t k => if is_none (veval k en) then (s, Raised XGIError)
                   else (set_tab t s (set (veval k en) [] (tab t s)), Ok)
  | SNewAttr t k => if is_none (veval k en) then (s, Raised XGIError)
                    else (set_atab t s (set (veval k en) [] (atab t s)), Ok)
  | SAdd t k x => match get (veval k en) (tab t s) with
                  | Some m => (set_tab t s (set (veval k en) (sadd (veval x en) m) (tab t s)), Ok)
                  | None => (s, Raised IDNotFound)
                  end
  | SRemove t k x => match get (veval k en) (tab t s) with
                     | Some m => if mem (veval x en) m
                                 then (set_tab t s (set (veval k en) (sremove (veval x en) m) (tab t s)), Ok)
                                 else (s, Raised KeyError)
                     | None => (s, Raised IDNotFound)
                     end
  | SDel t k => if has (veval k en) (tab t s) then (set_tab t s (del (veval k en) (tab t s)), Ok) else (s, Raised IDNotFound)
  | SDelAttr t k => if has (veval k en) (atab t s) then (set_atab t s (del (veval k en) (atab t s)), Ok) else (s, Raised IDNotFound)
  | SUid k => (bump_uid (veval k en) s, Ok)
  | SAttrUpdate t k => match get (veval k en) (atab t s) with
                       | Some d => (set_atab t s (set (veval k en) (aupdate d (e_attr en)) (atab t s)), Ok)
                       | None => (s, Raised IDNotFound)
                       end
  | SForCopy t k body =>
      match get (veval k en) (tab t s) with
      | None => (s, Raised IDNotFound)
      | Some m =>
          (fix iter (xs : list lbl) (s : hg) : hg * outcome :=
             match xs with
             | [] => (s, Ok)
             | x :: r =>
                 match (fix go (l : list stmt) (s : hg) : hg * outcome :=
                          match l with [] => (s, Ok)
                          | q :: r' => match exec q (with_loop en x) s with (s', Ok) => go r' s' | y => y end end) body s with
                 | (s', Ok) => iter r s'
                 | y => y
                 end
             end) m s
      end
  | SBindIn t k body =>
      match get (veval k en) (tab t s) with
      | None => (s, Raised IDNotFound)
      | Some m =>
          (fix go (l : list stmt) (s : hg) : hg * outcome :=
             match l with [] => (s, Ok)
             | q :: r => match exec q (with_local en m) s with
                         | (s', Ok) => go r s' | y => y end end) body s
      end
  | SForLocal i minus body =>
      (fix iter (xs : list lbl) (s : hg) : hg * outcome :=
         match xs with
         | [] => (s, Ok)
         | x :: r =>
             match (fix go (l : list stmt) (s : hg) : hg * outcome :=
                      match l with [] => (s, Ok)
                      | q :: r' => match exec q (with_loop en x) s with
                                   | (s', Ok) => go r' s' | y => y end end) body s with
             | (s', Ok) => iter r s'
             | y => y
             end
         end) (match minus with Some v => sremove (veval v en) (nth i (e_locals en) []) | None => nth i (e_locals en) [] end) s
  | SBindUid body =>
      let u := match e_idx en with Some i => i | None => LInt (h_uid s) end in
      let s0 := match e_idx en with Some _ => s | None => with_uid s (h_uid s + 1)%Z end in
      (fix go (l : list stmt) (s : hg) : hg * outcome :=
         match l with [] => (s, Ok)
         | q :: r => match exec q (with_uid_var en u) s with (s', Ok) => go r s' | y => y end end) body s0
  | SForMembers body =>
      (fix iter (xs : list lbl) (s : hg) : hg * outcome :=
         match xs with
         | [] => (s, Ok)
         | x :: r =>
             match (fix go (l : list stmt) (s : hg) : hg * outcome :=
                      match l with [] => (s, Ok)
                      | q :: r' => match exec q (with_loop en x) s with (s', Ok) => go r' s' | y => y end end) body s with
             | (s', Ok) => iter r s'
             | y => y
             end
         end) (e_members en) s
  | SForKeys t body =>
      (fix iter (xs : list lbl) (s : hg) : hg * outcome :=
         match xs with
         | [] => (s, Ok)
         | x :: r =>
             match (fix go (l : list stmt) (s : hg) : hg * outcome :=
                      match l with [] => (s, Ok)
                      | q :: r' => match exec q (with_loop en x) s with (s', Ok) => go r' s' | y => y end end) body s with
             | (s', Ok) => iter r s'
             | y => y
             end
         end) (keys (tab t s)) s
  | SClear t => (set_tab t s [], Ok)
  | SClearAttr t => (set_atab t s [], Ok)
  | SClearNet => (mkHG (h_node s) (h_nattr s) (h_edge s) (h_eattr s) [] (h_uid s), Ok)
  | SAttrUpdateItem t k => match get (veval k en) (atab t s) with
                           | Some d => (set_atab t s (set (veval k en) (aupdate d (e_eattr en)) (atab t s)), Ok)
                           | None => (s, Raised IDNotFound)
                           end
  | SRebindIdxFalsy body =>
      let auto := match e_idx en with Some i => py_falsy i | None => true end in
      let u := if auto then LInt (h_uid s) else match e_idx en with Some i => i | None => LNone end in
      let s0 := if auto then with_uid s (h_uid s + 1)%Z else s in
      let en' := mkEnv (e_args en) (e_flags en) (e_loop en) (e_attr en) (e_loop1 en) (e_locals en) (e_members en) (Some u) (e_uid en) (e_eattr en) in
      (fix go (l : list stmt) (s : hg) : hg * outcome :=
         match l with [] => (s, Ok)
         | q :: r => match exec q en' s with (s', Ok) => go r s' | y => y end end) body s0
  | SCall body =>
      (fix go (l : list stmt) (s : hg) : hg * outcome :=
         match l with [] => (s, Ok)
         | q :: r => match exec q en s with (s', Ok) => go r s' | y => y end end) body s
  | SCallArg body k =>
      let en' := mkEnv [veval k en] [] LNone [] LNone [] [] None LNone [] in
      (fix go (l : list stmt) (s : hg) : hg * outcome :=
         match l with [] => (s, Ok)
         | q :: r => match exec q en' s with (s', Ok) => go r s' | y => y end end) body s
  | SSetMembers t k => if is_none (veval k en) then (s, Raised XGIError)
                       else (set_tab t s (set (veval k en) (e_members en) (tab t s)), Ok)
  | SNop => (s, Ok)
  end.

Fixpoint exec_list (l : list stmt) (en : env) (s : hg) : hg * outcome :=
  match l with [] => (s, Ok) | q :: r => match exec q en s with (s', Ok) => exec_list r en s' | x => x end end.

Definition run_method_a (body : list stmt) (args : list lbl) (flags : list bool) (a : attrs) (s : hg) : res :=
  match exec_list body (mkEnv args flags LNone a LNone [] [] None LNone []) s with (s', o) => (s', o, O) end.
Definition run_method (body : list stmt) (args : list lbl) (flags : list bool) (s : hg) : res :=
  run_method_a body args flags [] s.

(* methods whose body starts with guards: `if c: raise E` / `if c: warn(...); return`, then the statements *)
Inductive guard_action := GRaise (e : exc) | GWarnReturn | GReturn.   (* GReturn: `if c: return` / `continue`, silently *)
Fixpoint run_guards (gs : list (bexp * guard_action)) (en : env) (s : hg) : option res :=
  match gs with
  | [] => None
  | (c, act) :: r =>
      match beval c en s with
      | inr e => Some (s, Raised e, O)
      | inl true => Some (match act with GRaise e => (s, Raised e, O) | GWarnReturn => (s, Ok, 1%nat) | GReturn => (s, Ok, O) end)
      | inl false => run_guards r en s
      end
  end.
Definition run_guarded (gs : list (bexp * guard_action)) (body : list stmt) (en : env) (s : hg) : res :=
  match run_guards gs en s with
  | Some r => r
  | None => match exec_list body en s with (s', o) => (s', o, O) end
  end.

(* a method (self, members, idx=None, **attr) whose first statement is `members = set(members)` *)
Definition run_method_m (gs : list (bexp * guard_action)) (body : list stmt) (members : list lbl) (idx : option lbl) (a : attrs) (s : hg) : res :=
  run_guarded gs body (mkEnv [] [] LNone a LNone [] (mkset members) idx LNone []) s.

(* a method (self, <iterable of ids>) / (self, <flags>) *)
Definition run_method_l (body : list stmt) (ids : list lbl) (flags : list bool) (s : hg) : res :=
  match exec_list body (mkEnv [] flags LNone [] LNone [] ids None LNone []) s with (s', o) => (s', o, O) end.

(* a helper (self, members, idx=None, **attr) that receives the member set ready-made (a frozenset: no repeats) *)
Definition run_method_f (body : list stmt) (members : list lbl) (idx : option lbl) (a : attrs) (s : hg) : res :=
  run_guarded [] body (mkEnv [] [] LNone a LNone [] members idx LNone []) s.

(* the body of a loop over (id, members) items - the dict format of add_edges_from: each item is run as a guarded body (a
   `warn(...); continue` guard ends the item with one warning), `members = list(members)` is the 0-th bound collection and
   `member_set = set(members)` the member set; a raise ends the loop *)
Definition run_items (gs : list (bexp * guard_action)) (body : list stmt) (items : list (lbl * list lbl)) (s : hg) : res :=
  loop (fun s im => run_guarded gs body (mkEnv [] [] LNone [] LNone [snd im] (mkset (snd im)) (Some (fst im)) LNone []) s) items s.

(* one item of the bulk formats 1-4 of add_edges_from: the flag says whether the id is the caller's (then the counter is advanced
   past it), `attr` is the **attr of the call, `eattr` the item's own dict *)
Definition run_bulk_item (gs : list (bexp * guard_action)) (body : list stmt) (explicit : bool) (a : attrs)
           (members : list lbl) (idx : lbl) (ea : attrs) (s : hg) : res :=
  run_guarded gs body (mkEnv [] [explicit] LNone a LNone [members] (mkset members) (Some idx) LNone ea) s.

(* the loop over the items in format k (0-based), with the dispatch table read from the source: the id is the item's or the next
   of the counter - drawn before anything else -, the attribute dict is the item's or {} *)
Definition run_bulk (table : list (bool * bool)) (k : nat) (gs : list (bexp * guard_action)) (body : list stmt) (a : attrs)
           (items : list (list lbl * lbl * attrs)) (s : hg) : res :=
  let '(explicit, has_ea) := nth k table (false, false) in
  loop (fun s it =>
          let '(ms, idx, ea) := it in
          let ea' := if has_ea then ea else [] in
          if explicit then run_bulk_item gs body true a ms idx ea' s
          else run_bulk_item gs body false a ms (LInt (h_uid s)) ea' (with_uid s (h_uid s + 1)%Z)) items s.

(* a loop over node ids whose item is: guards (a `warn(...); continue` guard ends the item with one warning), then the call of
   another translated method on that id with the same options *)
Definition run_node_items (gs : list (bexp * guard_action)) (callee : list stmt) (ns : list lbl) (flags : list bool) (s : hg) : res :=
  loop (fun s n => match run_guards gs (mkEnv [] flags n [] LNone [] [] None LNone []) s with
                   | Some r => r
                   | None => run_method callee [n] flags s
                   end) ns s.

(* add_nodes_from: a loop over items n | (n, dict); `newdict` is the call's **attr, or a copy of it updated with the item's dict *)
Definition run_node_attr_items (body : list stmt) (items : list (lbl * option attrs)) (a : attrs) (s : hg) : res :=
  loop (fun s it => match exec_list body (mkEnv [] [] (fst it) (match snd it with None => a | Some d => aupdate a d end) LNone [] [] None LNone []) s
                    with (s', o) => (s', o, O) end) items s.

(* SimplicialComplex.add_simplex(members, idx=None, **attr): `members = frozenset(members)`, guards, the statements up to the faces,
   then `for members_sub in set(self._subfaces(members)): <guards>; self._add_face(members_sub)` - the faces in the order in which
   the set yields them are an input *)
Definition run_add_simplex (gs : list (bexp * guard_action)) (head : list stmt) (fgs : list (bexp * guard_action)) (fbody : list stmt)
           (members : list lbl) (idx : option lbl) (a : attrs) (faces : list (list lbl)) (s : hg) : res :=
  let en := mkEnv [] [] LNone a LNone [] (mkset members) idx LNone [] in
  match run_guards gs en s with
  | Some r => r
  | None =>
      match exec_list head en s with
      | (s1, Ok) => loop (fun s f => run_guarded fgs fbody (mkEnv [] [] LNone [] LNone [] f None LNone []) s) faces s1
      | (s1, o) => (s1, o, O)
      end
  end.

(* SimplicialComplex.remove_simplex_id(idx): `try: supfaces_ids = self._supfaces_id(self._edge[idx]); <statements>
   except KeyError as e: raise XGIError(...) from e` - a missing idx is a KeyError at `self._edge[idx]`, IDNotFound is a KeyError;
   the list _supfaces_id returns is an input (the 0-th bound collection) *)
Definition keyerror_as_xgierror (r : res) : res :=
  match r with (s, Raised IDNotFound, w) | (s, Raised KeyError, w) => (s, Raised XGIError, w) | x => x end.
Definition run_remove_simplex_id (body : list stmt) (idx : lbl) (sup : list lbl) (s : hg) : res :=
  match get idx (h_edge s) with
  | None => (s, Raised XGIError, O)
  | Some _ => keyerror_as_xgierror
                (match exec_list body (mkEnv [idx] [] LNone [] LNone [sup] [] None LNone []) s with (s', o) => (s', o, O) end)
  end.

(* SimplicialComplex.remove_simplex_ids_from(ebunch): `all_ids = set(self._edge.keys())` is the 0-th bound collection (a snapshot),
   then for every idx of ebunch the guards (`continue`) and the call of the translated remove_simplex_id; what _supfaces_id
   returns at that moment is given by `supf` *)
Definition run_remove_simplex_ids_from (gs : list (bexp * guard_action)) (callee : list stmt) (supf : hg -> lbl -> list lbl)
           (ids : list lbl) (s : hg) : res :=
  let all_ids := keys (h_edge s) in
  loop (fun s idx => match run_guards gs (mkEnv [idx] [] LNone [] LNone [all_ids] [] None LNone []) s with
                     | Some r => r
                     | None => run_remove_simplex_id callee idx (supf s idx) s
                     end) ids s.
