(* Layout helpers and the drawing plan of xgi/drawing (C20): which markers, lines and polygons a
   drawing contains, as a function of the tables and of the node positions. *)
From Coq Require Import String ZArith QArith Qabs List Bool Lia.
From XV Require Import Base.Label Base.LSet Base.ODict Base.Attr Base.Outcome Model.Hypergraph Model.Stats Model.Graph
     Model.SimplicialComplex.
Import ListNotations.

Definition pt : Type := (Q * Q)%type.
Definition posmap := list (lbl * pt).
Definition pos_of (p : posmap) (n : lbl) : pt := match get n p with Some x => x | None => (0, 0)%Q end.

(* edge_positions_from_barycenters: the mean of the members' positions *)
Definition qsum (l : list Q) : Q := fold_right Qplus 0%Q l.
Definition barycenter (p : posmap) (ms : list lbl) : pt :=
  let k := Z.of_nat (length ms) in
  (qsum (map (fun n => fst (pos_of p n)) ms) / (k # 1), qsum (map (fun n => snd (pos_of p n)) ms) / (k # 1))%Q.
Definition edge_barycenters (p : posmap) (s : hg) : list (lbl * pt) :=
  map (fun kv => (fst kv, barycenter p (snd kv))) (filter (fun kv => negb (is_nil (snd kv))) (h_edge s)).

(* draw / draw_nodes / draw_hyperedges on a hypergraph *)
Definition max_order_of (s : hg) : nat := fold_left (fun m kv => Nat.max m (length (snd kv) - 1)) (h_edge s) O.
Definition markers (p : posmap) (s : hg) : list pt := map (pos_of p) (keys (h_node s)).
Definition dyads (s : hg) : list (lbl * list lbl) := filter (fun kv => Nat.eqb (length (snd kv)) 2) (h_edge s).
Definition lines (p : posmap) (s : hg) : list (list pt) := map (fun kv => map (pos_of p) (snd kv)) (dyads s).
Definition larger (mo : nat) (s : hg) : list (lbl * list lbl) :=
  filter (fun kv => Nat.leb 3 (length (snd kv)) && Nat.leb (length (snd kv)) (S mo)) (h_edge s).
Definition polygons (p : posmap) (mo : nat) (s : hg) : list (list pt) := map (fun kv => map (pos_of p) (snd kv)) (larger mo s).

(* draw_simplices on a simplicial complex: faces up to max_order (all when None / 0), polygons for
   the maximal ones of three or more nodes, lines for every two-node face *)
Definition sc_faces (mo : option nat) (s : hg) : list (list lbl) :=
  match mo with
  | None | Some O => map snd (h_edge s)
  | Some m => filter (fun ms => Nat.leb (length ms) (S m)) (map snd (h_edge s))
  end.
Definition strictly_inside (a b : list lbl) : bool := ssubset a b && Nat.ltb (length a) (length b).
Definition sc_polygons (p : posmap) (mo : option nat) (s : hg) : list (list pt) :=
  let fs := sc_faces mo s in
  map (map (pos_of p)) (filter (fun ms => Nat.leb 3 (length ms) && negb (existsb (strictly_inside ms) fs)) fs).
Definition sc_lines (p : posmap) (mo : option nat) (s : hg) : list (list pt) :=
  map (map (pos_of p)) (filter (fun ms => Nat.eqb (length ms) 2) (sc_faces mo s)).

(* ---------- correspondence ---------- *)
Definition q_close (a b : Q) : bool := Qle_bool (Qabs (a - b)) (1 # 1000000000).
Definition pt_close (a b : pt) : bool := q_close (fst a) (fst b) && q_close (snd a) (snd b).
Fixpoint pts_close (a b : list pt) : bool :=
  match a, b with [], [] => true | x :: a', y :: b' => pt_close x y && pts_close a' b' | _, _ => false end.
(* a polygon / segment as a set of points *)
Definition ptset_sub (a b : list pt) : bool := forallb (fun x => existsb (pt_close x) b) a.
Definition ptset_eq (a b : list pt) : bool := ptset_sub a b && ptset_sub b a.
(* a collection of shapes as a multiset (order of polygons: decreasing size, ties unspecified) *)
Fixpoint remove_first (f : list pt -> bool) (l : list (list pt)) : option (list (list pt)) :=
  match l with
  | [] => None
  | x :: r => if f x then Some r else match remove_first f r with Some r' => Some (x :: r') | None => None end
  end.
Fixpoint shapes_eq (a b : list (list pt)) : bool :=
  match a with
  | [] => match b with [] => true | _ => false end
  | x :: a' => match remove_first (ptset_eq x) b with Some b' => shapes_eq a' b' | None => false end
  end.
Fixpoint sizes_nonincreasing (l : list (list pt)) : bool :=
  match l with
  | x :: ((y :: _) as r) => Nat.leb (length y) (length x) && sizes_nonincreasing r
  | _ => true
  end.

Inductive dcase : Type :=
| DBary (l : list (lbl * pt))
| DDraw (mo : option nat) (marks : list pt) (segs polys : list (list pt))
| DDrawSC (mo : option nat) (marks : list pt) (segs polys : list (list pt)).

Definition bary_sub (a b : list (lbl * pt)) : bool :=
  forallb (fun x => existsb (fun y => lbl_eqb (fst x) (fst y) && pt_close (snd x) (snd y)) b) a.

Definition dcase_ok (p : posmap) (s : hg) (c : dcase) : bool :=
  match c with
  | DBary l => bary_sub l (edge_barycenters p s) && bary_sub (edge_barycenters p s) l
  | DDraw mo marks segs polys =>
      let m := match mo with Some m => m | None => max_order_of s end in
      pts_close (markers p s) marks && shapes_eq (lines p s) segs && shapes_eq (polygons p m s) polys
      && sizes_nonincreasing polys
  | DDrawSC mo marks segs polys =>
      pts_close (markers p s) marks && shapes_eq (sc_lines p mo s) segs && shapes_eq (sc_polygons p mo s) polys
  end.

Fixpoint d_first_bad (p : posmap) (s : hg) (cs : list dcase) (j : nat) : option nat :=
  match cs with
  | [] => None
  | c :: r => if dcase_ok p s c then d_first_bad p s r (S j) else Some j
  end.
Fixpoint draw_bad_from {T} (runf : list T -> hg) (cases : list (list T * posmap * list dcase)) (i : nat) : list (nat * nat) :=
  match cases with
  | [] => []
  | (ops, p, cs) :: r => match d_first_bad p (runf ops) cs O with
                         | Some j => (i, j) :: draw_bad_from runf r (S i)
                         | None => draw_bad_from runf r (S i)
                         end
  end.
Definition draw_bad_hg (cases : list (list op * posmap * list dcase)) := draw_bad_from (fun ops => run ops hg_empty) cases O.
Definition draw_bad_sc (cases : list (list sop * posmap * list dcase)) := draw_bad_from (fun ops => srun ops hg_empty) cases O.
