(* Views, filters and statistics of xgi.core.views / xgi.stats (C06), on the Hypergraph tables.
   A statistic is a function of the *current* state and a view (IDStat._val recomputes on every
   access); the output formats asdict / aslist / asnumpy / aspandas / multi are all `map` of the
   same function along the view. *)
From Coq Require Import String ZArith List Bool Lia.
From XV Require Import Base.Label Base.LSet Base.ODict Base.Attr Base.Outcome Model.Hypergraph.
Import ListNotations.
Open Scope Z_scope.

Inductive side := SNode | SEdge.
Definition id_dict (k : side) (s : hg) := match k with SNode => h_node s | SEdge => h_edge s end.
Definition bi_dict (k : side) (s : hg) := match k with SNode => h_edge s | SEdge => h_node s end.
Definition id_attr (k : side) (s : hg) := match k with SNode => h_nattr s | SEdge => h_eattr s end.

Definition zlen (l : list lbl) : Z := Z.of_nat (length l).

(* ---- node statistics ---- *)
Definition weight_of (s : hg) (w : string) (e : lbl) : Z :=
  match aget w (geta e (h_eattr s)) with Some (AInt z) => z | _ => 1 end.

Definition degree (order : option Z) (weight : option string) (s : hg) (n : lbl) : Z :=
  let es := getl n (h_node s) in
  let es := match order with
            | None => es
            | Some d => filter (fun e => Z.eqb (zlen (getl e (h_edge s))) (d + 1)) es
            end in
  match weight with
  | None => zlen es
  | Some w => fold_left (fun acc e => acc + weight_of s w e) es 0
  end.

Definition neighbors (k : side) (sv : Z) (s : hg) (i : lbl) : list lbl :=
  let mine := getl i (id_dict k s) in
  let all := fold_left (fun acc n => sunion acc (getl n (bi_dict k s))) mine [] in
  let all := if sv =? 1 then all
             else filter (fun j => sv <=? zlen (sinter mine (getl j (id_dict k s)))) all in
  sremove i all.

(* sum of neighbour degrees and number of neighbours (the quotient is the statistic; 0 if none) *)
Definition average_neighbor_degree (s : hg) (n : lbl) : Z * Z :=
  let nb := neighbors SNode 1 s n in
  match nb with
  | [] => (0, 1)
  | _ => (fold_left (fun acc m => acc + zlen (getl m (h_node s))) nb 0, zlen nb)
  end.

(* ---- edge statistics ---- *)
Definition edge_size (deg : option Z) (s : hg) (e : lbl) : Z :=
  match deg with
  | None => zlen (getl e (h_edge s))
  | Some d => zlen (filter (fun n => Z.eqb (zlen (getl n (h_node s))) d) (getl e (h_edge s)))
  end.
Definition edge_order (deg : option Z) (s : hg) (e : lbl) : Z := edge_size deg s e - 1.

(* ---- attribute statistic ---- *)
Definition attr_stat (k : side) (name : string) (missing : aval) (s : hg) (i : lbl) : aval :=
  match aget name (geta i (id_attr k s)) with Some v => v | None => missing end.

(* ---- filterby ---- *)
Inductive fmode := FEq | FNeq | FLt | FGt | FLeq | FGeq | FBetween (hi : Z).
Definition fcmp (m : fmode) (x v : Z) : bool :=
  match m with
  | FEq => x =? v | FNeq => negb (x =? v) | FLt => x <? v | FGt => v <? x
  | FLeq => x <=? v | FGeq => v <=? x | FBetween hi => (v <=? x) && (x <=? hi)
  end.
Definition filterby (view : list lbl) (stat : lbl -> Z) (m : fmode) (v : Z) : list lbl :=
  filter (fun i => fcmp m (stat i) v) view.

(* filterby_attr on integer-valued attributes; a missing (None) value never matches *)
Definition filterby_attr (k : side) (view : list lbl) (name : string) (missing : aval) (m : fmode) (v : Z)
           (s : hg) : list lbl :=
  filter (fun i => match attr_stat k name missing s i with AInt x => fcmp m x v | _ => false end) view.

(* ---- set-theoretic queries ---- *)
Definition lookup (k : side) (sought : list lbl) (s : hg) : list lbl :=
  map fst (filter (fun kv => seteqb (snd kv) sought && Nat.eqb (length (snd kv)) (length (mkset sought))) (id_dict k s)).

(* groups of ids with the same neighbour set; all but the smallest (else the first) of each group *)
Definition dup_groups (k : side) (s : hg) : list (list lbl * list lbl) :=
  fold_left (fun g kv => group_add (snd kv) (fst kv) g) (id_dict k s) [].
Definition duplicates (k : side) (s : hg) : list lbl :=
  let dups := flat_map (fun g => match snd g with
                                 | _ :: _ :: _ => match sort_lbls (snd g) with
                                                  | Some l => tl l
                                                  | None => tl (snd g)
                                                  end
                                 | _ => []
                                 end) (dup_groups k s) in
  filter (fun i => mem i dups) (keys (id_dict k s)).

Definition is_nil (l : list lbl) : bool := match l with [] => true | _ => false end.

Definition isolates (ignore_singletons : bool) (s : hg) : list lbl :=
  if ignore_singletons then
    let covered := fold_left (fun acc kv => if Nat.eqb (length (snd kv)) 1 then acc else sunion acc (snd kv)) (h_edge s) [] in
    filter (fun n => negb (mem n covered)) (keys (h_node s))
  else filter (fun n => is_nil (getl n (h_node s))) (keys (h_node s)).

Definition singletons (s : hg) : list lbl := filterby (keys (h_edge s)) (edge_size None s) FEq 1.
Definition empty_edges (s : hg) : list lbl := filterby (keys (h_edge s)) (edge_size None s) FEq 0.

(* maximal(strict): the intersection of the memberships of the members of e (all edge ids when e
   is empty) is {e} (strict) resp. the set of duplicates of e *)
Definition inter_memberships (s : hg) (ms : list lbl) : list lbl :=
  fold_left (fun acc n => sinter acc (getl n (h_node s))) ms (keys (h_edge s)).
Definition maximal (strict : bool) (s : hg) : list lbl :=
  filter (fun e =>
            let i := inter_memberships s (getl e (h_edge s)) in
            if strict then seteqb i [e] && Nat.eqb (length i) 1
            else let d := map fst (filter (fun kv => seteqb (snd kv) (getl e (h_edge s))
                                                     && Nat.eqb (length (snd kv)) (length (getl e (h_edge s)))) (h_edge s)) in
                 seteqb i d && Nat.eqb (length i) (length d))
         (keys (h_edge s)).

(* ---- queries and answers (correspondence) ---- *)
Inductive query : Type :=
| QDegree (order : option Z) (weight : option string)
| QAvgNbrDegree
| QEdgeSize (deg : option Z)
| QEdgeOrder (deg : option Z)
| QNodeFilterDegree (m : fmode) (v : Z)
| QEdgeFilterSize (m : fmode) (v : Z)
| QFilterAttr (k : side) (name : string) (m : fmode) (v : Z)
| QNeighbors (k : side) (sv : Z) (i : lbl)
| QLookup (k : side) (sought : list lbl)
| QDuplicates (k : side)
| QIsolates (ignore_singletons : bool)
| QSingletons
| QEmpty
| QMaximal (strict : bool)
| QViews.                    (* node ids and edge ids in view order *)

Inductive answer : Type :=
| AMap (l : list (lbl * Z))           (* id -> integer, in view order *)
| AQMap (l : list (lbl * (Z * Z)))    (* id -> rational p/q *)
| AIds (l : list lbl)                 (* ids in view order *)
| ASet (l : list lbl)                 (* an unordered set of ids *)
| ATwo (a b : list lbl).

Definition along (view : list lbl) (f : lbl -> Z) : list (lbl * Z) := map (fun i => (i, f i)) view.

Definition eval (q : query) (s : hg) : answer :=
  let ns := keys (h_node s) in
  let es := keys (h_edge s) in
  match q with
  | QDegree o w => AMap (along ns (degree o w s))
  | QAvgNbrDegree => AQMap (map (fun n => (n, average_neighbor_degree s n)) ns)
  | QEdgeSize d => AMap (along es (edge_size d s))
  | QEdgeOrder d => AMap (along es (edge_order d s))
  | QNodeFilterDegree m v => AIds (filterby ns (degree None None s) m v)
  | QEdgeFilterSize m v => AIds (filterby es (edge_size None s) m v)
  | QFilterAttr k name m v => AIds (filterby_attr k (keys (id_dict k s)) name ANone m v s)
  | QNeighbors k sv i => ASet (neighbors k sv s i)
  | QLookup k sought => AIds (lookup k sought s)
  | QDuplicates k => AIds (duplicates k s)
  | QIsolates b => AIds (isolates b s)
  | QSingletons => AIds (singletons s)
  | QEmpty => AIds (empty_edges s)
  | QMaximal b => AIds (maximal b s)
  | QViews => ATwo ns es
  end.

Fixpoint lbls_eqb (a b : list lbl) : bool :=
  match a, b with [], [] => true | x :: a', y :: b' => lbl_eqb x y && lbls_eqb a' b' | _, _ => false end.

Fixpoint amap_eqb (a b : list (lbl * Z)) : bool :=
  match a, b with
  | [], [] => true
  | (i, x) :: a', (j, y) :: b' => lbl_eqb i j && (x =? y) && amap_eqb a' b'
  | _, _ => false
  end.
Fixpoint aqmap_eqb (a b : list (lbl * (Z * Z))) : bool :=
  match a, b with
  | [], [] => true
  | (i, (p, q)) :: a', (j, (p', q')) :: b' => lbl_eqb i j && (p * q' =? p' * q) && aqmap_eqb a' b'
  | _, _ => false
  end.

Definition answer_eqb (a b : answer) : bool :=
  match a, b with
  | AMap x, AMap y => amap_eqb x y
  | AQMap x, AQMap y => aqmap_eqb x y
  | AIds x, AIds y => lbls_eqb x y
  | ASet x, ASet y => seteqb x y && Nat.eqb (length x) (length y)
  | ATwo x1 x2, ATwo y1 y2 => lbls_eqb x1 y1 && lbls_eqb x2 y2
  | _, _ => false
  end.

(* (history, queries with the observed answers): index pairs (case, query) that differ *)
Fixpoint q_mismatch (s : hg) (qs : list (query * answer)) (j : nat) : option nat :=
  match qs with
  | [] => None
  | (q, a) :: r => if answer_eqb (eval q s) a then q_mismatch s r (S j) else Some j
  end.
Fixpoint stat_mismatches_from (cases : list (list op * list (query * answer))) (i : nat) : list (nat * nat) :=
  match cases with
  | [] => []
  | (ops, qs) :: r => match q_mismatch (run ops hg_empty) qs O with
                      | Some j => (i, j) :: stat_mismatches_from r (S i)
                      | None => stat_mismatches_from r (S i)
                      end
  end.
Definition stat_mismatches cases := stat_mismatches_from cases O.
