(* C05 for the directed class: what add_edge and remove_edge do to the tail and head tables. *)
From Coq Require Import String ZArith List Bool Lia.
From XV Require Import Base.Label Base.LSet Base.ODict Base.Attr Base.Outcome Model.Hypergraph Model.DiHypergraph
     Proofs.HgViews Proofs.HgInv Proofs.ScTables.
Import ListNotations.
Open Scope Z_scope.

Lemma ensure_nodes_edge ns : forall s, h_edge (ensure_nodes ns s) = h_edge s.
Proof. unfold ensure_nodes. induction ns as [|n ns IH]; intro s; cbn [fold_left]; [reflexivity|]. rewrite IH. apply ensure_node_edge. Qed.

(* add_edge((tail, head)) with an automatic id: the new edge gets exactly the given tail and head (as sets),
   under the next id; every other edge keeps its tail and head *)
Theorem d_add_edge_effect tl hd a d : has_none tl = false -> has_none hd = false ->
  let e := LInt (h_uid (ts d)) in
  let r := d_add_edge tl hd None a d in
  let d' := dst_of r in
  snd (fst r) = Ok /\
  exists T H, (forall x, In x T <-> In x tl) /\ (forall x, In x H <-> In x hd) /\ NoDup T /\ NoDup H /\
    forall e', get e' (h_edge (ts d')) = (if lbl_eqb e' e then Some T else get e' (h_edge (ts d))) /\
               get e' (h_edge (hs d')) = (if lbl_eqb e' e then Some H else get e' (h_edge (hs d))).
Proof.
  intros N1 N2. cbv zeta. unfold d_add_edge. rewrite N1, N2. cbn [orb]. split; [reflexivity|].
  unfold dst_of, dok. cbn [fst]. unfold d_insert_edge, both. cbn [ts hs].
  destruct (insert_edge_get (LInt (h_uid (ts d))) tl a (with_uid (ts d) (h_uid (ts d) + 1))) as (T & T1 & T2 & T3).
  destruct (insert_edge_get (LInt (h_uid (ts d))) hd [] (ensure_nodes tl (with_uid (hs d) (h_uid (hs d) + 1)))) as (H & H1 & H2 & H3).
  exists T, H. split; [exact T1|]. split; [exact H1|]. split; [exact T2|]. split; [exact H2|].
  intro e'. rewrite ensure_nodes_edge. split; [apply T3|]. rewrite H3, ensure_nodes_edge. reflexivity.
Qed.

(* remove_edge(e) for an existing id: exactly that edge disappears from both tables *)
Theorem d_remove_edge_effect e d : has e (h_edge (ts d)) = true ->
  let r := d_remove_edge e d in
  let d' := dst_of r in
  snd (fst r) = Ok /\
  forall e', get e' (h_edge (ts d')) = (if lbl_eqb e' e then None else get e' (h_edge (ts d))) /\
             get e' (h_edge (hs d')) = (if lbl_eqb e' e then None else get e' (h_edge (hs d))).
Proof.
  intro Hh. cbv zeta. unfold d_remove_edge. rewrite Hh. split; [reflexivity|].
  intro e'. unfold dst_of, dok, d_remove_edge_raw. cbn [fst ts hs]. split; apply remove_edge1_get.
Qed.

(* a missing id is refused with the library's IDNotFound and nothing changes *)
Theorem d_remove_edge_missing e d : has e (h_edge (ts d)) = false ->
  d_remove_edge e d = draise d IDNotFound.
Proof. intro Hh. unfold d_remove_edge. rewrite Hh. reflexivity. Qed.

(* strong removal of a node: exactly the edges having the node in their tail or head disappear (from both
   tables); every other edge keeps its tail and head *)
Lemma d_remove_raw_fold es : forall d e',
  get e' (h_edge (ts (fold_left (fun d e => d_remove_edge_raw e d) es d))) = (if mem e' es then None else get e' (h_edge (ts d))) /\
  get e' (h_edge (hs (fold_left (fun d e => d_remove_edge_raw e d) es d))) = (if mem e' es then None else get e' (h_edge (hs d))).
Proof.
  induction es as [|e es IH]; intros d e'; cbn [fold_left mem]; [split; reflexivity|].
  destruct (IH (d_remove_edge_raw e d) e') as [A B]. rewrite A, B. unfold d_remove_edge_raw. cbn [ts hs].
  rewrite !remove_edge1_get. destruct (lbl_eqb e' e); cbn [orb]; destruct (mem e' es); split; reflexivity.
Qed.

Theorem d_remove_node_strong_effect n re d outs : get n (h_node (ts d)) = Some outs ->
  let r := d_remove_node n true re d in
  let d' := dst_of r in
  let gone := sunion (in_mships d n) outs in
  snd (fst r) = Ok /\
  forall e', get e' (h_edge (ts d')) = (if mem e' gone then None else get e' (h_edge (ts d))) /\
             get e' (h_edge (hs d')) = (if mem e' gone then None else get e' (h_edge (hs d))).
Proof.
  intro G. cbv zeta. unfold d_remove_node. rewrite G. split; [reflexivity|].
  intro e'. unfold dst_of, dok, both. cbn [fst ts hs]. unfold drop_node. cbn [h_edge].
  apply d_remove_raw_fold.
Qed.
