(* Executable model of xgi.core.hypergraph.Hypergraph (the six tables and every public mutator),
   transcribed from /repo's source after the "fix:" commits.  Sets are duplicate-free lists,
   dicts are association lists in insertion order.  Where Python iterates a *set* and the
   iteration order is observable (order in which new nodes are created), the op carries the
   members in that order (the harness records it).

   Forgiving primitives: removing an absent element / deleting an absent key is a no-op where
   Python would raise KeyError.  Those raises cannot happen in a well-formed state; theorem
   C01_history_wf shows every reachable state is well-formed, so the model and a KeyError-raising
   transcription coincide on every reachable state. *)
From Coq Require Import String ZArith List Bool Lia.
From XV Require Import Base.Label Base.LSet Base.ODict Base.Attr Base.Outcome.
Import ListNotations.
Open Scope Z_scope.

Record hg : Type := mkHG {
  h_node  : odict (list lbl);   (* _node : node -> set of edge ids *)
  h_nattr : odict attrs;        (* _node_attr *)
  h_edge  : odict (list lbl);   (* _edge : edge id -> set of nodes *)
  h_eattr : odict attrs;        (* _edge_attr *)
  h_net   : attrs;              (* _net_attr *)
  h_uid   : Z                   (* next value of the _edge_uid counter *)
}.

Definition hg_empty : hg := mkHG [] [] [] [] [] 0.

Definition with_node (s : hg) v := mkHG v (h_nattr s) (h_edge s) (h_eattr s) (h_net s) (h_uid s).
Definition with_nattr (s : hg) v := mkHG (h_node s) v (h_edge s) (h_eattr s) (h_net s) (h_uid s).
Definition with_edge (s : hg) v := mkHG (h_node s) (h_nattr s) v (h_eattr s) (h_net s) (h_uid s).
Definition with_eattr (s : hg) v := mkHG (h_node s) (h_nattr s) (h_edge s) v (h_net s) (h_uid s).
Definition with_net (s : hg) v := mkHG (h_node s) (h_nattr s) (h_edge s) (h_eattr s) v (h_uid s).
Definition with_uid (s : hg) v := mkHG (h_node s) (h_nattr s) (h_edge s) (h_eattr s) (h_net s) v.

Definition getl (k : lbl) (d : odict (list lbl)) : list lbl :=
  match get k d with Some l => l | None => [] end.
Definition geta (k : lbl) (d : odict attrs) : attrs :=
  match get k d with Some l => l | None => [] end.

(* result of a call: post-state (also on a raise: the partial execution), outcome, warnings *)
Definition res : Type := hg * outcome * nat.
Definition ok (s : hg) : res := (s, Ok, O).
Definition warn1 (s : hg) : res := (s, Ok, 1%nat).
Definition raise (s : hg) (e : exc) : res := (s, Raised e, O).

(* sequential loop with early exit on a raise, accumulating warnings *)
Fixpoint loop {A} (f : hg -> A -> res) (l : list A) (s : hg) : res :=
  match l with
  | [] => ok s
  | x :: xs =>
      match f s x with
      | (s', Ok, w) => match loop f xs s' with (s'', o, w') => (s'', o, (w + w')%nat) end
      | r => r
      end
  end.

Definition bind (r : res) (k : hg -> res) : res :=
  match r with
  | (s, Ok, w) => match k s with (s', o, w') => (s', o, (w + w')%nat) end
  | _ => r
  end.

(* ---------- primitives on the tables ---------- *)

(* if node not in _node: _node[node] = set(); _node_attr[node] = {} *)
Definition ensure_node (n : lbl) (s : hg) : hg :=
  if has n (h_node s) then s
  else with_nattr (with_node s (set n [] (h_node s))) (set n [] (h_nattr s)).

(* _node[n].add(e) *)
Definition node_add (n e : lbl) (s : hg) : hg :=
  with_node s (set n (sadd e (getl n (h_node s))) (h_node s)).
Definition node_rem (n e : lbl) (s : hg) : hg :=
  if has n (h_node s) then with_node s (set n (sremove e (getl n (h_node s))) (h_node s)) else s.
Definition edge_add (e n : lbl) (s : hg) : hg :=
  with_edge s (set e (sadd n (getl e (h_edge s))) (h_edge s)).
Definition edge_rem (e n : lbl) (s : hg) : hg :=
  if has e (h_edge s) then with_edge s (set e (sremove n (getl e (h_edge s))) (h_edge s)) else s.
(* del _edge[e]; del _edge_attr[e] *)
Definition drop_edge (e : lbl) (s : hg) : hg :=
  with_eattr (with_edge s (del e (h_edge s))) (del e (h_eattr s)).
Definition drop_node (n : lbl) (s : hg) : hg :=
  with_nattr (with_node s (del n (h_node s))) (del n (h_nattr s)).

(* update_uid_counter(H, idx) *)
Definition bump_uid (idx : lbl) (s : hg) : hg :=
  match as_int idx with
  | Some z => if h_uid s <=? z then with_uid s (z + 1) else s
  | None => s
  end.

(* _edge_attr[e].update(a)  /  _node_attr[n].update(a) *)
Definition eattr_update (e : lbl) (a : attrs) (s : hg) : hg :=
  with_eattr s (set e (aupdate (geta e (h_eattr s)) a) (h_eattr s)).
Definition nattr_update (n : lbl) (a : attrs) (s : hg) : hg :=
  with_nattr s (set n (aupdate (geta n (h_nattr s)) a) (h_nattr s)).

(* the body shared by add_edge and the bulk formats, once the id is known to be new and the
   members are known to be free of None:
     _edge[e] = set(members); for n in members: ensure node; _node[n].add(e);
     _edge_attr[e] = {}; update(a) *)
Definition attach (e : lbl) (s : hg) (n : lbl) : hg :=
  edge_add e n (node_add n e (ensure_node n s)).
Definition insert_edge (e : lbl) (members : list lbl) (a : attrs) (s : hg) : hg :=
  let s1 := with_edge s (set e [] (h_edge s)) in
  let s2 := fold_left (attach e) members s1 in
  with_eattr s2 (set e (aupdate [] a) (h_eattr s2)).

(* ---------- nodes ---------- *)

Definition add_node (n : lbl) (a : attrs) (s : hg) : res :=
  if has n (h_node s) then ok (nattr_update n a s)
  else if is_none n then raise s XGIError
  else ok (nattr_update n a (ensure_node n s)).

(* items are n or (n, dict); a = **attr *)
Definition add_nodes_from (items : list (lbl * option attrs)) (a : attrs) (s : hg) : res :=
  loop (fun s it =>
          let '(n, od) := it in
          let newdict := match od with None => a | Some d => aupdate a d end in
          if has n (h_node s) then ok (nattr_update n newdict s)
          else if is_none n then raise s XGIError
          else ok (nattr_update n newdict (ensure_node n s))) items s.

Definition remove_node (n : lbl) (strong remove_empty : bool) (s : hg) : res :=
  match get n (h_node s) with
  | None => raise s IDNotFound
  | Some es =>
      let s1 := drop_node n s in
      if strong then
        ok (fold_left (fun s e =>
                         let nbrs := getl e (h_edge s) in
                         let s' := drop_edge e s in
                         fold_left (fun s m => node_rem m e s) (sremove n nbrs) s') es s1)
      else
        ok (fold_left (fun s e =>
                         let s' := edge_rem e n s in
                         if (match getl e (h_edge s') with [] => true | _ => false end)
                            && remove_empty && has e (h_edge s')
                         then drop_edge e s' else s') es s1)
  end.

Definition remove_nodes_from (ns : list lbl) (strong remove_empty : bool) (s : hg) : res :=
  loop (fun s n => if has n (h_node s) then remove_node n strong remove_empty s else warn1 s) ns s.

(* set_node_attributes(values: dict, name) *)
Definition set_node_attrs_named (vals : list (lbl * aval)) (name : string) (s : hg) : res :=
  loop (fun s nv =>
          let '(n, v) := nv in
          if has n (h_nattr s) then ok (nattr_update n [(name, v)] s) else warn1 s) vals s.
(* set_node_attributes(values: scalar, name) *)
Definition set_node_attrs_scalar (v : aval) (name : string) (s : hg) : res :=
  ok (fold_left (fun s n => nattr_update n [(name, v)] s) (keys (h_node s)) s).
(* set_node_attributes(values: dict of dicts) *)
Definition set_node_attrs_dict (vals : list (lbl * attrs)) (s : hg) : res :=
  loop (fun s nd =>
          let '(n, d) := nd in
          if has n (h_nattr s) then ok (nattr_update n d s) else warn1 s) vals s.

(* ---------- edges ---------- *)

(* add_edge(members, idx, **attr); members in the iteration order of set(members) *)
Definition add_edge (members : list lbl) (idx : option lbl) (a : attrs) (s : hg) : res :=
  let ms := mkset members in
  if existsb is_none ms then raise s XGIError
  else match idx with
       | Some i =>
           if has i (h_edge s) then warn1 s
           else ok (bump_uid i (insert_edge i ms a s))
       | None =>
           let e := LInt (h_uid s) in
           ok (insert_edge e ms a (with_uid s (h_uid s + 1)))
       end.

Inductive ebunch : Type :=
| EB1 (l : list (list lbl))                     (* [members, ...] *)
| EB2 (l : list (list lbl * lbl))               (* [(members, id), ...] *)
| EB3 (l : list (list lbl * attrs))             (* [(members, attr), ...] *)
| EB4 (l : list (list lbl * lbl * attrs))       (* [(members, id, attr), ...] *)
| EB5 (l : list (lbl * list lbl)).              (* {id: members} *)

(* one item of formats 1-4 once (members, idx, eattr) are known; "explicit" = format 2 or 4 *)
Definition bulk_item (explicit : bool) (a : attrs) (s : hg) (members : list lbl) (idx : lbl)
           (eattr : attrs) : res :=
  if has idx (h_edge s) then warn1 s
  else if existsb is_none (mkset members) then raise s XGIError
  else if is_none idx then raise s XGIError
  else
    let s1 := insert_edge idx members (aupdate a eattr) s in
    ok (if explicit then bump_uid idx s1 else s1).

Definition add_edges_from (eb : ebunch) (a : attrs) (s : hg) : res :=
  match eb with
  | EB5 l =>
      loop (fun s im =>
              let '(idx, members) := im in
              if has idx (h_edge s) then warn1 s
              else if existsb is_none (mkset members) then raise s XGIError
              else if is_none idx then raise s XGIError
              else ok (bump_uid idx (insert_edge idx members [] s))) l s
  | EB1 l =>
      (* an empty first edge is read as a plain edge *)
      loop (fun s members =>
              let idx := LInt (h_uid s) in
              bulk_item false a (with_uid s (h_uid s + 1)) members idx []) l s
  | EB2 l => loop (fun s it => let '(m, i) := it in bulk_item true a s m i []) l s
  | EB3 l =>
      loop (fun s it =>
              let '(m, ea) := it in
              let idx := LInt (h_uid s) in
              bulk_item false a (with_uid s (h_uid s + 1)) m idx ea) l s
  | EB4 l => loop (fun s it => let '(m, i, ea) := it in bulk_item true a s m i ea) l s
  end.

(* add_weighted_edges_from(ebunch, weight, **attr): items are members + [w] *)
Definition add_weighted_edges_from (l : list (list lbl * aval)) (weight : string) (a : attrs)
           (s : hg) : res :=
  add_edges_from (EB3 (map (fun mw => (fst mw, [(weight, snd mw)])) l)) a s.

Definition set_edge_attrs_named (vals : list (lbl * aval)) (name : string) (s : hg) : res :=
  loop (fun s ev =>
          let '(e, v) := ev in
          if has e (h_eattr s) then ok (eattr_update e [(name, v)] s) else warn1 s) vals s.
Definition set_edge_attrs_scalar (v : aval) (name : string) (s : hg) : res :=
  ok (fold_left (fun s e => eattr_update e [(name, v)] s) (keys (h_edge s)) s).
Definition set_edge_attrs_dict (vals : list (lbl * attrs)) (s : hg) : res :=
  loop (fun s ed =>
          let '(e, d) := ed in
          if has e (h_eattr s) then ok (eattr_update e d s) else warn1 s) vals s.

Definition double_edge_swap (n1 n2 e1 e2 : lbl) (s : hg) : res :=
  match get n1 (h_node s), get n2 (h_node s), get e1 (h_edge s), get e2 (h_edge s) with
  | Some ms1, Some ms2, Some m1, Some m2 =>
      (* the copies are modified in this order; a failing .remove raises KeyError -> IDNotFound *)
      if negb (mem n1 m1) then raise s IDNotFound
      else if negb (mem n2 m2) then raise s IDNotFound
      else
        let m1' := sadd n2 (sremove n1 m1) in
        let m2' := sadd n1 (sremove n2 m2) in
        if negb (mem e1 ms1) then raise s IDNotFound
        else if negb (mem e2 ms2) then raise s IDNotFound
        else
          let ms1' := sadd e2 (sremove e1 ms1) in
          let ms2' := sadd e1 (sremove e2 ms2) in
          if negb (Nat.eqb (length ms1') (length ms1)) || negb (Nat.eqb (length ms2') (length ms2))
             || negb (Nat.eqb (length m1') (length m1)) || negb (Nat.eqb (length m2') (length m2))
          then raise s XGIError
          else
            (* four assignments in the code's order; with coinciding arguments later ones win *)
            let s1 := with_node s (set n1 ms1' (h_node s)) in
            let s2 := with_node s1 (set n2 ms2' (h_node s1)) in
            let s3 := with_edge s2 (set e1 m1' (h_edge s2)) in
            ok (with_edge s3 (set e2 m2' (h_edge s3)))
  | _, _, _, _ => raise s IDNotFound
  end.

(* random_edge_shuffle(e_id1, e_id2) with the value returned by random.sample as [sample] *)
Definition random_edge_shuffle (e1 e2 : lbl) (sample : list lbl) (s : hg) : res :=
  if (length (h_edge s) <? 2)%nat then raise s ValueError
  else match get e1 (h_edge s), get e2 (h_edge s) with
       | Some m1, Some m2 =>
           let both := sinter m1 m2 in
           let r1 := sdiff m1 both in
           (* e2 -= nodes_both acts on the same set object when e_id1 == e_id2 *)
           let r2 := if lbl_eqb e1 e2 then sdiff r1 both else sdiff m2 both in
           let r1 := if lbl_eqb e1 e2 then r2 else r1 in
           let nodes := sunion r1 r2 in
           let e1n := mkset sample in
           let e2n := sdiff nodes e1n in
           let s1 := fold_left (fun s n => node_add n e1 (node_rem n e2 s)) (sinter e1n r2) s in
           let s2 := fold_left (fun s n => node_add n e2 (node_rem n e1 s)) (sinter e2n r1) s1 in
           let s3 := with_edge s2 (set e1 (sunion e1n both) (h_edge s2)) in
           ok (with_edge s3 (set e2 (sunion e2n both) (h_edge s3)))
       | _, _ => raise s IDNotFound
       end.

Definition add_node_to_edge (e n : lbl) (s : hg) : res :=
  if negb (has e (h_edge s)) && is_none e then raise s XGIError
  else
    let s1 := if has e (h_edge s) then s
              else bump_uid e (with_eattr (with_edge s (set e [] (h_edge s))) (set e [] (h_eattr s))) in
    if negb (has n (h_node s1)) && is_none n then raise s1 XGIError
    else ok (node_add n e (edge_add e n (ensure_node n s1))).

Definition remove_edge1 (e : lbl) (s : hg) : res :=
  match get e (h_edge s) with
  | None => raise s IDNotFound
  | Some ms => ok (drop_edge e (fold_left (fun s n => node_rem n e s) ms s))
  end.

Definition remove_edges_from (es : list lbl) (s : hg) : res := loop (fun s e => remove_edge1 e s) es s.

Definition remove_node_from_edge (e n : lbl) (remove_empty : bool) (s : hg) : res :=
  if negb (has e (h_edge s)) then raise s XGIError
  else if negb (has n (h_node s)) then raise s XGIError
  else if negb (mem n (getl e (h_edge s))) then raise s XGIError
  else
    let s1 := node_rem n e (edge_rem e n s) in
    ok (if (match getl e (h_edge s1) with [] => true | _ => false end) && remove_empty
        then drop_edge e s1 else s1).

(* update(edges=, nodes=): nodes first, then edges; empty arguments are skipped *)
Definition update (edges : option ebunch) (nodes : list (lbl * option attrs)) (s : hg) : res :=
  bind (match nodes with [] => ok s | _ => add_nodes_from nodes [] s end)
       (fun s => match edges with None => ok s | Some eb => add_edges_from eb [] s end).

Definition clear (remove_net : bool) (s : hg) : res :=
  ok (mkHG [] [] [] [] (if remove_net then [] else h_net s) (h_uid s)).

Definition clear_edges (s : hg) : res :=
  ok (mkHG (map (fun kv => (fst kv, [])) (h_node s)) (h_nattr s) [] [] (h_net s) (h_uid s)).

(* ---------- merge_duplicate_edges ---------- *)

Inductive rename_scheme := RnFirst | RnTuple | RnNew | RnInvalid.
Inductive merge_rule := MrFirst | MrUnion | MrIntersection | MrInvalid.

(* hashes: member set -> ids, in first-occurrence order (a dict keyed by frozenset) *)
Fixpoint group_add (ms : list lbl) (idx : lbl) (g : list (list lbl * list lbl)) :=
  match g with
  | [] => [(ms, [idx])]
  | (m, ids) :: r => if seteqb m ms then (m, ids ++ [idx]) :: r else (m, ids) :: group_add ms idx r
  end.
Definition groups (s : hg) : list (list lbl * list lbl) :=
  fold_left (fun g kv => group_add (snd kv) (fst kv) g) (h_edge s) [].

Fixpoint dedup_avals (l : list aval) : list aval :=
  match l with
  | [] => []
  | x :: xs => if existsb (aval_eqb x) xs then dedup_avals xs else x :: dedup_avals xs
  end.

Definition attr_fields (s : hg) (ids : list lbl) : list string :=
  fold_left (fun acc i =>
               fold_left (fun acc kv => if existsb (String.eqb (fst kv)) acc then acc else acc ++ [fst kv])
                         (geta i (h_eattr s)) acc) ids [].
Definition field_values (s : hg) (ids : list lbl) (f : string) : list aval :=
  dedup_avals (map (fun i => match aget f (geta i (h_eattr s)) with Some v => v | None => ANone end) ids).

(* one group with > 1 ids: the new (members, id, attrs) or an exception; uid threading for "new".
   The evaluation order is the code's: rename first (sorted raises TypeError on mixed kinds),
   then the merge rule (min raises TypeError likewise). *)
Definition merged_edge (rn : rename_scheme) (mr : merge_rule) (mult : option string)
           (s : hg) (ms ids : list lbl) : (hg * (list lbl * lbl * attrs)) + (hg * exc) :=
  let sorted := sort_lbls ids in
  match (match rn with
         | RnFirst => match sorted with Some (f :: _) => inl (s, f) | _ => inr (s, TypeError) end
         | RnTuple => match sorted with Some l => inl (s, LTup l) | None => inr (s, TypeError) end
         | RnNew => inl (with_uid s (h_uid s + 1), LInt (h_uid s))
         | RnInvalid => inr (s, XGIError)
         end) with
  | inr e => inr e
  | inl (s', new_id) =>
      match (match mr with
             | MrFirst => match sorted with
                          | Some (f :: _) => inl (geta f (h_eattr s))
                          | _ => inr (s', TypeError)
                          end
             | MrUnion =>
                 inl (map (fun f => (f, ASet (field_values s ids f))) (attr_fields s ids))
             | MrIntersection =>
                 inl (map (fun f => (f, match field_values s ids f with [v] => v | _ => ANone end))
                          (attr_fields s ids))
             | MrInvalid => inr (s', XGIError)
             end) with
      | inr e => inr e
      | inl na =>
          let na' := match mult with
                     | Some m => aset m (AInt (Z.of_nat (length ids))) na
                     | None => na
                     end in
          inl (s', (ms, new_id, na'))
      end
  end.

Fixpoint merge_collect (rn : rename_scheme) (mr : merge_rule) (mult : option string)
         (g : list (list lbl * list lbl)) (s : hg) (dups : list lbl)
         (new_edges : list (list lbl * lbl * attrs)) : (hg * list lbl * list (list lbl * lbl * attrs)) + (hg * exc) :=
  match g with
  | [] => inl (s, dups, new_edges)
  | (ms, ids) :: r =>
      match ids with
      | _ :: _ :: _ =>
          match merged_edge rn mr mult s ms ids with
          | inr e => inr e
          | inl (s', ne) => merge_collect rn mr mult r s' (dups ++ ids) (new_edges ++ [ne])
          end
      | _ => merge_collect rn mr mult r s dups new_edges
      end
  end.

Definition merge_duplicate_edges (rn : rename_scheme) (mr : merge_rule) (mult : option string)
           (s : hg) : res :=
  match merge_collect rn mr mult (groups s) s [] [] with
  | inr (s', e) => raise s' e
  | inl (s1, dups, new_edges) =>
      bind (remove_edges_from dups s1)
           (fun s2 => bind (match new_edges with
                            | [] => ok s2
                            | _ => add_edges_from (EB4 new_edges) [] s2
                            end)
                           (fun s3 => match mr with MrUnion => warn1 s3 | _ => ok s3 end))
  end.

(* ---------- connected components (used by cleanup / largest_connected_hypergraph) ---------- *)

Definition neighbors (s : hg) (n : lbl) : list lbl :=
  sremove n (fold_left (fun acc e => sunion acc (getl e (h_edge s))) (getl n (h_node s)) []).

(* _plain_bfs with fuel = number of nodes + 1 levels *)
Fixpoint bfs (fuel : nat) (s : hg) (seen level : list lbl) : list lbl :=
  match fuel with
  | O => seen
  | S f =>
      match level with
      | [] => seen
      | _ =>
          let '(seen', next) :=
            fold_left (fun '(sn, nx) v =>
                         if mem v sn then (sn, nx)
                         else (sn ++ [v], sunion nx (neighbors s v))) level (seen, []) in
          bfs f s seen' next
      end
  end.
Definition component (s : hg) (n : lbl) : list lbl :=
  bfs (S (length (h_node s))) s [] [n].

Fixpoint components_aux (fuel : nat) (s : hg) (todo seen : list lbl) : list (list lbl) :=
  match fuel with
  | O => []
  | S f =>
      match todo with
      | [] => []
      | v :: r => if mem v seen then components_aux f s r seen
                  else let c := component s v in c :: components_aux f s r (sunion seen c)
      end
  end.
Definition components (s : hg) : list (list lbl) :=
  components_aux (S (length (h_node s))) s (keys (h_node s)) [].

(* max(..., key=len): the first of maximal length *)
Fixpoint first_longest (l : list (list lbl)) : option (list lbl) :=
  match l with
  | [] => None
  | c :: r => match first_longest r with
              | Some c' => if (length c <? length c')%nat then Some c' else Some c
              | None => Some c
              end
  end.

Definition largest_connected_inplace (s : hg) : res :=
  match first_longest (components s) with
  | None => raise s ValueError
  | Some c => remove_nodes_from (sdiff (keys (h_node s)) c) false true s
  end.

(* ---------- convert_labels_to_integers(net, label_attribute, in_place=True) ---------- *)

Fixpoint index_of (x : lbl) (l : list lbl) (i : Z) : Z :=
  match l with
  | [] => i
  | y :: r => if lbl_eqb x y then i else index_of x r (i + 1)
  end.

Definition relabel_inplace (label_attr : string) (s : hg) : res :=
  let ns := keys (h_node s) in
  let es := keys (h_edge s) in
  let nmap n := LInt (index_of n ns 0) in
  let emap e := LInt (index_of e es 0) in
  let s0 := mkHG [] [] [] [] (h_net s) (h_uid s) in
  bind (add_nodes_from (map (fun n => (nmap n, Some (geta n (h_nattr s)))) ns) [] s0)
  (fun s1 => bind (set_node_attrs_dict (map (fun n => (nmap n, [(label_attr, aval_of_lbl n)])) ns) s1)
  (fun s2 => bind (match es with
                   | [] => ok s2
                   | _ => add_edges_from
                            (EB4 (map (fun e => (map nmap (getl e (h_edge s)), emap e, geta e (h_eattr s))) es))
                            [] s2
                   end)
  (fun s3 => set_edge_attrs_dict (map (fun e => (emap e, [(label_attr, aval_of_lbl e)])) es) s3))).

(* ---------- cleanup(isolates, singletons, multiedges, connected, relabel, in_place=True) ---------- *)

Definition singletons (s : hg) : list lbl :=
  map fst (filter (fun kv => Nat.eqb (length (snd kv)) 1) (h_edge s)).
(* nodes.isolates(ignore_singletons=False): nodes with no memberships *)
Definition isolates (s : hg) : list lbl :=
  map fst (filter (fun kv => match snd kv with [] => true | _ => false end) (h_node s)).

Definition cleanup (iso sing multi conn relabel : bool) (s : hg) : res :=
  bind (if multi then ok s else merge_duplicate_edges RnFirst MrFirst None s)
  (fun s1 => bind (if sing then ok s1 else remove_edges_from (singletons s1) s1)
  (fun s2 => bind (if iso then ok s2 else remove_nodes_from (isolates s2) false true s2)
  (fun s3 => bind (if conn && negb (match h_node s3 with [] => true | _ => false end)
                   then largest_connected_inplace s3 else ok s3)
  (fun s4 => if relabel then relabel_inplace "label" s4 else ok s4)))).

(* ---------- the op alphabet and the step function ---------- *)

Inductive op : Type :=
| OAddNode (n : lbl) (a : attrs)
| OAddNodesFrom (items : list (lbl * option attrs)) (a : attrs)
| ORemoveNode (n : lbl) (strong remove_empty : bool)
| ORemoveNodesFrom (ns : list lbl) (strong remove_empty : bool)
| OSetNodeAttrsNamed (vals : list (lbl * aval)) (name : string)
| OSetNodeAttrsScalar (v : aval) (name : string)
| OSetNodeAttrsDict (vals : list (lbl * attrs))
| OAddEdge (members : list lbl) (idx : option lbl) (a : attrs)
| OAddEdgesFrom (eb : ebunch) (a : attrs)
| OAddWeightedEdgesFrom (l : list (list lbl * aval)) (weight : string) (a : attrs)
| OSetEdgeAttrsNamed (vals : list (lbl * aval)) (name : string)
| OSetEdgeAttrsScalar (v : aval) (name : string)
| OSetEdgeAttrsDict (vals : list (lbl * attrs))
| ODoubleEdgeSwap (n1 n2 e1 e2 : lbl)
| ORandomEdgeShuffle (e1 e2 : lbl) (sample : list lbl)
| OAddNodeToEdge (e n : lbl)
| ORemoveEdge (e : lbl)
| ORemoveEdgesFrom (es : list lbl)
| ORemoveNodeFromEdge (e n : lbl) (remove_empty : bool)
| OUpdate (edges : option ebunch) (nodes : list (lbl * option attrs))
| OClear (remove_net : bool)
| OClearEdges
| OMergeDuplicateEdges (rn : rename_scheme) (mr : merge_rule) (mult : option string)
| OCleanup (iso sing multi conn relabel : bool)
| ORelabel (label_attr : string)
| OLargestCC
| OSetNetAttr (k : string) (v : aval).

Definition step (s : hg) (o : op) : res :=
  match o with
  | OAddNode n a => add_node n a s
  | OAddNodesFrom items a => add_nodes_from items a s
  | ORemoveNode n st re => remove_node n st re s
  | ORemoveNodesFrom ns st re => remove_nodes_from ns st re s
  | OSetNodeAttrsNamed vals name => set_node_attrs_named vals name s
  | OSetNodeAttrsScalar v name => set_node_attrs_scalar v name s
  | OSetNodeAttrsDict vals => set_node_attrs_dict vals s
  | OAddEdge ms idx a => add_edge ms idx a s
  | OAddEdgesFrom eb a => add_edges_from eb a s
  | OAddWeightedEdgesFrom l w a => add_weighted_edges_from l w a s
  | OSetEdgeAttrsNamed vals name => set_edge_attrs_named vals name s
  | OSetEdgeAttrsScalar v name => set_edge_attrs_scalar v name s
  | OSetEdgeAttrsDict vals => set_edge_attrs_dict vals s
  | ODoubleEdgeSwap n1 n2 e1 e2 => double_edge_swap n1 n2 e1 e2 s
  | ORandomEdgeShuffle e1 e2 sample => random_edge_shuffle e1 e2 sample s
  | OAddNodeToEdge e n => add_node_to_edge e n s
  | ORemoveEdge e => remove_edge1 e s
  | ORemoveEdgesFrom es => remove_edges_from es s
  | ORemoveNodeFromEdge e n re => remove_node_from_edge e n re s
  | OUpdate edges nodes => update edges nodes s
  | OClear rn => clear rn s
  | OClearEdges => clear_edges s
  | OMergeDuplicateEdges rn mr mult => merge_duplicate_edges rn mr mult s
  | OCleanup iso sing multi conn relabel => cleanup iso sing multi conn relabel s
  | ORelabel la => relabel_inplace la s
  | OLargestCC => largest_connected_inplace s
  | OSetNetAttr k v => ok (with_net s (aset k v (h_net s)))
  end.

Definition st_of (r : res) : hg := fst (fst r).
Definition run (ops : list op) (s : hg) : hg := fold_left (fun s o => st_of (step s o)) ops s.
