(* C10: Hypergraph(D) for a directed hypergraph D has the nodes and edges of D, every edge holding the union of
   its tail and head, and the attribute dicts and network attributes of D. *)
From Coq Require Import String ZArith List Bool Lia.
From XV Require Import Base.Label Base.LSet Base.ODict Base.Attr Base.Outcome Model.Hypergraph Model.DiHypergraph Model.Copy Model.Convert
     Proofs.HgViews Proofs.HgInv Proofs.HgInvOps Proofs.Build Proofs.DerivedProofs Proofs.DiInv.
Import ListNotations.
Open Scope Z_scope.

Theorem hg_of_di_spec d : DInv d -> NoNone (ts d) ->
  let r := hg_of_di d in
  let t := st_of r in
  Proofs.HgErrors.out_of r = Ok /\ Inv t /\
  nkeys t = nkeys (ts d) /\ ekeys t = ekeys (ts d) /\
  (forall e, In e (ekeys (ts d)) ->
     (exists M, get e (h_edge t) = Some M /\ forall x, In x M <-> In x (tail d e) \/ In x (head d e)) /\
     get e (h_eattr t) = Some (aupdate [] (aupdate [] (geta e (h_eattr (ts d)))))) /\
  (forall n, In n (nkeys (ts d)) -> get n (h_nattr t) = Some (aupdate [] (aupdate [] (geta n (h_nattr (ts d)))))) /\
  h_net t = h_net (ts d).
Proof.
  intros (It & Ih & (An & Ae & _)) (NN & NE). cbv zeta. unfold hg_of_di.
  set (s := ts d) in *.
  pose proof It as (W & (_ & _ & K3 & K4) & _).
  assert (Fn : map fst (node_items s) = nkeys s) by (unfold node_items; rewrite map_map; simpl; apply map_id).
  destruct (build_nodes_effect (node_items s) [] hg_empty Inv_empty) as (O1 & I1 & K1 & E1 & EA1 & NT1 & U1 & New1 & _).
  { rewrite Fn. exact K3. }
  { intros it Hit. unfold node_items in Hit. apply in_map_iff in Hit. destruct Hit as (n & <- & Hn). simpl.
    split; [apply is_none_false; intro; subst; contradiction|intros []]. }
  cbv zeta in *. rewrite Fn in K1. simpl in K1.
  set (eitems := map (fun e => (di_members d e, e, geta e (h_eattr s))) (keys (h_edge s))).
  destruct (bind_ok_st (add_nodes_from (node_items s) [] hg_empty)
              (fun s1 => bind (add_edges_from (EB4 eitems) [] s1) (fun s2 => ok (with_net s2 (h_net s)))) O1) as [B1 B2].
  rewrite B1, B2. set (s1 := st_of (add_nodes_from (node_items s) [] hg_empty)) in *.
  assert (Fe : map item_id eitems = ekeys s) by (unfold eitems; rewrite map_map; simpl; apply map_id).
  assert (Ek1 : ekeys s1 = []) by (unfold ekeys; rewrite E1; reflexivity).
  assert (MemN : forall e x, In x (di_members d e) -> In x (nkeys s)).
  { intros e x Hx. unfold di_members in Hx. apply In_sunion in Hx. destruct Hx as [Hx|Hx].
    - apply (members_are_nodes s e x It). exact Hx.
    - apply An. apply (members_are_nodes (hs d) e x Ih). exact Hx. }
  destruct (build_edges_effect eitems [] s1 I1) as (O2 & W2 & I2 & E2 & Items & _ & NK2 & (l & NP2) & NA2 & NT2).
  { split; [rewrite Fe; exact K4|]. intros it Hit. unfold eitems in Hit. apply in_map_iff in Hit.
    destruct Hit as (e & <- & He). unfold item_id, item_ms. simpl.
    split; [rewrite Ek1; intros []|]. split; [apply is_none_false; intro; subst; contradiction|].
    apply no_none_members. intro Hm. apply NN. apply (MemN e LNone Hm). }
  cbv zeta in *.
  destruct (bind_ok_st (add_edges_from (EB4 eitems) [] s1) (fun s2 => ok (with_net s2 (h_net s))) O2) as [C1 C2].
  rewrite C1, C2. rewrite st_of_ok. set (s2 := st_of (add_edges_from (EB4 eitems) [] s1)) in *.
  assert (Hl : l = []).
  { apply (NoDup_app_absorb (nkeys s1) l).
    - rewrite <- NP2. destruct I2 as (_ & (_ & _ & K3' & _) & _). exact K3'.
    - intros x Hx. assert (Hin : In x (nkeys s2)) by (rewrite NP2; apply in_app_iff; right; exact Hx).
      apply NK2 in Hin. destruct Hin as [H|(it & Hit & Hm)]; [exact H|].
      unfold eitems in Hit. apply in_map_iff in Hit. destruct Hit as (e & <- & He). unfold item_ms in Hm. simpl in Hm.
      rewrite K1. apply (MemN e x Hm). }
  split; [reflexivity|]. split; [apply Inv_with_net; exact I2|].
  split; [change (nkeys s2 = nkeys s); rewrite NP2, Hl, app_nil_r; exact K1|].
  split; [change (ekeys s2 = ekeys s); rewrite E2, Ek1, Fe; reflexivity|].
  split.
  { intros e He. change (h_edge (with_net s2 (h_net s))) with (h_edge s2). change (h_eattr (with_net s2 (h_net s))) with (h_eattr s2).
    destruct (Items (di_members d e, e, geta e (h_eattr s))) as [(M & GM & SM & _) GA].
    { unfold eitems. exact (in_map (fun e => (di_members d e, e, geta e (h_eattr s))) (keys (h_edge s)) e He). }
    unfold item_id, item_ms, item_attr in *. simpl in *. split; [|exact GA].
    exists M. split; [exact GM|]. intro x. rewrite (SM x). unfold di_members. apply In_sunion. }
  split.
  { intros n Hn. change (h_nattr (with_net s2 (h_net s))) with (h_nattr s2).
    rewrite (NA2 n) by (rewrite K1; exact Hn).
    destruct (New1 (n, Some (geta n (h_nattr s)))) as [G _].
    { unfold node_items. exact (in_map (fun n => (n, Some (geta n (h_nattr s)))) (keys (h_node s)) n Hn). }
    exact G. }
  reflexivity.
Qed.
