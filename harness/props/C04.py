"""C04 - automatic edge ids are always fresh; adding never overwrites."""
import random, warnings
from .. import common as C, histcheck as HC, hgsim, provenance as PV
from . import base, C01

PROP = "C04"
COQ_IMPORT = C01.COQ_IMPORT
PROJ = "(mkProj true false true true)"
ADDING = {"add_edge", "add_edges_from", "add_weighted_edges_from", "update", "add_node_to_edge"}


def oracle_history(rec):
    """after an adding call every edge that existed before is still there, in the same relative
    order, with the same members and attributes (add_node_to_edge may grow its own target)"""
    prev = None
    for i, (op, ob) in enumerate(zip(rec["ops"], rec["obs"])):
        if ob.get("broken"):
            return i, "observation failed: " + ob["broken"]
        if prev is not None and op[0] in ADDING:
            old = {repr(e): (ms, a) for (e, ms), a in zip(prev["edges"], prev["eattr"])}
            new = {repr(e): (ms, a) for (e, ms), a in zip(ob["edges"], ob["eattr"])}
            order_old = [repr(e) for e, _ in prev["edges"]]
            order_new = [repr(e) for e, _ in ob["edges"] if repr(e) in old]
            if order_old != order_new:
                return i, f"{op[0]} removed or reordered existing edges {order_old} -> {order_new}"
            for k, (ms, a) in old.items():
                ms2, a2 = new[k]
                if op[0] == "add_node_to_edge" and k == repr(op[1]):
                    if not ms <= ms2 or a != a2:
                        return i, f"add_node_to_edge changed edge {k} other than by adding a member"
                    continue
                if ms != ms2 or a != a2:
                    return i, f"{op[0]} altered existing edge {k}: {sorted(map(repr, ms))} {a} -> {sorted(map(repr, ms2))} {a2}"
        prev = ob
    return None


def _frame_oracle(rec, adding, members_of):
    prev = None
    for i, (op, ob) in enumerate(zip(rec["ops"], rec["obs"])):
        if ob.get("broken"):
            return i, "observation failed: " + ob["broken"]
        if prev is not None and op[0] in adding:
            old = {repr(e): (ms, a) for (e, ms), a in zip(prev["edges"], prev["eattr"])}
            new = {repr(e): (ms, a) for (e, ms), a in zip(ob["edges"], ob["eattr"])}
            order_new = [repr(e) for e, _ in ob["edges"] if repr(e) in old]
            if [repr(e) for e, _ in prev["edges"]] != order_new:
                return i, f"{op[0]} removed or reordered existing edges"
            for k, (ms, a) in old.items():
                ms2, a2 = new[k]
                if op[0] == "add_node_to_edge" and k == repr(op[1]):
                    continue
                if ms != ms2 or a != a2:
                    return i, f"{op[0]} altered existing edge {k}: {ms} {a} -> {ms2} {a2}"
        prev = ob
    return None


def oracle_history_di(rec):
    return _frame_oracle(rec, {"add_edge", "add_edges_from", "add_node_to_edge"}, None)


def oracle_history_sc(rec):
    return _frame_oracle(rec, {"add_simplex", "add_simplices_from", "add_weighted_simplices_from", "add_edge",
                               "add_edges_from", "add_weighted_edges_from", "close"}, None)


def probe_additions(net, rng):
    """Additions (automatic, explicit-existing, explicit-new, automatic again, bulk) on a network
    of any class, always with node labels that are not in the network; returns a description of
    the first overwrite / alteration, or None."""
    kind = PV.kind(net)
    fresh = [1000]
    def members(k):
        out = list(range(fresh[0], fresh[0] + k))
        fresh[0] += k
        return out
    def add(idx=None):
        kw = {} if idx is None else {"idx": idx}
        if kind == "DiHypergraph":
            net.add_edge((members(2), members(1)), **kw)
        elif kind == "SimplicialComplex":
            net.add_simplex(members(rng.randint(2, 3)), **kw)
        else:
            net.add_edge(members(rng.randint(1, 3)), **kw)
    def bulk():
        if kind == "DiHypergraph":
            net.add_edges_from([(members(1), members(1)), (members(1), members(2))])
        elif kind == "SimplicialComplex":
            net.add_simplices_from([members(2), members(3)])
        else:
            net.add_edges_from([members(2), members(3)])
    for what in ("auto", "auto", "explicit-existing", "explicit-new", "auto", "bulk-auto", "auto"):
        before = PV.edge_snapshot(net)
        ids = [e for e, _, _ in before]
        if what == "explicit-existing" and not ids:
            continue
        with warnings.catch_warnings(record=True) as wl:
            warnings.simplefilter("always")
            if what == "auto":
                add()
            elif what == "bulk-auto":
                bulk()
            elif what == "explicit-existing":
                add(idx=rng.choice(ids))
            else:
                int_ids = [i for i in ids if isinstance(i, int) and not isinstance(i, bool)]
                add(idx=(max(int_ids) + 3) if int_ids else 5)
        after = PV.edge_snapshot(net)
        bd = {repr(e): (m, a) for e, m, a in before}
        ad = {repr(e): (m, a) for e, m, a in after}
        if [repr(e) for e, _, _ in before] != [repr(e) for e, _, _ in after if repr(e) in bd]:
            return f"{what} addition removed or reordered existing edges"
        for k, v in bd.items():
            if ad[k] != v:
                return f"{what} addition altered existing edge {k}: {v} -> {ad[k]}"
        if what == "explicit-existing":
            if after != before:
                return "explicit existing id was not refused (network changed)"
            if not any(issubclass(w.category, UserWarning) for w in wl):
                return "explicit existing id was refused without a warning"
        if what in ("auto", "explicit-new", "bulk-auto") and len(after) <= len(before):
            return f"{what} addition did not add an edge"
    return None


def exotic_id_probe():
    """Explicit ids of kinds outside the model's label universe (whole-number floats, numpy scalars,
    bools): checked against the implementation only.  An id that equals an integer as a dict key must
    move the counter past that integer, whatever its Python type."""
    import numpy as np, pandas as pd, xgi, tempfile, os, copy as _copy, pickle as _pickle
    failures = []
    def fail(name, d):
        failures.append((f"{PROP}:exotic-id:{name}:{d.split(' ')[0]}", {"what": f"{name}: {d}", "provenance": "exotic-id:" + name}))
    ids = [("float 2.0", 2.0), ("float 0.0", 0.0), ("numpy.int64(3)", np.int64(3)), ("numpy.float64(1.0)", np.float64(1.0)),
           ("True", True)]
    for cls_name in ("Hypergraph", "DiHypergraph", "SimplicialComplex"):
        for name, idx in ids:
            for how in ("single", "bulk"):
                def build():
                    net = getattr(xgi, cls_name)()
                    if cls_name == "DiHypergraph":
                        if how == "single":
                            net.add_edge(([901], [902]), idx=idx)
                        else:
                            net.add_edges_from([(([901], [902]), idx)])
                    elif cls_name == "SimplicialComplex":
                        if how == "single":
                            net.add_simplex([901, 902], idx=idx)
                        else:
                            net.add_simplices_from([([901, 902], idx)])
                    else:
                        if how == "single":
                            net.add_edge([901, 902], idx=idx)
                        else:
                            net.add_edges_from([([901, 902], idx)])
                    return net
                try:
                    if len(build().edges) == 0:
                        continue      # e.g. a falsy id is ignored by add_simplex
                except Exception:  # noqa: BLE001 - an id kind the library refuses is fine
                    continue
                for via, dup in (("", lambda x: x), (" then pickle", lambda x: _pickle.loads(_pickle.dumps(x))),
                                 (" then deepcopy", _copy.deepcopy), (" then copy.copy", _copy.copy),
                                 (" then .copy()", lambda x: x.copy())):
                    try:
                        with warnings.catch_warnings():
                            warnings.simplefilter("ignore")
                            net2 = dup(build())
                        d = probe_additions(net2, random.Random(3))
                    except Exception as e:  # noqa: BLE001
                        d = f"addition raised {type(e).__name__}: {e}"
                    if d:
                        fail(f"{cls_name} {how} explicit id {name}{via}", d)
    # converters / readers that produce such ids
    try:
        df = pd.DataFrame({"n": [1, 2, 3, 4], "e": [0.0, 0.0, 1.0, 1.0]})
        net = xgi.from_bipartite_pandas_dataframe(df, node_column="n", edge_column="e")
        d = probe_additions(net, random.Random(3))
        if d:
            fail("from_bipartite_pandas_dataframe(float edge column)", d)
    except Exception:  # noqa: BLE001
        pass
    try:
        fd, p = tempfile.mkstemp(suffix=".txt", prefix="xgiverif_"); os.close(fd)
        with open(p, "w") as f:
            f.write("1 0\n2 0\n2 1\n3 1\n")
        net = xgi.read_bipartite_edgelist(p, nodetype=int, edgetype=float)
        os.unlink(p)
        d = probe_additions(net, random.Random(3))
        if d:
            fail("read_bipartite_edgelist(edgetype=float)", d)
    except Exception:  # noqa: BLE001
        pass
    return failures


def provenance_sweep(v, rounds):
    P = PV.provenances()
    rng = random.Random(C.seed() * 7919 + 17)
    failures, skipped, done = [], {}, 0
    samples = []
    for name, make in P.items():
        for k in range(rounds):
            r = random.Random(rng.randrange(2 ** 60))
            try:
                with warnings.catch_warnings():
                    warnings.simplefilter("ignore")
                    net = make(r)
            except Exception as e:  # noqa: BLE001
                skipped[name] = f"{type(e).__name__}: {e}"[:120]
                continue
            if net is None:
                skipped[name] = "returned None"
                continue
            try:
                d = probe_additions(net, r)
            except Exception as e:  # noqa: BLE001
                d = f"addition raised {type(e).__name__}: {e}"
            done += 1
            if d:
                failures.append((f"{PROP}:provenance:{name}:{d.split(' ')[0]}",
                                 {"what": f"network obtained by {name}: {d}", "provenance": name, "round": k,
                                  "seed": C.seed()}))
                break
        if len(samples) < 3:
            samples.append(name)
    return failures, skipped, done, len(P)


def run(v):
    proof = base.proof_stage(v, PROP)
    p = C01.params()
    recs = HC.gen_histories(hgsim, p["n_cases"], p["max_len"], C.seed() + 1, corpus=HC.load_corpus(PROP))
    failures = []
    for r in recs:
        f = oracle_history(r)
        if f:
            i, d = f
            ops = r["ops"][:i + 1]
            failures.append((f"{PROP}:Hypergraph.{ops[-1][0]}:{d.split(' ')[1]}",
                             {"what": d, "history": HC.jsonable(ops), "step": i}))
    mism, errors = HC.eval_histories(PROP, hgsim, recs, COQ_IMPORT, PROJ)
    # the same alphabet with explicit integer ids handed over as numpy integers / whole floats
    hgsim.PRESENT = random.Random(C.seed() * 31 + 4)
    try:
        recs_p = HC.gen_histories(hgsim, max(150, p["n_cases"] // 4), p["max_len"], C.seed() + 3)
        mism_p, errors_p = HC.eval_histories(PROP, hgsim, recs_p, COQ_IMPORT, PROJ)
    finally:
        hgsim.PRESENT = None
    errors += errors_p
    for r in recs_p:
        f = oracle_history(r)
        if f:
            i, d = f
            failures.append((f"{PROP}:Hypergraph.{r['ops'][i][0]}:intlike:{d.split(' ')[1]}",
                             {"what": d + " (explicit integer ids presented as numpy integers / whole floats)",
                              "history": HC.jsonable(r["ops"][:i + 1]), "step": i, "presentation": "intlike"}))
    reports = []
    for ci, si in mism_p[:3]:
        reports.append({"correspondence": f"Model.HgCheck.mismatches {PROJ} (explicit integer ids presented as numpy integers / whole floats)",
                        "history": HC.jsonable(recs_p[ci]["ops"][:si + 1]), "step": si,
                        "implementation_last": HC.jsonable(recs_p[ci]["obs"][min(si, len(recs_p[ci]["obs"]) - 1)])})
    for ci, si in mism[:3]:
        ops = recs[ci]["ops"][:si + 1]
        small = HC.shrink(PROP, hgsim, ops, COQ_IMPORT, PROJ)
        r, mtrace = HC.model_trace(PROP, hgsim, small, COQ_IMPORT)
        f = oracle_history(r)
        if f:
            i, d = f
            failures.append((f"{PROP}:Hypergraph.{small[i][0]}:{d.split(' ')[1]}",
                             {"what": d, "history": HC.jsonable(small[:i + 1]), "step": i}))
        reports.append({"correspondence": f"Model.HgCheck.mismatches {PROJ}", "history": HC.jsonable(small),
                        "implementation_outcomes": r["excs"],
                        "implementation_last": HC.jsonable(r["obs"][-1]), "model_trace": mtrace})
    for ci, si in mism[3:]:
        reports.append({"correspondence": f"Model.HgCheck.mismatches {PROJ}", "case": ci, "step": si,
                        "history": HC.jsonable(recs[ci]["ops"][:si + 1])})
    # the other two classes: correspondence including the next automatic id, and the same oracle
    from .. import disim, scsim
    from . import C02, C03
    extra_cases = 0
    for sim, imp, klass, orc in ((disim, C02.COQ_IMPORT, "DiHypergraph", oracle_history_di),
                                 (scsim, C03.COQ_IMPORT, "SimplicialComplex", oracle_history_sc)):
        recs2 = HC.gen_histories(sim, max(200, p["n_cases"] // 3), p["max_len"], C.seed() + 2)
        extra_cases += len(recs2)
        for r in recs2:
            f = orc(r)
            if f:
                i, d = f
                failures.append((f"{PROP}:{klass}.{r['ops'][i][0]}:{d.split(' ')[1]}",
                                 {"what": d, "class": klass, "history": HC.jsonable(r["ops"][:i + 1]), "step": i}))
        m2, e2 = HC.eval_histories(PROP, sim, recs2, imp, PROJ)
        errors += e2
        for ci, si in m2[:2]:
            small = HC.shrink(PROP, sim, recs2[ci]["ops"][:si + 1], imp, PROJ)
            r, mtrace = HC.model_trace(PROP, sim, small, imp)
            reports.append({"correspondence": f"{imp.split()[-1]}.mismatches {PROJ}", "class": klass,
                            "history": HC.jsonable(small), "implementation_outcomes": r["excs"],
                            "implementation_last": HC.jsonable(r["obs"][-1]), "model_trace": mtrace})
    pf, skipped, done, nprov = provenance_sweep(v, 12 if C.tier() == "thorough" else 3)
    failures += pf
    failures += exotic_id_probe()
    st = HC.stats(recs)
    v.coverage.update({
        "evaluations": len(recs) + len(recs_p) + extra_cases + done,
        "intlike_id_histories": len(recs_p),
        "other_class_histories": extra_cases,
        "distinct_nontrivial": st.pop("distinct_nontrivial"),
        "rule": "Hypergraph edit histories (as C01) compared with the model on edge tables, attribute values, "
                "warnings and the next automatic id; plus every provenance (constructor, converter, reader, "
                "generator, copy, pickle, relabelling; all three classes) followed by automatic / explicit-existing / "
                "explicit-new / bulk additions checked by the oracle; non-trivial = history changes the tables",
        "samples": [HC.jsonable(r["ops"][:6]) for r in recs[:2]] + ["provenance: " + ", ".join(list(PV.provenances())[:8])],
        "provenances": nprov, "provenance_probes": done, "provenances_skipped": skipped,
        "oracle_evaluations": sum(len(r["obs"]) for r in recs) + done * 7,
        "exhaustive": False,
        **st,
    })
    base.conclude(v, proof, reports, failures, errors)


def replay(payload):
    if "provenance" in payload:
        P = PV.provenances()
        rng = random.Random(0)
        for k in range(200):
            r = random.Random(rng.randrange(2 ** 60))
            net = P[payload["provenance"]](r)
            d = probe_additions(net, r)
            if d:
                print("provenance", payload["provenance"], "->", d)
                return 1
        print("no failure reproduced for provenance", payload["provenance"])
        return 0
    return HC.replay_history(PROP, hgsim, payload, COQ_IMPORT, PROJ, oracle_history)
