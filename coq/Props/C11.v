(* C11 - what is written to disk reads back as the same network.
   The files carry the representations of Model/Convert.v (the HIF record, the lines of an edge list,
   the (node, edge) pairs, the incidence matrix); that the bytes on disk are these representations and
   that reading them performs the model's from_* calls is the file-level correspondence (the written
   files are parsed without xgi).  The theorems are the round trips on the representations, for every
   state with the invariant Inv and without the label None (a hypothesis, as in C10). *)
From Coq Require Import String ZArith List Bool.
From XV Require Import Base.Label Base.LSet Base.ODict Base.Attr Base.Outcome Model.Hypergraph Model.HgCheck Model.Convert
  Proofs.HgViews Proofs.HgInv Proofs.HgStep Proofs.HgErrors Proofs.DerivedProofs Proofs.ConvertProofs Proofs.NoNoneProofs Model.Matrix Proofs.IncidenceRoundTrip.
Import ListNotations.
Open Scope Z_scope.

(* read_hif(write_hif(H)): nodes incl. isolated, edges incl. empty, incidences, every attribute dict
   (an empty dict updated with the source's), network attributes *)
Theorem C11_hif_roundtrip : forall s, Inv s -> NoNone s ->
  let r := from_hif (to_hif s) in
  let t := st_of r in
  out_of r = Ok /\ Inv t /\
  (forall n e, In n (mems t e) <-> In n (mems s e)) /\
  (forall x, In x (nkeys t) <-> In x (nkeys s)) /\
  (forall y, In y (ekeys t) <-> In y (ekeys s)) /\
  (forall n, In n (nkeys s) -> geta n (h_nattr t) = aupdate [] (geta n (h_nattr s))) /\
  (forall e, In e (ekeys s) -> geta e (h_eattr t) = aupdate [] (geta e (h_eattr s))) /\
  h_net t = h_net s.
Proof. exact hif_roundtrip. Qed.
Print Assumptions C11_hif_roundtrip.

(* what reading ANY well-formed HIF record builds, whatever the order of its records *)
Theorem C11_from_hif_spec : forall h,
  NoNonePairs (hf_inc h) -> NoDup (map fst (hf_nodes h)) -> (forall r, In r (hf_nodes h) -> fst r <> LNone) ->
  NoDup (map fst (hf_edges h)) ->
  let r := from_hif h in
  let t := st_of r in
  out_of r = Ok /\ Inv t /\
  (forall y x, In x (mems t y) <-> In (x, y) (hf_inc h)) /\
  (forall x, In x (nkeys t) <-> (exists e, In (x, e) (hf_inc h)) \/ In x (map fst (hf_nodes h))) /\
  (forall y, In y (ekeys t) <-> (exists n, In (n, y) (hf_inc h)) \/ In y (map fst (hf_edges h))) /\
  (forall n a, In (n, a) (hf_nodes h) -> geta n (h_nattr t) = aupdate [] a) /\
  (forall x, ~ In x (map fst (hf_nodes h)) -> geta x (h_nattr t) = []) /\
  (forall e a, In (e, a) (hf_edges h) -> geta e (h_eattr t) = aupdate [] a) /\
  (forall y, ~ In y (map fst (hf_edges h)) -> geta y (h_eattr t) = []) /\
  h_net t = hf_net h.
Proof. exact from_hif_spec. Qed.
Print Assumptions C11_from_hif_spec.

(* read_edgelist(write_edgelist(H)): the same member sets in the same order *)
Theorem C11_edgelist_roundtrip : forall s, Inv s -> NoNone s ->
  let r := from_edge_lines (to_hyperedge_list s) in
  let t := st_of r in
  out_of r = Ok /\ Inv t /\
  ekeys t = map (fun j => LInt (Z.of_nat j)) (seq 0 (length (h_edge s))) /\
  (forall j, (j < length (h_edge s))%nat -> seteq (mems t (LInt (Z.of_nat j))) (snd (nth j (h_edge s) (LNone, [])))).
Proof. exact edge_lines_roundtrip. Qed.
Print Assumptions C11_edgelist_roundtrip.

(* read_bipartite_edgelist(write_bipartite_edgelist(H)): exactly the same incidences *)
Theorem C11_bipartite_file_roundtrip : forall s, Inv s -> NoNone s ->
  let r := add_pairs (to_bipartite_edgelist s) hg_empty in
  out_of r = Ok /\ forall n e, In n (mems (st_of r) e) <-> In n (mems s e).
Proof.
  intros s I NN. cbv zeta. pose proof I as (_ & (_ & _ & _ & Ke) & _).
  destruct (add_pairs_effect (to_bipartite_edgelist s) hg_empty (NoNonePairs_bip s I NN)) as [O1 M1].
  split; [exact O1|]. intros n e. rewrite M1, (In_bipartite_edgelist s n e Ke). split; [intros [H|[]]; exact H|auto].
Qed.
Print Assumptions C11_bipartite_file_roundtrip.

(* read_incidence_matrix(write_incidence_matrix(H)): row i <-> node i, column j <-> edge j, exactly
   the incidences (the matrix has at least one row and one column) *)
Theorem C11_incidence_file_roundtrip : forall s, Inv s -> h_edge s <> [] -> h_node s <> [] ->
  let r := from_incidence_matrix (incidence s None) None in
  let t := st_of r in
  out_of r = Ok /\
  forall i j, (i < length (h_node s))%nat -> (j < length (h_edge s))%nat ->
    (In (LInt (Z.of_nat i)) (mems t (LInt (Z.of_nat j))) <->
     In (nth i (keys (h_node s)) LNone) (snd (nth j (h_edge s) (LNone, [])))).
Proof. exact incidence_positional_roundtrip. Qed.
Print Assumptions C11_incidence_file_roundtrip.

(* the premises Inv and NoNone hold at every state reachable by an admissible history in which no
   explicit edge id is None (Python cannot pass one: idx=None means "automatic") *)
Theorem C11_premises_reachable : forall ops,
  admissible_history hg_empty ops -> expressible_history ops ->
  Inv (run ops hg_empty) /\ NoNone (run ops hg_empty).
Proof. intros ops A E. apply run_NoNone; [exact A|exact E|apply Inv_empty|apply NoNone_empty]. Qed.
Print Assumptions C11_premises_reachable.

Example C11_nonvacuous :
  let s := run [OAddEdgesFrom (EB1 [[LInt 1; LInt 2; LInt 3]; []; [LInt 3; LInt 4]]) []; OAddNode (LInt 9) [("c"%string, AInt 1)]] hg_empty in
  h_edge (st_of (from_edge_lines (to_hyperedge_list s))) = h_edge s /\
  get (LInt 1) (h_edge (st_of (from_hif (to_hif s)))) = Some [] /\ h_node (st_of (from_hif (to_hif s))) = h_node s /\
  h_nattr (st_of (from_hif (to_hif s))) = h_nattr s.
Proof. vm_compute. repeat split. Qed.
Print Assumptions C11_nonvacuous.
