(* Correspondence support for the derived networks (C19). *)
From Coq Require Import String ZArith List Bool Lia.
From XV Require Import Base.Label Base.LSet Base.ODict Base.Attr Base.Outcome Model.Hypergraph
  Model.HgCheck Model.SimplicialComplex Model.ScCheck Model.Copy Model.Derived.
Import ListNotations.
Open Scope Z_scope.

Inductive dvop : Type :=
| DvSub (nodes edges : option (list lbl)) (keep_isolates : bool)
| DvDual (nhint : list lbl)
| DvLshift (ops2 : list op)
| DvCut (order : Z)
| DvCleanupCopy (iso sing multi conn relabel : bool)
| DvRelabelCopy (la : string)
| DvLccCopy.

Definition apply_dv (d : dvop) (s : hg) : res :=
  match d with
  | DvSub ns es k => subhypergraph ns es k s
  | DvDual nh => dual nh s
  | DvLshift ops2 => lshift s (run ops2 hg_empty)
  | DvCut o => cut_to_order false o s
  | DvCleanupCopy a b c d e => cleanup_copy a b c d e s
  | DvRelabelCopy la => relabel_copy la s
  | DvLccCopy => lcc_copy s
  end.

(* when the call raises there is no result network: only the exception class is compared *)
Definition dv_match (p : proj) (r : res) (ob : obs) : bool :=
  match snd (fst r) with
  | Ok => obs_match p r ob
  | o => outcome_eqb o (o_out ob)
  end.

Definition dv_mismatch (p : proj) (c : list op * dvop * obs) : bool :=
  let '(ops, d, ob) := c in negb (dv_match p (apply_dv d (run ops hg_empty)) ob).
Definition dv_mismatches p l := where_true (dv_mismatch p) l O.

Inductive scdvop : Type := ScMax | ScSkeleton (order : Z).
Definition apply_scdv (d : scdvop) (s : hg) : res :=
  match d with
  | ScMax => from_max_simplices s
  | ScSkeleton o => cut_to_order true o s
  end.
Definition scdv_mismatch (p : proj) (c : list sop * scdvop * obs) : bool :=
  let '(ops, d, ob) := c in negb (dv_match p (apply_scdv d (srun ops hg_empty)) ob).
Definition scdv_mismatches p l := where_true (scdv_mismatch p) l O.

(* complement: the observed edges as a list of member sets *)
Definition sets_eqb (a b : list (list lbl)) : bool :=
  forallb (fun x => existsb (seteqb x) b) a && forallb (fun x => existsb (seteqb x) a) b
  && Nat.eqb (length a) (length b).
Definition compl_mismatch (c : list op * list (list lbl)) : bool :=
  let '(ops, obs_sets) := c in negb (sets_eqb (complement_sets (run ops hg_empty)) obs_sets).
Definition compl_mismatches l := where_true compl_mismatch l O.
