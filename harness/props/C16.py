"""C16 - generators deliver the structure their parameters promise."""
import itertools, math, os, random, warnings
from .. import common as C, gallina as G
from . import base

PROP = "C16"
IMPORTS = "Base.Label Base.LSet Model.Decoders Model.Simple"


def gnats(l):
    return "[" + "; ".join(f"{int(x)}%nat" for x in l) + "]"


def gnatlists(ll):
    return "[" + "; ".join(gnats(l) for l in ll) + "]"


class DrawRecorder:
    """records the values returned by geometric() inside one generator module"""
    def __init__(self, module):
        self.module = module
        self.draws = []
    def __enter__(self):
        self.orig = self.module.geometric
        rec = self
        def geometric(p):
            g = rec.orig(p)
            rec.draws.append(g)
            return g
        self.module.geometric = geometric
        return self
    def __exit__(self, *a):
        self.module.geometric = self.orig


def members(H):
    return [sorted(H.edges.members(e)) for e in H.edges]


def is_closed(S):
    sims = {frozenset(m) for m in S.edges.members()}
    for m in sims:
        for k in range(2, len(m)):
            for f in itertools.combinations(sorted(m, key=repr), k):
                if frozenset(f) not in sims:
                    return False
    return True


def boundary_sweep():
    """every generator at the boundaries its signature admits (no nodes, one node, probability 0 and 1, the largest
    admissible order, edge size = core size, ...): the call must come back within 5 s, either refusing the input with
    ValueError / XGIError or returning a network whose edges are sets of its own nodes"""
    import signal, networkx as nx, numpy as np, xgi
    fails = []
    def guarded(f, secs=5):
        def _alarm(s, fr): raise TimeoutError("timeout")
        old = signal.signal(signal.SIGALRM, _alarm); signal.alarm(secs)
        try:
            return ("ok", f())
        except TimeoutError:
            return ("TIMEOUT", None)
        except Exception as e:
            return (type(e).__name__, str(e)[:80])
        finally:
            signal.alarm(0); signal.signal(signal.SIGALRM, old)
    calls = []
    for n in (0,1,2,3):
        for m in (1,2,3):
            for p in (0,1,0.5):
                calls.append((f"uniform_erdos_renyi_hypergraph({n},{m},{p})", lambda n=n,m=m,p=p: xgi.uniform_erdos_renyi_hypergraph(n,m,p,seed=1)))
        for ps in ([0.5],[1,1],[0],[1]):
            calls.append((f"random_hypergraph({n},{ps})", lambda n=n,ps=ps: xgi.random_hypergraph(n,ps,seed=1)))
            calls.append((f"fast_random_hypergraph({n},{ps})", lambda n=n,ps=ps: xgi.fast_random_hypergraph(n,ps,seed=1)))
            calls.append((f"random_simplicial_complex({n},{ps})", lambda n=n,ps=ps: xgi.random_simplicial_complex(n,ps,seed=1)))
        for p in (0,1):
            calls.append((f"random_flag_complex({n},{p},2)", lambda n=n,p=p: xgi.random_flag_complex(n,p,max_order=2,seed=1)))
            calls.append((f"random_flag_complex_d2({n},{p})", lambda n=n,p=p: xgi.random_flag_complex_d2(n,p,seed=1)))
        calls.append((f"trivial_hypergraph({n})", lambda n=n: xgi.trivial_hypergraph(n)))
    for a in ((1,1,0),(1,2,1),(2,1,0),(3,3,2),(1,3,0),(1,1,1)):
        calls.append((f"star_clique{a}", lambda a=a: xgi.star_clique(*a)))
    for l in (0,1,2):
        for c in (0,1,2):
            for m in (c, c+1, c+2):
                calls.append((f"sunflower({l},{c},{m})", lambda l=l,c=c,m=m: xgi.sunflower(l,c,m)))
    for a in ((3,2,2,1),(4,2,2,0),(5,3,2,1),(4,2,0,1),(2,2,2,1),(1,2,2,1),(6,3,4,2),(6,2,2,2)):
        calls.append((f"ring_lattice{a}", lambda a=a: xgi.ring_lattice(*a)))
    for a in ((4,2,2,1,0),(4,2,2,1,1),(5,3,2,1,0.5),(6,2,4,0,1)):
        calls.append((f"watts_strogatz_hypergraph{a}", lambda a=a: xgi.watts_strogatz_hypergraph(*a, seed=1)))
    for k,m in (({},2),({0:1,1:1},2),({0:0},2),({0:2,1:2,2:2},3),({0:1},2),({0:3,1:1},2)):
        calls.append((f"config_model({k},{m})", lambda k=k,m=m: xgi.uniform_hypergraph_configuration_model(dict(k),m,seed=1)))
    calls.append(("uniform_HSBM(2,2,ones,[1,1])", lambda: xgi.uniform_HSBM(2,2,np.ones((2,2)),[1,1],seed=1)))
    calls.append(("uniform_HSBM(3,2,zeros,[1,2])", lambda: xgi.uniform_HSBM(3,2,np.zeros((2,2)),[1,2],seed=1)))
    calls.append(("uniform_HPPM(4,2,2,0.5,1.0)", lambda: xgi.uniform_HPPM(4,2,2,0.5,1.0,seed=1)))
    calls.append(("uniform_HPPM(4,2,2,0.5,0.0)", lambda: xgi.uniform_HPPM(4,2,2,0.5,0.0,seed=1)))
    calls.append(("chung_lu({}, {})", lambda: xgi.chung_lu_hypergraph({}, {}, seed=1)))
    calls.append(("chung_lu({0:1},{0:1})", lambda: xgi.chung_lu_hypergraph({0:1},{0:1}, seed=1)))
    for G in (nx.empty_graph(0), nx.empty_graph(1), nx.path_graph(2), nx.complete_graph(3), nx.complete_graph(4)):
        for mo in (1,2,3):
            calls.append((f"flag_complex(n={G.number_of_nodes()},e={G.number_of_edges()},mo={mo})", lambda G=G,mo=mo: xgi.flag_complex(G,max_order=mo)))
        calls.append((f"flag_complex_d2(n={G.number_of_nodes()},e={G.number_of_edges()})", lambda G=G: xgi.flag_complex_d2(G)))
    for name, f in calls:
        with warnings.catch_warnings():
            warnings.simplefilter("ignore")
            st, out = guarded(f)
        if st == "ok":
            try:
                nodes = set(out.nodes)
                if any(not set(m) <= nodes for m in out.edges.members()):
                    fails.append((f"{PROP}:boundary:members", {"what": f"{name}: an edge has members that are not nodes", "generator": name}))
            except Exception as e:  # noqa: BLE001
                fails.append((f"{PROP}:boundary:result", {"what": f"{name}: result cannot be inspected ({type(e).__name__}: {e})", "generator": name}))
        elif st == "TIMEOUT":
            fails.append((f"{PROP}:boundary:timeout:{name.split('(')[0]}", {"what": f"{name} does not terminate (no result after 5 s)", "generator": name}))
        elif st not in ("ValueError", "XGIError"):
            fails.append((f"{PROP}:boundary:{st}:{name.split('(')[0]}", {"what": f"{name} raised {st}: {out}", "generator": name}))
    return fails, len(calls)


def generator_oracle(rng, rounds):
    """the contracts of the property text, checked on parameter grids and seeds"""
    import xgi, networkx as nx, numpy as np
    fails = []
    def bad(name, params, what):
        fails.append((f"{PROP}:{name}:{what.split(' ')[0]}", {"what": f"{name}{params}: {what}", "generator": name, "params": repr(params)}))
    def norepeat(H):
        ms = [frozenset(m) for m in H.edges.members()]
        return len(set(ms)) == len(ms)
    for _ in range(rounds):
        seed = rng.randrange(10 ** 6)
        n = rng.randint(2, 7)
        # uniform Erdos-Renyi
        m = rng.randint(2, min(4, n))
        for p in (0, 1, rng.choice([0.2, 0.5, 0.8])):
            for multi in (False, True):
                params = (n, m, p, multi, seed)
                try:
                    with warnings.catch_warnings():
                        warnings.simplefilter("ignore")
                        H = xgi.uniform_erdos_renyi_hypergraph(n, m, p, multiedges=multi, seed=seed)
                except Exception as e:  # noqa: BLE001
                    bad("uniform_erdos_renyi_hypergraph", params, f"raised {type(e).__name__}: {e}")
                    continue
                if sorted(H.nodes) != list(range(n)):
                    bad("uniform_erdos_renyi_hypergraph", params, f"node set {list(H.nodes)}")
                if any(len(x) != m or not set(x) <= set(range(n)) for x in members(H)):
                    bad("uniform_erdos_renyi_hypergraph", params, "an edge is not a set of m existing nodes")
                if not multi and not norepeat(H):
                    bad("uniform_erdos_renyi_hypergraph", params, "repeated edges")
                if p == 0 and H.num_edges:
                    bad("uniform_erdos_renyi_hypergraph", params, "probability 0 produced edges")
                if p == 1 and not multi and H.num_edges != math.comb(n, m):
                    bad("uniform_erdos_renyi_hypergraph", params, f"probability 1 produced {H.num_edges} of {math.comb(n, m)} edges")
        # random / fast_random
        ps = [rng.choice([0, 1, 0.3, 0.7]) for _ in range(rng.randint(1, 3))]
        for gen in ("fast_random_hypergraph", "random_hypergraph"):
            params = (n, ps, seed)
            try:
                with warnings.catch_warnings():
                    warnings.simplefilter("ignore")
                    H = getattr(xgi, gen)(n, ps, seed=seed)
            except Exception as e:  # noqa: BLE001
                bad(gen, params, f"raised {type(e).__name__}: {e}")
                continue
            if sorted(H.nodes) != list(range(n)):
                bad(gen, params, "node set")
            sizes = [len(x) for x in members(H)]
            if any(s < 2 or s > len(ps) + 1 for s in sizes) or not norepeat(H):
                bad(gen, params, "edge of a size that was not requested, or repeated edges")
            for d, p in enumerate(ps, start=1):
                cnt = sum(1 for s in sizes if s == d + 1)
                if p == 0 and cnt:
                    bad(gen, params, f"probability 0 produced edges of order {d}")
                if p == 1 and cnt != math.comb(n, d + 1):
                    bad(gen, params, f"probability 1 produced {cnt} of {math.comb(n, d + 1)} edges of order {d}")
        # complete hypergraph
        for kw in ({"order": rng.randint(1, 3)}, {"max_order": rng.randint(1, 3)}, {"max_order": 2, "include_singletons": True}):
            try:
                H = xgi.complete_hypergraph(n, **kw)
            except Exception as e:  # noqa: BLE001
                bad("complete_hypergraph", (n, kw), f"raised {type(e).__name__}: {e}")
                continue
            if "order" in kw:
                want = [frozenset(c) for c in itertools.combinations(range(n), kw["order"] + 1)]
            else:
                start = 1 if kw.get("include_singletons") else 2
                want = [frozenset(c) for r in range(start, kw["max_order"] + 2) for c in itertools.combinations(range(n), r)]
            got = [frozenset(x) for x in members(H)]
            if sorted(map(sorted, got)) != sorted(map(sorted, want)) or sorted(H.nodes) != list(range(n)):
                bad("complete_hypergraph", (n, kw), "does not contain each admissible node set exactly once")
        # configuration model
        k = {i: rng.randint(1, 3) for i in range(rng.randint(3, 6))}
        mm = rng.randint(2, 3)
        if sum(k.values()) % mm == 0 and len(k) >= mm:
            kk = dict(k)
            try:
                with warnings.catch_warnings():
                    warnings.simplefilter("ignore")
                    H = xgi.uniform_hypergraph_configuration_model(kk, mm, seed=seed)
                deg = H.nodes.degree.asdict()
                if set(H.nodes) != set(k) or any(deg[i] > k[i] for i in k) or any(len(x) != mm for x in members(H)):
                    bad("uniform_hypergraph_configuration_model", (k, mm, seed), f"degrees {deg} exceed {k} or wrong sizes")
            except Exception as e:  # noqa: BLE001
                bad("uniform_hypergraph_configuration_model", (k, mm, seed), f"raised {type(e).__name__}: {e}")
        # HSBM incl. block probability 1 and 0, for edge sizes 2 and 3: every edge has exactly m distinct nodes, no edge comes from
        # a block tuple of probability 0 only, and every m-set that some ordering places in a block tuple of probability 1 is there
        import itertools as _it
        for m_ in (2, 3):
            sizes_b = [rng.randint(1, 3), rng.randint(1, 3)]
            nn = sum(sizes_b)
            pm = np.array([rng.choice([0, 1, 0.5, 0, 1]) for _ in range(2 ** m_)], dtype=float).reshape((2,) * m_)
            try:
                with warnings.catch_warnings():
                    warnings.simplefilter("ignore")
                    H = xgi.uniform_HSBM(nn, m_, pm, sizes_b, seed=seed)
                ms_ = [frozenset(x) for x in members(H)]
                if sorted(H.nodes) != list(range(nn)) or any(len(x) != m_ or not x <= set(range(nn)) for x in ms_) \
                        or any(len(list(x)) != m_ for x in members(H)):
                    bad("uniform_HSBM", (nn, m_, pm.tolist(), sizes_b, seed), "wrong node set, or an edge without exactly m distinct nodes")
                    continue
                block = lambda v: 0 if v < sizes_b[0] else 1
                def probs(x):
                    return [pm[tuple(block(v) for v in t)] for t in _it.permutations(sorted(x))]
                for x in ms_:
                    if max(probs(x)) == 0:
                        bad("uniform_HSBM", (nn, m_, pm.tolist(), sizes_b, seed), f"edge {set(x)} although every ordering of it lies in a block of probability 0")
                        break
                else:
                    for x in map(frozenset, _it.combinations(range(nn), m_)):
                        if max(probs(x)) == 1 and x not in ms_:
                            bad("uniform_HSBM", (nn, m_, pm.tolist(), sizes_b, seed), f"{set(x)} lies in a block of probability 1 and is not an edge")
                            break
            except Exception as e:  # noqa: BLE001
                bad("uniform_HSBM", (nn, m_, pm.tolist(), sizes_b, seed), f"raised {type(e).__name__}: {e}")
        # lattice / simple
        try:
            kk_ = 2 * rng.randint(1, 2)
            nl = rng.randint(kk_ + 2, kk_ + 5)
            d = rng.randint(2, 3)
            H = xgi.ring_lattice(nl, d, kk_, 1)
            if set(H.nodes) != set(range(nl)) or len(H.nodes) != nl or any(len(x) != d or not set(x) <= set(range(nl)) for x in members(H)):
                bad("ring_lattice", (nl, d, kk_, 1), "wrong node set or edge sizes")
        except Exception as e:  # noqa: BLE001
            bad("ring_lattice", (nl, d, kk_, 1), f"raised {type(e).__name__}: {e}")
        ns, nc, dmax = rng.randint(2, 4), rng.randint(2, 4), rng.randint(1, 2)
        if dmax <= nc - 1:
            H = xgi.star_clique(ns, nc, dmax)
            if H.num_nodes != ns + nc or any(not set(x) <= set(H.nodes) for x in members(H)):
                bad("star_clique", (ns, nc, dmax), "wrong node set")
        npet, ncore, mpet = rng.randint(1, 3), rng.randint(0, 2), rng.randint(2, 4)
        if rng.random() < 0.25:
            mpet = max(ncore, 1)          # the boundary the signature admits: edge size = core size (only m < c is refused)
        if mpet >= ncore:
            import signal
            def _alarm(signum, frame):
                raise TimeoutError("no result after 5 s")
            old_handler = signal.signal(signal.SIGALRM, _alarm)
            signal.alarm(5)
            try:
                H = xgi.sunflower(npet, ncore, mpet)
                ms = members(H)
            except TimeoutError as e:
                H, ms = None, None
                bad("sunflower", (npet, ncore, mpet), f"does not terminate ({e})")
            finally:
                signal.alarm(0)
                signal.signal(signal.SIGALRM, old_handler)
            if ms is not None and (len(ms) != npet or any(len(x) != mpet for x in ms) or
                                   (npet > 1 and len(set.intersection(*map(set, ms))) != ncore)):
                bad("sunflower", (npet, ncore, mpet), f"petals {ms}")
        # simplicial complexes
        try:
            with warnings.catch_warnings():
                warnings.simplefilter("ignore")
                S = xgi.random_simplicial_complex(n, [rng.choice([0, 1, 0.4]), rng.choice([0, 1, 0.3])], seed=seed)
            if sorted(S.nodes) != list(range(n)) or not is_closed(S):
                bad("random_simplicial_complex", (n, seed), "wrong node set or not downward closed")
        except Exception as e:  # noqa: BLE001
            bad("random_simplicial_complex", (n, seed), f"raised {type(e).__name__}: {e}")
        Gx = nx.gnp_random_graph(n, 0.6, seed=seed)
        if rng.random() < 0.6:
            # the same kind of graph with its nodes renamed and its edges inserted in another order and orientation: nothing in
            # "the cliques of the graph" depends on the adjacency dict being sorted
            perm = list(range(n)); rng.shuffle(perm)
            es = [(perm[u], perm[v]) if rng.random() < 0.5 else (perm[v], perm[u]) for u, v in Gx.edges]
            rng.shuffle(es)
            G2 = nx.Graph()
            if rng.random() < 0.5:
                G2.add_nodes_from(perm)
            G2.add_edges_from(es)
            G2.add_nodes_from(range(n))
            Gx = G2
        mo = rng.randint(1, 3)
        S = xgi.flag_complex(Gx, max_order=mo)
        cl = {frozenset(c) for c in nx.enumerate_all_cliques(Gx) if 2 <= len(c) <= mo + 1}
        got = {frozenset(x) for x in members(S) if len(x) >= 2}
        if got != cl or not is_closed(S):
            bad("flag_complex", (list(Gx.nodes), list(Gx.edges), mo), "simplices are not exactly the cliques up to the maximum order")
        # probabilistic promotion of cliques: probability 0 promotes none, 1 (or no probability) all
        tri = {frozenset(c) for c in nx.enumerate_all_cliques(Gx) if len(c) == 3}
        gedges = {frozenset(e) for e in Gx.edges}
        for p2 in (None, 0, 1, 0.0, 1.0, 0.5):
            try:
                with warnings.catch_warnings():
                    warnings.simplefilter("ignore")
                    S3 = xgi.flag_complex_d2(Gx, p2=p2, seed=seed)
                got3 = {frozenset(x) for x in members(S3)}
                g_tri = {x for x in got3 if len(x) == 3}
                if set(S3.nodes) != set(Gx.nodes) or {x for x in got3 if len(x) == 2} != gedges or not g_tri <= tri \
                   or any(len(x) > 3 for x in got3) or not is_closed(S3):
                    bad("flag_complex_d2", (list(Gx.nodes), list(Gx.edges), p2, seed), "nodes / links are not the graph's, or a filled triangle is not a triangle of the graph")
                elif p2 in (0, 0.0) and g_tri:
                    bad("flag_complex_d2", (list(Gx.nodes), list(Gx.edges), p2, seed), f"probability 0 filled {len(g_tri)} triangles")
                elif (p2 is None or p2 in (1, 1.0)) and g_tri != tri:
                    bad("flag_complex_d2", (list(Gx.nodes), list(Gx.edges), p2, seed), f"probability 1 / None filled {len(g_tri)} of {len(tri)} triangles")
            except Exception as e:  # noqa: BLE001
                bad("flag_complex_d2", (list(Gx.nodes), list(Gx.edges), p2, seed), f"raised {type(e).__name__}: {e}")
        for ps_ in ([0, 0], [1, 1], [0.0], [1.0, 0.0], [0.5, 0.5]):
            try:
                with warnings.catch_warnings():
                    warnings.simplefilter("ignore")
                    S4 = xgi.flag_complex(Gx, max_order=3, ps=ps_, seed=seed)
                got4 = {frozenset(x) for x in members(S4)}
                allcl = {frozenset(c) for c in nx.enumerate_all_cliques(Gx) if 2 <= len(c) <= 4}
                big = {x for x in got4 if len(x) >= 3}
                if set(S4.nodes) != set(Gx.nodes) or {x for x in got4 if len(x) == 2} != gedges or not big <= allcl or not is_closed(S4):
                    bad("flag_complex", (list(Gx.nodes), list(Gx.edges), 3, ps_, seed), "nodes / links are not the graph's, or a simplex is not a clique")
                elif all(q == 0 for q in ps_) and len(ps_) >= 2 and big:
                    bad("flag_complex", (list(Gx.nodes), list(Gx.edges), 3, ps_, seed), f"probabilities 0 promoted {len(big)} cliques")
                elif ps_ == [1, 1] and got4 != allcl:
                    bad("flag_complex", (list(Gx.nodes), list(Gx.edges), 3, ps_, seed), "probabilities 1 did not promote every clique")
                elif ps_ == [1.0, 0.0] and {x for x in got4 if len(x) == 3} != {x for x in allcl if len(x) == 3}:
                    bad("flag_complex", (list(Gx.nodes), list(Gx.edges), 3, ps_, seed), "probability 1 for triangles did not promote every triangle")
                elif ps_ == [1.0, 0.0] and any(len(x) == 4 for x in got4):
                    bad("flag_complex", (list(Gx.nodes), list(Gx.edges), 3, ps_, seed), "probability 0 for 4-cliques promoted one")
            except Exception as e:  # noqa: BLE001
                bad("flag_complex", (list(Gx.nodes), list(Gx.edges), 3, ps_, seed), f"raised {type(e).__name__}: {e}")
        for pe in (0, 1, 0.5):
            try:
                with warnings.catch_warnings():
                    warnings.simplefilter("ignore")
                    S5 = xgi.random_flag_complex(n, pe, max_order=mo, seed=seed)
                got5 = {frozenset(x) for x in members(S5)}
                if sorted(S5.nodes) != list(range(n)) or not is_closed(S5) or any(len(x) > mo + 1 for x in got5):
                    bad("random_flag_complex", (n, pe, mo, seed), "wrong node set, not downward closed or above the maximum order")
                elif pe == 0 and got5:
                    bad("random_flag_complex", (n, pe, mo, seed), "probability 0 produced simplices")
                elif pe == 1 and got5 != {frozenset(c) for r in range(2, mo + 2) for c in itertools.combinations(range(n), r)}:
                    bad("random_flag_complex", (n, pe, mo, seed), "probability 1 did not produce the complete complex")
            except Exception as e:  # noqa: BLE001
                bad("random_flag_complex", (n, pe, mo, seed), f"raised {type(e).__name__}: {e}")
        with warnings.catch_warnings():
            warnings.simplefilter("ignore")
            S2 = xgi.random_flag_complex_d2(n, 0.6, seed=seed)
        if sorted(S2.nodes) != list(range(n)) or not is_closed(S2):
            bad("random_flag_complex_d2", (n, seed), "wrong node set or not downward closed")
    return fails


def run(v):
    import xgi
    from xgi.generators import uniform as U, random as Rm
    proof = base.proof_stage(v, PROP)
    thorough = C.tier() == "thorough"
    rng = random.Random(C.seed() * 13 + 16)
    failures, reports, errors = [], [], []
    # (a) decoder tables, exhaustive on the grid
    nmax = 11 if thorough else 8
    comb_t, prod_t, part_t = [], [], []
    py_bij_fail = None
    with warnings.catch_warnings():
        warnings.simplefilter("ignore")
        for n in range(0, nmax + 1):
            for m in range(0, min(n, 5) + 1):
                tab = [list(U._index_to_edge_comb(i, n, m)) for i in range(math.comb(n, m))]
                comb_t.append((n, m, tab))
                want = [list(c) for c in itertools.combinations(range(n), m)]
                if tab != want and py_bij_fail is None:
                    py_bij_fail = f"_index_to_edge_comb is not the lexicographic enumeration for n={n}, m={m}"
        for n in range(1, 5 if not thorough else 6):
            for m in range(0, 4):
                tab = [list(U._index_to_edge_prod(i, n, m)) for i in range(n ** m)]
                prod_t.append((n, m, tab))
                if sorted(tab) != sorted(map(list, itertools.product(range(n), repeat=m))) and py_bij_fail is None:
                    py_bij_fail = f"_index_to_edge_prod is not a bijection for n={n}, m={m}"
        for sizes in ([2], [2, 3], [3, 1, 2], [2, 2, 2], [1, 4], [3, 3], [2, 3, 2]):
            tot = math.prod(sizes)
            tab = [list(U._index_to_edge_partition(i, sizes, len(sizes))) for i in range(tot)]
            part_t.append((sizes, tab))
            if sorted(tab) != sorted(map(list, itertools.product(*[range(s) for s in sizes]))) and py_bij_fail is None:
                py_bij_fail = f"_index_to_edge_partition is not a bijection for sizes={sizes}"
    if py_bij_fail:
        failures.append((f"{PROP}:decoder:{py_bij_fail.split(' ')[0]}", {"what": py_bij_fail}))
    # (b) generators with recorded draws
    er_cases, fast_cases = [], []
    for _ in range(400 if thorough else 80):
        n = rng.randint(2, 7); m = rng.randint(1, min(4, n)); p = rng.choice([0.15, 0.3, 0.5, 0.7, 0.9]); multi = rng.random() < 0.4
        seed = rng.randrange(10 ** 6)
        with DrawRecorder(U) as rec, warnings.catch_warnings():
            warnings.simplefilter("ignore")
            try:
                H = xgi.uniform_erdos_renyi_hypergraph(n, m, p, multiedges=multi, seed=seed)
            except Exception as e:  # noqa: BLE001
                failures.append((f"{PROP}:uniform_erdos_renyi_hypergraph:raises", {"what": f"raised {type(e).__name__}: {e}", "params": repr((n, m, p, multi, seed))}))
                continue
        if all(isinstance(g, int) for g in rec.draws):
            er_cases.append(((n, m, p, multi, seed), G.gpair(gnats(rec.draws), f"{n}%nat", f"{m}%nat", G.gbool(multi), gnatlists(members(H)))))
    for _ in range(300 if thorough else 60):
        n = rng.randint(2, 7)
        ps = [rng.choice([0, 1, 0.3, 0.6, 0.85]) for _ in range(rng.randint(1, 3))]
        seed = rng.randrange(10 ** 6)
        with DrawRecorder(Rm) as rec, warnings.catch_warnings():
            warnings.simplefilter("ignore")
            try:
                H = xgi.fast_random_hypergraph(n, ps, seed=seed)
            except Exception as e:  # noqa: BLE001
                failures.append((f"{PROP}:fast_random_hypergraph:raises", {"what": f"raised {type(e).__name__}: {e}", "params": repr((n, ps, seed))}))
                continue
        if all(isinstance(g, int) for g in rec.draws):
            spec = "[" + "; ".join(f"({d}%nat, {'PAll' if p == 1 else 'PNone' if p == 0 else 'PSkip'})" for d, p in enumerate(ps, start=1)) + "]"
            fast_cases.append(((n, ps, seed), G.gpair(spec, gnats(rec.draws), f"{n}%nat", gnatlists(members(H)))))
    # complete_hypergraph: the edge list, in order, against the model's
    complete_cases = []
    gopt = lambda x: "None" if x is None else f"(Some {int(x)}%nat)"
    for n in range(0, 7 if thorough else 6):
        for kw in ([{"order": d} for d in range(0, 4)] + [{"max_order": mo} for mo in range(1, 4)] +
                   [{"max_order": mo, "include_singletons": True} for mo in range(0, 4)]):
            try:
                with warnings.catch_warnings():
                    warnings.simplefilter("ignore")
                    H = xgi.complete_hypergraph(n, **kw)
            except Exception as e:  # noqa: BLE001
                failures.append((f"{PROP}:complete_hypergraph:raises", {"what": f"complete_hypergraph({n}, {kw}) raised {type(e).__name__}: {e}"}))
                continue
            if list(H.nodes) != list(range(n)):
                failures.append((f"{PROP}:complete_hypergraph:nodes", {"what": f"complete_hypergraph({n}, {kw}) has nodes {list(H.nodes)}"}))
            obs = [sorted(m) for m in H.edges.members()]
            complete_cases.append(((n, kw), G.gpair(f"{n}%nat", gopt(kw.get("order")), gopt(kw.get("max_order")),
                                                     G.gbool(kw.get("include_singletons", False)), gnatlists(obs))))
    # sunflower: the edge list against the model's, incl. the boundaries l = 0, c = 0, m = c
    sunflower_cases = []
    for l_ in range(0, 4):
        for c_ in range(0, 3):
            for m_ in range(c_, c_ + 3):
                try:
                    with warnings.catch_warnings():
                        warnings.simplefilter("ignore")
                        H = xgi.sunflower(l_, c_, m_)
                except Exception as e:  # noqa: BLE001
                    failures.append((f"{PROP}:sunflower:raises", {"what": f"sunflower({l_}, {c_}, {m_}) raised {type(e).__name__}: {e}"}))
                    continue
                obs = [sorted(x) for x in H.edges.members()]
                sunflower_cases.append(((l_, c_, m_), G.gpair(f"{l_}%nat", f"{c_}%nat", f"{m_}%nat", gnatlists(obs))))
    # star_clique and ring_lattice: the edge lists against the model's
    star_cases, ring_cases = [], []
    for ns_ in range(1, 4):
        for nc_ in range(1, 5):
            for dm_ in range(0, min(nc_ - 1, 3) + 1):
                try:
                    with warnings.catch_warnings():
                        warnings.simplefilter("ignore")
                        H = xgi.star_clique(ns_, nc_, dm_)
                except Exception as e:  # noqa: BLE001
                    failures.append((f"{PROP}:star_clique:raises", {"what": f"star_clique({ns_}, {nc_}, {dm_}) raised {type(e).__name__}: {e}"}))
                    continue
                if sorted(H.nodes) != list(range(ns_ + nc_)):
                    failures.append((f"{PROP}:star_clique:nodes", {"what": f"star_clique({ns_}, {nc_}, {dm_}) has nodes {list(H.nodes)}"}))
                ms_ = [frozenset(x) for x in H.edges.members()]
                want_ = ([frozenset({0, i}) for i in range(1, ns_)] + [frozenset({0, ns_})] +
                         [frozenset(c) for dd in range(1, dm_ + 1) for c in itertools.combinations(range(ns_, ns_ + nc_), dd + 1)])
                if sorted(map(sorted, ms_)) != sorted(map(sorted, want_)):
                    failures.append((f"{PROP}:star_clique:edges", {"what": f"star_clique({ns_}, {nc_}, {dm_}) does not consist of the {ns_ - 1} legs, the link and every set of 2..{dm_ + 1} clique nodes once: {sorted(map(sorted, ms_))}"}))
                star_cases.append(((ns_, nc_, dm_), G.gpair(f"{ns_}%nat", f"{nc_}%nat", f"{dm_}%nat", gnatlists([sorted(x) for x in H.edges.members()]))))
    for n_ in range(3, 8):
        for d_ in (2, 3):
            for k_ in (0, 2, 4):
                for l_ in (0, 1, 2):
                    try:
                        with warnings.catch_warnings():
                            warnings.simplefilter("ignore")
                            H = xgi.ring_lattice(n_, d_, k_, l_)
                    except Exception as e:  # noqa: BLE001
                        failures.append((f"{PROP}:ring_lattice:raises", {"what": f"ring_lattice({n_}, {d_}, {k_}, {l_}) raised {type(e).__name__}: {e}"}))
                        continue
                    if sorted(H.nodes) != list(range(n_)):
                        failures.append((f"{PROP}:ring_lattice:nodes", {"what": f"ring_lattice({n_}, {d_}, {k_}, {l_}) has nodes {sorted(H.nodes)}"}))
                    if d_ == 2 and l_ == 0 and n_ > k_:
                        want_ = sorted(sorted({i, (i + j) % n_}) for i in range(n_) for j in range(1, k_ // 2 + 1))
                        if sorted(sorted(x) for x in H.edges.members()) != want_:
                            failures.append((f"{PROP}:ring_lattice:graph", {"what": f"ring_lattice({n_}, 2, {k_}, 0) is not the ring lattice graph with {k_ // 2} neighbours on either side"}))
                    ring_cases.append(((n_, d_, k_, l_), G.gpair(f"{n_}%nat", f"{d_}%nat", f"{k_}%nat", f"{l_}%nat", gnatlists([sorted(x) for x in H.edges.members()]))))
    cdir = C.cases_dir(PROP)
    body = ("Definition comb_t := [" + ";\n".join(G.gpair(f"{n}%nat", f"{m}%nat", gnatlists(t)) for n, m, t in comb_t) + "].\n"
            "Definition prod_t := [" + ";\n".join(G.gpair(f"{n}%nat", f"{m}%nat", gnatlists(t)) for n, m, t in prod_t) + "].\n"
            "Definition part_t := [" + ";\n".join(G.gpair(gnats(s), gnatlists(t)) for s, t in part_t) + "].\n"
            "Eval vm_compute in (comb_table_bad comb_t ++ prod_table_bad prod_t ++ part_table_bad part_t).\n")
    f1 = os.path.join(cdir, "cases_C16_tables.v"); C.write_case_file(f1, [IMPORTS], body)
    f2 = os.path.join(cdir, "cases_C16_er.v")
    C.write_case_file(f2, [IMPORTS], "Definition cases := [\n" + ";\n".join(t for _, t in er_cases) + "\n].\nEval vm_compute in (er_bad cases).\n")
    f3 = os.path.join(cdir, "cases_C16_fast.v")
    C.write_case_file(f3, [IMPORTS], "Definition cases := [\n" + ";\n".join(t for _, t in fast_cases) + "\n].\nEval vm_compute in (fast_bad cases).\n")
    f4 = os.path.join(cdir, "cases_C16_complete.v")
    C.write_case_file(f4, [IMPORTS], "Definition cases : list (nat * option nat * option nat * bool * list (list nat)) := [\n" +
                      ";\n".join(t for _, t in complete_cases) + "\n].\nEval vm_compute in (complete_bad cases).\n")
    f5 = os.path.join(cdir, "cases_C16_sunflower.v")
    C.write_case_file(f5, [IMPORTS], "Definition cases : list (nat * nat * nat * list (list nat)) := [\n" +
                      ";\n".join(t for _, t in sunflower_cases) + "\n].\nEval vm_compute in (sunflower_bad cases).\n")
    f6 = os.path.join(cdir, "cases_C16_star.v")
    C.write_case_file(f6, [IMPORTS], "Definition cases : list (nat * nat * nat * list (list nat)) := [\n" +
                      ";\n".join(t for _, t in star_cases) + "\n].\nEval vm_compute in (star_clique_bad cases).\n")
    f7 = os.path.join(cdir, "cases_C16_ring.v")
    C.write_case_file(f7, [IMPORTS], "Definition cases : list (nat * nat * nat * nat * list (list nat)) := [\n" +
                      ";\n".join(t for _, t in ring_cases) + "\n].\nEval vm_compute in (ring_lattice_bad cases).\n")
    res = C.run_coq_files([f1, f2, f3, f4, f5, f6, f7])
    for path, keys, what in ((f1, None, "decoder tables"), (f2, er_cases, "uniform_erdos_renyi_hypergraph with recorded draws"),
                             (f3, fast_cases, "fast_random_hypergraph with recorded draws"),
                             (f4, complete_cases, "complete_hypergraph edge list"),
                             (f5, sunflower_cases, "sunflower edge list"), (f6, star_cases, "star_clique edge list"),
                             (f7, ring_cases, "ring_lattice edge list")):
        rc, out = res[path]
        pairs = C.parse_pairs(out) if rc == 0 else None
        if pairs is None:
            errors.append({"file": os.path.basename(path), "rc": rc, "output": out[-1500:]})
            continue
        for a, b in pairs[:4]:
            reports.append({"correspondence": what, "case": (keys[a][0] if keys else {"n_or_len": a, "m_or_total": b})})
    C.clean_cases(cdir)
    ofails = generator_oracle(rng, 60 if thorough else 12)
    failures += ofails
    bfails, nboundary = boundary_sweep()
    failures += bfails
    ndec = sum(len(t) for _, _, t in comb_t) + sum(len(t) for _, _, t in prod_t) + sum(len(t) for _, t in part_t)
    v.coverage.update({
        "evaluations": ndec + len(er_cases) + len(fast_cases) + len(complete_cases),
        "complete_cases": len(complete_cases), "sunflower_cases": len(sunflower_cases), "star_cases": len(star_cases), "ring_cases": len(ring_cases), "boundary_calls": nboundary,
        "distinct_nontrivial": len(comb_t) + len(prod_t) + len(part_t) + len({k for k, _ in er_cases}) + len({repr(k) for k, _ in fast_cases}),
        "rule": f"decoders exhaustively for n <= {nmax}, m <= 5 (combinations), n <= 4, m <= 3 (tuples) and 7 block-size lists; "
                "uniform_erdos_renyi_hypergraph (both multiedge modes) and fast_random_hypergraph re-run in the model from "
                "the recorded geometric draws; oracle: the generator contracts of the property text on parameter grids "
                "incl. p in {0, 1}; distinct = distinct (n, m) tables / parameter tuples",
        "samples": [{"n": 5, "m": 2, "table": comb_t[0][2][:3]}, repr(er_cases[0][0]) if er_cases else None],
        "decoded_indices": ndec, "er_cases": len(er_cases), "fast_cases": len(fast_cases),
        "exhaustive": True,
        "oracle_evaluations": (60 if thorough else 12) * 20,
    })
    base.conclude(v, proof, reports, failures, errors)


def replay(payload):
    print(payload.get("what") or payload)
    return 1
