(* Insertion-ordered dictionaries keyed by labels = association lists (Python dict). *)
From Coq Require Import ZArith List Bool Lia.
From XV Require Import Base.Label Base.LSet.
Import ListNotations.

Section ODict.
  Context {V : Type}.
  Definition odict := list (lbl * V).

  Fixpoint get (k : lbl) (d : odict) : option V :=
    match d with
    | [] => None
    | (k', v) :: r => if lbl_eqb k k' then Some v else get k r
    end.

  (* d[k] = v : keeps the position of an existing key, appends a new one *)
  Fixpoint set (k : lbl) (v : V) (d : odict) : odict :=
    match d with
    | [] => [(k, v)]
    | (k', v') :: r => if lbl_eqb k k' then (k', v) :: r else (k', v') :: set k v r
    end.

  Fixpoint del (k : lbl) (d : odict) : odict :=
    match d with
    | [] => []
    | (k', v') :: r => if lbl_eqb k k' then del k r else (k', v') :: del k r
    end.

  Definition keys (d : odict) : list lbl := map fst d.
  Definition vals (d : odict) : list V := map snd d.
  Definition has (k : lbl) (d : odict) : bool := match get k d with Some _ => true | None => false end.

  Lemma has_In k d : has k d = true <-> In k (keys d).
  Proof.
    unfold has. induction d as [|[k' v'] r IH]; simpl; [split; [discriminate|tauto]|].
    destruct (lbl_eqb_spec k k') as [->|N].
    - split; auto.
    - rewrite IH. split; [auto|]. intros [H|H]; [congruence|auto].
  Qed.

  Lemma has_nIn k d : has k d = false <-> ~ In k (keys d).
  Proof. rewrite <- has_In. destruct (has k d); split; congruence. Qed.

  Lemma get_None k d : get k d = None <-> ~ In k (keys d).
  Proof. rewrite <- has_nIn. unfold has. destruct (get k d); split; congruence. Qed.

  Lemma get_Some_In k d v : get k d = Some v -> In k (keys d).
  Proof. intro H. apply has_In. unfold has. rewrite H. reflexivity. Qed.

  Lemma get_set_same k v d : get k (set k v d) = Some v.
  Proof.
    induction d as [|[k' v'] r IH]; simpl.
    - rewrite lbl_eqb_refl. reflexivity.
    - destruct (lbl_eqb_spec k k') as [->|N]; simpl.
      + rewrite lbl_eqb_refl. reflexivity.
      + destruct (lbl_eqb_spec k k'); [contradiction|]. exact IH.
  Qed.

  Lemma get_set_other k k2 v d : k2 <> k -> get k2 (set k v d) = get k2 d.
  Proof.
    intro N. induction d as [|[k' v'] r IH]; simpl.
    - destruct (lbl_eqb_spec k2 k); [contradiction|reflexivity].
    - destruct (lbl_eqb_spec k k') as [->|N2]; simpl.
      + destruct (lbl_eqb_spec k2 k'); [contradiction|reflexivity].
      + destruct (lbl_eqb k2 k'); [reflexivity|exact IH].
  Qed.

  Lemma get_set k k2 v d : get k2 (set k v d) = if lbl_eqb k2 k then Some v else get k2 d.
  Proof.
    destruct (lbl_eqb_spec k2 k) as [->|N]; [apply get_set_same|apply get_set_other; exact N].
  Qed.

  Lemma keys_set_in k v d : In k (keys d) -> keys (set k v d) = keys d.
  Proof.
    induction d as [|[k' v'] r IH]; simpl; [tauto|]. intro H.
    destruct (lbl_eqb_spec k k') as [->|N]; simpl; [reflexivity|].
    f_equal. apply IH. destruct H; [congruence|assumption].
  Qed.

  Lemma keys_set_nin k v d : ~ In k (keys d) -> keys (set k v d) = keys d ++ [k].
  Proof.
    induction d as [|[k' v'] r IH]; simpl; [reflexivity|]. intro H.
    destruct (lbl_eqb_spec k k') as [->|N]; [exfalso; apply H; auto|]. simpl.
    f_equal. apply IH. intro; apply H; auto.
  Qed.

  Lemma keys_set k v d : keys (set k v d) = if has k d then keys d else keys d ++ [k].
  Proof.
    destruct (has k d) eqn:E.
    - apply keys_set_in. apply has_In. exact E.
    - apply keys_set_nin. apply has_nIn. exact E.
  Qed.

  Lemma In_keys_set x k v d : In x (keys (set k v d)) <-> x = k \/ In x (keys d).
  Proof.
    rewrite keys_set. destruct (has k d) eqn:E.
    - apply has_In in E. split; [auto|]. intros [->|H]; auto.
    - rewrite in_app_iff. simpl. split; intros [H|H]; auto. destruct H as [H|[]]; auto.
  Qed.


  Lemma NoDup_snoc {A} (l : list A) x : NoDup l -> ~ In x l -> NoDup (l ++ [x]).
  Proof.
    induction 1 as [|a l Ha Hl IH]; simpl; intro Hx.
    - constructor; [intros []|constructor].
    - constructor.
      + rewrite in_app_iff. simpl. intros [H|[H|[]]]; [auto|]. subst. apply Hx. auto.
      + apply IH. intro; apply Hx; auto.
  Qed.

  Lemma NoDup_keys_set k v d : NoDup (keys d) -> NoDup (keys (set k v d)).
  Proof.
    intro H. rewrite keys_set. destruct (has k d) eqn:E; [exact H|].
    apply has_nIn in E. apply NoDup_snoc; assumption.
  Qed.

  Lemma keys_del k d : keys (del k d) = sremove k (keys d).
  Proof.
    induction d as [|[k' v'] r IH]; simpl; [reflexivity|].
    destruct (lbl_eqb k k'); simpl; [exact IH|]. f_equal. exact IH.
  Qed.

  Lemma get_del_same k d : get k (del k d) = None.
  Proof.
    induction d as [|[k' v'] r IH]; simpl; [reflexivity|].
    destruct (lbl_eqb_spec k k') as [->|N]; [exact IH|]. simpl.
    destruct (lbl_eqb_spec k k'); [contradiction|exact IH].
  Qed.

  Lemma get_del_other k k2 d : k2 <> k -> get k2 (del k d) = get k2 d.
  Proof.
    intro N. induction d as [|[k' v'] r IH]; simpl; [reflexivity|].
    destruct (lbl_eqb_spec k k') as [->|N2]; simpl.
    - destruct (lbl_eqb_spec k2 k'); [contradiction|exact IH].
    - destruct (lbl_eqb k2 k'); [reflexivity|exact IH].
  Qed.

  Lemma get_del k k2 d : get k2 (del k d) = if lbl_eqb k2 k then None else get k2 d.
  Proof.
    destruct (lbl_eqb_spec k2 k) as [->|N]; [apply get_del_same|apply get_del_other; exact N].
  Qed.

  Lemma In_keys_del x k d : In x (keys (del k d)) <-> x <> k /\ In x (keys d).
  Proof. rewrite keys_del. apply In_sremove. Qed.

  Lemma NoDup_keys_del k d : NoDup (keys d) -> NoDup (keys (del k d)).
  Proof. rewrite keys_del. apply NoDup_sremove. Qed.

  Lemma del_nin k d : ~ In k (keys d) -> del k d = d.
  Proof.
    induction d as [|[k' v'] r IH]; simpl; [reflexivity|]. intro H.
    destruct (lbl_eqb_spec k k') as [->|N]; [exfalso; apply H; auto|].
    f_equal. apply IH. intro; apply H; auto.
  Qed.

  Lemma get_In k d v : get k d = Some v -> In (k, v) d.
  Proof.
    induction d as [|[k' v'] r IH]; simpl; [discriminate|].
    destruct (lbl_eqb_spec k k') as [->|N].
    - intro H. inversion H. auto.
    - auto.
  Qed.

  Lemma In_get k d v : NoDup (keys d) -> In (k, v) d -> get k d = Some v.
  Proof.
    induction d as [|[k' v'] r IH]; simpl; [tauto|].
    intros ND [H|H].
    - inversion H; subst. rewrite lbl_eqb_refl. reflexivity.
    - inversion ND as [|? ? Hn Hr]; subst.
      destruct (lbl_eqb_spec k k') as [->|N].
      + exfalso. apply Hn. change (In (fst (k', v)) (map fst r)). apply in_map. exact H.
      + apply IH; assumption.
  Qed.
End ODict.

Arguments odict : clear implicits.
