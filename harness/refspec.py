"""Documentation-level reference semantics of the Hypergraph edits (C05 oracle).

One-directional state (node -> attrs, edge -> (member set, attrs), network attrs, next id) rebuilt
from the observation before each call; `ref_step` is a direct transcription of the docstrings
(weak/strong removal, remove_empty, attribute precedence in the bulk formats, merge rules, clear,
clear_edges, update, setters).  It is written from the documentation, not from the Coq model, and
is only used to search for failing inputs."""
import copy

LIB = ("XGIError", "IDNotFound")


class Rejected(Exception):
    def __init__(self, classes=LIB):
        self.classes = classes


def state_of(ob):
    return {
        "nodes": {n: dict(a) for (n, _), a in zip(ob["nodes"], ob["nattr"])},
        "edges": {e: (set(ms), dict(a)) for (e, ms), a in zip(ob["edges"], ob["eattr"])},
        "net": dict(ob["net"]),
        "uid": ob["uid"],
    }


def _bump(st, idx):
    if isinstance(idx, int) and not isinstance(idx, bool) and st["uid"] <= idx:
        st["uid"] = idx + 1


def _add_edge(st, members, idx, attrs, warns):
    if None in members:
        raise Rejected()
    if idx is None:
        idx = st["uid"]
        st["uid"] += 1
        auto = True
    else:
        auto = False
        if idx in st["edges"]:
            warns[0] += 1
            return
    for n in members:
        st["nodes"].setdefault(n, {})
    st["edges"][idx] = (set(members), dict(attrs))
    if not auto:
        _bump(st, idx)


def _remove_node(st, n, strong, remove_empty):
    if n not in st["nodes"]:
        raise Rejected()
    del st["nodes"][n]
    for e in list(st["edges"]):
        ms, a = st["edges"][e]
        if n in ms:
            if strong:
                del st["edges"][e]
            else:
                ms.discard(n)
                if not ms and remove_empty:
                    del st["edges"][e]


def ref_step(st, op, extra):
    """returns (state', warnings, exception-classes or None); state' is the state after a possibly
    partial execution, as the documentation implies (items are processed in order)"""
    st = copy.deepcopy(st)
    warns = [0]
    name = op[0]
    try:
        if name == "add_node":
            n, a = op[1], op[2]
            if n is None and n not in st["nodes"]:
                raise Rejected()
            st["nodes"].setdefault(n, {}).update(a)
        elif name == "add_nodes_from":
            for n, d in op[1]:
                if n is None:
                    raise Rejected()
                new = dict(op[2])
                if d is not None:
                    new.update(d)            # the per-node dict takes precedence over **attr
                st["nodes"].setdefault(n, {}).update(new)
        elif name == "remove_node":
            _remove_node(st, op[1], op[2], op[3])
        elif name == "remove_nodes_from":
            for n in op[1]:
                if n not in st["nodes"]:
                    warns[0] += 1
                    continue
                _remove_node(st, n, op[2], op[3])
        elif name == "add_edge":
            _add_edge(st, list(op[1]), op[2], op[3], warns)
        elif name == "add_edges_from":
            fmt, items, kw = op[1], op[2], op[3]
            for it in items:
                if fmt == 1:
                    ms, idx, ea = it, None, {}
                elif fmt == 2:
                    ms, idx, ea = it[0], it[1], {}
                elif fmt == 3:
                    ms, idx, ea = it[0], None, it[1]
                elif fmt == 4:
                    ms, idx, ea = it
                else:
                    idx, ms = it
                    ea = {}
                if fmt != 5:
                    a = dict(kw); a.update(ea)      # the per-edge dict takes precedence
                else:
                    a = {}
                if fmt in (2, 4, 5) and idx is None:
                    if None in st["edges"]:
                        warns[0] += 1
                        continue
                    raise Rejected()
                if fmt in (2, 4, 5) and idx in st["edges"]:
                    warns[0] += 1
                    continue
                if fmt in (1, 3):
                    # automatic id
                    if None in ms:
                        st["uid"] += 1            # the id is drawn before the members are checked
                        raise Rejected()
                    _add_edge(st, list(ms), None, a, warns)
                else:
                    _add_edge(st, list(ms), idx, a, warns)
        elif name == "add_weighted_edges_from":
            for ms, w in op[1]:
                a = dict(op[3]); a[op[2]] = w
                _add_edge(st, list(ms), None, a, warns)
        elif name == "remove_edge":
            if op[1] not in st["edges"]:
                raise Rejected()
            del st["edges"][op[1]]
        elif name == "remove_edges_from":
            for e in op[1]:
                if e not in st["edges"]:
                    raise Rejected()
                del st["edges"][e]
        elif name == "add_node_to_edge":
            e, n = op[1], op[2]
            if e not in st["edges"]:
                if e is None:
                    raise Rejected()
                st["edges"][e] = (set(), {})
                _bump(st, e)
            if n not in st["nodes"]:
                if n is None:
                    raise Rejected()
                st["nodes"][n] = {}
            st["edges"][e][0].add(n)
        elif name == "remove_node_from_edge":
            e, n, re = op[1], op[2], op[3]
            if e not in st["edges"] or n not in st["nodes"] or n not in st["edges"][e][0]:
                raise Rejected()
            st["edges"][e][0].discard(n)
            if not st["edges"][e][0] and re:
                del st["edges"][e]
        elif name in ("set_node_attrs_named", "set_edge_attrs_named"):
            tab = st["nodes"] if name.startswith("set_node") else st["edges"]
            for k, v in dict(op[1]).items():
                if k in tab:
                    (tab[k] if name.startswith("set_node") else tab[k][1])[op[2]] = v
                else:
                    warns[0] += 1
        elif name in ("set_node_attrs_scalar", "set_edge_attrs_scalar"):
            if name.startswith("set_node"):
                for k in st["nodes"]:
                    st["nodes"][k][op[2]] = op[1]
            else:
                for k in st["edges"]:
                    st["edges"][k][1][op[2]] = op[1]
        elif name in ("set_node_attrs_dict", "set_edge_attrs_dict"):
            tab = st["nodes"] if name.startswith("set_node") else st["edges"]
            for k, d in dict(op[1]).items():
                if k in tab:
                    (tab[k] if name.startswith("set_node") else tab[k][1]).update(d)
                else:
                    warns[0] += 1
        elif name == "clear":
            st["nodes"].clear(); st["edges"].clear()
            if op[1]:
                st["net"].clear()
        elif name == "clear_edges":
            st["edges"].clear()
        elif name == "set_net":
            st["net"][op[1]] = op[2]
        elif name == "update":
            for n, _ in op[2]:
                if n is None:
                    raise Rejected()
                st["nodes"].setdefault(n, {})
            if op[1] is not None:
                fmt, items = op[1]
                for it in items:
                    if fmt == 1:
                        _add_edge(st, list(it), None, {}, warns)
                    else:
                        if it[1] in st["edges"]:
                            warns[0] += 1
                            continue
                        _add_edge(st, list(it[0]), it[1], {}, warns)
        elif name == "merge_duplicate_edges":
            rename, rule, mult = op[1], op[2], op[3]
            groups = {}
            for e, (ms, a) in st["edges"].items():
                groups.setdefault(frozenset(ms), []).append(e)
            new = []
            dups = []
            for ms, ids in groups.items():
                if len(ids) < 2:
                    continue
                # unorderable ids: of different kinds, or of one kind but not comparable (tuples with an int here and a tuple
                # there - ids made by earlier rename="tuple" merges); sorted() / min() raise TypeError in the library
                try:
                    sorted(ids)
                    unorderable = False
                except TypeError:
                    unorderable = True
                if rename in ("first", "tuple") or rule == "first":
                    if unorderable:
                        raise Rejected(("TypeError",) if rename in ("first", "tuple", "new") else LIB)
                if rename == "first":
                    nid = sorted(ids)[0]
                elif rename == "tuple":
                    nid = tuple(sorted(ids))
                elif rename == "new":
                    nid = st["uid"]; st["uid"] += 1
                else:
                    raise Rejected()
                if rule == "first":
                    na = dict(st["edges"][min(ids)][1])
                elif rule in ("union", "intersection"):
                    fields = []
                    for i in ids:
                        for f in st["edges"][i][1]:
                            if f not in fields:
                                fields.append(f)
                    vals = {f: {st["edges"][i][1].get(f) for i in ids} for f in fields}
                    if rule == "union":
                        na = vals
                    else:
                        na = {f: (next(iter(v)) if len(v) == 1 else None) for f, v in vals.items()}
                else:
                    raise Rejected()
                if mult is not None:
                    na[mult] = len(ids)
                dups += ids
                new.append((ms, nid, na))
            for e in dups:
                del st["edges"][e]
            for ms, nid, na in new:
                if nid in st["edges"]:
                    warns[0] += 1
                    continue
                st["edges"][nid] = (set(ms), na)
                _bump(st, nid)
            if rule == "union":
                warns[0] += 1
        else:
            return None          # not covered by this reference (cleanup / relabel / lcc: see C19)
    except Rejected as r:
        return st, warns[0], r.classes
    return st, warns[0], None


def compare(st, ob, check_uid=True):
    """description of the first difference between a reference state and an observation"""
    if ob.get("broken"):
        return "observation failed: " + ob["broken"]
    if list(st["nodes"]) != [n for n, _ in ob["nodes"]]:
        return f"node ids/order {list(st['nodes'])} expected, {[n for n, _ in ob['nodes']]} observed"
    for (n, _), a in zip(ob["nodes"], ob["nattr"]):
        if a != st["nodes"][n]:
            return f"attributes of node {n!r}: {st['nodes'][n]} expected, {a} observed"
    if list(st["edges"]) != [e for e, _ in ob["edges"]]:
        return f"edge ids/order {list(st['edges'])} expected, {[e for e, _ in ob['edges']]} observed"
    for (e, ms), a in zip(ob["edges"], ob["eattr"]):
        if set(ms) != st["edges"][e][0]:
            return f"members of edge {e!r}: {st['edges'][e][0]} expected, {set(ms)} observed"
        if a != st["edges"][e][1]:
            return f"attributes of edge {e!r}: {st['edges'][e][1]} expected, {a} observed"
    # memberships are the dual of the members
    for n, es in ob["nodes"]:
        want = {e for e, (ms, _) in st["edges"].items() if n in ms}
        if set(es) != want:
            return f"memberships of node {n!r}: {want} expected, {set(es)} observed"
    if st["net"] != ob["net"]:
        return f"network attributes {st['net']} expected, {ob['net']} observed"
    if check_uid and st["uid"] != ob["uid"]:
        return f"next automatic id {st['uid']} expected, {ob['uid']} observed"
    return None
