(* The breadth-first search used inside the mutating methods (cleanup(connected=True),
   largest_connected_hypergraph in place: Model/Hypergraph.v) also computes the reachability class,
   with the fuel the model gives it; hence the in-place largest component keeps exactly a component. *)
From Coq Require Import String ZArith List Bool Lia.
From XV Require Import Base.Label Base.LSet Base.ODict Base.Attr Base.Outcome Model.Hypergraph Model.Stats Model.Graph
     Proofs.HgViews Proofs.HgInv Proofs.StatsProofs Proofs.GraphProofs.
Import ListNotations.

Lemma neighbors_is_nbrs s n : Hypergraph.neighbors s n = nbrs s n.
Proof. reflexivity. Qed.

Definition scan_step (s : hg) : list lbl * list lbl -> lbl -> list lbl * list lbl :=
  fun pat => match pat with
             | (sn, nx) => fun v => if mem v sn then (sn, nx) else (sn ++ [v], sunion nx (Hypergraph.neighbors s v))
             end.
Definition scan (s : hg) (level : list lbl) (acc : list lbl * list lbl) := fold_left (scan_step s) level acc.

Lemma bfs_unfold f s seen level :
  Hypergraph.bfs (S f) s seen level =
  match level with
  | [] => seen
  | _ => Hypergraph.bfs f s (fst (scan s level (seen, []))) (snd (scan s level (seen, [])))
  end.
Proof.
  cbn [Hypergraph.bfs]. destruct level as [|v l]; [reflexivity|].
  change (fold_left _ (v :: l) (seen, [])) with (scan s (v :: l) (seen, [])).
  destruct (scan s (v :: l) (seen, [])) as [a b]. reflexivity.
Qed.

Lemma scan_spec s : forall level sn nx,
  let r := scan s level (sn, nx) in
  (NoDup sn -> NoDup (fst r)) /\
  (forall x, In x (fst r) <-> In x sn \/ In x level) /\
  (forall y, In y (snd r) -> In y nx \/ exists x, In x level /\ In y (nbrs s x)) /\
  (forall x y, In x level -> ~ In x sn -> In y (nbrs s x) -> In y (snd r)) /\
  (forall y, In y nx -> In y (snd r)) /\
  (length sn <= length (fst r))%nat /\
  (length (fst r) = length sn -> snd r = nx).
Proof.
  induction level as [|v l IH]; intros sn nx; cbv zeta; unfold scan; cbn [fold_left].
  - cbn [fst snd]. split; [auto|]. split; [intro x; split; [auto|intros [H|[]]; exact H]|].
    split; [auto|]. split; [intros x y []|]. split; [auto|]. split; [lia|reflexivity].
  - change (scan_step s (sn, nx) v) with (if mem v sn then (sn, nx) else (sn ++ [v], sunion nx (Hypergraph.neighbors s v))).
    destruct (mem v sn) eqn:E.
    + apply mem_In in E. specialize (IH sn nx). cbv zeta in IH. unfold scan in IH.
      destruct IH as (A & B & C & D & F & G & H).
      split; [exact A|]. split.
      { intro x. rewrite B. split; [intros [K|K]; [left; exact K|right; right; exact K]|].
        intros [K|[<-|K]]; [left; exact K|left; exact E|right; exact K]. }
      split.
      { intros y Hy. destruct (C y Hy) as [K|(x & Hx & K)]; [left; exact K|right; exists x; split; [right; exact Hx|exact K]]. }
      split.
      { intros x y [<-|Hx] Hn Hy; [contradiction|]. apply (D x y Hx Hn Hy). }
      split; [exact F|]. split; [exact G|exact H].
    + apply mem_nIn in E. specialize (IH (sn ++ [v]) (sunion nx (Hypergraph.neighbors s v))). cbv zeta in IH. unfold scan in IH.
      destruct IH as (A & B & C & D & F & G & H).
      split.
      { intro ND. apply A. apply GraphProofs.NoDup_app_in; [exact ND|constructor; [intros []|constructor]|].
        intros x Hx [<-|[]]. contradiction. }
      split.
      { intro x. rewrite B, in_app_iff. cbn [In]. tauto. }
      split.
      { intros y Hy. destruct (C y Hy) as [K|(x & Hx & K)].
        - apply In_sunion in K. destruct K as [K|K]; [left; exact K|right; exists v; split; [left; reflexivity|exact K]].
        - right. exists x. split; [right; exact Hx|exact K]. }
      split.
      { intros x y [<-|Hx] Hn Hy.
        - apply F. apply In_sunion. right. exact Hy.
        - destruct (in_dec lbl_eq_dec x (sn ++ [v])) as [Hi|Hni].
          + apply in_app_iff in Hi. destruct Hi as [Hi|[<-|[]]]; [contradiction|].
            apply F. apply In_sunion. right. exact Hy.
          + apply (D x y Hx Hni Hy). }
      split; [intros y Hy; apply F; apply In_sunion; left; exact Hy|].
      split; [rewrite app_length in G; simpl in G; lia|].
      intro K. rewrite app_length in G. simpl in G. lia.
Qed.

(* soundness for any fuel *)
Lemma old_bfs_sound s v : forall fuel seen level,
  (forall x, In x seen -> Reach s v x) -> (forall x, In x level -> Reach s v x) ->
  forall x, In x (Hypergraph.bfs fuel s seen level) -> Reach s v x.
Proof.
  induction fuel as [|f IH]; intros seen level Hs Hl x Hx; [apply Hs; exact Hx|].
  rewrite bfs_unfold in Hx. destruct level as [|y l]; [apply Hs; exact Hx|].
  destruct (scan_spec s (y :: l) seen []) as (_ & B & C & _).
  revert Hx. apply IH.
  - intros z Hz. apply B in Hz. destruct Hz as [Hz|Hz]; [apply Hs|apply Hl]; exact Hz.
  - intros z Hz. destruct (C z Hz) as [[]|(w & Hw & K)]. eapply Reach_step; [apply Hl; exact Hw|exact K].
Qed.

Definition Covered' (s : hg) (level seen : list lbl) : Prop :=
  forall x y, In x seen -> In y (nbrs s x) -> In y seen \/ In y level.

Lemma old_bfs_closed s (U : list lbl) :
  (forall x y, In y (nbrs s x) -> In y U) ->
  forall fuel seen level,
    NoDup seen -> incl seen U -> incl level U -> Covered' s level seen ->
    (length U + 1 <= fuel + length seen)%nat ->
    let R := Hypergraph.bfs fuel s seen level in
    incl seen R /\ incl level R /\ (forall x y, In x R -> In y (nbrs s x) -> In y R) /\ NoDup R /\ incl R U.
Proof.
  intros HU. induction fuel as [|f IH]; intros seen level Hnd Hsu Hlu Hcov Hfuel R.
  - exfalso. pose proof (NoDup_incl_length Hnd Hsu). simpl in Hfuel. lia.
  - subst R. rewrite bfs_unfold. destruct level as [|y0 l0].
    + split; [apply incl_refl|]. split; [intros z []|]. split; [|split; assumption].
      intros x y Hx Hy. destruct (Hcov x y Hx Hy) as [H|[]]. exact H.
    + set (level := y0 :: l0) in *.
      destruct (scan_spec s level seen []) as (A & B & C & D & _ & G & H).
      set (seen' := fst (scan s level (seen, []))) in *. set (next := snd (scan s level (seen, []))) in *.
      assert (Hnd' : NoDup seen') by (apply A; exact Hnd).
      assert (Hsu' : incl seen' U).
      { intros z Hz. apply B in Hz. destruct Hz as [Hz|Hz]; [apply Hsu|apply Hlu]; exact Hz. }
      assert (Hnu : incl next U).
      { intros z Hz. destruct (C z Hz) as [[]|(w & _ & K)]. eapply HU; exact K. }
      assert (Hcov' : Covered' s next seen').
      { intros x y Hx Hy. apply B in Hx. destruct Hx as [Hx|Hx].
        - destruct (Hcov x y Hx Hy) as [K|K]; left; apply B; [left|right]; exact K.
        - destruct (in_dec lbl_eq_dec x seen) as [Hi|Hni].
          + destruct (Hcov x y Hi Hy) as [K|K]; left; apply B; [left|right]; exact K.
          + right. apply (D x y Hx Hni Hy). }
      destruct (Nat.eq_dec (length seen') (length seen)) as [Eq|Ne].
      * (* nothing new: the next level is empty *)
        rewrite (H Eq). assert (Eb : Hypergraph.bfs f s seen' [] = seen') by (destruct f; reflexivity). rewrite Eb.
        split; [intros z Hz; apply B; left; exact Hz|]. split; [intros z Hz; apply B; right; exact Hz|].
        split; [|split; assumption].
        intros x y Hx Hy. destruct (Hcov' x y Hx Hy) as [K|K]; [exact K|]. rewrite (H Eq) in K. destruct K.
      * destruct (IH seen' next Hnd' Hsu' Hnu Hcov') as (I1 & I2 & I3 & I4 & I5); [lia|].
        split; [intros z Hz; apply I1; apply B; left; exact Hz|].
        split; [intros z Hz; apply I1; apply B; right; exact Hz|].
        split; [exact I3|]. split; assumption.
Qed.

(* the component computed inside the mutating methods is the reachability class *)
Theorem old_component_spec s v x : W1 s -> In v (nkeys s) ->
  (In x (Hypergraph.component s v) <-> Reach s v x).
Proof.
  intros HW Hv. unfold Hypergraph.component. split.
  - apply old_bfs_sound; [intros z []|intros z [<-|[]]; constructor].
  - destruct (old_bfs_closed s (nkeys s) (fun a b H => nbrs_node s a b HW H) (S (length (h_node s))) [] [v])
      as (_ & I2 & I3 & _ & _).
    + constructor.
    + intros z [].
    + intros z [<-|[]]. exact Hv.
    + intros a b [].
    + unfold nkeys, keys. rewrite map_length. simpl. lia.
    + intro H. induction H as [|b c _ IH Hc]; [apply I2; left; reflexivity|]. eapply I3; eassumption.
Qed.

Corollary old_component_agrees s v x : W1 s -> In v (nkeys s) ->
  (In x (Hypergraph.component s v) <-> In x (Graph.component s v)).
Proof. intros HW Hv. rewrite old_component_spec, component_spec by assumption. reflexivity. Qed.

(* ---------- largest_connected_hypergraph(in_place=True) / cleanup(connected=True) ---------- *)
From XV Require Import Proofs.HgInvOps Proofs.HgKeys Proofs.HgErrors.

Lemma components_aux_elems s : forall fuel todo seen c,
  In c (components_aux fuel s todo seen) -> exists v, In v todo /\ c = Hypergraph.component s v.
Proof.
  induction fuel as [|f IH]; intros todo seen c H; [destruct H|]. cbn [components_aux] in H.
  destruct todo as [|v r]; [destruct H|]. destruct (mem v seen).
  - destruct (IH r seen c H) as (w & Hw & E). exists w. split; [right; exact Hw|exact E].
  - destruct H as [<-|H]; [exists v; split; [left; reflexivity|reflexivity]|].
    destruct (IH r _ c H) as (w & Hw & E). exists w. split; [right; exact Hw|exact E].
Qed.

Lemma first_longest_spec (l : list (list lbl)) c : first_longest l = Some c ->
  In c l /\ forall c', In c' l -> (length c' <= length c)%nat.
Proof.
  revert c. induction l as [|x l IH]; intros c H; [discriminate H|]. cbn [first_longest] in H.
  destruct (first_longest l) as [c0|] eqn:E.
  - destruct (IH c0 eq_refl) as [A B]. destruct (length x <? length c0)%nat eqn:L.
    + injection H as <-. split; [right; exact A|]. intros c' [<-|Hc']; [apply Nat.ltb_lt in L; lia|apply B; exact Hc'].
    + injection H as <-. apply Nat.ltb_ge in L. split; [left; reflexivity|].
      intros c' [<-|Hc']; [lia|]. specialize (B c' Hc'). lia.
  - injection H as <-. split; [left; reflexivity|]. intros c' [<-|Hc']; [lia|].
    destruct l as [|y l']; [destruct Hc'|]. cbn [first_longest] in E.
    destruct (first_longest l') as [c1|]; [destruct (length y <? length c1)%nat|]; discriminate E.
Qed.

Lemma remove_node_nkeys n st re s x : has n (h_node s) = true ->
  (In x (nkeys (st_of (remove_node n st re s))) <-> x <> n /\ In x (nkeys s)).
Proof.
  intro Hh. unfold remove_node. unfold has in Hh. destruct (get n (h_node s)) as [es|]; [|discriminate Hh].
  destruct (drop_node_keys n s) as (D & _ & _).
  assert (F1 : forall l s0, nkeys (fold_left (fun s e => let nbrs := getl e (h_edge s) in
                                         let s' := drop_edge e s in
                                         fold_left (fun s m => node_rem m e s) (sremove n nbrs) s') l s0) = nkeys s0).
  { induction l as [|e l IH]; intro s0; [reflexivity|]. cbn [fold_left]. rewrite IH. cbv zeta.
    assert (G : forall ms t, nkeys (fold_left (fun s m => node_rem m e s) ms t) = nkeys t).
    { induction ms as [|m ms IHm]; intro t; [reflexivity|]. cbn [fold_left]. rewrite IHm. apply node_rem_nkeys. }
    rewrite G. reflexivity. }
  assert (F2 : forall l s0, nkeys (fold_left (fun s e => let s' := edge_rem e n s in
                                         if (match getl e (h_edge s') with [] => true | _ => false end) && re && has e (h_edge s')
                                         then drop_edge e s' else s') l s0) = nkeys s0).
  { induction l as [|e l IH]; intro s0; [reflexivity|]. cbn [fold_left]. rewrite IH. cbv zeta.
    destruct ((match getl e (h_edge (edge_rem e n s0)) with [] => true | _ => false end) && re && has e (h_edge (edge_rem e n s0)));
      unfold nkeys, drop_edge, edge_rem; destruct (has e (h_edge s0)); reflexivity. }
  destruct st; rewrite st_of_ok; [rewrite F1|rewrite F2]; apply D.
Qed.

Lemma remove_nodes_from_nkeys st re : forall ns s x,
  In x (nkeys (st_of (remove_nodes_from ns st re s))) <-> In x (nkeys s) /\ ~ In x ns.
Proof.
  unfold remove_nodes_from. induction ns as [|n ns IH]; intros s x.
  - cbn [loop]. rewrite st_of_ok. tauto.
  - cbn [loop]. destruct (has n (h_node s)) eqn:Hh.
    + pose proof (remove_node_nkeys n st re s) as K.
      assert (Eo : Proofs.HgErrors.out_of (remove_node n st re s) = Ok).
      { unfold remove_node. unfold has in Hh. destruct (get n (h_node s)); [|discriminate Hh]. destruct st; reflexivity. }
      destruct (remove_node n st re s) as [[s1 o] w] eqn:E. unfold Proofs.HgErrors.out_of in Eo. cbn [fst snd] in Eo. subst o.
      specialize (IH s1 x). destruct (loop _ ns s1) as [[s2 o2] w2]. unfold st_of in *. cbn [fst] in *.
      rewrite IH. rewrite (K x Hh). cbn [In]. split.
      * intros [[A B] C]. split; [exact B|]. intros [D|D]; [congruence|contradiction].
      * intros [A B]. split; [split; [intro; subst; apply B; left; reflexivity|exact A]|]. intro D. apply B. right; exact D.
    + unfold warn1. specialize (IH s x). destruct (loop _ ns s) as [[s2 o2] w2]. unfold st_of in *. cbn [fst] in *.
      rewrite IH. cbn [In]. split.
      * intros [A B]. split; [exact A|]. intros [D|D]; [|contradiction]. subst x. apply has_nIn in Hh. contradiction.
      * intros [A B]. split; [exact A|]. intro D. apply B. right; exact D.
Qed.

(* the in-place largest component keeps exactly the nodes of one reachability class of maximal size *)
Theorem lcc_inplace_spec s c : Inv s -> first_longest (Hypergraph.components s) = Some c ->
  exists v, In v (nkeys s) /\ (forall x, In x c <-> Reach s v x) /\
            (forall c', In c' (Hypergraph.components s) -> (length c' <= length c)%nat) /\
            forall x, In x (nkeys (st_of (largest_connected_inplace s))) <-> Reach s v x.
Proof.
  intros I Hc. pose proof I as (HW & _). destruct (first_longest_spec _ _ Hc) as [Hin Hmax].
  unfold Hypergraph.components in Hin. destruct (components_aux_elems s _ _ _ _ Hin) as (v & Hv & Ec).
  exists v. split; [exact Hv|]. split.
  - intro x. rewrite Ec. apply old_component_spec; assumption.
  - split; [exact Hmax|]. intro x. unfold largest_connected_inplace. rewrite Hc.
    rewrite remove_nodes_from_nkeys. rewrite In_sdiff. fold (nkeys s).
    rewrite <- (old_component_spec s v x HW Hv), <- Ec. split.
    + intros [A B]. destruct (in_dec lbl_eq_dec x c) as [Hi|Hn]; [exact Hi|]. exfalso. apply B. split; assumption.
    + intro Hx. split.
      * rewrite Ec in Hx. apply (old_component_spec s v x HW Hv) in Hx. apply (Reach_node s v x HW Hv Hx).
      * intros [_ B]. contradiction.
Qed.
