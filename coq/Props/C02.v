(* C02 - directed incidence integrity (tail/head vs out/in) under every history. *)
From Coq Require Import String ZArith List Bool.
From XV Require Import Base.Label Base.LSet Base.ODict Base.Attr Base.Outcome Model.Hypergraph
  Model.HgCheck Model.DiHypergraph Model.DiCheck Model.PyIR Model.PyIRD Gen.DiMutators Proofs.HgViews Proofs.HgInv Proofs.DiInv
  Proofs.DiMutatorSource Proofs.SourceInvDi.
Import ListNotations.

Theorem C02_init_wf : DInv dhg_empty.
Proof. exact DInv_empty. Qed.
Print Assumptions C02_init_wf.

(* one call of any DiHypergraph mutator, returning or raising *)
Theorem C02_step_wf : forall d o, DInv d -> DInv (dst_of (dstep d o)).
Proof. exact dstep_DInv. Qed.
Print Assumptions C02_step_wf.

Theorem C02_history_wf : forall ops, DInv (drun ops dhg_empty).
Proof. intro ops. exact (drun_DInv ops dhg_empty DInv_empty). Qed.
Print Assumptions C02_history_wf.

Theorem C02_prefix_wf : forall ops k, DInv (drun (firstn k ops) dhg_empty).
Proof. intros ops k. exact (drun_prefix_DInv ops k dhg_empty DInv_empty). Qed.
Print Assumptions C02_prefix_wf.

(* tail <-> out-memberships, head <-> in-memberships, nothing dangling in either direction,
   one attribute record per node and per edge *)
Theorem C02_reports : forall d, DInv d ->
  (forall n e, In n (tail d e) <-> In e (out_mships d n)) /\
  (forall n e, In n (head d e) <-> In e (in_mships d n)) /\
  (forall e n, In n (tail d e) \/ In n (head d e) -> In n (nkeys (ts d)) /\ In e (ekeys (ts d))) /\
  (forall n e, In e (out_mships d n) \/ In e (in_mships d n) -> In e (ekeys (ts d)) /\ In n (nkeys (ts d))) /\
  (forall n, In n (nkeys (ts d)) <-> has n (h_nattr (ts d)) = true) /\
  (forall e, In e (ekeys (ts d)) <-> has e (h_eattr (ts d)) = true) /\
  NoDup (nkeys (ts d)) /\ NoDup (ekeys (ts d)) /\
  NoDup (keys (h_nattr (ts d))) /\ NoDup (keys (h_eattr (ts d))).
Proof. exact DInv_reports. Qed.
Print Assumptions C02_reports.

(* THE SOURCE TIE for eight core mutators of DiHypergraph.  Gen/DiMutators.v holds the bodies of add_node, add_node_to_edge,
   remove_edge, remove_edges_from, remove_node_from_edge, clear, add_edge and remove_node (strong and weak; the code deletes the node
   first and skips it afterwards, the model unlinks the edges completely and deletes the node last - the proof shows the two orders
   give the same tables) as programs of a small imperative language,
   regenerated from xgi/core/dihypergraph.py on every run (harness/translate_dimutators.py, fail-closed).  Model/PyIRD.v gives
   their meaning on the two-sided model state: self._node[n]["out"] / self._edge[e]["in"] live on the tail side,
   self._node[n]["in"] / self._edge[e]["out"] on the head side, a key test reads the tail side, creating or deleting a key acts on
   both, lookups of missing keys raise IDNotFound, None keys raise XGIError, set.remove of a missing element raises KeyError, the
   `direction` prologue binds the two side names or raises XGIError, `edge = self._edge[k].copy()` is a snapshot, guards raise or
   warn-and-return.  Running them gives exactly the model's state, outcome and warning count on every state satisfying the class
   invariant (for clear: whenever the head side carries no network attributes; for add_edge: whenever None is not an edge id) *)
Theorem C02_core_mutators_are_source :
  (forall n a d, DInv d -> run_dmethod dsrc_add_node [n] [] DirInvalid a [] d = d_add_node n a d) /\
  (forall e n dir d, DInv d -> run_dmethod dsrc_add_node_to_edge [e; n] [] dir [] [] d = d_add_node_to_edge e n dir d) /\
  (forall e d, DInv d -> run_dmethod dsrc_remove_edge [e] [] DirInvalid [] [] d = d_remove_edge e d) /\
  (forall es d, DInv d -> run_dmethod dsrc_remove_edges_from [] [] DirInvalid [] es d = d_remove_edges_from es d) /\
  (forall e n dir re d, DInv d -> run_dmethod dsrc_remove_node_from_edge [e; n] [re] dir [] [] d = d_remove_node_from_edge e n dir re d) /\
  (forall b d, h_net (hs d) = [] -> run_dmethod dsrc_clear [] [b] DirInvalid [] [] d = d_clear b d) /\
  (forall tl hd idx a d, DInv d -> idx <> Some LNone -> has LNone (h_edge (ts d)) = false ->
     run_dmethod_e dsrc_add_edge_guards1 dsrc_add_edge_guards2 dsrc_add_edge tl hd idx a d = d_add_edge tl hd idx a d) /\
  (forall n strong re d, DInv d -> run_dmethod dsrc_remove_node [n] [strong; re] DirInvalid [] [] d = d_remove_node n strong re d).
Proof.
  split; [exact d_add_node_is_source|]. split; [exact d_add_node_to_edge_is_source|]. split; [exact d_remove_edge_is_source|].
  split; [exact d_remove_edges_from_is_source|]. split; [exact d_remove_node_from_edge_is_source|].
  split; [exact d_clear_is_source|]. split; [exact d_add_edge_is_source|exact d_remove_node_is_source].
Qed.
Print Assumptions C02_core_mutators_are_source.

(* ... and therefore the two-sided invariant holds of the regenerated programs themselves *)
Theorem C02_source_programs_keep_DInv : forall d, DInv d -> h_net (hs d) = [] -> has LNone (h_edge (ts d)) = false ->
  (forall n a, DInv (dst_of (run_dmethod dsrc_add_node [n] [] DirInvalid a [] d))) /\
  (forall e n dir, DInv (dst_of (run_dmethod dsrc_add_node_to_edge [e; n] [] dir [] [] d))) /\
  (forall e, DInv (dst_of (run_dmethod dsrc_remove_edge [e] [] DirInvalid [] [] d))) /\
  (forall es, DInv (dst_of (run_dmethod dsrc_remove_edges_from [] [] DirInvalid [] es d))) /\
  (forall e n dir re, DInv (dst_of (run_dmethod dsrc_remove_node_from_edge [e; n] [re] dir [] [] d))) /\
  (forall b, DInv (dst_of (run_dmethod dsrc_clear [] [b] DirInvalid [] [] d))) /\
  (forall tl hd idx a, idx <> Some LNone ->
     DInv (dst_of (run_dmethod_e dsrc_add_edge_guards1 dsrc_add_edge_guards2 dsrc_add_edge tl hd idx a d))) /\
  (forall n strong re, DInv (dst_of (run_dmethod dsrc_remove_node [n] [strong; re] DirInvalid [] [] d))).
Proof. exact di_source_programs_keep_DInv. Qed.
Print Assumptions C02_source_programs_keep_DInv.

(* the premises are met by the empty network (and DInv is kept by every history: C02_history_wf) *)
Example C02_source_premises_met : DInv dhg_empty /\ h_net (hs dhg_empty) = [] /\ has LNone (h_edge (ts dhg_empty)) = false.
Proof. split; [exact DInv_empty|split; reflexivity]. Qed.
Print Assumptions C02_source_premises_met.

(* non-vacuity: a node in both head and tail of one edge, then a strong removal *)
Definition c02_example_ops : list dop :=
  [DAddEdgesFrom (DB1 [([LInt 1; LInt 2], [LInt 3]); ([LInt 3], [LInt 4]); ([LInt 2], [LInt 2; LInt 5])]) [];
   DAddNodeToEdge (LInt 1) (LInt 6) DirOut;
   DRemoveNode (LInt 1) true true].
Example C02_nonvacuous :
  dwf_b (drun c02_example_ops dhg_empty) = true /\
  keys (h_edge (ts (drun c02_example_ops dhg_empty))) = [LInt 1; LInt 2] /\
  in_mships (drun c02_example_ops dhg_empty) (LInt 3) = [].
Proof. vm_compute. repeat split. Qed.
Print Assumptions C02_nonvacuous.
