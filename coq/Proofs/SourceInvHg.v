(* C01: the class invariant holds of the programs regenerated from the source themselves - a corollary of the
   source ties (the program computes what the model computes) and of the invariant theorems (the model keeps the invariant). *)
From Coq Require Import String ZArith List Bool Lia.
From XV Require Import Base.Label Base.LSet Base.ODict Base.Attr Base.Outcome Model.Hypergraph Model.PyIR
     Gen.Mutators Proofs.HgViews Proofs.HgInv Proofs.HgInvOps Proofs.MutatorSource.
Import ListNotations.
Open Scope Z_scope.

Lemma Inv_KWF_nattr s : Inv s -> keys (h_nattr s) = keys (h_node s).
Proof. intros (_ & (K & _) & _). exact K. Qed.

Lemma Inv_node_keys s : Inv s -> NoDup (keys (h_node s)).
Proof. intros (_ & (_ & _ & K & _) & _). exact K. Qed.

(* running any of the nine regenerated Hypergraph programs on a state with the invariant leaves a state with the invariant,
   whether the program returns or raises *)
Theorem source_programs_keep_Inv s : Inv s -> ~ In LNone (keys (h_node s)) -> has LNone (h_edge s) = false ->
  (forall n a, Inv (st_of (run_method_a src_add_node [n] [] a s))) /\
  (forall e n, Inv (st_of (run_method src_add_node_to_edge [e; n] [] s))) /\
  (forall e, Inv (st_of (run_method src_remove_edge [e] [] s))) /\
  (forall n strong re, Inv (st_of (run_method src_remove_node [n] [strong; re] s))) /\
  (forall e n re, Inv (st_of (run_method src_remove_node_from_edge [e; n] [re] s))) /\
  (forall members idx a, idx <> Some LNone -> Inv (st_of (run_method_m src_add_edge_guards src_add_edge members idx a s))) /\
  (forall es, Inv (st_of (run_method_l src_remove_edges_from es [] s))) /\
  (forall b, Inv (st_of (run_method_l src_clear [] [b] s))) /\
  Inv (st_of (run_method_l src_clear_edges [] [] s)).
Proof.
  intros I NN HN. split; [|split; [|split; [|split; [|split; [|split; [|split; [|split]]]]]]].
  - intros n a. rewrite (add_node_is_source n a s (Inv_KWF_nattr s I)). apply Inv_add_node. exact I.
  - intros e n. rewrite add_node_to_edge_is_source. apply Inv_add_node_to_edge. exact I.
  - intro e. rewrite (remove_edge_is_source e s I). apply Inv_remove_edge1. exact I.
  - intros n st re. rewrite (remove_node_is_source n st re s I). apply Inv_remove_node. exact I.
  - intros e n re. rewrite (remove_node_from_edge_is_source e n re s I). apply Inv_remove_node_from_edge. exact I.
  - intros ms idx a Hi. rewrite (add_edge_is_source ms idx a s Hi HN). apply Inv_add_edge. exact I.
  - intro es. rewrite (remove_edges_from_is_source es s I). apply Inv_remove_edges_from. exact I.
  - intro b. rewrite clear_is_source. apply Inv_clear.
  - rewrite (clear_edges_is_source s (Inv_node_keys s I) NN). apply Inv_clear_edges. exact I.
Qed.

