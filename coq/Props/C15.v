(* C15 - simpliciality measures. *)
From Coq Require Import String ZArith QArith List Bool.
From XV Require Import Base.Label Base.LSet Base.ODict Base.Attr Base.Outcome Model.Hypergraph Model.Hodge
  Model.Simpliciality Proofs.TrieProofs Proofs.SimplicialityMore Proofs.HgInv Proofs.SortProofs Proofs.QuotCount Proofs.EditDistance Proofs.HgStep Proofs.ClosedScores Proofs.FaceEditRange Gen.MaxSubfaces Proofs.SubfacesSource.
Import ListNotations.

(* the prefix tree answers exactly: is the (sorted) word one of the (sorted) inserted words *)
Theorem C15_trie_search : forall ws w,
  tsearch (build_trie ws) w = existsb (fun w' => lbls_eqb (sort_simplex w) (sort_simplex w')) ws.
Proof. exact trie_search. Qed.
Print Assumptions C15_trie_search.

(* an edge counts as a simplex exactly when each of its subsets of at least min_size nodes is one of
   the edges (compared as sorted words), so the simplicial fraction is the share of eligible edges
   all of whose eligible subsets are edges ... *)
Theorem C15_is_simplex_spec : forall ws e k,
  is_simplex (build_trie ws) e k = true <->
  forall f, In f (subsets_between e k (length e)) -> exists w, In w ws /\ sort_simplex f = sort_simplex w.
Proof. exact is_simplex_spec. Qed.
Print Assumptions C15_is_simplex_spec.

(* ... and lies in [0, 1] whenever it is defined *)
Theorem C15_simplicial_fraction_range : forall k excl s q,
  simplicial_fraction k excl s = Some q -> (0 <= q /\ q <= 1)%Q.
Proof. exact simplicial_fraction_range. Qed.
Print Assumptions C15_simplicial_fraction_range.

(* THE COUNT.  The implementation never enumerates the union of missing faces: per maximal edge it adds the
   missing sub-faces and subtracts those already seen inside intersections with earlier maximal edges.
   Theorem: for min_size k >= 1, on any hypergraph satisfying the class invariant whose labels are numbers or
   strings, that loop returns the number of distinct node sets (lists compared as sets; ndist = length of the
   de-duplicated list) among the missing sub-faces of the maximal edges ... *)
Theorem C15_edit_distance_counts : forall s k excl, (1 <= k)%nat -> Inv s -> labels_orderable s ->
  map snd (max_edges s (k + b2n excl)) <> [] ->
  simplicial_edit_distance k excl false s =
  Some (Z.of_nat (ndist (list lbl) seteqb
         (flat_map (fun e => missing_subfaces (build_trie (map snd (edges_geq s k))) e k)
                   (map snd (max_edges s (k + b2n excl))))) # 1).
Proof. exact sed_counts. Qed.
Print Assumptions C15_edit_distance_counts.

(* ... and a node set x belongs to that collection exactly when it has at least k nodes, lies inside some
   maximal edge (of the eligible size) and is not the member set of any edge *)
Theorem C15_missing_sets_are_the_definition : forall s k excl, (1 <= k)%nat -> Inv s -> labels_orderable s ->
  forall x, NoDup x ->
  (memR (list lbl) seteqb x
     (flat_map (fun e => missing_subfaces (build_trie (map snd (edges_geq s k))) e k)
               (map snd (max_edges s (k + b2n excl)))) = true <->
   exists e, In e (map snd (max_edges s (k + b2n excl))) /\ (forall a, In a x -> In a e) /\ (k <= length x)%nat /\
             ~ (exists i w, In (i, w) (h_edge s) /\ seteq x w)).
Proof. exact missing_set_spec. Qed.
Print Assumptions C15_missing_sets_are_the_definition.

(* downward closed (every node set of >= k nodes inside a maximal edge is an edge): distance 0, i.e. score 1 *)
Theorem C15_edit_distance_zero_on_closed : forall s k excl, (1 <= k)%nat -> Inv s -> labels_orderable s ->
  map snd (max_edges s (k + b2n excl)) <> [] ->
  (forall e x, In e (map snd (max_edges s (k + b2n excl))) -> NoDup x -> (forall a, In a x -> In a e) ->
               (k <= length x)%nat -> exists i w, In (i, w) (h_edge s) /\ seteq x w) ->
  simplicial_edit_distance k excl false s = Some (0 # 1).
Proof. exact sed_closed_zero. Qed.
Print Assumptions C15_edit_distance_zero_on_closed.

(* the normalised distance is a share *)
Theorem C15_edit_distance_range : forall s k excl, (1 <= k)%nat -> Inv s -> labels_orderable s ->
  forall q, simplicial_edit_distance k excl true s = Some q -> (0 <= q /\ q <= 1)%Q.
Proof. exact sed_normalised_range. Qed.
Print Assumptions C15_edit_distance_range.

Example C15_nonvacuous :
  let s := run [OAddEdgesFrom (EB1 [[LInt 1; LInt 2; LInt 3]; [LInt 1; LInt 2]; [LInt 3; LInt 4]]) []] hg_empty in
  simplicial_edit_distance 2 true false s = Some (2 # 1)%Q /\
  simplicial_fraction 2 true s = Some (0 # 1)%Q /\
  oq_eqb (mean_face_edit_distance 2 true true s) (Some (2 # 3)%Q) = true.
Proof. vm_compute. repeat split. Qed.
Print Assumptions C15_nonvacuous.

(* the mean face edit distance: 0 (score 1) on downward-closed hypergraphs, and a share when normalised *)
Theorem C15_face_distance_zero_on_closed : forall s k excl, (1 <= k)%nat -> Inv s -> labels_orderable s ->
  (forall e x, In e (map snd (max_edges s (k + b2n excl))) -> NoDup x -> (forall a, In a x -> In a e) ->
               (k <= length x)%nat -> exists i w, In (i, w) (h_edge s) /\ seteq x w) ->
  forall nm q, mean_face_edit_distance k excl nm s = Some q -> (q == 0)%Q.
Proof. exact mfed_closed_zero. Qed.
Print Assumptions C15_face_distance_zero_on_closed.

Theorem C15_face_distance_range : forall k excl s q, (1 <= k)%nat ->
  mean_face_edit_distance k excl true s = Some q -> (0 <= q /\ q <= 1)%Q.
Proof. exact mfed_normalised_range. Qed.
Print Assumptions C15_face_distance_range.

(* the normaliser 2^n - 2 - sum_{1 <= i < k} C(n, i) is the number of node subsets of k .. n-1 nodes *)
Theorem C15_max_subfaces_counts : forall (f : list lbl) k, (1 <= k <= length f)%nat ->
  max_number_of_subfaces k (length f) = Z.of_nat (length (subsets_between f k (length f - 1))).
Proof. exact max_subfaces_counts. Qed.
Print Assumptions C15_max_subfaces_counts.

(* THE SOURCE TIE for the normaliser: Gen/MaxSubfaces.v is regenerated on every run from
   xgi/algorithms/simpliciality.py::_max_number_of_subfaces (harness/translate_subfaces.py, fail-closed) *)
Theorem C15_max_subfaces_is_source : forall k n, max_number_of_subfaces k n = src_max_subfaces k n.
Proof. exact max_number_of_subfaces_is_source. Qed.
Print Assumptions C15_max_subfaces_is_source.

(* the simplicial fraction is 1 on downward-closed hypergraphs *)
Theorem C15_fraction_one_on_closed : forall s k excl, Inv s -> labels_orderable s ->
  closed_above s k (k + b2n excl) -> forall q, simplicial_fraction k excl s = Some q -> (q == 1)%Q.
Proof. exact fraction_closed_one. Qed.
Print Assumptions C15_fraction_one_on_closed.

(* the hypotheses of the counting theorems are met by a reachable state, on which the count is not zero *)
Example C15_count_premises_met :
  let s := run [OAddEdgesFrom (EB1 [[LInt 1; LInt 2; LInt 3]; [LInt 1; LInt 2]; [LInt 3; LInt 4]]) []] hg_empty in
  Inv s /\ labels_orderable s /\ map snd (max_edges s (2 + b2n true)) <> [] /\
  ndist (list lbl) seteqb (flat_map (fun e => missing_subfaces (build_trie (map snd (edges_geq s 2))) e 2)
                                    (map snd (max_edges s (2 + b2n true)))) = 2%nat.
Proof.
  cbv zeta. split; [apply run_Inv; [split; exact I|apply Inv_empty]|].
  split; [|split; [vm_compute; discriminate|vm_compute; reflexivity]].
  apply labels_orderableb_ok. vm_compute. reflexivity.
Qed.
Print Assumptions C15_count_premises_met.
