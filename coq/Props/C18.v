(* C18 - frozen networks cannot be structurally modified. *)
From Coq Require Import String ZArith List Bool.
From XV Require Import Base.Label Base.LSet Base.ODict Base.Attr Base.Outcome Model.Hypergraph
  Model.DiHypergraph Model.SimplicialComplex Model.Freeze Gen.FreezeLists Proofs.FreezeProofs.
Import ListNotations.

(* the lists regenerated from the three freeze() bodies on this run replace every method whose
   body writes the node or edge tables *)
Theorem C18_lists_protect :
  protects required_hg frozen_hg = true /\ protects required_di frozen_di = true /\
  protects required_sc frozen_sc = true.
Proof. vm_compute. repeat split. Qed.
Print Assumptions C18_lists_protect.

(* hence on a frozen network, for every op of the class (direct mutators, compound methods such as
   update / merge_duplicate_edges / cleanup / close, the deprecated aliases and the in-place library
   helpers) and every argument, nodes, edges and memberships are afterwards what they were *)
Theorem C18_frozen_unchanged_hg : forall s o, Same s (st_of (fstep frozen_hg s o)).
Proof. intros s o. apply frozen_hg_unchanged. apply C18_lists_protect. Qed.
Print Assumptions C18_frozen_unchanged_hg.

Theorem C18_frozen_unchanged_di : forall d o, DSame d (dst_of (dfstep frozen_di d o)).
Proof. intros d o. apply frozen_di_unchanged. apply C18_lists_protect. Qed.
Print Assumptions C18_frozen_unchanged_di.

Theorem C18_frozen_unchanged_sc : forall s o, Same s (st_of (sfstep frozen_sc s o)).
Proof. intros s o. apply frozen_sc_unchanged. apply C18_lists_protect. Qed.
Print Assumptions C18_frozen_unchanged_sc.

(* the table-writing methods themselves are refused with the library's error and change nothing *)
Theorem C18_frozen_blocks : forall s o, direct_mutator o = true ->
  fstep frozen_hg s o = (s, Raised XGIError, O).
Proof. intros s o D. apply frozen_hg_blocks; [apply C18_lists_protect|exact D]. Qed.
Print Assumptions C18_frozen_blocks.

(* a network on which freeze() was not called (a fresh copy in particular) runs the ordinary model *)
Theorem C18_unfrozen_is_step :
  (forall s o, fstep [] s o = step s o) /\ (forall d o, dfstep [] d o = dstep d o) /\
  (forall s o, sfstep [] s o = sstep s o).
Proof. split; [exact fstep_nil|split; [exact dfstep_nil|exact sfstep_nil]]. Qed.
Print Assumptions C18_unfrozen_is_step.

(* non-vacuity: the same op changes an unfrozen network and is refused on a frozen one *)
Example C18_nonvacuous :
  let s := run [OAddEdgesFrom (EB1 [[LInt 1; LInt 2]; [LInt 2; LInt 3]]) []] hg_empty in
  keys (h_edge (st_of (fstep [] s OClearEdges))) = [] /\
  fstep frozen_hg s OClearEdges = (s, Raised XGIError, O) /\
  fstep frozen_hg s (OMergeDuplicateEdges RnFirst MrFirst None) = (s, Raised XGIError, O).
Proof. vm_compute. repeat split. Qed.
Print Assumptions C18_nonvacuous.
