(* C16: the hand-written edge-list models of ring_lattice and star_clique are the functions the source defines
   (Gen/SimpleGens.v, regenerated on every run by harness/translate_gens.py). *)
From Coq Require Import List Arith Lia Bool.
From XV Require Import Base.Label Base.LSet Model.Decoders Model.Simple Gen.SimpleGens.
Import ListNotations.

Lemma flat_map_ext' {A B} (f g : A -> list B) l : (forall x, In x l -> f x = g x) -> flat_map f l = flat_map g l.
Proof. induction l as [|a l IH]; intro H; [reflexivity|]. cbn [flat_map]. rewrite (H a (or_introl eq_refl)), IH; [reflexivity|]. intros x Hx. apply H. right. exact Hx. Qed.

Theorem ring_lattice_is_source n d k l : ring_lattice_edges n d k l = src_ring_lattice n d k l.
Proof.
  unfold ring_lattice_edges, src_ring_lattice. apply flat_map_ext'. intros node _.
  replace (node + k / 2 + 1 - (node + 1)) with (k / 2) by lia.
  apply map_ext. intro start. cbn [app]. reflexivity.
Qed.

Theorem star_clique_is_source ns nc dmax : star_clique_edges ns nc dmax = src_star_clique ns nc dmax.
Proof.
  unfold star_clique_edges, src_star_clique. cbn [Nat.add].
  replace (ns + nc - ns) with nc by lia. replace (dmax + 1 - 1) with dmax by lia. replace (ns + 0) with ns by lia.
  f_equal. f_equal. apply flat_map_ext'. intros dd _. rewrite map_id. reflexivity.
Qed.
