(* C15: the simplicial edit distance counts the node sets (of at least min_size nodes) that lie inside a
   maximal edge and are not edges.  The implementation does not enumerate that union: it adds, per
   maximal edge, its missing sub-faces and subtracts those already seen inside the intersections
   with earlier maximal edges.  The theorem says this inclusion-exclusion loop computes the size of
   the union. *)
From Coq Require Import String ZArith QArith List Bool Lia.
From XV Require Import Base.Label Base.LSet Base.ODict Base.Attr Base.Outcome Model.Hypergraph Model.Stats Model.Hodge
  Model.Simpliciality Proofs.Combs Proofs.SortProofs Proofs.HodgeProofs Proofs.TrieProofs Proofs.QuotCount Proofs.DecoderProofs.
Import ListNotations.

(* ---------- node sets as lists modulo seteq ---------- *)
Lemma seteqb_refl x : seteqb x x = true.
Proof. apply seteqb_spec. intro; tauto. Qed.
Lemma seteqb_sym x y : seteqb x y = seteqb y x.
Proof. unfold seteqb. apply andb_comm. Qed.
Lemma seteqb_trans x y z : seteqb x y = true -> seteqb y z = true -> seteqb x z = true.
Proof. rewrite !seteqb_spec. unfold seteq. intros H1 H2 a. rewrite H1. apply H2. Qed.

Notation memS := (memR (list lbl) seteqb).
Notation ndistS := (ndist (list lbl) seteqb).
Notation NoDupS := (NoDupR (list lbl) seteqb).

Lemma dedup_sets_dedupR l : dedup_sets l = dedupR (list lbl) seteqb l.
Proof. induction l as [|a l IH]; [reflexivity|]. cbn [dedup_sets dedupR]. unfold memR. rewrite IH. reflexivity. Qed.

(* ---------- combinations of a duplicate-free list are pairwise different as sets ---------- *)
Lemma combs_seteq_eq (l : list lbl) : NoDup l -> forall k1 k2 x y,
  In x (combs l k1) -> In y (combs l k2) -> seteq x y -> x = y.
Proof.
  induction 1 as [|a l Ha Hl IH]; intros k1 k2 x y Hx Hy Sq.
  - destruct k1; [|destruct Hx]. destruct k2; [|destruct Hy]. destruct Hx as [<-|[]]. destruct Hy as [<-|[]]. reflexivity.
  - assert (E0 : forall z : list lbl, seteq [] z -> z = []).
    { intros [|b z] Hz; [reflexivity|]. exfalso. apply (proj2 (Hz b)). left. reflexivity. }
    destruct k1 as [|k1].
    { rewrite combs_0 in Hx. destruct Hx as [<-|[]]. symmetry. apply E0. exact Sq. }
    destruct k2 as [|k2].
    { rewrite combs_0 in Hy. destruct Hy as [<-|[]]. apply E0. intro b. symmetry. apply Sq. }
    cbn [combs] in Hx, Hy. apply in_app_iff in Hx. apply in_app_iff in Hy.
    assert (NI : forall k c, In c (combs l k) -> ~ In a c).
    { intros k c Hc Hi. apply Ha. apply (proj2 (combs_sound l k c Hc)). exact Hi. }
    destruct Hx as [Hx|Hx]; destruct Hy as [Hy|Hy].
    + apply in_map_iff in Hx. destruct Hx as (c & <- & Hc). apply in_map_iff in Hy. destruct Hy as (c' & <- & Hc').
      f_equal. apply (IH k1 k2 c c' Hc Hc'). intro b. pose proof (Sq b) as Sb. cbn [In] in Sb.
      pose proof (NI k1 c Hc). pose proof (NI k2 c' Hc').
      split; intro Hb.
      * destruct (proj1 Sb (or_intror Hb)) as [E|E]; [subst; contradiction|exact E].
      * destruct (proj2 Sb (or_intror Hb)) as [E|E]; [subst; contradiction|exact E].
    + apply in_map_iff in Hx. destruct Hx as (c & <- & Hc). exfalso. apply (NI (S k2) y Hy). apply Sq. left. reflexivity.
    + apply in_map_iff in Hy. destruct Hy as (c & <- & Hc). exfalso. apply (NI (S k1) x Hx). apply Sq. left. reflexivity.
    + apply (IH (S k1) (S k2) x y Hx Hy Sq).
Qed.

Lemma combs_NoDup_list (l : list lbl) : NoDup l -> forall k, NoDup (combs l k).
Proof.
  induction 1 as [|a l Ha Hl IH]; intro k.
  - destruct k; cbn [combs]; [constructor; [intros []|constructor]|constructor].
  - destruct k as [|k]; [rewrite combs_0; constructor; [intros []|constructor]|].
    cbn [combs]. apply NoDup_app_intro.
    + apply NoDup_map_cons. apply IH.
    + apply IH.
    + intros c H1 H2. apply in_map_iff in H1. destruct H1 as (c' & <- & _).
      apply Ha. apply (proj2 (combs_sound l (S k) _ H2)). left. reflexivity.
Qed.

Lemma In_subsets_between f lo hi x :
  In x (subsets_between f lo hi) <-> exists r, (lo <= r <= hi)%nat /\ In x (combs f r).
Proof.
  unfold subsets_between. rewrite in_flat_map. split.
  - intros (r & Hr & Hx). apply in_seq in Hr. exists r. split; [lia|exact Hx].
  - intros (r & Hr & Hx). exists r. split; [apply in_seq; lia|exact Hx].
Qed.

Lemma subsets_between_NoDup f lo hi : NoDup f -> NoDup (subsets_between f lo hi).
Proof.
  intro ND. unfold subsets_between. generalize (S hi - lo)%nat as n. intro n. revert lo.
  induction n as [|n IH]; intro lo; cbn [seq flat_map]; [constructor|].
  apply NoDup_app_intro; [apply combs_NoDup_list; exact ND|apply IH|].
  intros c H1 H2. apply in_flat_map in H2. destruct H2 as (r & Hr & H2). apply in_seq in Hr.
  pose proof (proj1 (combs_sound f lo c H1)). pose proof (proj1 (combs_sound f r c H2)). lia.
Qed.

Lemma subsets_between_NoDupS f lo hi : NoDup f -> NoDupS (subsets_between f lo hi).
Proof.
  intro ND. apply NoDupR_of; [apply subsets_between_NoDup; exact ND|].
  intros x y Hx Hy E. apply In_subsets_between in Hx. apply In_subsets_between in Hy.
  destruct Hx as (r1 & _ & Hx). destruct Hy as (r2 & _ & Hy). apply seteqb_spec in E.
  apply (combs_seteq_eq f ND r1 r2 x y Hx Hy E).
Qed.

(* ---------- searching the trie depends only on the set ---------- *)
Definition orderable_all (l : list lbl) : Prop := forall y, In y l -> orderable y.

Lemma tsearch_seteq t x y : NoDup x -> NoDup y -> orderable_all x -> seteq x y -> tsearch t x = tsearch t y.
Proof. intros Nx Ny Ox S. unfold tsearch. rewrite (sort_simplex_canonical x y Nx Ny Ox S). reflexivity. Qed.

(* for duplicate-free orderable words: found iff some inserted word is the same set *)
Lemma tsearch_set ws x : NoDup x -> orderable_all x -> (forall w, In w ws -> NoDup w) ->
  tsearch (build_trie ws) x = existsb (seteqb x) ws.
Proof.
  intros Nx Ox Nw. rewrite trie_search. apply eq_true_iff_eq. rewrite !existsb_exists. split.
  - intros (w & Hw & E). exists w. split; [exact Hw|]. apply seteqb_spec. apply lbls_eqb_eq in E.
    intro a. rewrite <- (In_sort_simplex a x), E. apply In_sort_simplex.
  - intros (w & Hw & E). exists w. split; [exact Hw|]. apply lbls_eqb_eq. apply seteqb_spec in E.
    apply sort_simplex_canonical; [exact Nx|apply Nw; exact Hw|exact Ox|exact E].
Qed.

Section Loop.
  Variable ws : list (list lbl).        (* the words in the trie: the edges of at least k nodes *)
  Variable k : nat.
  Hypothesis k_pos : (1 <= k)%nat.
  Let t := build_trie ws.
  Let M (e : list lbl) := missing_subfaces t e k.

  Definition good (e : list lbl) : Prop := NoDup e /\ orderable_all e /\ tsearch t e = true.

  Lemma In_M e x : In x (M e) <-> (exists r, (k <= r <= length e - 1)%nat /\ In x (combs e r)) /\ tsearch t x = false.
  Proof. unfold M, missing_subfaces. rewrite filter_In, In_subsets_between, negb_true_iff. reflexivity. Qed.

  Lemma M_NoDupS e : NoDup e -> NoDupS (M e).
  Proof.
    intro ND. unfold M, missing_subfaces. apply NoDupR_filter.
    apply subsets_between_NoDupS. exact ND.
  Qed.

  Lemma comb_good e r x : NoDup e -> orderable_all e -> In x (combs e r) -> NoDup x /\ orderable_all x /\ length x = r /\ (forall a, In a x -> In a e).
  Proof.
    intros ND Oe Hx. destruct (combs_sound e r x Hx) as [L S]. split; [apply (combs_NoDup e ND r x Hx)|].
    split; [intros a Ha; apply Oe; apply S; exact Ha|]. split; [exact L|exact S].
  Qed.

  (* a duplicate-free set x inside e, as a set, is one of the |x|-combinations of e *)
  Lemma set_to_comb e x : NoDup x -> (forall a, In a x -> In a e) -> exists c, In c (combs e (length x)) /\ seteq c x.
  Proof. intros Nx S. apply combs_complete; assumption. Qed.

  (* x, a set, is a missing sub-face of e (up to seteq) *)
  Lemma memS_M e x : NoDup e -> orderable_all e -> NoDup x ->
    (memS x (M e) = true <->
     (forall a, In a x -> In a e) /\ (k <= length x <= length e - 1)%nat /\ tsearch t x = false).
  Proof.
    intros Ne Oe Nx. rewrite memR_spec. split.
    - intros (b & Hb & E). apply In_M in Hb. destruct Hb as [(r & Hr & Hc) Ht]. apply seteqb_spec in E.
      destruct (comb_good e r b Ne Oe Hc) as (Nb & Ob & Lb & Sb).
      split; [intros a Ha; apply Sb; apply E; exact Ha|]. split.
      + assert (length x = length b); [|lia].
        apply Nat.le_antisymm; apply NoDup_incl_length; try assumption; intros a Ha; apply E; exact Ha.
      + rewrite <- Ht. symmetry. apply tsearch_seteq; try assumption. intro a. symmetry. apply E.
    - intros (S & L & Ht). destruct (set_to_comb e x Nx S) as (c & Hc & Ec).
      destruct (comb_good e (length x) c Ne Oe Hc) as (Ncc & Oc & _ & _).
      exists c. split; [|apply seteqb_spec; intro a; symmetry; apply Ec].
      apply In_M. split; [exists (length x); split; [exact L|exact Hc]|].
      rewrite <- Ht. apply tsearch_seteq; assumption.
  Qed.

  (* the faces subtracted for e2 against e *)
  Definition red_of (e e2 : list lbl) : list (list lbl) :=
    let c := sinter e2 e in
    if is_nil c then [] else if (k <=? length c)%nat then M c ++ (if tsearch t c then [] else [c]) else [].

  Lemma fold_red e E0 acc0 :
    fold_left (fun acc2 e2 =>
                 if is_nil (sinter e2 e) then acc2
                 else if (k <=? length (sinter e2 e))%nat
                      then acc2 ++ missing_subfaces t (sinter e2 e) k ++ (if tsearch t (sinter e2 e) then [] else [sinter e2 e])
                      else acc2) E0 acc0 = acc0 ++ flat_map (red_of e) E0.
  Proof.
    revert acc0. induction E0 as [|e2 E0 IH]; intro acc0; cbn [fold_left flat_map]; [symmetry; apply app_nil_r|].
    rewrite IH. unfold red_of at 2. cbv zeta. fold (M (sinter e2 e)).
    destruct (is_nil (sinter e2 e)); [reflexivity|]. destruct (k <=? length (sinter e2 e))%nat; [|reflexivity].
    rewrite <- !app_assoc. reflexivity.
  Qed.

  Lemma is_nil_false (l : list lbl) : l <> [] -> is_nil l = false.
  Proof. destruct l; [congruence|reflexivity]. Qed.

  (* what is subtracted for (e, e2) is, as a set of sets, M e /\ M e2 *)
  Lemma red_spec e e2 x : good e -> good e2 -> NoDup x ->
    (memS x (red_of e e2) = true <-> memS x (M e) = true /\ memS x (M e2) = true).
  Proof.
    intros (Ne & Oe & Te) (Ne2 & Oe2 & Te2) Nx.
    set (c := sinter e2 e).
    assert (Ncn : NoDup c) by (apply NoDup_filter; exact Ne2).
    assert (Sc : forall a, In a c <-> In a e2 /\ In a e) by (intro a; apply In_sinter).
    assert (Oc : orderable_all c) by (intros a Ha; apply Oe; apply Sc; exact Ha).
    assert (Lce : (length c <= length e)%nat) by (apply NoDup_incl_length; [exact Ncn|intros a Ha; apply Sc; exact Ha]).
    assert (Lce2 : (length c <= length e2)%nat) by (apply NoDup_incl_length; [exact Ncn|intros a Ha; apply Sc; exact Ha]).
    rewrite (memS_M e x Ne Oe Nx), (memS_M e2 x Ne2 Oe2 Nx). unfold red_of. fold c.
    split.
    - intro H. destruct (is_nil c) eqn:En; [discriminate|]. destruct (k <=? length c)%nat eqn:Ek; [|discriminate].
      apply Nat.leb_le in Ek. rewrite memR_app in H. apply orb_true_iff in H. destruct H as [H|H].
      + apply (memS_M c x Ncn Oc Nx) in H. destruct H as (S & L & Ht).
        split; (split; [intros a Ha; apply Sc; apply S; exact Ha|split; [lia|exact Ht]]).
      + destruct (tsearch t c) eqn:Etc; [discriminate|]. cbn [memR existsb] in H. rewrite orb_false_r in H.
        apply seteqb_spec in H.
        assert (Lx : length x = length c).
        { apply Nat.le_antisymm; apply NoDup_incl_length; try assumption; intros a Ha; apply H; exact Ha. }
        assert (Htx : tsearch t x = false).
        { rewrite <- Etc. apply tsearch_seteq; try assumption. intros a Ha. apply Oc. apply H. exact Ha. }
        assert (strict : forall e', NoDup e' -> orderable_all e' -> tsearch t e' = true -> (forall a, In a c -> In a e') -> (length c <= length e')%nat -> (length c <= length e' - 1)%nat).
        { intros e' Ne' Oe' Te' Sub Le. destruct (Nat.eq_dec (length c) (length e')) as [El|]; [|lia]. exfalso.
          assert (seteq c e').
          { intro a. split; [apply Sub|]. apply NoDup_length_incl; [exact Ncn|lia|exact Sub]. }
          rewrite (tsearch_seteq t c e' Ncn Ne' Oc H0) in Etc. congruence. }
        split; (split; [intros a Ha; apply Sc; apply H; exact Ha|split; [|exact Htx]]).
        * pose proof (strict e Ne Oe Te (fun a Ha => proj2 (proj1 (Sc a) Ha)) Lce). lia.
        * pose proof (strict e2 Ne2 Oe2 Te2 (fun a Ha => proj1 (proj1 (Sc a) Ha)) Lce2). lia.
    - intros [(S1 & L1 & Ht) (S2 & L2 & _)].
      assert (Sxc : forall a, In a x -> In a c) by (intros a Ha; apply Sc; split; [apply S2|apply S1]; exact Ha).
      assert (Lxc : (length x <= length c)%nat) by (apply NoDup_incl_length; assumption).
      assert (Hne : c <> []).
      { intro E. rewrite E in Lxc. cbn [length] in Lxc. lia. }
      rewrite (is_nil_false c Hne).
      assert (Ek : (k <=? length c)%nat = true) by (apply Nat.leb_le; lia). rewrite Ek.
      rewrite memR_app. apply orb_true_iff.
      destruct (Nat.eq_dec (length x) (length c)) as [El|Nl].
      + right. assert (Sxc' : seteq x c).
        { intro a. split; [apply Sxc|]. apply NoDup_length_incl; [exact Nx|lia|exact Sxc]. }
        assert (Ox : orderable_all x) by (intros a Ha; apply Oc; apply Sxc; exact Ha).
        rewrite <- (tsearch_seteq t x c Nx Ncn Ox Sxc'), Ht. cbn [memR existsb]. rewrite orb_false_r.
        apply seteqb_spec. exact Sxc'.
      + left. apply (memS_M c x Ncn Oc Nx). split; [exact Sxc|]. split; [lia|exact Ht].
  Qed.

  Lemma memS_flat_map x (f : list lbl -> list (list lbl)) l :
    memS x (flat_map f l) = existsb (fun e => memS x (f e)) l.
  Proof.
    induction l as [|e l IH]; [reflexivity|]. cbn [flat_map existsb]. rewrite memR_app, IH. reflexivity.
  Qed.

  (* elements of the lists involved are duplicate-free *)
  Lemma M_elems_NoDup e x : NoDup e -> In x (M e) -> NoDup x.
  Proof. intros Ne Hx. apply In_M in Hx. destruct Hx as [(r & _ & Hc) _]. apply (combs_NoDup e Ne r x Hc). Qed.

  Lemma red_elems e e2 x : good e2 -> In x (red_of e e2) -> NoDup x.
  Proof.
    intros (Ne2 & _ & _) Hx. unfold red_of in Hx.
    assert (Ncn : NoDup (sinter e2 e)) by (apply NoDup_filter; exact Ne2).
    destruct (is_nil (sinter e2 e)); [destruct Hx|]. destruct (k <=? length (sinter e2 e))%nat; [|destruct Hx].
    apply in_app_iff in Hx. destruct Hx as [Hx|Hx]; [apply (M_elems_NoDup _ x Ncn Hx)|].
    destruct (tsearch t (sinter e2 e)); [destruct Hx|]. destruct Hx as [<-|[]]. exact Ncn.
  Qed.

  (* the loop computes the number of distinct missing node sets *)
  Theorem sed_loop_counts : forall rest E0 acc, (forall e, In e (E0 ++ rest) -> good e) ->
    sed_loop t k E0 rest acc =
    (acc + Z.of_nat (ndistS (flat_map M (E0 ++ rest))) - Z.of_nat (ndistS (flat_map M E0)))%Z.
  Proof.
    induction rest as [|e rest IH]; intros E0 acc G.
    - cbn [sed_loop]. rewrite app_nil_r. lia.
    - cbn [sed_loop]. rewrite (fold_red e E0 []). cbn [app].
      rewrite IH by (intros e' He'; apply G; rewrite <- app_assoc in He'; exact He').
      rewrite <- app_assoc. cbn [app]. fold (M e).
      rewrite dedup_sets_dedupR. fold (ndistS (flat_map (red_of e) E0)).
      assert (Ge : good e) by (apply G; apply in_app_iff; right; left; reflexivity).
      assert (GE : forall e2, In e2 E0 -> good e2) by (intros e2 H2; apply G; apply in_app_iff; left; exact H2).
      pose proof (ndist_step (list lbl) seteqb seteqb_sym seteqb_trans
                    (flat_map M E0) (M e) (flat_map (red_of e) E0)) as St.
      assert (FM : flat_map M (E0 ++ [e]) = flat_map M E0 ++ M e) by (rewrite flat_map_app; cbn [flat_map]; rewrite app_nil_r; reflexivity).
      rewrite FM.
      assert (K : (ndistS (flat_map M E0 ++ M e) + ndistS (flat_map (red_of e) E0) = ndistS (flat_map M E0) + length (M e))%nat).
      { apply St.
        - apply M_NoDupS. apply Ge.
        - intros x Hx. apply in_flat_map in Hx. destruct Hx as (e2 & H2 & Hx).
          assert (Nx : NoDup x) by (apply (red_elems e e2 x (GE e2 H2) Hx)).
          apply (red_spec e e2 x Ge (GE e2 H2) Nx). apply memR_spec. exists x. split; [exact Hx|apply seteqb_refl].
        - intros b Hb. assert (Nb : NoDup b) by (apply (M_elems_NoDup e b (proj1 Ge) Hb)).
          rewrite !memS_flat_map. apply eq_true_iff_eq. rewrite !existsb_exists.
          assert (Mb : memS b (M e) = true) by (apply memR_spec; exists b; split; [exact Hb|apply seteqb_refl]).
          split.
          + intros (e2 & H2 & H). exists e2. split; [exact H2|]. apply (red_spec e e2 b Ge (GE e2 H2) Nb) in H. apply H.
          + intros (e2 & H2 & H). exists e2. split; [exact H2|]. apply (red_spec e e2 b Ge (GE e2 H2) Nb). split; assumption. }
      lia.
  Qed.
End Loop.

(* ---------- on a hypergraph ---------- *)
From XV Require Import Proofs.HgViews Proofs.HgInv Proofs.StatsProofs.

Definition labels_orderable (s : hg) : Prop := forall e ms, In (e, ms) (h_edge s) -> orderable_all ms.

Lemma get_In_NoDup {V} (k : lbl) (v : V) (d : odict V) : NoDup (keys d) -> In (k, v) d -> get k d = Some v.
Proof.
  induction d as [|[k' v'] r IH]; intros ND H; [destruct H|]. cbn [keys map fst] in ND. inversion ND as [|? ? Hn Hr]; subst.
  cbn [get]. destruct H as [E|H].
  - inversion E; subst. rewrite lbl_eqb_refl. reflexivity.
  - destruct (lbl_eqb_spec k k') as [->|N]; [|apply IH; assumption].
    exfalso. apply Hn. change k' with (fst (k', v)). apply in_map. exact H.
Qed.

Lemma filter_len_mono {A} (p q : A -> bool) l : (forall x, In x l -> p x = true -> q x = true) ->
  (length (filter p l) <= length (filter q l))%nat.
Proof.
  induction l as [|a l IH]; intro H; [apply Nat.le_refl|]. cbn [filter].
  assert (IH' := IH (fun x Hx => H x (or_intror Hx))).
  destruct (p a) eqn:Ep; [rewrite (H a (or_introl eq_refl) Ep); cbn [length]; lia|].
  destruct (q a); cbn [length]; lia.
Qed.

Definition orderableb (x : lbl) : bool := match x with LInt _ | LStr _ => true | _ => false end.
Definition labels_orderableb (s : hg) : bool := forallb (fun kv => forallb orderableb (snd kv)) (h_edge s).
Lemma labels_orderableb_ok s : labels_orderableb s = true -> labels_orderable s.
Proof.
  unfold labels_orderableb. rewrite forallb_forall. intros H e ms Hin y Hy.
  specialize (H (e, ms) Hin). cbn [snd] in H. rewrite forallb_forall in H. specialize (H y Hy).
  destruct y; try discriminate; exact I.
Qed.

Lemma edge_members_NoDup s e ms : Inv s -> In (e, ms) (h_edge s) -> NoDup ms.
Proof.
  intros (_ & (_ & _ & _ & Ke) & (_ & Vm) & _) H.
  assert (E : mems s e = ms).
  { unfold mems, getl. rewrite (get_In_NoDup e ms (h_edge s) Ke H). reflexivity. }
  rewrite <- E. apply Vm.
Qed.

Lemma match_ne {A B} (l : list A) (X : option B) : l <> [] -> match l with [] => None | _ :: _ => X end = X.
Proof. destruct l; [congruence|reflexivity]. Qed.

Section OnHg.
  Variable s : hg.
  Variable k : nat.
  Variable excl : bool.
  Hypothesis k_pos : (1 <= k)%nat.
  Hypothesis I : Inv s.
  Hypothesis Ord : labels_orderable s.
  Let ws := map snd (edges_geq s k).
  Let mx := map snd (max_edges s (k + b2n excl)).
  Let t := build_trie ws.

  Lemma ws_spec w : In w ws <-> exists e, In (e, w) (h_edge s) /\ (k <= length w)%nat.
  Proof.
    unfold ws, edges_geq. rewrite in_map_iff. split.
    - intros ([e w'] & <- & H). apply filter_In in H. destruct H as [H1 H2]. apply Nat.leb_le in H2. exists e. auto.
    - intros (e & H1 & H2). exists (e, w). split; [reflexivity|]. apply filter_In. split; [exact H1|apply Nat.leb_le; exact H2].
  Qed.

  Lemma ws_NoDup w : In w ws -> NoDup w.
  Proof. intro H. apply ws_spec in H. destruct H as (e & H & _). apply (edge_members_NoDup s e w I H). Qed.

  Lemma mx_in_ws e : In e mx -> In e ws.
  Proof.
    unfold mx, max_edges. rewrite in_map_iff. intros ([i e'] & <- & H). apply filter_In in H. destruct H as [H1 H2].
    apply andb_true_iff in H2. destruct H2 as [_ H2]. apply Nat.leb_le in H2. apply ws_spec. exists i. split; [exact H1|].
    cbn [snd] in *. lia.
  Qed.

  Lemma mx_good e : In e mx -> good ws e.
  Proof.
    intro H. pose proof (mx_in_ws e H) as Hw. pose proof (ws_NoDup e Hw) as Ne.
    assert (Oe : orderable_all e).
    { apply ws_spec in Hw. destruct Hw as (i & Hi & _). apply (Ord i e Hi). }
    split; [exact Ne|]. split; [exact Oe|].
    rewrite (tsearch_set ws e Ne Oe ws_NoDup). apply existsb_exists. exists e. split; [exact Hw|apply seteqb_refl].
  Qed.

  (* THE COUNT: the (unnormalised) simplicial edit distance is the number of distinct node sets that
     are missing sub-faces of some maximal edge *)
  Theorem sed_counts : mx <> [] ->
    simplicial_edit_distance k excl false s =
    Some (Z.of_nat (ndistS (flat_map (fun e => missing_subfaces t e k) mx)) # 1).
  Proof.
    intro Hne. unfold simplicial_edit_distance. fold ws. fold t. fold mx.
    rewrite match_ne by exact Hne. cbv zeta. unfold t.
    rewrite (sed_loop_counts ws k k_pos mx [] 0%Z) by (intros e He; apply mx_good; exact He).
    cbn [app flat_map]. unfold ndist at 2. cbn [dedupR length Z.of_nat]. f_equal. f_equal. lia.
  Qed.

  (* ... and these are exactly the node sets of at least k nodes inside a maximal edge that are not edges *)
  Theorem missing_set_spec x : NoDup x ->
    (memS x (flat_map (fun e => missing_subfaces t e k) mx) = true <->
     exists e, In e mx /\ (forall a, In a x -> In a e) /\ (k <= length x)%nat /\
               ~ (exists i w, In (i, w) (h_edge s) /\ seteq x w)).
  Proof.
    intro Nx. rewrite memS_flat_map, existsb_exists. split.
    - intros (e & He & H). destruct (mx_good e He) as (Ne & Oe & Te).
      apply (memS_M ws k k_pos e x Ne Oe Nx) in H. destruct H as (Sx & L & Ht).
      exists e. split; [exact He|]. split; [exact Sx|]. split; [lia|].
      intros (i & w & Hw & Eq).
      assert (Ox : orderable_all x) by (intros a Ha; apply Oe; apply Sx; exact Ha).
      fold t in Ht. unfold t in Ht. rewrite (tsearch_set ws x Nx Ox ws_NoDup) in Ht.
      assert (Nw : NoDup w) by (apply (edge_members_NoDup s i w I Hw)).
      assert (Lw : length x = length w).
      { apply Nat.le_antisymm; apply NoDup_incl_length; try assumption; intros a Ha; apply Eq; exact Ha. }
      assert (existsb (seteqb x) ws = true); [|congruence].
      apply existsb_exists. exists w. split; [|apply seteqb_spec; exact Eq]. apply ws_spec. exists i. split; [exact Hw|lia].
    - intros (e & He & Sx & L & Hno). exists e. split; [exact He|].
      destruct (mx_good e He) as (Ne & Oe & Te).
      assert (Ox : orderable_all x) by (intros a Ha; apply Oe; apply Sx; exact Ha).
      assert (Ht : tsearch t x = false).
      { unfold t. rewrite (tsearch_set ws x Nx Ox ws_NoDup). destruct (existsb (seteqb x) ws) eqn:Ex; [|reflexivity].
        exfalso. apply existsb_exists in Ex. destruct Ex as (w & Hw & Eq). apply ws_spec in Hw. destruct Hw as (i & Hi & _).
        apply Hno. exists i, w. split; [exact Hi|apply seteqb_spec; exact Eq]. }
      apply (memS_M ws k k_pos e x Ne Oe Nx). split; [exact Sx|]. split; [|exact Ht]. split; [exact L|].
      assert (Lxe : (length x <= length e)%nat) by (apply NoDup_incl_length; assumption).
      destruct (Nat.eq_dec (length x) (length e)) as [El|]; [|lia]. exfalso.
      assert (Sq : seteq x e).
      { intro a. split; [apply Sx|]. apply NoDup_length_incl; [exact Nx|lia|exact Sx]. }
      fold t in Te. rewrite <- (tsearch_seteq t x e Nx Ne Ox Sq) in Te. congruence.
  Qed.

  (* downward-closed: every node set of >= k nodes inside a maximal edge is an edge; then the distance is 0 *)
  Theorem sed_closed_zero : mx <> [] ->
    (forall e x, In e mx -> NoDup x -> (forall a, In a x -> In a e) -> (k <= length x)%nat ->
                 exists i w, In (i, w) (h_edge s) /\ seteq x w) ->
    simplicial_edit_distance k excl false s = Some (0 # 1).
  Proof.
    intros Hne Hc. rewrite (sed_counts Hne).
    assert (Z : flat_map (fun e => missing_subfaces t e k) mx = []).
    { destruct (flat_map (fun e => missing_subfaces t e k) mx) as [|x r] eqn:E; [reflexivity|]. exfalso.
      assert (Hx : In x (flat_map (fun e => missing_subfaces t e k) mx)) by (rewrite E; left; reflexivity).
      apply in_flat_map in Hx. destruct Hx as (e & He & Hx). destruct (mx_good e He) as (Ne & Oe & Te).
      assert (Nx : NoDup x) by (apply (M_elems_NoDup ws k e x Ne Hx)).
      assert (Mx : memS x (flat_map (fun e => missing_subfaces t e k) mx) = true).
      { apply memR_spec. exists x. split; [rewrite E; left; reflexivity|apply seteqb_refl]. }
      apply (missing_set_spec x Nx) in Mx. destruct Mx as (e' & He' & Sx & L & Hno).
      apply Hno. apply (Hc e' x He' Nx Sx L). }
    rewrite Z. reflexivity.
  Qed.

  (* normalised distance: a share, between 0 and 1 when defined *)
  Theorem sed_normalised_range q : simplicial_edit_distance k excl true s = Some q -> (0 <= q /\ q <= 1)%Q.
  Proof.
    unfold simplicial_edit_distance. fold ws. fold t. fold mx.
    destruct (list_eq_dec (list_eq_dec lbl_eq_dec) mx []) as [E|Hne]; [rewrite E; discriminate|].
    rewrite match_ne by exact Hne. cbv zeta. unfold t.
    rewrite (sed_loop_counts ws k k_pos mx [] 0%Z) by (intros e He; apply mx_good; exact He).
    cbn [app flat_map]. change (ndistS (@nil (list lbl))) with 0%nat. cbn [Z.of_nat].
    set (N := Z.of_nat (ndistS (flat_map (fun e => missing_subfaces (build_trie ws) e k) mx))).
    assert (HN : (0 <= N)%Z) by (unfold N; lia).
    assert (Hle : (Z.of_nat (length mx) <= Z.of_nat (length ws))%Z).
    { apply inj_le. unfold mx, ws, max_edges, edges_geq. rewrite !map_length. apply filter_len_mono.
      intros [i e] _ H. apply andb_true_iff in H. destruct H as [_ H]. apply Nat.leb_le in H. apply Nat.leb_le. cbn [snd] in *. lia. }
    set (d := (Z.of_nat (length ws) - Z.of_nat (length mx) + (0 + N - 0))%Z).
    destruct (0 <? d)%Z eqn:Ed; [|discriminate]. apply Z.ltb_lt in Ed. intro H.
    assert (Eq := f_equal (fun o => match o with Some x => x | None => 0%Q end) H). cbv beta iota in Eq. rewrite <- Eq.
    unfold Qle. cbn [Qnum Qden]. rewrite Z2Pos.id by exact Ed. unfold d in *. split; lia.
  Qed.
End OnHg.
