(* Derived networks (C19): subhypergraph, dual, <<, cut_to_order / k_skeleton, the in_place=False
   variants of cleanup / relabelling / largest component, from_max_simplices, complement.
   Each is transcribed as the code builds it: a new empty network filled through the bulk
   methods of Model/Hypergraph.v. *)
From Coq Require Import String ZArith List Bool Lia.
From XV Require Import Base.Label Base.LSet Base.ODict Base.Attr Base.Outcome Model.Hypergraph
  Model.SimplicialComplex Model.Copy.
Import ListNotations.
Open Scope Z_scope.

(* ---------- subhypergraph(H, nodes, edges, keep_isolates) ---------- *)

Definition subhypergraph (nodes edges : option (list lbl)) (keep_isolates : bool) (s : hg) : res :=
  let nset := match nodes with None => keys (h_node s) | Some l => filter (fun n => mem n l) (keys (h_node s)) end in
  let eset := match edges with None => keys (h_edge s) | Some l => filter (fun e => mem e l) (keys (h_edge s)) end in
  let nitems := map (fun n => (n, Some (geta n (h_nattr s)))) nset in
  let eitems := map (fun e => (getl e (h_edge s), e, geta e (h_eattr s)))
                    (filter (fun e => ssubset (getl e (h_edge s)) nset) eset) in
  bind (add_nodes_from nitems [] (with_net hg_empty (h_net s)))
  (fun s1 => bind (add_edges_from (EB4 eitems) [] s1)
  (fun s2 => if keep_isolates then ok s2 else remove_nodes_from (isolates s2) false true s2)).

(* ---------- dual() ---------- *)
(* the members of the dual edge n are the memberships of n, iterated as a Python set: their order
   (which decides the order of the dual's nodes) is taken from the node-order hint *)
Definition dual (nhint : list lbl) (s : hg) : res :=
  let eitems := map (fun n => (order_by nhint (getl n (h_node s)), n, geta n (h_nattr s))) (keys (h_node s)) in
  let nitems := map (fun e => (e, Some (geta e (h_eattr s)))) (keys (h_edge s)) in
  bind (add_edges_from (EB4 eitems) [] hg_empty)
  (fun s1 => bind (match nitems with [] => ok s1 | _ => add_nodes_from nitems [] s1 end)
  (fun s2 => ok (with_net s2 (h_net s)))).

(* ---------- H1 << H2 ---------- *)
Definition zip_nodes (s : hg) : list (lbl * option attrs) :=
  map (fun kv => (fst (fst kv), Some (snd (snd kv)))) (combine (h_node s) (h_nattr s)).
Definition zip_edges (s : hg) : list (list lbl * attrs) :=
  map (fun kv => (snd (fst kv), snd (snd kv))) (combine (h_edge s) (h_eattr s)).

Definition lshift (s1 s2 : hg) : res :=
  bind (add_nodes_from (zip_nodes s1) [] hg_empty)
  (fun a => bind (add_nodes_from (zip_nodes s2) [] a)
  (fun b => bind (add_edges_from (EB3 (zip_edges s1)) [] b)
  (fun c => bind (add_edges_from (EB3 (zip_edges s2)) [] c)
  (fun d => ok (with_net d (aupdate (h_net s1) (h_net s2))))))).

(* ---------- cut_to_order(H, order) / k_skeleton ---------- *)
Definition max_size (s : hg) : nat := fold_left (fun acc kv => Nat.max acc (length (snd kv))) (h_edge s) O.

Definition cut_to_order (simplicial : bool) (order : Z) (s : hg) : res :=
  match h_edge s, h_node s with
  | [], [] => raise s TypeError                    (* order > None *)
  | _, _ =>
      let mo := match h_edge s with [] => 0 | _ => Z.of_nat (max_size s) - 1 end in
      bind (if simplicial then sc_dup true s else hg_dup true s)
      (fun c => if mo <? order then raise c XGIError
                else if order =? mo then ok c
                else
                  let bunch := map fst (filter (fun kv => order <? Z.of_nat (length (snd kv)) - 1) (h_edge c)) in
                  if simplicial then remove_simplex_ids_from bunch c else remove_edges_from bunch c)
  end.

(* ---------- in_place=False variants ---------- *)
Definition cleanup_copy (iso sing multi conn relabel : bool) (s : hg) : res :=
  bind (hg_dup true s) (fun c => cleanup iso sing multi conn relabel c).

Definition relabel_copy (la : string) (s : hg) : res :=
  bind (hg_dup true s) (fun c => relabel_inplace la c).

Definition lcc_copy (s : hg) : res :=
  match first_longest (components s) with
  | None => raise s ValueError
  | Some c => bind (subhypergraph (Some c) None true s) (fun sub => hg_dup true sub)
  end.

(* ---------- from_max_simplices(SC) ---------- *)
Definition maximal_ids (s : hg) : list lbl :=
  map fst (filter (fun kv => forallb (fun kv' => lbl_eqb (fst kv') (fst kv) || negb (ssubset (snd kv) (snd kv')))
                                     (h_edge s)) (h_edge s)).

Definition from_max_simplices (s : hg) : res :=
  bind (add_nodes_from (map (fun n => (n, None)) (keys (h_node s))) [] hg_empty)
  (fun s1 => match map (fun e => getl e (h_edge s)) (maximal_ids s) with
             | [] => ok s1
             | l => add_edges_from (EB1 l) [] s1
             end).

(* ---------- complement(H): the absent node sets up to the maximum size (as a set of sets) ---------- *)
Definition powerset_sizes (l : list lbl) (ks : list nat) : list (list lbl) := flat_map (fun k => combs l k) ks.
Definition complement_sets (s : hg) : list (list lbl) :=
  let present := vals (h_edge s) in
  filter (fun f => negb (existsb (fun m => seteqb f m) present))
         (powerset_sizes (keys (h_node s))
                         (seq 1 (match h_edge s with [] => 1%nat | _ => max_size s end))).
