(* C06: edges.duplicates() lists, for every repeated member set, all edges but exactly one representative;
   filterby_attr returns exactly the ids whose (imputed) integer attribute satisfies the comparison. *)
From Coq Require Import String ZArith List Bool Lia.
From XV Require Import Base.Label Base.LSet Base.ODict Base.Attr Base.Outcome Model.Hypergraph Model.Stats
     Proofs.HgViews Proofs.HgInv Proofs.QuotCount Proofs.DecoderProofs Proofs.EditDistance Proofs.CleanupProofs.
Import ListNotations.

Lemma ins_sorted_NoDup x : forall l r, ins_sorted x l = Some r -> NoDup l -> ~ In x l -> NoDup r.
Proof.
  induction l as [|a l IH]; intros r H ND Hx; cbn [ins_sorted] in H.
  - inversion H; subst. constructor; [intros []|constructor].
  - destruct (lbl_ltb x a) as [[|]|]; [inversion H; subst; constructor; assumption| |discriminate].
    destruct (ins_sorted x l) as [r'|] eqn:E; [|discriminate]. inversion H; subst. inversion ND as [|? ? Ha ND']; subst.
    constructor.
    + intro Hi. apply (ins_sorted_In x l r' E a) in Hi. destruct Hi as [->|Hi]; [apply Hx; left; reflexivity|contradiction].
    + apply (IH r' eq_refl ND'). intro Hi. apply Hx. right. exact Hi.
Qed.

Lemma sort_aux_NoDup : forall l r, sort_lbls_aux l = Some r -> NoDup l -> NoDup r.
Proof.
  induction l as [|a l IH]; intros r H ND; cbn [sort_lbls_aux] in H.
  - inversion H; subst. constructor.
  - destruct (sort_lbls_aux l) as [r'|] eqn:E; [|discriminate]. inversion ND as [|? ? Ha ND']; subst.
    apply (ins_sorted_NoDup a r' r H (IH r' eq_refl ND')). intro Hi. apply Ha. apply (sort_aux_In l r' E a). exact Hi.
Qed.

Lemma sort_lbls_NoDup l r : sort_lbls l = Some r -> NoDup l -> NoDup r.
Proof.
  unfold sort_lbls. destruct l as [|a [|b l]]; intros H ND.
  - inversion H; subst. constructor.
  - inversion H; subst. exact ND.
  - destruct (all_comparable (a :: b :: l)); [|discriminate]. apply (sort_aux_NoDup _ r H ND).
Qed.

(* the ids listed for one group: all but the head of the sorted (else of the stored) id list *)
Definition group_dups (g : list lbl * list lbl) : list lbl :=
  match snd g with
  | _ :: _ :: _ => match sort_lbls (snd g) with Some l => tl l | None => tl (snd g) end
  | _ => []
  end.
Definition group_order (ids : list lbl) : list lbl := match sort_lbls ids with Some l => l | None => ids end.

Lemma group_order_props ids : NoDup ids -> NoDup (group_order ids) /\ (forall x, In x (group_order ids) <-> In x ids).
Proof.
  intro ND. unfold group_order. destruct (sort_lbls ids) as [l|] eqn:E.
  - split; [apply (sort_lbls_NoDup ids l E ND)|apply (sort_lbls_In ids l E)].
  - split; [exact ND|intro; reflexivity].
Qed.

Lemma group_dups_spec g : group_dups g = match snd g with _ :: _ :: _ => tl (group_order (snd g)) | _ => [] end.
Proof. unfold group_dups, group_order. destruct (snd g) as [|a [|b r]]; try reflexivity. destruct (sort_lbls (a :: b :: r)); reflexivity. Qed.

Lemma In_tl_NoDup (l : list lbl) x : NoDup l -> (In x (tl l) <-> In x l /\ Some x <> hd_error l).
Proof.
  destruct l as [|a l]; cbn [tl hd_error In]; intro ND; [tauto|]. inversion ND as [|? ? Ha _]; subst. split.
  - intro H. split; [right; exact H|]. intro E. inversion E; subst. contradiction.
  - intros [[->|H] N]; [exfalso; apply N; reflexivity|exact H].
Qed.

Theorem duplicates_spec s : Inv s ->
  (forall e, In e (duplicates SEdge s) ->
     In e (ekeys s) /\ exists f, In f (ekeys s) /\ f <> e /\ seteq (mems s f) (mems s e) /\ ~ In f (duplicates SEdge s)) /\
  (forall e f, In e (ekeys s) -> In f (ekeys s) -> e <> f -> seteq (mems s e) (mems s f) ->
     In e (duplicates SEdge s) \/ In f (duplicates SEdge s)).
Proof.
  intro I. pose proof I as (_ & (_ & _ & _ & Ke) & _).
  pose proof (groups_GInv s Ke) as [Gs Gc Gk Gi].
  assert (Ed : forall e, In e (duplicates SEdge s) <-> In e (ekeys s) /\ exists g, In g (groups s) /\ In e (group_dups g)).
  { intro e. unfold duplicates, dup_groups. cbn [id_dict]. fold (groups s). rewrite filter_In, mem_In, in_flat_map. fold (ekeys s).
    split; intros [A (g & Hg & Hx)]; (split; [exact A|]); exists g; (split; [exact Hg|]); exact Hx. }
  assert (NDids : forall gm ids, In (gm, ids) (groups s) -> NoDup ids).
  { intros gm ids Hg. clear -Gi Hg. induction (groups s) as [|p g IH]; [destruct Hg|]. cbn [flat_map] in Gi.
    destruct Hg as [->|Hg]; [apply (NoDup_app_l' _ _ Gi)|apply IH; [apply (NoDup_app_r' _ _ Gi)|exact Hg]]. }
  assert (Same : forall gm ids x y, In (gm, ids) (groups s) -> In x ids -> In y ids -> In x (ekeys s) /\ seteq (mems s x) (mems s y)).
  { intros gm ids x y Hg Hx Hy. destruct (Gs gm ids x Hg Hx) as (mx & Hmx & Sx). destruct (Gs gm ids y Hg Hy) as (my & Hmy & Sy).
    split; [unfold ekeys, keys; change x with (fst (x, mx)); apply in_map; exact Hmx|].
    rewrite (mems_get s x mx (get_In_NoDup _ _ _ Ke Hmx)), (mems_get s y my (get_In_NoDup _ _ _ Ke Hmy)).
    intro a. rewrite <- (Sx a). apply Sy. }
  assert (Uniq : forall g1 g2 x, In g1 (groups s) -> In g2 (groups s) -> In x (snd g1) -> In x (snd g2) -> g1 = g2).
  { intros [gm1 ids1] [gm2 ids2] x H1 H2 X1 X2. cbn [snd] in *. apply (NoDupS_In_eq (groups s)); [exact Gk|exact H1|exact H2|]. cbn [fst].
    destruct (Gs gm1 ids1 x H1 X1) as (m1 & Hm1 & S1). destruct (Gs gm2 ids2 x H2 X2) as (m2 & Hm2 & S2).
    assert (m1 = m2) by (pose proof (get_In_NoDup _ _ _ Ke Hm1) as A; pose proof (get_In_NoDup _ _ _ Ke Hm2) as B; congruence). subst m2.
    intro a. rewrite (S1 a). symmetry. apply S2. }
  split.
  - intros e He. apply Ed in He. destruct He as [Hek ([gm ids] & Hg & Hd)]. split; [exact Hek|].
    rewrite group_dups_spec in Hd. cbn [snd] in Hd.
    destruct (group_order_props ids (NDids gm ids Hg)) as [NDo Io].
    destruct ids as [|a [|b r]] eqn:Eids; try (destruct Hd). rewrite <- Eids in *.
    apply (In_tl_NoDup _ e NDo) in Hd. destruct Hd as [Hin Hnh].
    destruct (group_order ids) as [|f l] eqn:Eo; [destruct Hin|]. cbn [hd_error] in Hnh.
    assert (Hf : In f ids) by (apply Io; left; reflexivity). assert (Hei : In e ids) by (apply Io; exact Hin).
    destruct (Same gm ids f e Hg Hf Hei) as [Hfk Sq]. exists f. split; [exact Hfk|]. split; [intro E; apply Hnh; rewrite E; reflexivity|].
    split; [exact Sq|]. intro Hfd. apply Ed in Hfd. destruct Hfd as [_ ([gm' ids'] & Hg' & Hd')].
    rewrite group_dups_spec in Hd'. cbn [snd] in Hd'.
    assert (Hf' : In f ids').
    { destruct ids' as [|a' [|b' r']]; try (destruct Hd'). destruct (group_order_props (a' :: b' :: r') (NDids gm' _ Hg')) as [_ Io'].
      apply Io'. destruct (group_order (a' :: b' :: r')); [destruct Hd'|right; exact Hd']. }
    pose proof (Uniq (gm, ids) (gm', ids') f Hg Hg' Hf Hf') as Eg. inversion Eg; subst gm' ids'.
    rewrite Eids in Hd'. rewrite <- Eids in Hd'. rewrite Eo in Hd'. cbn [tl] in Hd'.
    inversion NDo as [|? ? Hfl _]; subst. contradiction.
  - intros e f He Hf Nef Sq.
    destruct (get e (h_edge s)) as [me|] eqn:Ge; [|apply get_None in Ge; contradiction].
    destruct (get f (h_edge s)) as [mf|] eqn:Gf; [|apply get_None in Gf; contradiction].
    destruct (Gc e me (get_In _ _ _ Ge)) as (gm1 & ids1 & Hg1 & Hi1 & S1).
    destruct (Gc f mf (get_In _ _ _ Gf)) as (gm2 & ids2 & Hg2 & Hi2 & S2).
    assert (Eg : (gm1, ids1) = (gm2, ids2)).
    { apply (NoDupS_In_eq (groups s)); [exact Gk|exact Hg1|exact Hg2|]. cbn [fst]. intro a.
      rewrite (S1 a), (S2 a), <- (mems_get s e me Ge), <- (mems_get s f mf Gf). apply Sq. }
    inversion Eg; subst gm2 ids2.
    destruct (group_order_props ids1 (NDids gm1 ids1 Hg1)) as [NDo Io].
    assert (Hm : exists a b r, ids1 = a :: b :: r).
    { destruct ids1 as [|a [|b r]]; [destruct Hi1| |exists a, b, r; reflexivity].
      destruct Hi1 as [<-|[]]. destruct Hi2 as [<-|[]]. congruence. }
    destruct Hm as (a & b & r & Eids).
    assert (Gd : group_dups (gm1, ids1) = tl (group_order ids1)) by (rewrite group_dups_spec; cbn [snd]; rewrite Eids; reflexivity).
    assert (Hcase : In e (tl (group_order ids1)) \/ In f (tl (group_order ids1))).
    { destruct (group_order ids1) as [|h l] eqn:Eo; [exfalso; apply (proj2 (Io e)) in Hi1; destruct Hi1|]. cbn [tl].
      apply Io in Hi1. apply Io in Hi2. destruct Hi1 as [<-|H1]; [|left; exact H1]. destruct Hi2 as [<-|H2]; [congruence|right; exact H2]. }
    destruct Hcase as [H|H]; [left|right]; apply Ed; (split; [assumption|]); exists (gm1, ids1); (split; [exact Hg1|]); rewrite Gd; exact H.
Qed.

(* filterby_attr: exactly the ids of the view whose integer attribute (the `missing` value when absent) satisfies the comparison, in view order *)
Theorem filterby_attr_exact k view name missing m v s x :
  In x (filterby_attr k view name missing m v s) <->
  In x view /\ exists z, attr_stat k name missing s x = AInt z /\ fcmp m z v = true.
Proof.
  unfold filterby_attr. rewrite filter_In. split.
  - intros [Hx H]. split; [exact Hx|]. destruct (attr_stat k name missing s x); try discriminate H. eexists; split; [reflexivity|exact H].
  - intros [Hx (z & E & H)]. split; [exact Hx|]. rewrite E. exact H.
Qed.
