"""C13 - boundary operators form a chain complex."""
import os, random, warnings
from .. import common as C, histcheck as HC, gallina as G, scsim
from . import base

PROP = "C13"
IMPORTS = "Base.Label Base.Attr Base.Outcome Model.Hypergraph Model.SimplicialComplex Model.Hodge Model.HodgeCheck"


def gmat(M):
    return "[" + "; ".join("[" + "; ".join(G.gZ(int(round(x))) for x in row) + "]" for row in M) + "]"


def is_int_matrix(M):
    import numpy as np
    return np.all(np.abs(M - np.round(M)) < 1e-9)


def oracle(S, orient, maxo):
    """column structure, d d = 0, Hodge Laplacians symmetric PSD, dim ker L0 = number of components"""
    import numpy as np, xgi
    Bs = {}
    for k in range(1, maxo + 2):
        B, rd, cd = xgi.boundary_matrix(S, k, orient, index=True)
        Bs[k] = B
        for c in range(B.shape[1]):
            colv = B[:, c]
            nz = np.nonzero(colv)[0]
            sim = set(S.edges.members(cd[c]))
            if len(nz) != k + 1 or not np.all(np.abs(colv[nz]) == 1):
                return f"column of simplex {cd[c]!r} in B_{k} has {len(nz)} non-zero entries (expected {k + 1}) or entries not +-1"
            for r in nz:
                face = {rd[r]} if k == 1 else set(S.edges.members(rd[r]))
                if not (face < sim and len(face) == k):
                    return f"B_{k}: non-zero entry at row {rd[r]!r}, which is not a face of {cd[c]!r}"
    for k in range(1, maxo + 1):
        if Bs[k].shape[1] and Bs[k + 1].shape[0]:
            P = Bs[k] @ Bs[k + 1]
            if P.size and np.abs(P).max() != 0:
                return f"B_{k} B_{k + 1} is not zero"
    for k in range(0, maxo + 1):
        L = xgi.hodge_laplacian(S, k, orient)
        if L.size:
            if np.abs(L - L.T).max() > 1e-9:
                return f"Hodge Laplacian of order {k} is not symmetric"
            if np.linalg.eigvalsh(L).min() < -1e-8:
                return f"Hodge Laplacian of order {k} is not positive semidefinite"
    if S.num_nodes:
        L0 = xgi.hodge_laplacian(S, 0, orient)
        rank = np.linalg.matrix_rank(L0) if L0.size else 0
        if S.num_nodes - rank != xgi.number_connected_components(S):
            return f"dim ker L0 = {S.num_nodes - rank}, components = {xgi.number_connected_components(S)}"
    return None


def run(v):
    import xgi, numpy as np
    proof = base.proof_stage(v, PROP)
    n = 1500 if C.tier() == "thorough" else 160
    rng = random.Random(C.seed() * 131 + 13)
    recs = HC.gen_histories(scsim, n, 8, C.seed() + 130, malformed_share=0.0)
    failures, reports, errors, terms = [], [], [], []
    nmat = 0
    for i, r in enumerate(recs):
        S = r["net"]
        if r["obs"] and r["obs"][-1].get("broken") or S.num_edges == 0:
            continue
        maxo = max(len(m) for m in S.edges.members()) - 1
        if maxo > 3:
            continue
        orient = {e: rng.randint(0, 1) for e in S.edges if len(S.edges.members(e)) >= 2}
        use_orient = orient if rng.random() < 0.7 else None
        # the documentation says "boolean orientation": the same assignment handed over as ints, Python bools, numpy bools or
        # numpy integers is the same argument (the model takes 0 / 1)
        pres_kind = rng.choice(["int", "bool", "np.bool_", "np.int64"])
        conv = {"int": int, "bool": bool, "np.bool_": np.bool_, "np.int64": np.int64}[pres_kind]
        model_orient = use_orient
        if use_orient is not None:
            use_orient = {e: conv(o) for e, o in use_orient.items()}
        try:
            with warnings.catch_warnings():
                warnings.simplefilter("ignore")
                d = oracle(S, use_orient, maxo)
        except Exception as e:  # noqa: BLE001
            d = f"raised {type(e).__name__}: {e}"
        if d:
            failures.append((f"{PROP}:{' '.join(d.split(' ')[:3])}", {"what": d, "history": HC.jsonable(r["ops"]), "orientations": HC.jsonable(model_orient),
                                                                       "orientations_given_as": pres_kind}))
            continue
        bs, hs = [], []
        try:
            for k in range(0, maxo + 2):
                B, rd, cd = xgi.boundary_matrix(S, k, use_orient, index=True)
                if not is_int_matrix(B):
                    raise G.Unsupported("non-integer matrix")
                bs.append(G.gpair(G.gnat(k), gmat(B), G.lbls([rd[j] for j in range(len(rd))]), G.lbls([cd[j] for j in range(len(cd))])))
                nmat += 1
            for k in range(0, maxo + 1):
                L = xgi.hodge_laplacian(S, k, use_orient)
                hs.append(G.gpair(G.gnat(k), gmat(L)))
                nmat += 1
            opsg = G.glist([scsim.op_to_gallina(op, ex) for op, ex in zip(r["ops"], r["extras"])])
            og = G.glist([G.gpair(G.lbl(e), G.gZ(o)) for e, o in (model_orient or {}).items()])
            terms.append((i, G.gpair(opsg, og, G.glist(bs), G.glist(hs))))
        except G.Unsupported:
            pass
    cdir = C.cases_dir(PROP)
    files = {}
    for k in range(0, len(terms), 60):
        chunk = terms[k:k + 60]
        path = os.path.join(cdir, f"cases_{PROP}_{k // 60}.v")
        C.write_case_file(path, [IMPORTS], "Definition cases := [\n" + ";\n".join(t for _, t in chunk) + "\n].\n" +
                          "Eval vm_compute in (hodge_bad cases).\n")
        files[path] = [i for i, _ in chunk]
    res = C.run_coq_files(files.keys())
    for path, idxs in files.items():
        rc, out = res[path]
        pairs = C.parse_pairs(out) if rc == 0 else None
        if pairs is None:
            errors.append({"file": os.path.basename(path), "rc": rc, "output": out[-1500:]})
            continue
        for ci, which in pairs[:4]:
            reports.append({"correspondence": "Model.HodgeCheck.hodge_bad", "which_matrix": which,
                            "history": HC.jsonable(recs[idxs[ci]]["ops"])})
    C.clean_cases(cdir)
    st = HC.stats(recs)
    v.coverage.update({
        "evaluations": nmat,
        "distinct_nontrivial": st.pop("distinct_nontrivial"),
        "rule": "simplicial complexes built by generated histories (int or string labels, explicit ids), random or default "
                "orientations; every boundary matrix B_0..B_{dim+1} with its index maps and every Hodge Laplacian compared "
                "exactly with the model; oracle: column structure, B_k B_{k+1} = 0, Laplacians symmetric PSD, dim ker L0 = "
                "number of components; non-trivial = the history changes the tables",
        "samples": [HC.jsonable(recs[0]["ops"][:4])],
        "oracle_evaluations": len(recs),
        "exhaustive": False,
        **st,
    })
    base.conclude(v, proof, reports, failures, errors)


def replay(payload):
    d = payload.get("detail", payload)
    ops = HC.unjson(d["history"])
    r = scsim.run_history(ops)
    S = r["net"]
    maxo = max(len(m) for m in S.edges.members()) - 1
    o = d.get("orientations")
    print("oracle:", oracle(S, None, maxo) or "holds (default orientations)")
    return 0
