"""C06 - views and statistics are live and mutually consistent."""
import os, random, warnings
from fractions import Fraction
from .. import common as C, histcheck as HC, gallina as G, hgsim, disim
from . import base, C01

PROP = "C06"
IMPORTS = "Base.Label Base.Attr Base.Outcome Model.Hypergraph Model.HgCheck Model.Stats"
MODES = ["eq", "neq", "lt", "gt", "leq", "geq", "between"]


def gmode(m, hi=None):
    return {"eq": "FEq", "neq": "FNeq", "lt": "FLt", "gt": "FGt", "leq": "FLeq", "geq": "FGeq"}.get(m) or f"(FBetween {G.gZ(hi)})"


def gopt_z(x):
    return "None" if x is None else f"(Some {G.gZ(x)})"


def int_attr_names(H, kind):
    view = H.nodes if kind == "node" else H.edges
    names = {}
    for i in view:
        for k, v in view[i].items():
            names.setdefault(k, True)
            if not (isinstance(v, int) and not isinstance(v, bool)) and v is not None:
                names[k] = False
    return [k for k, ok in names.items() if ok]


def gen_queries(rng, H):
    nodes, edges = list(H.nodes), list(H.edges)
    qs = [("views",)]
    for _ in range(10):
        k = rng.choice(["degree", "degree", "avg", "size", "order", "nfilter", "efilter", "fattr", "nbrs", "nbrs",
                        "lookup", "dups", "isolates", "singletons", "empty", "maximal", "maximal"])
        if k == "degree":
            w = None
            names = [x for x in int_attr_names(H, "edge") if all(v is not None for e in edges for kk, v in H.edges[e].items() if kk == x)]
            if names and rng.random() < 0.4:
                w = rng.choice(names)
            qs.append(("degree", rng.choice([None, None, 0, 1, 2]), w))
        elif k == "avg":
            qs.append(("avg",))
        elif k in ("size", "order"):
            qs.append((k, rng.choice([None, None, 0, 1, 2])))
        elif k in ("nfilter", "efilter"):
            m = rng.choice(MODES)
            v = rng.randint(0, 3)
            qs.append((k, m, v, v + rng.randint(0, 2)))
        elif k == "fattr":
            kind = rng.choice(["node", "edge"])
            names = int_attr_names(H, kind)
            if names:
                m = rng.choice(MODES)
                v = rng.choice([1, 2, 3, 7])
                qs.append(("fattr", kind, rng.choice(names), m, v, v + 2))
        elif k == "nbrs":
            kind = rng.choice(["node", "edge"])
            pool = nodes if kind == "node" else edges
            if pool:
                qs.append(("nbrs", kind, rng.choice([1, 1, 2, 3]), rng.choice(pool)))
        elif k == "lookup":
            kind = rng.choice(["node", "edge", "edge"])
            if kind == "edge" and edges and rng.random() < 0.8:
                sought = list(H.edges.members(rng.choice(edges)))
            elif kind == "node" and nodes and rng.random() < 0.8:
                sought = list(H.nodes.memberships(rng.choice(nodes)))
            else:
                sought = rng.sample(nodes if kind == "edge" else edges, min(2, len(nodes if kind == "edge" else edges)))
            qs.append(("lookup", kind, sought))
        elif k == "dups":
            qs.append(("dups", rng.choice(["node", "edge", "edge"])))
        elif k == "isolates":
            qs.append(("isolates", rng.random() < 0.5))
        elif k == "maximal":
            qs.append(("maximal", rng.random() < 0.5))
        else:
            qs.append((k,))
    return qs


def frac(x):
    return Fraction(x).limit_denominator(10 ** 6)


def answer(H, q):
    """(python answer, gallina query, gallina answer)"""
    k = q[0]
    side = lambda kind: "SNode" if kind == "node" else "SEdge"
    amap = lambda d: "(AMap " + G.glist([G.gpair(G.lbl(i), G.gZ(v)) for i, v in d]) + ")"
    aids = lambda l: "(AIds " + G.lbls(l) + ")"
    if k == "views":
        a = (list(H.nodes), list(H.edges))
        return a, "QViews", f"(ATwo {G.lbls(a[0])} {G.lbls(a[1])})"
    if k == "degree":
        d = list(H.nodes.degree(order=q[1], weight=q[2]).asdict().items())
        return d, f"(QDegree {gopt_z(q[1])} {G.gopt(q[2], G.gstr)})", amap(d)
    if k == "avg":
        d = [(n, frac(v)) for n, v in H.nodes.average_neighbor_degree.asdict().items()]
        return d, "QAvgNbrDegree", "(AQMap " + G.glist([G.gpair(G.lbl(i), G.gpair(G.gZ(v.numerator), G.gZ(v.denominator))) for i, v in d]) + ")"
    if k == "size":
        d = list(H.edges.size(degree=q[1]).asdict().items())
        return d, f"(QEdgeSize {gopt_z(q[1])})", amap(d)
    if k == "order":
        d = list(H.edges.order(degree=q[1]).asdict().items())
        return d, f"(QEdgeOrder {gopt_z(q[1])})", amap(d)
    if k in ("nfilter", "efilter"):
        view = H.nodes if k == "nfilter" else H.edges
        stat = "degree" if k == "nfilter" else "size"
        val = (q[2], q[3]) if q[1] == "between" else q[2]
        l = list(view.filterby(stat, val, q[1]))
        return l, f"({'QNodeFilterDegree' if k == 'nfilter' else 'QEdgeFilterSize'} {gmode(q[1], q[3])} {G.gZ(q[2])})", aids(l)
    if k == "fattr":
        view = H.nodes if q[1] == "node" else H.edges
        val = (q[4], q[5]) if q[3] == "between" else q[4]
        l = list(view.filterby_attr(q[2], val, q[3]))
        return l, f"(QFilterAttr {side(q[1])} {G.gstr(q[2])} {gmode(q[3], q[5])} {G.gZ(q[4])})", aids(l)
    if k == "nbrs":
        view = H.nodes if q[1] == "node" else H.edges
        s = set(view.neighbors(q[3], q[2]))
        return s, f"(QNeighbors {side(q[1])} {G.gZ(q[2])} {G.lbl(q[3])})", "(ASet " + G.lblset(s) + ")"
    if k == "lookup":
        view = H.nodes if q[1] == "node" else H.edges
        l = list(view.lookup(q[2]))
        return l, f"(QLookup {side(q[1])} {G.lbls(q[2])})", aids(l)
    if k == "dups":
        view = H.nodes if q[1] == "node" else H.edges
        l = list(view.duplicates())
        return l, f"(QDuplicates {side(q[1])})", aids(l)
    if k == "isolates":
        l = list(H.nodes.isolates(ignore_singletons=q[1]))
        return l, f"(QIsolates {G.gbool(q[1])})", aids(l)
    if k == "singletons":
        l = list(H.edges.singletons())
        return l, "QSingletons", aids(l)
    if k == "empty":
        l = list(H.edges.empty())
        return l, "QEmpty", aids(l)
    if k == "maximal":
        l = list(H.edges.maximal(strict=q[1]))
        return l, f"(QMaximal {G.gbool(q[1])})", aids(l)
    raise AssertionError(k)


def oracle_state(H):
    """the definitions of C06 evaluated directly; description of a violation or None"""
    import numpy as np
    nodes, edges = list(H.nodes), list(H.edges)
    memb = {n: set(H.nodes.memberships(n)) for n in nodes}
    mem = {e: set(H.edges.members(e)) for e in edges}
    deg = H.nodes.degree
    size = H.edges.size
    if list(deg.asdict()) != nodes or list(size.asdict()) != edges:
        return "asdict does not follow view order"
    if deg.asdict() != {n: len(memb[n]) for n in nodes}:
        return f"degree {deg.asdict()} is not the number of memberships"
    if size.asdict() != {e: len(mem[e]) for e in edges}:
        return f"size {size.asdict()} is not the number of members"
    if H.edges.order.asdict() != {e: len(mem[e]) - 1 for e in edges}:
        return "order is not size - 1"
    if sum(deg.aslist()) != sum(size.aslist()):
        return f"degrees sum to {sum(deg.aslist())}, sizes to {sum(size.aslist())}"
    for d in range(0, 4):
        if sum(H.nodes.degree(order=d).aslist()) != sum(s for s in size.aslist() if s == d + 1):
            return f"handshake fails for order {d}"
    for stat in (deg, size, H.nodes.degree(order=1)):
        dd = stat.asdict()
        view = list(stat.view)
        if stat.aslist() != [dd[i] for i in view] or list(stat.asnumpy()) != [dd[i] for i in view]:
            return "aslist/asnumpy disagree with asdict"
        ps = stat.aspandas()
        if list(ps.index) != view or list(ps.values) != [dd[i] for i in view]:
            return f"aspandas index {list(ps.index)} / values do not follow the view {view}"
    if nodes:
        multi = H.nodes.multi(["degree", "average_neighbor_degree"])
        md = multi.asdict()
        if list(md) != nodes or any(md[n]["degree"] != len(memb[n]) for n in nodes):
            return "multi-stat asdict disagrees with degree"
        if multi.aslist() != [[md[n]["degree"], md[n]["average_neighbor_degree"]] for n in nodes]:
            return "multi-stat aslist disagrees with asdict"
        mp = multi.aspandas()
        if list(mp.index) != nodes or list(mp["degree"]) != [len(memb[n]) for n in nodes]:
            return "multi-stat aspandas does not follow the view"
    # set-theoretic queries
    for n in nodes:
        want = set().union(*[mem[e] for e in memb[n]]) - {n} if memb[n] else set()
        if set(H.nodes.neighbors(n)) != want:
            return f"neighbors({n!r}) = {H.nodes.neighbors(n)}, expected {want}"
    for e in edges[:6]:
        if set(H.edges.lookup(mem[e])) != {f for f in edges if mem[f] == mem[e]}:
            return f"lookup({mem[e]}) is not the set of edges with exactly these members"
    dup = set(H.edges.duplicates())
    groups = {}
    for e in edges:
        groups.setdefault(frozenset(mem[e]), []).append(e)
    if len(dup) != sum(len(g) - 1 for g in groups.values()) or any(len([x for x in g if x not in dup]) != 1 for g in groups.values()):
        return f"duplicates() = {dup} does not leave exactly one representative per repeated member set"
    if set(H.nodes.isolates()) != {n for n in nodes if not memb[n]}:
        return "isolates() is not the set of nodes without memberships"
    if set(H.nodes.isolates(ignore_singletons=True)) != {n for n in nodes if all(len(mem[e]) == 1 for e in memb[n])}:
        return "isolates(ignore_singletons=True) wrong"
    if set(H.edges.singletons()) != {e for e in edges if len(mem[e]) == 1} or set(H.edges.empty()) != {e for e in edges if not mem[e]}:
        return "singletons()/empty() wrong"
    try:
        mx = set(H.edges.maximal())
        mxs = set(H.edges.maximal(strict=True))
    except Exception as ex:  # noqa: BLE001
        return f"maximal() raised {type(ex).__name__}: {ex}"
    if mx != {e for e in edges if not any(mem[e] < mem[f] for f in edges)}:
        return f"maximal() = {mx} is not the set of edges without a strict superset"
    if mxs != {e for e in edges if not any(f != e and mem[e] <= mem[f] for f in edges)}:
        return f"maximal(strict=True) = {mxs} wrong"
    for mode, fn in (("eq", lambda x: x == 2), ("neq", lambda x: x != 2), ("lt", lambda x: x < 2), ("gt", lambda x: x > 2),
                     ("leq", lambda x: x <= 2), ("geq", lambda x: x >= 2)):
        if list(H.nodes.filterby("degree", 2, mode)) != [n for n in nodes if fn(len(memb[n]))]:
            return f"filterby('degree', 2, {mode!r}) wrong"
    if list(H.edges.filterby("size", (1, 2), "between")) != [e for e in edges if 1 <= len(mem[e]) <= 2]:
        return "filterby between wrong"
    # filterby_attr: exactly the ids whose attribute (or the imputed `missing` value) satisfies the comparison
    cmps = (("eq", lambda x, a, b: x == a), ("neq", lambda x, a, b: x != a), ("lt", lambda x, a, b: x < a),
            ("gt", lambda x, a, b: x > a), ("leq", lambda x, a, b: x <= a), ("geq", lambda x, a, b: x >= a),
            ("between", lambda x, a, b: a <= x <= b))
    for kind, view, ids in (("node", H.nodes, nodes), ("edge", H.edges, edges)):
        for name in int_attr_names(H, kind):
            for missing in (None, 0):
                vals = {i: view[i].get(name, missing) for i in ids}
                vals = {i: (missing if x is None and name not in view[i] else x) for i, x in vals.items()}
                for mode, fn in cmps:
                    for a in (0, 1, 2):
                        arg = (a, a + 1) if mode == "between" else a
                        want = [i for i in ids if vals[i] is not None and fn(vals[i], a, a + 1)]
                        got = list(view.filterby_attr(name, arg, mode, missing=missing))
                        if got != want:
                            return (f"{kind}s.filterby_attr({name!r}, {arg}, {mode!r}, missing={missing}) = {got}, "
                                    f"the ids satisfying the comparison are {want}")
    return None


def oracle_directed(DH):
    nodes, edges = list(DH.nodes), list(DH.edges)
    dm = {n: DH.nodes.dimemberships(n) for n in nodes}
    de = {e: DH.edges.dimembers(e) for e in edges}
    if DH.nodes.in_degree.asdict() != {n: len(dm[n][0]) for n in nodes} or \
       DH.nodes.out_degree.asdict() != {n: len(dm[n][1]) for n in nodes}:
        return "in/out degree do not match the directed memberships"
    if DH.nodes.degree.asdict() != {n: len(set(dm[n][0]) | set(dm[n][1])) for n in nodes}:
        return "total degree is not |in U out|"
    if DH.edges.tail_size.asdict() != {e: len(de[e][0]) for e in edges} or DH.edges.head_size.asdict() != {e: len(de[e][1]) for e in edges}:
        return "head/tail sizes do not match the directed members"
    if DH.edges.size.asdict() != {e: len(set(de[e][0]) | set(de[e][1])) for e in edges}:
        return "directed size is not |tail U head|"
    if sum(DH.nodes.in_degree.aslist()) != sum(DH.edges.head_size.aslist()) or \
       sum(DH.nodes.out_degree.aslist()) != sum(DH.edges.tail_size.aslist()):
        return "directed handshake fails"
    if list(DH.nodes.degree.asdict()) != nodes or list(DH.edges.size.asdict()) != edges:
        return "directed views do not follow insertion order"
    # the order of a directed edge is |tail U head| - 1; degrees restricted to an order count the edges of that order only
    order = {e: len(set(de[e][0]) | set(de[e][1])) - 1 for e in edges}
    if DH.edges.order.asdict() != order:
        return "directed order is not |tail U head| - 1"
    for k in sorted(set(order.values()) | {0, 1, 2})[:6]:
        want_in = {n: sum(1 for e in dm[n][0] if order[e] == k) for n in nodes}
        want_out = {n: sum(1 for e in dm[n][1] if order[e] == k) for n in nodes}
        want_deg = {n: sum(1 for e in set(dm[n][0]) | set(dm[n][1]) if order[e] == k) for n in nodes}
        if DH.nodes.in_degree(order=k).asdict() != want_in:
            return f"in_degree(order={k}) does not count the edges of that order having the node in their head"
        if DH.nodes.out_degree(order=k).asdict() != want_out:
            return f"out_degree(order={k}) does not count the edges of that order having the node in their tail"
        if DH.nodes.degree(order=k).asdict() != want_deg:
            return f"degree(order={k}) does not count the edges of that order incident to the node"
    # sizes / orders restricted to the member nodes of a given degree: the degree of a node is |in U out| - the same number
    # DH.nodes.degree reports - whichever side of the edge is counted
    deg = {n: len(set(dm[n][0]) | set(dm[n][1])) for n in nodes}
    for d in sorted(set(deg.values()) | {0, 1})[:5]:
        cnt = lambda ms: sum(1 for n in ms if deg[n] == d)   # noqa: E731
        want = {"tail_size": {e: cnt(de[e][0]) for e in edges}, "head_size": {e: cnt(de[e][1]) for e in edges},
                "size": {e: cnt(set(de[e][0]) | set(de[e][1])) for e in edges}}
        for nm in ("tail", "head"):
            want[nm + "_order"] = {e: v - 1 for e, v in want[nm + "_size"].items()}
        want["order"] = {e: v - 1 for e, v in want["size"].items()}
        for nm, w in want.items():
            got = getattr(DH.edges, nm)(degree=d).asdict()
            if got != w:
                return f"{nm}(degree={d}) = {got} does not count the member nodes of degree {d}: {w}"
    # weighted variants on a numeric edge attribute (missing values count 1)
    wts = {e: DH.edges[e].get("w", 1) for e in edges}
    if all(isinstance(x, (int, float)) and not isinstance(x, bool) for x in wts.values()):
        for k in (None,) + tuple(sorted(set(order.values()))[:3]):
            sel = (lambda e: True) if k is None else (lambda e, k=k: order[e] == k)
            kw = {} if k is None else {"order": k}
            if DH.nodes.in_degree(weight="w", **kw).asdict() != {n: sum(wts[e] for e in dm[n][0] if sel(e)) for n in nodes}:
                return f"in_degree(weight='w', order={k}) is not the weighted count"
            if DH.nodes.out_degree(weight="w", **kw).asdict() != {n: sum(wts[e] for e in dm[n][1] if sel(e)) for n in nodes}:
                return f"out_degree(weight='w', order={k}) is not the weighted count"
    return None


def directed_queries(DH):
    """neighbors / duplicates / lookup on directed views against their set-theoretic definitions
    (nodes sharing an edge; ids with the same (tail, head); edges with exactly the given members)"""
    out = []
    nodes, edges = list(DH.nodes), list(DH.edges)
    de = {e: DH.edges.dimembers(e) for e in edges}
    full = {e: set(de[e][0]) | set(de[e][1]) for e in edges}
    if nodes:
        n = nodes[0]
        want = set().union(*[full[e] for e in edges if n in full[e]]) - {n} if any(n in full[e] for e in edges) else set()
        try:
            got = set(DH.nodes.neighbors(n))
            if got != want:
                out.append(("neighbors", f"DiNodeView.neighbors({n!r}) = {got}, nodes sharing an edge are {want}"))
        except Exception as e:  # noqa: BLE001
            out.append(("neighbors", f"DiNodeView.neighbors({n!r}) raised {type(e).__name__}: {e}"))
    if len(edges) >= 2:
        groups = {}
        for e in edges:
            groups.setdefault((frozenset(de[e][0]), frozenset(de[e][1])), []).append(e)
        want = sum(len(g) - 1 for g in groups.values())
        try:
            got = list(DH.edges.duplicates())
            if len(got) != want:
                out.append(("duplicates", f"DiEdgeView.duplicates() lists {len(got)} ids, {want} edges repeat an earlier (tail, head)"))
        except Exception as e:  # noqa: BLE001
            out.append(("duplicates", f"DiEdgeView.duplicates() raised {type(e).__name__}: {e}"))
        e0 = edges[0]
        try:
            got = set(DH.edges.lookup(full[e0]))
            want_l = {e for e in edges if full[e] == full[e0]}
            if got != want_l:
                out.append(("lookup", f"DiEdgeView.lookup({full[e0]}) = {got}, edges with exactly these members are {want_l}"))
        except Exception as e:  # noqa: BLE001
            out.append(("lookup", f"DiEdgeView.lookup raised {type(e).__name__}: {e}"))
    return out


def live_oracle(sim, rec, rng):
    """stats and views obtained before a history evaluate afterwards to what fresh ones evaluate to"""
    import xgi
    H = xgi.Hypergraph()
    held = None
    k = max(1, len(rec["ops"]) // 2)
    for i, op in enumerate(rec["ops"]):
        if i == k:
            held = (H.nodes, H.edges, H.nodes.degree, H.edges.size, H.nodes.degree(order=1), H.edges.order)
        sim.apply_op(H, op)
    if held is None:
        return None
    nv, ev, dg, sz, d1, od = held
    if list(nv) != list(H.nodes) or list(ev) != list(H.edges):
        return "a held base view does not list the current ids"
    if dg.asdict() != H.nodes.degree.asdict() or sz.asdict() != H.edges.size.asdict() or \
       d1.asdict() != H.nodes.degree(order=1).asdict() or od.asdict() != H.edges.order.asdict():
        return "a statistic held across mutations is stale"
    return None


def run(v):
    proof = base.proof_stage(v, PROP)
    n = 2500 if C.tier() == "thorough" else 300
    rng = random.Random(C.seed() * 67 + 6)
    recs = HC.gen_histories(hgsim, n, 14, C.seed() + 60, malformed_share=0.05)
    failures, reports, errors, terms = [], [], [], []
    nq = 0
    for i, r in enumerate(recs):
        H = r["net"]
        if r["obs"] and r["obs"][-1].get("broken"):
            continue
        with warnings.catch_warnings():
            warnings.simplefilter("ignore")
            d = oracle_state(H) or live_oracle(hgsim, r, rng)
        if d:
            failures.append((f"{PROP}:{' '.join(d.split(' ')[:3])}", {"what": d, "history": HC.jsonable(r["ops"])}))
        qa = []
        for q in gen_queries(rng, H):
            try:
                with warnings.catch_warnings():
                    warnings.simplefilter("ignore")
                    _, gq, ga = answer(H, q)
                qa.append(G.gpair(gq, ga))
                nq += 1
            except G.Unsupported:
                continue
            except Exception as e:  # noqa: BLE001
                failures.append((f"{PROP}:query-raises:{q[0]}:{type(e).__name__}",
                                 {"what": f"query {q} raised {type(e).__name__}: {e}", "history": HC.jsonable(r["ops"]), "query": HC.jsonable(q)}))
        try:
            opsg = G.glist([hgsim.op_to_gallina(op, ex) for op, ex in zip(r["ops"], r["extras"])])
            terms.append((i, G.gpair(opsg, G.glist(qa))))
        except G.Unsupported:
            pass
    # directed statistics: oracle on generated directed networks
    drecs = HC.gen_histories(disim, max(60, n // 4), 12, C.seed() + 61, malformed_share=0.0)
    for r in drecs:
        d = oracle_directed(r["net"])
        if d:
            failures.append((f"{PROP}:directed:{' '.join(d.split(' ')[:3])}", {"what": d, "class": "DiHypergraph", "history": HC.jsonable(r["ops"])}))
        for which, d in directed_queries(r["net"]):
            failures.append((f"{PROP}:directed-queries:{which}", {"what": d, "class": "DiHypergraph", "history": HC.jsonable(r["ops"])}))
    cdir = C.cases_dir(PROP)
    files = {}
    for k in range(0, len(terms), 100):
        chunk = terms[k:k + 100]
        path = os.path.join(cdir, f"cases_{PROP}_{k // 100}.v")
        C.write_case_file(path, [IMPORTS], "Definition cases := [\n" + ";\n".join(t for _, t in chunk) + "\n].\n" +
                          "Eval vm_compute in (stat_mismatches cases).\n")
        files[path] = [i for i, _ in chunk]
    res = C.run_coq_files(files.keys())
    nm = 0
    for path, idxs in files.items():
        rc, out = res[path]
        pairs = C.parse_pairs(out) if rc == 0 else None
        if pairs is None:
            errors.append({"file": os.path.basename(path), "rc": rc, "output": out[-1500:]})
            continue
        for ci, qi in pairs:
            nm += 1
            if len(reports) < 5:
                reports.append({"correspondence": "Model.Stats.stat_mismatches", "query_index": qi,
                                "history": HC.jsonable(recs[idxs[ci]]["ops"])})
    C.clean_cases(cdir)
    st = HC.stats(recs)
    v.coverage.update({
        "evaluations": nq,
        "distinct_nontrivial": st.pop("distinct_nontrivial"),
        "rule": "networks built by generated edit histories; ~11 queries each (degree with order/weight, sizes and orders "
                "with degree, neighbour averages, filterby in all 7 modes, filterby_attr, neighbors(s), lookup, duplicates, "
                "isolates, singletons, empty, maximal) answered by the implementation and by the model; the oracle "
                "evaluates the definitions, the handshake identities, format agreement and liveness of held stats; "
                "directed statistics by oracle; non-trivial = history changes the tables",
        "samples": [HC.jsonable(recs[0]["ops"][:4])],
        "oracle_evaluations": len(recs) + len(drecs),
        "exhaustive": False,
        **st,
    })
    base.conclude(v, proof, reports, failures, errors)


def replay(payload):
    d = payload.get("detail", payload)
    ops = HC.unjson(d["history"])
    r = hgsim.run_history(ops)
    dsc = oracle_state(r["net"]) or live_oracle(hgsim, r, random.Random(0))
    print("oracle:", dsc or "holds")
    return 1 if dsc else 0
