(* C06: neighbors(n, s): the nodes sharing at least s edges with n. *)
From Coq Require Import String ZArith List Bool Lia.
From XV Require Import Base.Label Base.LSet Base.ODict Base.Attr Base.Outcome Model.Hypergraph Model.Stats
     Proofs.HgViews Proofs.HgInv Proofs.StatsProofs.
Import ListNotations.
Open Scope Z_scope.

Theorem node_neighbors_s_spec sv s n x : sv <> 1 ->
  (In x (Stats.neighbors SNode sv s n) <->
   x <> n /\ (exists e, In e (mships s n) /\ In x (mems s e)) /\
   sv <= Z.of_nat (length (sinter (mships s n) (mships s x)))).
Proof.
  intro Hs. unfold Stats.neighbors. cbn [id_dict bi_dict]. apply Z.eqb_neq in Hs. rewrite Hs.
  rewrite In_sremove, filter_In, fold_sunion_In. cbn [In]. unfold mships, mems, zlen. rewrite Z.leb_le. split.
  - intros [N [[[]|H] L]]. split; [exact N|]. split; [exact H|exact L].
  - intros [N [H L]]. split; [exact N|]. split; [right; exact H|exact L].
Qed.

(* with the invariant: the number of shared edges is the number of edges containing both nodes *)
Theorem shared_edges_spec s n x e : Inv s ->
  (In e (sinter (mships s n) (mships s x)) <-> In n (mems s e) /\ In x (mems s e)).
Proof. intros (W & _). rewrite In_sinter, !(W _ e). reflexivity. Qed.
