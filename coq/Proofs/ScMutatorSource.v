(* C03: the three helpers through which SimplicialComplex writes its tables - _add_simplex, _add_face, _remove_simplex_id -
   regenerated from xgi/core/simplicialcomplex.py on every run (Gen/ScMutators.v), run under the semantics of Model/PyIR.v,
   are the model's insert_edge / remove_edge1. *)
From Coq Require Import String ZArith List Bool Lia.
From XV Require Import Base.Label Base.LSet Base.ODict Base.Attr Base.Outcome Model.Hypergraph Model.PyIR Gen.Mutators Gen.ScMutators
     Proofs.HgViews Proofs.HgInv Proofs.MutatorSource.
Import ListNotations.
Open Scope Z_scope.

Lemma exec_setmembers t k en s : exec (SSetMembers t k) en s =
  if is_none (veval k en) then (s, Raised XGIError) else (set_tab t s (set (veval k en) (e_members en) (tab t s)), Ok).
Proof. reflexivity. Qed.

(* _remove_simplex_id(idx) is, statement for statement, Hypergraph.remove_edge *)
Theorem sc_remove_simplex_id_is_source e s : Inv s ->
  run_method src_sc_remove_simplex_id [e] [] s = remove_edge1 e s.
Proof. intro I. change src_sc_remove_simplex_id with src_remove_edge. apply remove_edge_is_source. exact I. Qed.

(* the member loop of the two adding helpers: create the node if new, record the membership on the node side *)
Definition nstep (e : lbl) (s : hg) (x : lbl) : hg := node_add x e (ensure_node x s).

Lemma nstep_loop_ok (pre : list stmt) k e en :
  (forall x, veval VLoop (with_loop en x) = x) -> (forall x, veval k (with_loop en x) = e) ->
  (forall x s, is_none x = false -> exec_list pre (with_loop en x) s = (s, Ok)) ->
  forall xs s, (forall x, In x xs -> is_none x = false) ->
  iter_list [SIf (BNot (BIn VLoop TNode)) (pre ++ [SNewSet TNode VLoop; SNewAttr TNode VLoop]) []; SAdd TNode VLoop k] en xs s
  = (fold_left (nstep e) xs s, Ok).
Proof.
  intros Vl Vk Hpre. induction xs as [|x xs IH]; intros s Hn; [reflexivity|]. cbn [iter_list fold_left].
  assert (Nx : is_none x = false) by (apply Hn; left; reflexivity).
  assert (Step : exec_list [SIf (BNot (BIn VLoop TNode)) (pre ++ [SNewSet TNode VLoop; SNewAttr TNode VLoop]) []; SAdd TNode VLoop k]
                   (with_loop en x) s = (nstep e s x, Ok)).
  { rewrite exec_list_cons, exec_if. cbn [beval tab]. rewrite Vl. unfold nstep, ensure_node.
    destruct (has x (h_node s)) eqn:Hx; cbn [negb].
    - rewrite exec_list_nil, exec_list_cons, exec_add. rewrite Vl, Vk. cbn [tab].
      unfold has in Hx. destruct (get x (h_node s)) as [l|] eqn:G; [|discriminate Hx].
      rewrite exec_list_nil. unfold node_add, getl. rewrite G. reflexivity.
    - assert (P : exec_list (pre ++ [SNewSet TNode VLoop; SNewAttr TNode VLoop]) (with_loop en x) s =
                  (with_nattr (with_node s (set x [] (h_node s))) (set x [] (h_nattr s)), Ok)).
      { assert (App : forall l1 l2 en0 s0 s1, exec_list l1 en0 s0 = (s1, Ok) -> exec_list (l1 ++ l2) en0 s0 = exec_list l2 en0 s1).
        { induction l1 as [|q r IHl]; intros l2 en0 s0 s1 H; [cbn [exec_list] in H; injection H as <-; reflexivity|].
          cbn [app]. rewrite exec_list_cons in *. destruct (exec q en0 s0) as [s' [|y]]; [apply IHl; exact H|discriminate H]. }
        rewrite (App pre _ _ s s (Hpre x s Nx)).
        rewrite exec_list_cons, exec_newset, Vl, Nx. rewrite exec_list_cons, exec_newattr, Vl, Nx. rewrite exec_list_nil. reflexivity. }
      rewrite P. rewrite exec_list_cons, exec_add, Vl, Vk. cbn [tab h_node with_node with_nattr]. rewrite get_set_same, exec_list_nil.
      unfold node_add, getl. cbn [h_node with_node with_nattr]. rewrite get_set_same. reflexivity. }
  rewrite Step. apply IH. intros y Hy. apply Hn. right. exact Hy.
Qed.

(* the same loop, seen from the model: attach = the node-side step plus the addition to the edge's own set *)
Lemma nstep_h_edge e x s : h_edge (nstep e s x) = h_edge s.
Proof. unfold nstep, node_add, ensure_node. destruct (has x (h_node s)); reflexivity. Qed.
Lemma nstep_with_edge e x s v : nstep e (with_edge s v) x = with_edge (nstep e s x) v.
Proof. unfold nstep, node_add, ensure_node. cbn [h_node with_edge]. destruct (has x (h_node s)); reflexivity. Qed.
Lemma fold_nstep_with_edge e v : forall xs s, fold_left (nstep e) xs (with_edge s v) = with_edge (fold_left (nstep e) xs s) v.
Proof. induction xs as [|x xs IH]; intro s; [reflexivity|]. cbn [fold_left]. rewrite nstep_with_edge. apply IH. Qed.
Lemma fold_nstep_h_edge e : forall xs s, h_edge (fold_left (nstep e) xs s) = h_edge s.
Proof. induction xs as [|x xs IH]; intro s; [reflexivity|]. cbn [fold_left]. rewrite IH. apply nstep_h_edge. Qed.
Lemma fold_nstep_h_eattr e : forall xs s, h_eattr (fold_left (nstep e) xs s) = h_eattr s.
Proof.
  induction xs as [|x xs IH]; intro s; [reflexivity|]. cbn [fold_left]. rewrite IH.
  unfold nstep, node_add, ensure_node. destruct (has x (h_node s)); reflexivity.
Qed.

Lemma h_eattr_with_edge s v : h_eattr (with_edge s v) = h_eattr s.
Proof. reflexivity. Qed.
Lemma h_edge_with_edge s v : h_edge (with_edge s v) = v.
Proof. reflexivity. Qed.
Lemma with_eattr_with_eattr s v w : with_eattr (with_eattr s v) w = with_eattr s w.
Proof. reflexivity. Qed.
Lemma with_edge_with_edge s v w : with_edge (with_edge s v) w = with_edge s w.
Proof. reflexivity. Qed.

Lemma fold_attach_split e : forall xs s acc, get e (h_edge s) = Some acc ->
  fold_left (attach e) xs s =
  with_edge (fold_left (nstep e) xs s) (set e (fold_left (fun a x => sadd x a) xs acc) (h_edge s)).
Proof.
  induction xs as [|x xs IH]; intros s acc G; cbn [fold_left].
  - destruct s as [n na ed ea net u]. unfold with_edge. cbn [h_node h_nattr h_edge h_eattr h_net h_uid] in *. f_equal.
    clear - G. induction ed as [|[k v] r IHr]; [discriminate G|]. cbn [get set] in *. destruct (lbl_eqb e k); [injection G as <-; reflexivity|].
    f_equal. apply IHr. exact G.
  - assert (E : attach e s x = with_edge (nstep e s x) (set e (sadd x acc) (h_edge s))).
    { assert (H : h_edge (node_add x e (ensure_node x s)) = h_edge s) by (apply (nstep_h_edge e x s)).
      unfold attach, edge_add, nstep, getl. rewrite H, G. reflexivity. }
    rewrite E. rewrite (IH _ (sadd x acc)).
    + rewrite fold_nstep_with_edge. cbn [h_edge with_edge]. rewrite with_edge_with_edge, set_set_same. reflexivity.
    + cbn [h_edge with_edge]. apply get_set_same.
Qed.

Lemma fold_sadd_nodup : forall xs acc, NoDup (acc ++ xs) -> fold_left (fun a x => sadd x a) xs acc = acc ++ xs.
Proof.
  induction xs as [|x xs IH]; intros acc ND; cbn [fold_left]; [rewrite app_nil_r; reflexivity|].
  assert (Nm : mem x acc = false).
  { destruct (mem x acc) eqn:E; [|reflexivity]. exfalso. apply mem_In in E. apply NoDup_remove_2 in ND. apply ND. apply in_or_app. left. exact E. }
  assert (Es : sadd x acc = acc ++ [x]) by (unfold sadd; rewrite Nm; reflexivity).
  rewrite Es, IH; rewrite <- app_assoc; [reflexivity|exact ND].
Qed.

Lemma insert_edge_as_nstep e ms a s : NoDup ms ->
  insert_edge e ms a s =
  with_eattr (with_edge (fold_left (nstep e) ms s) (set e ms (h_edge s))) (set e (aupdate [] a) (h_eattr s)).
Proof.
  intro ND. unfold insert_edge.
  rewrite (fold_attach_split e ms (with_edge s (set e [] (h_edge s))) []) by (cbn [h_edge with_edge]; apply get_set_same).
  rewrite fold_nstep_with_edge. cbn [h_edge h_eattr with_edge]. rewrite with_edge_with_edge, set_set_same, fold_nstep_h_eattr.
  rewrite (fold_sadd_nodup ms []) by exact ND. reflexivity.
Qed.

(* _add_face(members): the id is drawn from the counter *)
Theorem sc_add_face_is_source ms s : NoDup ms -> existsb is_none ms = false ->
  run_method_f src_sc_add_face ms None [] s = ok (insert_edge (LInt (h_uid s)) ms [] (with_uid s (h_uid s + 1))).
Proof.
  intros ND Nn. unfold run_method_f, run_guarded, src_sc_add_face. cbn [run_guards].
  assert (Hms : forall x, In x ms -> is_none x = false).
  { intros x Hx. destruct (is_none x) eqn:E; [|reflexivity]. exfalso.
    assert (existsb is_none ms = true) by (apply existsb_exists; exists x; split; assumption). congruence. }
  rewrite exec_list_cons, exec_binduid. hgs.
  set (e := LInt (h_uid s)). set (s0 := with_uid s (h_uid s + 1)).
  set (en := mkEnv [] [] LNone [] LNone [] ms None e).
  rewrite exec_list_cons, exec_setmembers. change (veval VUid en) with e. change (is_none e) with false. cbn [tab set_tab e_members en].
  rewrite exec_list_cons, exec_formembers. change (e_members en) with ms.
  change [SNewSet TNode VLoop; SNewAttr TNode VLoop] with ([] ++ [SNewSet TNode VLoop; SNewAttr TNode VLoop]).
  rewrite (nstep_loop_ok [] VUid e en (fun x => eq_refl) (fun x => eq_refl) (fun x s1 _ => eq_refl) ms _ Hms).
  rewrite exec_list_cons, exec_newattr. change (veval VUid en) with e. change (is_none e) with false. cbn [atab set_atab].
  rewrite !exec_list_nil. rewrite (insert_edge_as_nstep e ms [] s0 ND).
  rewrite fold_nstep_with_edge, h_eattr_with_edge, fold_nstep_h_eattr. reflexivity.
Qed.

(* _add_simplex(members, idx, **attr): the id has been chosen by the caller *)
Theorem sc_add_simplex_is_source ms e a s : NoDup ms -> existsb is_none ms = false -> is_none e = false ->
  run_method_f src_sc_add_simplex ms (Some e) a s = ok (insert_edge e ms a s).
Proof.
  intros ND Nn Ne. unfold run_method_f, run_guarded, src_sc_add_simplex. cbn [run_guards].
  assert (Hms : forall x, In x ms -> is_none x = false).
  { intros x Hx. destruct (is_none x) eqn:E; [|reflexivity]. exfalso.
    assert (existsb is_none ms = true) by (apply existsb_exists; exists x; split; assumption). congruence. }
  set (en := mkEnv [] [] LNone a LNone [] ms (Some e) LNone).
  rewrite exec_list_cons, exec_newset. change (veval VIdx en) with e. rewrite Ne. cbn [tab set_tab].
  rewrite exec_list_cons, exec_formembers. change (e_members en) with ms.
  change [SIf (BIsNone VLoop) [SRaise ValueError] []; SNewSet TNode VLoop; SNewAttr TNode VLoop]
    with ([SIf (BIsNone VLoop) [SRaise ValueError] []] ++ [SNewSet TNode VLoop; SNewAttr TNode VLoop]).
  rewrite (nstep_loop_ok [SIf (BIsNone VLoop) [SRaise ValueError] []] VIdx e en (fun x => eq_refl) (fun x => eq_refl)).
  2:{ intros x s1 Nx. rewrite exec_list_cons, exec_if. cbn [beval]. change (veval VLoop (with_loop en x)) with x. rewrite Nx.
      rewrite !exec_list_nil. reflexivity. }
  2:{ exact Hms. }
  rewrite exec_list_cons, exec_setmembers. change (veval VIdx en) with e. rewrite Ne. cbn [tab set_tab e_members en].
  rewrite exec_list_cons, exec_newattr. change (veval VIdx en) with e. rewrite Ne. cbn [atab set_atab].
  rewrite exec_list_cons, exec_attrupdate. change (veval VIdx en) with e. cbn [atab set_atab h_eattr with_eattr e_attr en].
  rewrite get_set_same, set_set_same, !exec_list_nil.
  rewrite (insert_edge_as_nstep e ms a s ND).
  rewrite fold_nstep_with_edge, with_eattr_with_eattr, !h_eattr_with_edge, !h_edge_with_edge, with_edge_with_edge, set_set_same, fold_nstep_h_eattr. reflexivity.
Qed.
