"""Fail-closed translator of the three basic statistics - xgi/stats/nodestats.py::degree,
xgi/stats/edgestats.py::size and ::order - into Gallina (coq/Gen/BasicStats.v).  `Props/C06.v` proves the model's
`degree`, `edge_size`, `edge_order` equal to the generated functions for every argument combination.

Accepted shape of each function (after the docstring):
    if <guard>: return {<k>: <expr> for <k> in bunch}        (one or more, the last one may be unguarded or under else)
  <guard> ::= <guard> and <guard> | <p> is None | <p> is not None | <p>            (<p> a parameter; bare <p> = "given")
  <expr>  ::= <expr> (+|-) <expr> | <integer literal> | <p> | len(<list>) | sum(<term> for <x> in <list> [if <cond>])
  <term>  ::= <expr> | <cond>                                   (a condition counts 1 when true)
  <cond>  ::= <expr> == <expr>
  <list>  ::= net._node[<x>] | net._edge[<x>] | [<x> for <x> in <list> if <cond>]
  net._edge_attr[<x>].get(<p>, 1)   is the weight of edge <x> (the model's `weight_of`: integer attribute values, else 1)
Parameters that may be None become `option` arguments; `order`, `degree` are integers, `weight` a string."""
import ast, os
from . import common as C

GEN = os.path.join(C.COQ, "Gen")


class TranslationError(Exception):
    pass


class Tr:
    def __init__(self, params):
        self.params = params            # name -> "Z" | "string"

    def guard(self, g):
        if isinstance(g, ast.BoolOp) and isinstance(g.op, ast.And):
            parts = [self.guard(v) for v in g.values]
            out = parts[-1]
            for p in reversed(parts[:-1]):
                out = f"(andb {p} {out})"
            return out
        if isinstance(g, ast.Compare) and len(g.ops) == 1 and isinstance(g.left, ast.Name) and g.left.id in self.params \
                and isinstance(g.comparators[0], ast.Constant) and g.comparators[0].value is None:
            if isinstance(g.ops[0], ast.Is):
                return f"(negb (given {g.left.id}))"
            if isinstance(g.ops[0], ast.IsNot):
                return f"(given {g.left.id})"
        if isinstance(g, ast.Name) and g.id in self.params:
            return f"(given {g.id})"
        raise TranslationError(f"guard not understood: {ast.unparse(g)}")

    def lst(self, e):
        if isinstance(e, ast.Subscript) and isinstance(e.value, ast.Attribute) and isinstance(e.value.value, ast.Name) \
                and e.value.value.id == "net" and e.value.attr in ("_node", "_edge") and isinstance(e.slice, ast.Name):
            table = "h_node" if e.value.attr == "_node" else "h_edge"
            return f"(getl {e.slice.id} ({table} s))"
        if isinstance(e, ast.ListComp) and len(e.generators) == 1 and isinstance(e.elt, ast.Name):
            g = e.generators[0]
            if isinstance(g.target, ast.Name) and g.target.id == e.elt.id and len(g.ifs) == 1:
                return f"(filter (fun {g.target.id} => {self.cond(g.ifs[0])}) {self.lst(g.iter)})"
        raise TranslationError(f"list not understood: {ast.unparse(e)}")

    def cond(self, c):
        if isinstance(c, ast.Compare) and len(c.ops) == 1 and isinstance(c.ops[0], ast.Eq):
            return f"(Z.eqb {self.expr(c.left)} {self.expr(c.comparators[0])})"
        raise TranslationError(f"condition not understood: {ast.unparse(c)}")

    def expr(self, e):
        if isinstance(e, ast.BinOp) and isinstance(e.op, (ast.Add, ast.Sub)):
            return f"({self.expr(e.left)} {'+' if isinstance(e.op, ast.Add) else '-'} {self.expr(e.right)})"
        if isinstance(e, ast.Constant) and isinstance(e.value, int) and not isinstance(e.value, bool):
            return f"({e.value})" if e.value < 0 else f"{e.value}"
        if isinstance(e, ast.Name) and self.params.get(e.id) == "Z":
            return f"(zval {e.id})"
        if isinstance(e, ast.Call) and isinstance(e.func, ast.Name) and e.func.id == "len" and len(e.args) == 1:
            return f"(zlen {self.lst(e.args[0])})"
        if isinstance(e, ast.Call) and isinstance(e.func, ast.Name) and e.func.id == "sum" and len(e.args) == 1 \
                and isinstance(e.args[0], ast.GeneratorExp) and len(e.args[0].generators) == 1:
            ge = e.args[0]; g = ge.generators[0]
            if not isinstance(g.target, ast.Name) or len(g.ifs) > 1:
                raise TranslationError(f"sum not understood: {ast.unparse(e)}")
            src = self.lst(g.iter)
            if g.ifs:
                src = f"(filter (fun {g.target.id} => {self.cond(g.ifs[0])}) {src})"
            term = f"(pyb2z {self.cond(ge.elt)})" if isinstance(ge.elt, ast.Compare) else self.expr(ge.elt)
            return f"(fold_left (fun acc {g.target.id} => acc + {term}) {src} 0)"
        if isinstance(e, ast.Call) and isinstance(e.func, ast.Attribute) and e.func.attr == "get" and len(e.args) == 2 \
                and isinstance(e.func.value, ast.Subscript) and ast.unparse(e.func.value.value) == "net._edge_attr" \
                and isinstance(e.func.value.slice, ast.Name) and isinstance(e.args[0], ast.Name) \
                and self.params.get(e.args[0].id) == "string" and isinstance(e.args[1], ast.Constant) and e.args[1].value == 1:
            return f"(weight_of s (sval {e.args[0].id}) {e.func.value.slice.id})"
        raise TranslationError(f"expression not understood: {ast.unparse(e)}")

    def ret(self, st):
        if not (isinstance(st, ast.Return) and isinstance(st.value, ast.DictComp) and len(st.value.generators) == 1):
            raise TranslationError(f"return not understood: {ast.unparse(st)[:80]}")
        dc = st.value; g = dc.generators[0]
        if not (isinstance(g.target, ast.Name) and isinstance(dc.key, ast.Name) and dc.key.id == g.target.id
                and isinstance(g.iter, ast.Name) and g.iter.id == "bunch" and not g.ifs):
            raise TranslationError(f"dict comprehension not understood: {ast.unparse(dc)[:80]}")
        return g.target.id, self.expr(dc.value)

    def function(self, fn):
        body = [s for s in fn.body if not (isinstance(s, ast.Expr) and isinstance(s.value, ast.Constant))]
        branches, key = [], None
        def walk(stmts):
            nonlocal key
            for st in stmts:
                if isinstance(st, ast.If):
                    if len(st.body) != 1:
                        raise TranslationError("guarded branch is not a single return")
                    k, e = self.ret(st.body[0])
                    branches.append((self.guard(st.test), e)); key = key or k
                    if st.orelse:
                        walk(st.orelse)
                elif isinstance(st, ast.Return):
                    k, e = self.ret(st)
                    branches.append(("true", e)); key = key or k
                else:
                    raise TranslationError(f"statement not understood: {ast.unparse(st)[:80]}")
        walk(body)
        term = "0"
        for g, e in reversed(branches):
            term = e if g == "true" else f"if {g} then {e}\n  else {term}"
        return key, term


def _fn(path, name):
    tree = ast.parse(open(path).read())
    fns = [n for n in tree.body if isinstance(n, ast.FunctionDef) and n.name == name]
    if len(fns) != 1:
        raise TranslationError(f"{name} not found in {path}")
    return fns[0]


SPEC = [("src_degree", "nodestats.py", "degree", ["order", "weight"], {"order": "Z", "weight": "string"}),
        ("src_size", "edgestats.py", "size", ["degree"], {"degree": "Z"}),
        ("src_order", "edgestats.py", "order", ["degree"], {"degree": "Z"})]


def translate():
    out = []
    for coqname, fname, pyname, plist, ptypes in SPEC:
        fn = _fn(os.path.join(C.REPO, "xgi", "stats", fname), pyname)
        if [a.arg for a in fn.args.args] != ["net", "bunch"] + plist:
            raise TranslationError(f"{pyname}: unexpected parameters")
        key, term = Tr(ptypes).function(fn)
        binders = " ".join(f"({p} : option {ptypes[p]})" for p in plist)
        out.append(f"Definition {coqname} {binders} (s : hg) ({key} : lbl) : Z :=\n  {term}.\n")
    return out


def regenerate():
    defs = translate()
    os.makedirs(GEN, exist_ok=True)
    text = ("(* GENERATED by harness/translate_stats.py from xgi/stats/nodestats.py::degree and xgi/stats/edgestats.py::size, ::order - do not edit. *)\n"
            "From Coq Require Import String ZArith List Bool.\n"
            "From XV Require Import Base.Label Base.ODict Base.Attr Model.Hypergraph Model.Stats Model.PySem.\n"
            "Open Scope Z_scope.\n\n" + "\n".join(defs))
    p = os.path.join(GEN, "BasicStats.v")
    if not os.path.exists(p) or open(p).read() != text:
        open(p, "w").write(text)
    return defs
